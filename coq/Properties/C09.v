(* Property C09: pattern matching binds exactly what construction would produce.
   The reference semantics of patterns is Eval/Interp.v bind_pat (names, _, literal/(expr) patterns,
   (e1, e2, ..) alternatives, array / tuple / dict / set patterns with ...rest and ?:fallbacks, nested to
   any depth).

   GENERAL THEOREM (second half of this file, Proofs/PatGenP.v): for every pattern without a
   conditional-accessor item (`x?:d`, Unspec in the model - the side condition [pat_nofb]), every nesting
   depth, every value, every enclosing scope:
     the match succeeds with bindings equivalent to s   <->
     p read as an expression under s rebuilds v  /\  s binds exactly the names of p
   ([C09_match_iff_rebuilds]; [rebuilds] is Eval/Rebuild.v: names -> s(name), _ -> any value,
   literal/(expr) -> its value, (e1, e2, ..) -> the value of one alternative, array/tuple/dict/set
   patterns -> the constructor over the rebuilt components, ...rest -> splice; repeated names are consistent because s is one assignment).  The fuel
   only has to be large enough ([C09_match_fuel_stable], from Proofs/FuelP.v).  Corollaries: matching is a
   function of pattern and value, the rebuilding assignment is unique, enumeration order of set members
   is irrelevant; a let / parameter / cond arm yields a value only through bindings that rebuild, an arm
   is skipped only when no assignment rebuilds; every name of the pattern is bound exactly once and no
   other name changes.
   The first half keeps the earlier per-family statements (flat array / tuple / dict / set patterns). *)
From Coq Require Import Permutation.
From Arrai Require Import Base.Val Spec.SetAlg Eval.Interp Eval.Rebuild Proofs.ValOrder Proofs.PatternP Proofs.PatArrP Proofs.PatTupP Proofs.PatSetP Proofs.PatDictP Proofs.PatGenP.

Theorem C09_repeated_names_must_agree :
  forall t s r x a w, env_matched_update s t = Some r -> env_get x s = Some (D a) -> In (x, w) t -> w = D a.
Proof. exact repeated_names_must_agree. Qed.
Print Assumptions C09_repeated_names_must_agree.

Theorem C09_disagreeing_repeat_fails :
  forall s x a b t, env_get x s = Some (D a) -> a <> b -> env_matched_update s ((x, D b) :: t) = None.
Proof. exact disagreeing_repeat_fails. Qed.
Print Assumptions C09_disagreeing_repeat_fails.

Theorem C09_earlier_bindings_survive :
  forall t s r x v, env_matched_update s t = Some r -> env_get x s = Some v -> env_get x r = Some v.
Proof. exact matched_update_preserves. Qed.
Print Assumptions C09_earlier_bindings_survive.

Theorem C09_literal_pattern_matches_equal_value_only :
  forall fuel rho lit v,
    bind_pat (S (S fuel)) rho (PExpr (ELit lit)) (D v) = if veqb (norm lit) v then Ok [] else Err.
Proof. exact bind_literal. Qed.
Print Assumptions C09_literal_pattern_matches_equal_value_only.

Theorem C09_nonmatching_let_is_an_error :
  forall fuel rho p e1 e2 v,
    eval fuel rho e1 = Ok v -> bind_pat fuel rho p v = Err -> eval (S fuel) rho (ELet p e1 e2) = Err.
Proof. exact let_mismatch_is_error. Qed.
Print Assumptions C09_nonmatching_let_is_an_error.

Theorem C09_cond_takes_first_matching_arm :
  forall fuel rho c v p body arms sc,
    eval fuel rho c = Ok v -> bind_pat fuel rho p v = Ok sc ->
    eval (S fuel) rho (ECondPat c ((p, body) :: arms)) = eval fuel (sc ++ rho) body.
Proof. exact cond_first_match. Qed.
Print Assumptions C09_cond_takes_first_matching_arm.

Theorem C09_cond_skips_nonmatching_arm :
  forall fuel rho c v p body arms,
    eval fuel rho c = Ok v -> bind_pat fuel rho p v = Err ->
    eval (S fuel) rho (ECondPat c ((p, body) :: arms)) = eval (S fuel) rho (ECondPat c arms).
Proof. exact cond_skips_nonmatching. Qed.
Print Assumptions C09_cond_skips_nonmatching_arm.

Theorem C09_array_pattern_needs_dense_zero_based_array :
  forall fuel rho items v sc,
    bind_pat (S fuel) rho (PArr items) (D v) = Ok sc -> exists xs, dense_array v = Some xs.
Proof. exact array_pattern_needs_dense_array. Qed.
Print Assumptions C09_array_pattern_needs_dense_zero_based_array.

(* non-vacuity: nested pattern with ...rest and a repeated name *)
Example C09_probe :
  run_data 60 (ELet (PArr [PItem (PVar [120]) None; PExtra (Some [114]); PItem (PVar [120]) None])
                    (EArrE [Some (ELit (vint 1)); Some (ELit (vint 2)); Some (ELit (vint 3)); Some (ELit (vint 1))])
                    (ETupE [([120], EVar [120]); ([114], EVar [114])]))
  = Ok (VTup [([114], VSet [vpair n_item (vint 0) (vint 2); vpair n_item (vint 1) (vint 3)]); ([120], vint 1)]).
Proof. vm_compute. reflexivity. Qed.

(* Array patterns of names, _ and literals, any length: the match succeeds exactly when some assignment
   of the names rebuilds the array from the pattern; on success every name is bound to the corresponding
   component (so repeated names agree), literals equal their component, and the array is dense,
   zero-based and exactly as long as the pattern. *)
Theorem C09_flat_array_pattern_binds_components :
  forall fuel rho ls v sc,
    bind_pat (S (S (S fuel))) rho (PArr (flat_items ls)) (D v) = Ok sc ->
    exists xs, dense_array v = Some xs /\ Forall2 (leaf_ok sc) ls xs.
Proof. exact flat_array_pattern_sound. Qed.
Print Assumptions C09_flat_array_pattern_binds_components.

Theorem C09_flat_array_pattern_matches_when_rebuildable :
  forall fuel rho ls v xs (s : name -> val),
    dense_array v = Some xs -> Forall2 (leaf_rebuilds s) ls xs ->
    exists sc, bind_pat (S (S (S fuel))) rho (PArr (flat_items ls)) (D v) = Ok sc.
Proof. exact flat_array_pattern_complete. Qed.
Print Assumptions C09_flat_array_pattern_matches_when_rebuildable.

Theorem C09_repeated_name_components_equal :
  forall fuel rho ls v sc x i j a b,
    bind_pat (S (S (S fuel))) rho (PArr (flat_items ls)) (D v) = Ok sc ->
    nth_error ls i = Some (LVar x) -> nth_error ls j = Some (LVar x) ->
    forall xs, dense_array v = Some xs -> nth_error xs i = Some a -> nth_error xs j = Some b -> a = b.
Proof. exact repeated_name_components_equal. Qed.
Print Assumptions C09_repeated_name_components_equal.

(* non-vacuity: [x, 2, _, x] against [1, 2, 3, 1] *)
Example C09_flat_array_example :
  exists sc, bind_pat 5 [] (PArr (flat_items [LVar [120]; LLit (vint 2); LWild; LVar [120]]))
               (D (VSet (vseq_from n_item 0 [vint 1; vint 2; vint 3; vint 1]))) = Ok sc.
Proof. eexists. vm_compute. reflexivity. Qed.

(* [p1, .., pk, ...r, q1, .., qm]: the array splits as prefix ++ middle ++ suffix, the prefix and suffix
   items are bound to their components, and r is bound to exactly the middle as a zero-based array *)
Theorem C09_rest_captures_exactly_the_remainder :
  forall fuel rho pre r suf v sc,
    bind_pat (S (S (S fuel))) rho (PArr (flat_items pre ++ PExtra (Some r) :: flat_items suf)) (D v) = Ok sc ->
    exists xs a m b, dense_array v = Some xs /\ xs = a ++ m ++ b /\
      Forall2 (leaf_ok sc) pre a /\ Forall2 (leaf_ok sc) suf b /\ env_get r sc = Some (D (arr_of m)).
Proof. exact rest_array_pattern_sound. Qed.
Print Assumptions C09_rest_captures_exactly_the_remainder.

Example C09_rest_example :
  exists sc, bind_pat 5 [] (PArr (flat_items [LVar [97]] ++ PExtra (Some [114]) :: flat_items [LVar [98]]))
               (D (VSet (vseq_from n_item 0 [vint 1; vint 2; vint 3; vint 4]))) = Ok sc
             /\ env_get [114] sc = Some (D (arr_of [vint 2; vint 3])).
Proof. eexists. vm_compute. split; reflexivity. Qed.

(* tuple patterns of names, _ and literals: every named attribute is found and its item is bound to the
   attribute's value; the tuple has no attribute the pattern does not name *)
Theorem C09_flat_tuple_pattern_binds_attributes :
  forall fuel rho nls v sc,
    bind_pat (S (S (S fuel))) rho (PTup (flat_attrs nls)) (D v) = Ok sc ->
    exists tv, v = VTup tv /\
      Forall (fun nl => exists x, tget (fst nl) tv = Some x /\ leaf_ok sc (snd nl) x) nls /\
      remaining_after (map fst nls) tv = [].
Proof. exact flat_tuple_pattern_sound. Qed.
Print Assumptions C09_flat_tuple_pattern_binds_attributes.

Theorem C09_flat_tuple_pattern_no_other_attribute :
  forall fuel rho nls v sc,
    bind_pat (S (S (S fuel))) rho (PTup (flat_attrs nls)) (D v) = Ok sc ->
    exists tv, v = VTup tv /\ forall m x, In (m, x) tv -> exists n, In n (map fst nls) /\ name_cmp m n = Eq.
Proof. exact flat_tuple_pattern_no_other_attribute. Qed.
Print Assumptions C09_flat_tuple_pattern_no_other_attribute.

(* set patterns {lit1, .., litk, ...r}: the match succeeds exactly when every literal is a member (and no two
   literals denote the same value), and r is bound to precisely the other members *)
Theorem C09_set_rest_pattern_binds_the_other_members :
  forall fuel rho ws r v sc,
    bind_pat (S (S fuel)) rho (PSet (lit_items ws ++ [PExtra (Some r)])) (D v) = Ok sc ->
    exists l, v = VSet l /\ sc = [(r, D (VSet (without_all l ws)))] /\ forall w, In w ws -> In (norm w) l.
Proof. exact set_rest_pattern_sound. Qed.
Print Assumptions C09_set_rest_pattern_binds_the_other_members.

Theorem C09_set_rest_pattern_matches_when_literals_are_members :
  forall fuel rho ws r l,
    NoDup (map norm ws) -> (forall w, In w ws -> In (norm w) l) ->
    bind_pat (S (S fuel)) rho (PSet (lit_items ws ++ [PExtra (Some r)])) (D (VSet l)) = Ok [(r, D (VSet (without_all l ws)))].
Proof. exact set_rest_pattern_complete. Qed.
Print Assumptions C09_set_rest_pattern_matches_when_literals_are_members.

Theorem C09_set_rest_is_exactly_the_remainder :
  forall ws l x, In x (without_all l ws) <-> In x l /\ ~ In x (map norm ws).
Proof. exact without_all_spec. Qed.
Print Assumptions C09_set_rest_is_exactly_the_remainder.

(* dict patterns with literal keys and name / _ / literal items: every key has exactly one entry, its item is
   bound to that entry's value, and the dict has no entry under a key the pattern does not name *)
Theorem C09_flat_dict_pattern_binds_entries :
  forall fuel rho kls v sc,
    bind_pat (S (S (S fuel))) rho (PDict (flat_entries kls)) (D v) = Ok sc ->
    exists l es, v = VSet l /\ dict_entries l = Some es /\
      Forall (fun kl => exists k' x, In (k', x) es /\ veqb (norm (fst kl)) k' = true /\ leaf_ok sc (snd kl) x) kls /\
      (forall k' x, In (k', x) es -> exists kl, In kl kls /\ veqb (norm (fst kl)) k' = true).
Proof. exact flat_dict_pattern_sound. Qed.
Print Assumptions C09_flat_dict_pattern_binds_entries.


(* ================= the general statement: patterns nested to any depth ================= *)

(* bind_pat succeeds with bindings that give every name the value s gives it  <->  the pattern, read as an
   expression under s, rebuilds the value, and s binds exactly the names of the pattern *)
Theorem C09_match_iff_rebuilds :
  forall p rho v s, pat_nofb p = true ->
    ((exists n sc, bind_pat n rho p v = Ok sc /\ env_equiv sc s) <-> (rebuilds rho s p v /\ binds_exactly p s)).
Proof. exact match_iff_rebuilds. Qed.
Print Assumptions C09_match_iff_rebuilds.

(* in particular the bindings a match returns rebuild the value *)
Theorem C09_match_rebuilds :
  forall p rho v n sc, pat_nofb p = true -> bind_pat n rho p v = Ok sc -> rebuilds rho sc p v /\ binds_exactly p sc.
Proof. exact match_rebuilds. Qed.
Print Assumptions C09_match_rebuilds.

(* ... and whenever some assignment rebuilds the value, the match succeeds for every fuel large enough *)
Theorem C09_rebuildable_value_matches :
  forall p rho s v, pat_nofb p = true -> rebuilds rho s p v ->
    exists n, forall m, (n <= m)%nat -> exists sc, bind_pat m rho p v = Ok sc /\ (forall x w, env_get x sc = Some w -> env_get x s = Some w).
Proof. intros p rho s v. exact (bind_complete (pat_depth p) p (le_n _) rho s v). Qed.
Print Assumptions C09_rebuildable_value_matches.

Theorem C09_match_fuel_stable :
  forall n m rho p v sc, (n <= m)%nat -> bind_pat n rho p v = Ok sc -> bind_pat m rho p v = Ok sc.
Proof. exact match_fuel_stable. Qed.
Print Assumptions C09_match_fuel_stable.

(* corollary 1: matching is deterministic; the rebuilding assignment is unique; the order in which the
   members of a set are enumerated does not matter *)
Theorem C09_match_deterministic :
  forall n m rho p v sc sc', bind_pat n rho p v = Ok sc -> bind_pat m rho p v = Ok sc' -> sc = sc'.
Proof. exact match_deterministic. Qed.
Print Assumptions C09_match_deterministic.

Theorem C09_rebuilding_assignment_unique :
  forall p rho v s1 s2, pat_nofb p = true ->
    rebuilds rho s1 p v -> binds_exactly p s1 -> rebuilds rho s2 p v -> binds_exactly p s2 -> env_equiv s1 s2.
Proof. exact rebuilding_assignment_unique. Qed.
Print Assumptions C09_rebuilding_assignment_unique.

Theorem C09_match_ignores_enumeration_order :
  forall n rho p l l', Permutation l l' -> bind_pat n rho p (D (mkset l)) = bind_pat n rho p (D (mkset l')).
Proof. exact match_ignores_enumeration_order. Qed.
Print Assumptions C09_match_ignores_enumeration_order.

(* corollary 2: a non-matching pattern never binds anything *)
Theorem C09_no_rebuild_no_match :
  forall p rho v, pat_nofb p = true -> (forall s, ~ rebuilds rho s p v) -> forall n sc, bind_pat n rho p v <> Ok sc.
Proof. exact no_rebuild_no_match. Qed.
Print Assumptions C09_no_rebuild_no_match.

Theorem C09_match_error_means_not_rebuildable :
  forall p rho v n, pat_nofb p = true -> bind_pat n rho p v = Err -> forall s, ~ rebuilds rho s p v.
Proof. exact match_error_no_rebuild. Qed.
Print Assumptions C09_match_error_means_not_rebuildable.

Theorem C09_let_value_only_through_rebuild :
  forall n rho p e1 e2 r, pat_nofb p = true -> eval n rho (ELet p e1 e2) = Ok r ->
    exists m v sc, eval m rho e1 = Ok v /\ rebuilds rho sc p v /\ binds_exactly p sc /\ eval m (sc ++ rho) e2 = Ok r.
Proof. exact let_value_only_through_rebuild. Qed.
Print Assumptions C09_let_value_only_through_rebuild.

Theorem C09_let_without_rebuild_has_no_value :
  forall n rho p e1 e2 v, pat_nofb p = true -> eval n rho e1 = Ok v -> (forall s, ~ rebuilds rho s p v) ->
    forall m r, eval m rho (ELet p e1 e2) <> Ok r.
Proof. exact let_no_rebuild_no_value. Qed.
Print Assumptions C09_let_without_rebuild_has_no_value.

Theorem C09_parameter_value_only_through_rebuild :
  forall n rho p body a r, pat_nofb p = true -> eval n rho (ECall (EFn p body) a) = Ok r ->
    exists m v sc, eval m rho a = Ok v /\ rebuilds rho sc p v /\ binds_exactly p sc /\ eval m (sc ++ rho) body = Ok r.
Proof. exact call_value_only_through_rebuild. Qed.
Print Assumptions C09_parameter_value_only_through_rebuild.

(* a cond arm is taken only with bindings that rebuild the control value, and passed over only when no
   assignment rebuilds it *)
Theorem C09_cond_arm_only_through_rebuild :
  forall n rho c p body arms r, pat_nofb p = true ->
    eval (S n) rho (ECondPat c ((p, body) :: arms)) = Ok r ->
    exists v, eval n rho c = Ok v /\
      ((exists sc, rebuilds rho sc p v /\ binds_exactly p sc /\ eval n (sc ++ rho) body = Ok r) \/
       ((forall s, ~ rebuilds rho s p v) /\ eval (S n) rho (ECondPat c arms) = Ok r)).
Proof. exact cond_arm_only_through_rebuild. Qed.
Print Assumptions C09_cond_arm_only_through_rebuild.

(* corollary 3: every name of the pattern is bound exactly once, and no other name changes *)
Theorem C09_match_binds_each_name_once :
  forall p rho v n sc, pat_nofb p = true -> bind_pat n rho p v = Ok sc ->
    NoDup (map fst sc) /\ (forall x, In x (map fst sc) <-> In x (pat_names p)).
Proof. exact match_binds_each_name_once. Qed.
Print Assumptions C09_match_binds_each_name_once.

Theorem C09_match_leaves_other_names :
  forall p rho v n sc (outer : env) x, pat_nofb p = true -> bind_pat n rho p v = Ok sc ->
    ~ In x (pat_names p) -> env_get x (sc ++ outer) = env_get x outer.
Proof. exact match_leaves_other_names. Qed.
Print Assumptions C09_match_leaves_other_names.

(* non-vacuity: (a: [x, ...r, {y}], b: {1: x, ...d}, ...t)  against  (a: [1, 2, 3, {4}], b: {1: 1, 2: 5}, c: 7):
   depth 3, ...rest at three levels, x repeated across levels *)
Definition ex_pat : pat :=
  PTup [([97], PItem (PArr [PItem (PVar [120]) None; PExtra (Some [114]);
                            PItem (PSet [PItem (PVar [121]) None]) None]) None);
        ([98], PItem (PDict [(ELit (vint 1), PItem (PVar [120]) None); (ELit (VSet []), PExtra (Some [100]))]) None);
        ([], PExtra (Some [116]))].
Definition ex_expr (last : Z) : expr :=
  ETupE [([97], EArrE [Some (ELit (vint 1)); Some (ELit (vint 2)); Some (ELit (vint 3)); Some (ESetE [ELit (vint 4)])]);
         ([98], EDictE [(ELit (vint 1), ELit (vint last)); (ELit (vint 2), ELit (vint 5))]);
         ([99], ELit (vint 7))].
Definition ex_val (last : Z) : val := Eval vm_compute in match run_data 60 (ex_expr last) with Ok v => v | _ => VSet [] end.
Definition ex_sc : env := Eval vm_compute in match bind_pat 60 [] ex_pat (D (ex_val 1)) with Ok sc => sc | _ => [] end.

Example C09_nested_example :
  pat_nofb ex_pat = true /\ bind_pat 60 [] ex_pat (D (ex_val 1)) = Ok ex_sc /\
  env_get [120] ex_sc = Some (D (vint 1)) /\ env_get [116] ex_sc = Some (D (VTup [([99], vint 7)])) /\
  rebuilds [] ex_sc ex_pat (D (ex_val 1)) /\ binds_exactly ex_pat ex_sc.
Proof.
  assert (H : bind_pat 60 [] ex_pat (D (ex_val 1)) = Ok ex_sc) by (vm_compute; reflexivity).
  split; [reflexivity|]. split; [exact H|]. split; [reflexivity|]. split; [reflexivity|].
  exact (C09_match_rebuilds ex_pat _ _ _ _ eq_refl H).
Qed.

(* ... and the near-miss (b: {1: 2, ..}) where the repeated x disagrees: an error, hence no assignment rebuilds it *)
Example C09_nested_near_miss :
  bind_pat 60 [] ex_pat (D (ex_val 2)) = Err /\ forall s, ~ rebuilds [] s ex_pat (D (ex_val 2)).
Proof.
  assert (H : bind_pat 60 [] ex_pat (D (ex_val 2)) = Err) by (vm_compute; reflexivity).
  split; [exact H|]. exact (C09_match_error_means_not_rebuildable ex_pat _ _ _ eq_refl H).
Qed.

(* (e1, e2, ..) patterns (rel/pattern_expr.go ExprsPattern): (1, 2) matches 2 and not 3 *)
Example C09_alternatives_example :
  bind_pat 10 [] (PExprs [ELit (vint 1); ELit (vint 2)]) (D (vint 2)) = Ok [] /\
  rebuilds [] [] (PExprs [ELit (vint 1); ELit (vint 2)]) (D (vint 2)) /\
  forall s, ~ rebuilds [] s (PExprs [ELit (vint 1); ELit (vint 2)]) (D (vint 3)).
Proof.
  assert (H : bind_pat 10 [] (PExprs [ELit (vint 1); ELit (vint 2)]) (D (vint 2)) = Ok []) by (vm_compute; reflexivity).
  split; [exact H|]. split.
  - exact (proj1 (C09_match_rebuilds (PExprs [ELit (vint 1); ELit (vint 2)]) _ _ _ _ eq_refl H)).
  - apply (C09_match_error_means_not_rebuildable (PExprs [ELit (vint 1); ELit (vint 2)]) [] (D (vint 3)) 10 eq_refl).
    vm_compute. reflexivity.
Qed.
