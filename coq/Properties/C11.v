(* Property C11: concurrent evaluation over shared values is race-free and
   gives serial results.

   PARTIAL BY NATURE.  The full statement is about Go:
     "for all interleavings of N goroutines each evaluating programs over the
      same shared values / compiled expressions (first use of lazily cached
      state included), every evaluation returns what it would have returned
      alone and no two of them make unsynchronised conflicting accesses to
      memory owned by arr.ai's own code."
   What is proved here is that statement for the hand-transcribed
   synchronisation protocols of Sys/Conc.v (which cell is touched under which
   Once / Mutex / Cond), under sequentially consistent interleaving, for EVERY
   number of threads N and every reachable state.  The Go memory model, the
   scheduler, frozen's internal fan-out, and everything in arr.ai that is not
   one of the transcribed protocols are outside the theorems; they are sampled
   by the race detector in the correspondence run (gen/c11.py), which also
   checks that the detector's verdict per protocol equals model_racy.

   Statements only; proofs in Proofs/Conc*.v. *)
From Coq Require Import List ZArith Bool Lia Arith.
Import ListNotations.
From Arrai Require Import Sys.Conc Proofs.ConcP Proofs.ConcImportP Proofs.ConcImportLiveP Proofs.ConcStdinP Proofs.ConcVerdictP.

(* (0) The quirk scheme, all protocols at once: whenever the protocol's model
   does not depend on an enabled defective call site, it is race-free (and,
   for the import cache, strands no waiter) for every N, and every thread
   returns the serial result. *)
Theorem C11_partial : forall q p, model_bad q p = model_bad quirks_off p -> proto_ok q p.
Proof. exact proto_ok_under_guard. Qed.
Print Assumptions C11_partial.

(* and the verdict table only says "broken" where a 2-thread witness exists *)
Theorem C11_model_verdict_witnessed : forall q p, model_bad q p = true -> proto_broken q p.
Proof. exact model_bad_witness. Qed.
Print Assumptions C11_model_verdict_witnessed.

(* (1) GenericTuple.Names / TupleOrderedNames / getBucket (a Once nested in a
   Once body), any mix of callers; with bucket = (fun _ => false) this is the
   single once-guarded cell of StdScope, SafeStdScope, FixFuncs, implicitDecoder,
   delayDuration, getMeta. *)
Theorem C11_tuple_caches_race_free : forall vN hB bucket N s,
  reachable (tuple_progs vN hB bucket) N s -> ~ race (tuple_progs vN hB bucket) idloc N s.
Proof. exact tuple_race_free. Qed.
Print Assumptions C11_tuple_caches_race_free.

Theorem C11_tuple_caches_serial_results : forall vN hB bucket N s t,
  reachable (tuple_progs vN hB bucket) N s -> halted (tuple_progs vN hB bucket) t s ->
  result s t = tuple_serial vN hB bucket t.
Proof. exact tuple_serial_results. Qed.
Print Assumptions C11_tuple_caches_serial_results.

Theorem C11_once_cell_race_free : forall v N s,
  reachable (fun _ => p_names v) N s -> ~ race (fun _ => p_names v) idloc N s.
Proof. exact (fun v => tuple_race_free v (fun z => z) (fun _ => false)). Qed.
Print Assumptions C11_once_cell_race_free.

(* (2) positionalRelation.getMeta (Once) + computeIndex (Mutex), every thread
   with its own projector key; all entries of prm.indices are one location. *)
Theorem C11_relpos_index_race_free : forall key fn N s,
  reachable (relpos_progs key fn) N s -> ~ race (relpos_progs key fn) relpos_loc N s.
Proof. exact relpos_race_free. Qed.
Print Assumptions C11_relpos_index_race_free.

Theorem C11_relpos_index_serial_results : forall key fn N s t,
  reachable (relpos_progs key fn) N s -> halted (relpos_progs key fn) t s ->
  result s t = relpos_serial key fn t.
Proof. exact relpos_serial_results. Qed.
Print Assumptions C11_relpos_index_serial_results.

(* (3) the captured err of GenericSet.Where / positionalRelation.Where *)
Theorem C11_where_err_race_free : forall q perr N s, q_where_err_capture_race q = false ->
  reachable (where_progs q perr) N s -> ~ race (where_progs q perr) idloc N s.
Proof. exact where_race_free_q. Qed.
Print Assumptions C11_where_err_race_free.

Theorem C11_where_err_serial_error_class : forall q perr N s, q_where_err_capture_race q = false ->
  reachable (where_progs q perr) N s -> (forall t, t < N -> halted (where_progs q perr) t s) ->
  (mem (sh s) 0 = 0%Z <-> forall t, t < N -> perr t = 0%Z) /\
  (mem (sh s) 0 <> 0%Z -> exists u, u < N /\ perr u = mem (sh s) 0).
Proof. exact where_result_q. Qed.
Print Assumptions C11_where_err_serial_error_class.

Lemma C11_q_where_err_capture_race_refuted : forall q, q_where_err_capture_race q = true ->
  exists perr s, reachable (where_progs q perr) 2 s /\ race (where_progs q perr) idloc 2 s.
Proof. exact where_racy_q. Qed.
Print Assumptions C11_q_where_err_capture_race_refuted.

(* (4) importCache.getOrAdd: race-free and serial results whatever the error
   path does; no stranded waiter once the error path broadcasts. *)
Theorem C11_importcache_race_free : forall q res N s,
  reachable (import_progs q res) N s -> ~ race (import_progs q res) idloc N s.
Proof. exact import_race_free. Qed.
Print Assumptions C11_importcache_race_free.

Theorem C11_importcache_serial_results : forall q res N s t,
  reachable (import_progs q res) N s -> halted (import_progs q res) t s -> result s t = res.
Proof. exact import_serial_results. Qed.
Print Assumptions C11_importcache_serial_results.

Theorem C11_importcache_no_stranded_waiter : forall q, q_importcache_error_no_broadcast q = false ->
  forall res N s, reachable (import_progs q res) N s -> ~ deadlock (import_progs q res) N s.
Proof. exact import_fixed_no_deadlock. Qed.
Print Assumptions C11_importcache_no_stranded_waiter.

Lemma C11_q_importcache_error_no_broadcast_refuted : forall q, q_importcache_error_no_broadcast q = true ->
  exists res s, reachable (import_progs q res) 2 s /\ deadlock (import_progs q res) 2 s.
Proof. exact import_deadlocks_q. Qed.
Print Assumptions C11_q_importcache_error_no_broadcast_refuted.

(* (5) the heading built by Relation.Join *)
Theorem C11_join_heading_race_free : forall q nm N s, q_join_attrs_append_alias q = false ->
  reachable (p_join q nm) N s -> ~ race (p_join q nm) idloc N s.
Proof. exact join_fixed_race_free. Qed.
Print Assumptions C11_join_heading_race_free.

Lemma C11_q_join_attrs_append_alias_refuted : forall q nm, q_join_attrs_append_alias q = true ->
  exists s, reachable (p_join q nm) 2 s /\ race (p_join q nm) idloc 2 s.
Proof. exact join_quirk_racy. Qed.
Print Assumptions C11_q_join_attrs_append_alias_refuted.

(* (5b) the stdin cache behind //os.stdin: a mutex-guarded cell whose fill
   consumes a one-shot stream of K chunks.  Every caller gets the whole stream. *)
Theorem C11_stdin_cache_race_free : forall K N s,
  reachable (fun _ => p_stdin K) N s -> ~ race (fun _ => p_stdin K) idloc N s.
Proof. exact stdin_race_free. Qed.
Print Assumptions C11_stdin_cache_race_free.

Theorem C11_stdin_cache_serial_results : forall K N s t,
  reachable (fun _ => p_stdin K) N s -> halted (fun _ => p_stdin K) t s -> result s t = stdin_serial K.
Proof. exact stdin_serial_results. Qed.
Print Assumptions C11_stdin_cache_serial_results.

(* the variant with the mutex released around the blocking read has NO data race
   and still returns a fragment: only the comparison with the serial result sees it *)
Lemma C11_variant_stdin_narrow_lock_nonserial :
  exists s, reachable (fun _ => p_stdin_narrow 2) 2 s /\ halted (fun _ => p_stdin_narrow 2) 0 s /\
            result s 0 <> stdin_serial 2 /\ ~ race (fun _ => p_stdin_narrow 2) idloc 2 s.
Proof. exact stdin_narrow_lock_nonserial. Qed.
Print Assumptions C11_variant_stdin_narrow_lock_nonserial.

(* (6) the mutants the check is built to catch are racy in the model *)
Lemma C11_mutant_no_once_racy : forall vN, exists s,
  reachable (fun _ => p_names_nocheck vN) 2 s /\ race (fun _ => p_names_nocheck vN) idloc 2 s.
Proof. exact tuple_no_once_racy. Qed.
Print Assumptions C11_mutant_no_once_racy.

Lemma C11_mutant_unlocked_index_read_racy : forall k v, exists s,
  reachable (fun _ => p_relpos_unlocked_read k v) 2 s /\ race (fun _ => p_relpos_unlocked_read k v) relpos_loc 2 s.
Proof. exact relpos_unlocked_read_racy. Qed.
Print Assumptions C11_mutant_unlocked_index_read_racy.

(* non-vacuity: contended runs that reach the end, and the guard is satisfiable
   for the committed quirk set on the protocols without an open finding *)
Example C11_nonvacuous_tuple :
  exists s, reachable (tuple_progs 5 (Z.add 1) Nat.even) 3 s /\
            (forall t, t < 3 -> halted (tuple_progs 5 (Z.add 1) Nat.even) t s) /\
            result s 0 = 6%Z /\ result s 1 = 5%Z /\ on (sh s) 0 = ODone /\ on (sh s) 1 = ODone.
Proof. exact tuple_run_3. Qed.

Example C11_nonvacuous_import_error_path :
  exists s, reachable (import_progs quirks_off (-1)) 2 s /\
            (forall t, t < 2 -> halted (import_progs quirks_off (-1)) t s) /\
            result s 0 = (-1)%Z /\ result s 1 = (-1)%Z.
Proof. exact import_error_run_2. Qed.

Example C11_guard_satisfiable :
  model_bad quirks_cur PTupleBucket = model_bad quirks_off PTupleBucket /\
  model_bad quirks_cur PRelposIndex = model_bad quirks_off PRelposIndex /\
  model_bad quirks_cur PWhereErr <> model_bad quirks_off PWhereErr.
Proof. vm_compute. repeat split; discriminate. Qed.
