(* Property C13: data codecs round-trip (JSON, YAML, CSV, //bits, server wire
   format); what a codec cannot represent is rejected, not silently changed.
   Statements only; proofs live in Proofs/{JsonP,BitsP,WireP,CsvP}.v.
   Quirk records (DESIGN 5.3): *_cur = what the Go code does today (every
   flag is an open finding), *_off = the repaired behaviour. *)
From Coq Require Import NArith.
From Arrai Require Import Base.Val Sys.Outcome Sys.Json Sys.Bits Sys.Wire Sys.Csv Sys.Codec.
From Arrai Require Import Proofs.JsonP Proofs.BitsP Proofs.WireP Proofs.CsvP Proofs.CodecP.

(* ---------------- JSON / YAML translators, strict mode (the default) ---------------- *)

(* (1) For every document, with every combination of quirks: decoding and
   re-encoding yields the same document.  The only defective site a decoded
   document can reach is the unchecked key assertion, and only through an empty
   key; the guard says so explicitly. *)
Theorem C13_json_strict_roundtrip :
  forall q j, jwf j = true ->
    q_json_key_unchecked q = false \/ no_empty_key j = true ->
    from_arrai q true (to_arrai true j) = Ok j.
Proof. exact strict_roundtrip. Qed.
Print Assumptions C13_json_strict_roundtrip.

Theorem C13_json_strict_roundtrip_repaired :
  forall j, jwf j = true -> from_arrai jquirks_off true (to_arrai true j) = Ok j.
Proof. exact strict_roundtrip_repaired. Qed.
Print Assumptions C13_json_strict_roundtrip_repaired.

(* (2) decode (encode (decode d)) = decode d *)
Theorem C13_json_strict_decode_encode_decode :
  forall q j, jwf j = true ->
    q_json_key_unchecked q = false \/ no_empty_key j = true ->
    rmap (to_arrai true) (from_arrai q true (to_arrai true j)) = Ok (to_arrai true j).
Proof. exact strict_decode_encode_decode. Qed.
Print Assumptions C13_json_strict_decode_encode_decode.

(* (3) No silent change: whenever the repaired encoder accepts a value, decoding
   its output gives that value back (up to the documented leniency `tag`:
   untagged strings/arrays stand for their tagged forms) ... *)
Theorem C13_json_strict_no_silent_change :
  forall r j, rv_canon r = true -> from_arrai jquirks_off true r = Ok j -> to_arrai true j = tag r.
Proof. exact strict_no_silent_change. Qed.
Print Assumptions C13_json_strict_no_silent_change.

(* ... hence every value outside the decoder's image is an error. *)
Theorem C13_json_unrepresentable_rejected :
  forall r, rv_canon r = true -> (forall j, to_arrai true j <> tag r) ->
    is_ok (from_arrai jquirks_off true r) = false.
Proof. exact strict_unrepresentable_rejected. Qed.
Print Assumptions C13_json_unrepresentable_rejected.

Theorem C13_json_tag_invisible_on_documents : forall j, tag (to_arrai true j) = to_arrai true j.
Proof. exact tag_to_arrai. Qed.
Print Assumptions C13_json_tag_invisible_on_documents.

(* the six defective sites of the strict encoder, each refuted on its witness *)
Theorem C13_q_json_strict_set_to_object_refuted :
  let r := RSet true [RNum (NInt 1); RNum (NInt 2)] in
  from_arrai jquirks_cur true r = Ok (JObj []) /\ to_arrai true (JObj []) <> tag r /\
  from_arrai jquirks_off true r = Err.
Proof. exact q_json_strict_set_to_object_refuted. Qed.
Theorem C13_q_json_offsets_holes_dropped_refuted :
  let r := RArr 0 [Some (RNum (NInt 1)); None; Some (RNum (NInt 3))] in
  let r2 := RTup [(n_s, RStr 1 [98; 99])] in
  from_arrai jquirks_cur true r = Ok (JArr [JNum (NInt 1); JNum (NInt 3)]) /\
  to_arrai true (JArr [JNum (NInt 1); JNum (NInt 3)]) <> tag r /\
  from_arrai jquirks_cur true r2 = Ok (JStr [98; 99]) /\ to_arrai true (JStr [98; 99]) <> tag r2 /\
  from_arrai jquirks_off true r = Err /\ from_arrai jquirks_off true r2 = Err.
Proof. exact q_json_offsets_holes_dropped_refuted. Qed.
Theorem C13_q_json_multi_dict_panic_refuted :
  let r := RDict true [(s_of [97], RNum (NInt 1)); (s_of [97], RNum (NInt 2))] in
  from_arrai jquirks_cur true r = Panic /\ from_arrai jquirks_off true r = Err.
Proof. exact q_json_multi_dict_panic_refuted. Qed.
Theorem C13_q_json_key_unchecked_refuted :
  let j := JObj [([], JNum (NInt 1))] in
  jwf j = true /\ from_arrai jquirks_cur true (to_arrai true j) = Panic /\
  from_arrai jquirks_off true (to_arrai true j) = Ok j /\
  from_arrai jquirks_cur true (RDict false [(RTup [(n_s, s_of [97])], RNum (NInt 1))])
    = Ok (JObj [([97], JNum (NInt 1))]).
Proof. exact q_json_key_unchecked_refuted. Qed.
Theorem C13_q_json_b_unchecked_refuted :
  from_arrai jquirks_cur true (RTup [(n_b, RNum (NInt 1))]) = Panic /\
  from_arrai jquirks_cur true (RTup [(n_b, RSet true [RNum (NInt 1)])]) = Ok (JBool true) /\
  from_arrai jquirks_off true (RTup [(n_b, RNum (NInt 1))]) = Err /\
  from_arrai jquirks_off true (RTup [(n_b, RSet true [RNum (NInt 1)])]) = Err.
Proof. exact q_json_b_unchecked_refuted. Qed.
Theorem C13_q_json_a_set_as_array_refuted :
  let r := RTup [(n_a, RSet true [RNum (NInt 1); RNum (NInt 2)])] in
  from_arrai jquirks_cur true r = Ok (JArr [JNum (NInt 1); JNum (NInt 2)]) /\
  to_arrai true (JArr [JNum (NInt 1); JNum (NInt 2)]) <> tag r /\
  from_arrai jquirks_off true r = Err.
Proof. exact q_json_a_set_as_array_refuted. Qed.

Example C13_json_nonvacuous :
  jwf sample_doc = true /\ no_empty_key sample_doc = true /\
  from_arrai jquirks_cur true (to_arrai true sample_doc) = Ok sample_doc.
Proof. exact strict_roundtrip_nonvacuous. Qed.

(* ---------------- non-strict mode: the documented lossy option ---------------- *)

(* One decode/encode pass maps a document to its `collapse`: '''', [], {} and
   false all become null, everything else is kept. *)
Theorem C13_json_nonstrict_roundtrip_is_collapse :
  forall q j, jwf j = true ->
    q_json_key_unchecked q = false \/ no_empty_key j = true ->
    from_arrai q false (to_arrai false j) = Ok (collapse j).
Proof. exact nonstrict_roundtrip_collapses. Qed.
Print Assumptions C13_json_nonstrict_roundtrip_is_collapse.

(* exactly the documents free of '''', [], {}, false are fixed points *)
Theorem C13_json_nonstrict_lossless_iff : forall j, collapse j = j <-> no_empties j = true.
Proof. exact collapse_fixed_iff. Qed.
Print Assumptions C13_json_nonstrict_lossless_iff.

Theorem C13_json_nonstrict_decode_encode_decode :
  forall q j, jwf j = true -> q_json_key_unchecked q = false \/ no_empty_key j = true ->
    no_empties j = true ->
    rmap (to_arrai false) (from_arrai q false (to_arrai false j)) = Ok (to_arrai false j).
Proof. exact nonstrict_decode_encode_decode. Qed.
Print Assumptions C13_json_nonstrict_decode_encode_decode.

Theorem C13_json_nonstrict_collapse_witness :
  to_arrai false (JStr []) = REmpty /\ to_arrai false (JArr []) = REmpty /\
  to_arrai false (JObj []) = REmpty /\ to_arrai false (JBool false) = REmpty /\
  from_arrai jquirks_cur false REmpty = Ok JNull /\
  to_arrai false JNull = RTup [] /\ to_arrai false JNull <> REmpty.
Proof. exact nonstrict_collapse_witness. Qed.

(* ---------------- //bits ---------------- *)

Theorem C13_bits_mask_set :
  forall q z, 0 <= z < 2 ^ 53 ->
    exists l, bits_set q (NInt z) = Ok l /\ bits_mask q (nset l) = Ok (NInt z).
Proof. exact mask_set_inverse. Qed.
Print Assumptions C13_bits_mask_set.

(* s = the ascending list of a finite set of bit positions below 53 *)
Theorem C13_bits_set_mask :
  forall q l, ascending_from 0%N l -> Forall (fun i => (i < 53)%N) l ->
    bits_mask q (nset l) = Ok (NInt (Z.of_N (sum2 l))) /\
    bits_set q (NInt (Z.of_N (sum2 l))) = Ok l.
Proof. exact set_mask_inverse. Qed.
Print Assumptions C13_bits_set_mask.

Theorem C13_bits_set_yields_ascending : forall fuel v l, set_loop fuel v = Ok l -> ascending_from 0%N l.
Proof. exact set_loop_ascending. Qed.
Print Assumptions C13_bits_set_yields_ascending.

(* the sum does not depend on the enumeration order of the set *)
Theorem C13_bits_mask_order_independent :
  forall q l l', Permutation.Permutation l l' -> bits_mask q (VSet l) = bits_mask q (VSet l').
Proof. exact mask_perm_invariant. Qed.
Print Assumptions C13_bits_mask_order_independent.

Theorem C13_bits_rejects :
  (forall q z, z < 0 -> bits_set q (NInt z) = Err) /\
  (forall z, bits_set bquirks_off (NHalf z) = Err) /\
  (forall l, Exists (fun e => forall z, e <> vint z \/ z < 0) l -> bits_mask bquirks_off (VSet l) = Err).
Proof. exact (conj set_rejects_negative (conj set_rejects_fraction mask_rejects_nonnatural)). Qed.
Print Assumptions C13_bits_rejects.

Theorem C13_q_bits_set_unimplemented_refuted :
  bits_set bquirks_cur (NHalf 0) = Panic /\ bits_set bquirks_off (NHalf 0) = Err.
Proof. exact q_bits_set_unimplemented_refuted. Qed.
Theorem C13_q_bits_mask_nonnatural_refuted :
  bits_mask bquirks_cur (VSet [vint (-1)]) = Ok (NHalf 0) /\
  bits_set bquirks_cur (NHalf 0) = Panic /\
  bits_mask bquirks_off (VSet [vint (-1)]) = Err.
Proof. exact q_bits_mask_nonnatural_refuted. Qed.

Example C13_bits_nonvacuous :
  bits_set bquirks_cur (NInt 37) = Ok [0; 2; 5]%N /\ bits_mask bquirks_cur (nset [0; 5; 52]%N) = Ok (NInt 4503599627370529).
Proof. vm_compute. split; reflexivity. Qed.

(* ---------------- server wire format ---------------- *)

(* On the wire-safe values (numbers, offset-0 hole-free strings, tuples without
   the reserved name, dense offset-0 arrays, true, the empty set; nested) the
   observer reads back exactly the value the server sent. *)
Theorem C13_wire_roundtrip :
  forall q r, wire_safe r = true ->
    exists w, wire_escape q r = Ok w /\ wire_unescape q w = Ok r.
Proof. exact wire_roundtrip_exists. Qed.
Print Assumptions C13_wire_roundtrip.

Theorem C13_q_wire_sets_become_arrays_refuted :
  let r := RSet true [RNum (NInt 1); RNum (NInt 2)] in
  bind (wire_escape wquirks_cur r) (wire_unescape wquirks_cur)
    = Ok (RArr 0 [Some (RNum (NInt 1)); Some (RNum (NInt 2))]) /\
  wire_escape wquirks_off r = Err /\
  bind (wire_escape wquirks_cur (RDict false [(RStr 0 [97], RNum (NInt 1))])) (wire_unescape wquirks_cur)
    = Ok (RArr 0 [Some (RTup [(n_at, RStr 0 [97]); (n_value, RNum (NInt 1))])]) /\
  bind (wire_escape wquirks_cur (RBytes 0 [97])) (wire_unescape wquirks_cur)
    = Ok (RArr 0 [Some (RTup [(n_at, RNum (NInt 0)); (n_byte, RNum (NInt 97))])]).
Proof. exact q_wire_sets_become_arrays_refuted. Qed.
Theorem C13_q_wire_offsets_holes_lost_refuted :
  bind (wire_escape wquirks_cur (RArr 0 [Some (RNum (NInt 1)); None; Some (RNum (NInt 3))])) (wire_unescape wquirks_cur)
    = Ok (RArr 0 [Some (RNum (NInt 1)); Some (RNum (NInt 3))]) /\
  bind (wire_escape wquirks_cur (RArr 1 [Some (RNum (NInt 1))])) (wire_unescape wquirks_cur)
    = Ok (RArr 0 [Some (RNum (NInt 1))]) /\
  bind (wire_escape wquirks_cur (RStr 1 [98; 99])) (wire_unescape wquirks_cur) = Ok (RStr 0 [98; 99]) /\
  wire_escape wquirks_off (RArr 1 [Some (RNum (NInt 1))]) = Err /\
  wire_escape wquirks_off (RStr 1 [98; 99]) = Err.
Proof. exact q_wire_offsets_holes_lost_refuted. Qed.
Theorem C13_q_wire_null_panics_refuted :
  wire_unescape wquirks_cur (JArr [JNull]) = Panic /\ wire_unescape wquirks_off (JArr [JNull]) = Err.
Proof. exact q_wire_null_panics_refuted. Qed.
Theorem C13_wire_reserved_name_rejected :
  bind (wire_escape wquirks_cur (RTup [(n_setkey, RNum (NInt 1))])) (wire_unescape wquirks_cur) = Err /\
  bind (wire_escape wquirks_cur (RTup [(n_setkey, RArr 0 [Some (RNum (NInt 1))])])) (wire_unescape wquirks_cur) = Err /\
  bind (wire_escape wquirks_cur (RTup [([97], RNum (NInt 2)); (n_setkey, RNum (NInt 1))])) (wire_unescape wquirks_cur) = Err.
Proof. exact wire_reserved_name_rejected. Qed.
Example C13_wire_nonvacuous :
  wire_safe sample_value = true /\
  bind (wire_escape wquirks_cur sample_value) (wire_unescape wquirks_cur) = Ok sample_value.
Proof. exact wire_roundtrip_nonvacuous. Qed.

(* ---------------- CSV (PARTIAL) ---------------- *)
(* Full statement, NOT proved in general:
     forall m, csv_ok m = true -> csv_decode (csv_encode m) = Ok m
   where csv_ok (the guard found while modelling) says: every record has the
   same non-zero number of fields, no field contains ''\r\n'', and a one-column
   matrix has no empty field.  What is proved:
   (a) the quoting core, for every field and every context: the reader's
       quoted-field loop inverts the writer's quote doubling and continues
       after the closing quote (missing for the full theorem: the induction
       over records and lines, i.e. readLine's interplay with newlines inside
       quoted fields and the unquoted-field scanner);
   (b) the full pipeline AND the exactness of the guard (inside: the matrix
       comes back; outside: it does not) by evaluation on an exhaustive scope:
       all 1x1 matrices with fields of length <= 4 and all 1x2, 2x1, 2x2 (and
       two ragged shapes) with fields of length <= 2 over {a '' , \n \r space}. *)
Theorem C13_csv_quoting_core_partial :
  forall n f fuel buf tail rest acc,
  (length f <= n)%nat -> (n < fuel)%nat ->
  match tail with c :: _ => c <> QUOTE | [] => True end ->
  exists fuel', (fuel' < fuel)%nat /\ (fuel - fuel' <= S (length f))%nat /\
  parse fuel (Some buf) (escape f ++ QUOTE :: tail) rest acc = after_quote fuel' (buf ++ f) tail rest acc.
Proof. exact quoted_core. Qed.
Print Assumptions C13_csv_quoting_core_partial.

Theorem C13_csv_roundtrip_bounded_partial : forallb rt_exact scope = true.
Proof. exact csv_roundtrip_bounded. Qed.
Print Assumptions C13_csv_roundtrip_bounded_partial.

Theorem C13_q_csv_empty_input_rejected_refuted :
  csv_encode [] = [] /\ csv_decode_arg true (csv_encode []) = Err /\ csv_decode_arg false (csv_encode []) = Ok [].
Proof. exact q_csv_empty_input_rejected_refuted. Qed.

Example C13_csv_known_losses :
  csv_decode (csv_encode [[[97]; [98]]; []; [[99]]]) = Err /\
  csv_decode (csv_encode [[[]]]) = Ok [] /\
  csv_decode (csv_encode [[[97; 13; 10; 98]]]) = Ok [[[97; 10; 98]]] /\
  csv_ok [[[97]; [98]]; []; [[99]]] = false /\ csv_ok [[[]]] = false /\ csv_ok [[[97; 13; 10; 98]]] = false.
Proof. vm_compute. repeat split; reflexivity. Qed.

(* ---------------- histories of one configured codec function ---------------- *)

(* A configured codec (`//encoding.json.encoder(cfg)` and its siblings) is a
   function of (configuration, document): when ONE function value is applied to
   several documents in sequence and every result is looked at afterwards, the
   result at each position is what the codec gives for that document alone -
   whatever was encoded before or after it.  This is the obligation the history
   stream of the check tests on the implementation (where the closure could
   share a translator, a text encoder or an output buffer between calls). *)
Theorem C13_codec_results_independent_of_history :
  forall (C D R : Type) (f : C -> D -> R) (c : C) (ds : list D) (i : nat) (d : D),
    nth_error ds i = Some d -> nth_error (history f c ds) i = Some (f c d).
Proof. exact @history_nth. Qed.
Print Assumptions C13_codec_results_independent_of_history.

(* the same document gets the same result in any two histories of one configuration *)
Theorem C13_codec_same_document_same_result :
  forall (C D R : Type) (f : C -> D -> R) (c : C) (ds es : list D) (i j : nat) (d : D),
    nth_error ds i = Some d -> nth_error es j = Some d ->
    nth_error (history f c ds) i = nth_error (history f c es) j.
Proof. exact @history_independent. Qed.
Print Assumptions C13_codec_same_document_same_result.

(* results already returned are not changed by later applications *)
Theorem C13_codec_earlier_results_stay :
  forall (C D R : Type) (f : C -> D -> R) (c : C) (ds es : list D) (i : nat),
    (i < length ds)%nat -> nth_error (history f c (ds ++ es)) i = nth_error (history f c ds) i.
Proof. exact @history_earlier_results_stay. Qed.
Print Assumptions C13_codec_earlier_results_stay.

(* documents survive a shared strict encoder: decoding documents and passing
   all of them through one configured encoder yields the documents *)
Theorem C13_json_history_roundtrip :
  forall q js,
    Forall (fun j => jwf j = true /\ (q_json_key_unchecked q = false \/ no_empty_key j = true)) js ->
    history json_encoder {| jc_quirks := q; jc_strict := true |} (map (json_decoder true) js) = map Ok js.
Proof. exact json_history_roundtrip. Qed.
Print Assumptions C13_json_history_roundtrip.

Example C13_history_nonvacuous :
  let d1 := JObj [([107], JNum (NInt 1))] in
  let d2 := JObj [([107], JNum (NInt 2))] in
  Forall (fun j => jwf j = true /\ (q_json_key_unchecked jquirks_cur = false \/ no_empty_key j = true)) [d1; d2; d1] /\
  history json_encoder {| jc_quirks := jquirks_cur; jc_strict := true |} (map (json_decoder true) [d1; d2; d1])
    = [Ok d1; Ok d2; Ok d1] /\
  nth_error [d1; d2; d1] 1 = Some d2.
Proof.
  cbv zeta. split; [|split; [vm_compute; reflexivity | reflexivity]].
  repeat (apply Forall_cons; [split; [vm_compute; reflexivity | right; vm_compute; reflexivity]|]). apply Forall_nil.
Qed.
