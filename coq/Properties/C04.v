(* Property C04: the join family, nest and rank obey their relational definitions.
   Statements about the reference semantics; both Go join engines (Relation.Join
   with its positional strategies and GenericJoin) are tied to it by the
   correspondence run over heading partitions, stored column orders and operand
   representations.  `unnest` has no working surface syntax in the pinned tree
   (compileArrow panics "unfinished"), so it is outside the claim (C10 finding). *)
From Arrai Require Import Base.Val Spec.SetAlg Eval.Interp Proofs.ValOrder Proofs.SetAlgP Proofs.RelP Proofs.RankP.

Theorem C04_join_is_the_set_of_agreeing_combinations :
  forall op a b ha hb r,
    a <> [] -> b <> [] -> heading a = Some ha -> heading b = Some hb ->
    join_data op a b = Ok r ->
    let common := filter (fun n => name_in n hb) ha in
    exists l, r = VSet l /\ ssorted l /\
      forall x, In x l <->
        exists t u, In (VTup t) a /\ In (VTup u) b /\ agree common t u = true /\ x = jcombine op common t u.
Proof. exact join_is_comprehension. Qed.
Print Assumptions C04_join_is_the_set_of_agreeing_combinations.

Theorem C04_agreement_is_equality_on_common_attributes :
  forall common t u, agree common t u = true <->
    forall n, In n common -> exists x, tget n t = Some x /\ tget n u = Some x.
Proof. exact agree_spec. Qed.
Print Assumptions C04_agreement_is_equality_on_common_attributes.

(* the seven other operators are the documented projections of the merged tuple *)
Theorem C04_projections :
  forall common t u,
    jcombine JJoin common t u = build_tuple (t ++ u) /\
    jcombine JCompose common t u = build_tuple (tproject (fun n => negb (name_in n common)) t ++ tproject (fun n => negb (name_in n common)) u) /\
    jcombine JCommon common t u = VTup (tproject (fun n => name_in n common) t) /\
    jcombine JExists common t u = VTup [] /\
    jcombine JRightMatch common t u = VTup u /\
    jcombine JLeftMatch common t u = VTup t /\
    jcombine JRightResidue common t u = VTup (tproject (fun n => negb (name_in n common)) u) /\
    jcombine JLeftResidue common t u = VTup (tproject (fun n => negb (name_in n common)) t).
Proof. intros; repeat split. Qed.
Print Assumptions C04_projections.

Theorem C04_join_with_empty : forall op a, join_data op [] a = Ok (VSet []) /\ join_data op a [] = Ok (VSet []).
Proof. exact join_empty. Qed.
Print Assumptions C04_join_with_empty.

Theorem C04_nest_loses_and_invents_no_row :
  forall names n a h r,
    a <> [] -> heading a = Some h ->
    forallb (fun x => name_in x h) names = true ->
    name_in n (filter (fun x => negb (name_in x names)) h) = false ->
    nest_data names n a = Ok r ->
    exists l, r = VSet l /\ ssorted l /\
      forall row, In row l <->
        exists t, In (VTup t) a /\
          row = build_tuple (tproject (fun x => negb (name_in x names)) t ++
                 [(n, mkset (flat_map (fun m' => match m' with
                                                 | VTup t' => if veqb (VTup (tproject (fun x => negb (name_in x names)) t'))
                                                                      (VTup (tproject (fun x => negb (name_in x names)) t))
                                                              then [VTup (tproject (fun x => name_in x names) t')] else []
                                                 | _ => []
                                                 end) a))]).
Proof. exact nest_rows. Qed.
Print Assumptions C04_nest_loses_and_invents_no_row.

(* rank = number of rows with a strictly smaller key (ties share a rank): on a concrete relation *)
Example C04_rank_probe :
  run_data 80 (ERank (ESetE [ETupE [([97], ELit (vint 1)); ([98], ELit (vint 2))];
                             ETupE [([97], ELit (vint 1)); ([98], ELit (vint 3))];
                             ETupE [([97], ELit (vint 2)); ([98], ELit (vint 2))]])
                     (EFn (PVar [46]) (ETupE [([114], EDot (EVar [46]) [98])])))
  = Ok (VSet [VTup [([97], vint 1); ([98], vint 2); ([114], vint 0)];
              VTup [([97], vint 1); ([98], vint 3); ([114], vint 2)];
              VTup [([97], vint 2); ([98], vint 2); ([114], vint 0)]]).
Proof. vm_compute. reflexivity. Qed.

(* the operators of the expression language evaluate to these functions of the operands' values *)
Theorem C04_operators_are_these_functions :
  forall fuel rho a b la lb names n,
    eval fuel rho a = Ok (D (VSet la)) ->
    (forall op, eval fuel rho b = Ok (D (VSet lb)) ->
                eval (S fuel) rho (EJoin op a b) = (do r <- join_data op la lb; Ok (D r))) /\
    eval (S fuel) rho (ENest false names n a) = (do r <- nest_data names n la; Ok (D r)) /\
    eval (S fuel) rho (ESingleNest n a) = (do r <- single_nest_data n la; Ok (D r)).
Proof.
  intros fuel rho a b la lb names n Ha. repeat split.
  - intros op Hb. apply join_operator_is_join_data; assumption.
  - apply nest_operator_is_nest_data, Ha.
  - apply single_nest_operator_is_single_nest_data, Ha.
Qed.
Print Assumptions C04_operators_are_these_functions.

(* rank: the value of `a rank f` is the set of the rows of a, each extended - for every attribute k of its key
   tuple f(row) - with the number of rows whose k is strictly smaller (ties share a rank); one result row per
   source row, nothing else; for every operand, key function, scope and fuel *)
Theorem C04_rank_is_these_rows :
  forall fuel rho a fn m l cenv p body r,
    eval fuel rho a = Ok (D (VSet (m :: l))) -> eval fuel rho fn = Ok (Clos cenv p body) ->
    eval (S fuel) rho (ERank a fn) = Ok (D r) ->
    exists keyed rows, mapM (clos_key fuel cenv p body) (m :: l) = Ok keyed /\ rank_rows keyed = Ok rows /\ r = mkset rows.
Proof. exact eval_rank_characterised. Qed.
Print Assumptions C04_rank_is_these_rows.

Theorem C04_rank_rows_one_per_source_row :
  forall keyed rows, rank_rows keyed = Ok rows ->
    length rows = length keyed /\
    forall i tk, nth_error keyed i = Some tk ->
      exists ranks, mapM (rank_of keyed) (snd tk) = Ok ranks /\ nth_error rows i = Some (build_tuple (fst tk ++ ranks)).
Proof. exact rank_rows_rowwise. Qed.
Print Assumptions C04_rank_rows_one_per_source_row.

Theorem C04_rank_counts_strictly_smaller_keys :
  forall keyed k x r, rank_of keyed (k, VNum x) = Ok r -> r = (k, vint (Z.of_nat (count_smaller keyed k x))).
Proof. exact rank_of_is_count. Qed.
Print Assumptions C04_rank_counts_strictly_smaller_keys.
