(* Property C04: the join family, nest and rank obey their relational definitions.
   Statements about the reference semantics; both Go join engines (Relation.Join
   with its positional strategies and GenericJoin) are tied to it by the
   correspondence run over heading partitions, stored column orders and operand
   representations.  The positional engine (Relation x Relation) is in addition transcribed
   (Rep/RelJoin.v) and proved to refine the specification join: the last block of this file.  `unnest` has no working surface syntax in the pinned tree
   (compileArrow panics "unfinished"), so it is outside the claim (C10 finding). *)
From Arrai Require Import Base.Val Spec.SetAlg Eval.Interp Proofs.ValOrder Proofs.SetAlgP Proofs.RelP Proofs.RankP.

Theorem C04_join_is_the_set_of_agreeing_combinations :
  forall op a b ha hb r,
    a <> [] -> b <> [] -> heading a = Some ha -> heading b = Some hb ->
    join_data op a b = Ok r ->
    let common := filter (fun n => name_in n hb) ha in
    exists l, r = VSet l /\ ssorted l /\
      forall x, In x l <->
        exists t u, In (VTup t) a /\ In (VTup u) b /\ agree common t u = true /\ x = jcombine op common t u.
Proof. exact join_is_comprehension. Qed.
Print Assumptions C04_join_is_the_set_of_agreeing_combinations.

Theorem C04_agreement_is_equality_on_common_attributes :
  forall common t u, agree common t u = true <->
    forall n, In n common -> exists x, tget n t = Some x /\ tget n u = Some x.
Proof. exact agree_spec. Qed.
Print Assumptions C04_agreement_is_equality_on_common_attributes.

(* the seven other operators are the documented projections of the merged tuple *)
Theorem C04_projections :
  forall common t u,
    jcombine JJoin common t u = build_tuple (t ++ u) /\
    jcombine JCompose common t u = build_tuple (tproject (fun n => negb (name_in n common)) t ++ tproject (fun n => negb (name_in n common)) u) /\
    jcombine JCommon common t u = VTup (tproject (fun n => name_in n common) t) /\
    jcombine JExists common t u = VTup [] /\
    jcombine JRightMatch common t u = VTup u /\
    jcombine JLeftMatch common t u = VTup t /\
    jcombine JRightResidue common t u = VTup (tproject (fun n => negb (name_in n common)) u) /\
    jcombine JLeftResidue common t u = VTup (tproject (fun n => negb (name_in n common)) t).
Proof. intros; repeat split. Qed.
Print Assumptions C04_projections.

Theorem C04_join_with_empty : forall op a, join_data op [] a = Ok (VSet []) /\ join_data op a [] = Ok (VSet []).
Proof. exact join_empty. Qed.
Print Assumptions C04_join_with_empty.

Theorem C04_nest_loses_and_invents_no_row :
  forall names n a h r,
    a <> [] -> heading a = Some h ->
    forallb (fun x => name_in x h) names = true ->
    name_in n (filter (fun x => negb (name_in x names)) h) = false ->
    nest_data names n a = Ok r ->
    exists l, r = VSet l /\ ssorted l /\
      forall row, In row l <->
        exists t, In (VTup t) a /\
          row = build_tuple (tproject (fun x => negb (name_in x names)) t ++
                 [(n, mkset (flat_map (fun m' => match m' with
                                                 | VTup t' => if veqb (VTup (tproject (fun x => negb (name_in x names)) t'))
                                                                      (VTup (tproject (fun x => negb (name_in x names)) t))
                                                              then [VTup (tproject (fun x => name_in x names) t')] else []
                                                 | _ => []
                                                 end) a))]).
Proof. exact nest_rows. Qed.
Print Assumptions C04_nest_loses_and_invents_no_row.

(* rank = number of rows with a strictly smaller key (ties share a rank): on a concrete relation *)
Example C04_rank_probe :
  run_data 80 (ERank (ESetE [ETupE [([97], ELit (vint 1)); ([98], ELit (vint 2))];
                             ETupE [([97], ELit (vint 1)); ([98], ELit (vint 3))];
                             ETupE [([97], ELit (vint 2)); ([98], ELit (vint 2))]])
                     (EFn (PVar [46]) (ETupE [([114], EDot (EVar [46]) [98])])))
  = Ok (VSet [VTup [([97], vint 1); ([98], vint 2); ([114], vint 0)];
              VTup [([97], vint 1); ([98], vint 3); ([114], vint 2)];
              VTup [([97], vint 2); ([98], vint 2); ([114], vint 0)]]).
Proof. vm_compute. reflexivity. Qed.

(* the operators of the expression language evaluate to these functions of the operands' values *)
Theorem C04_operators_are_these_functions :
  forall fuel rho a b la lb names n,
    eval fuel rho a = Ok (D (VSet la)) ->
    (forall op, eval fuel rho b = Ok (D (VSet lb)) ->
                eval (S fuel) rho (EJoin op a b) = (do r <- join_data op la lb; Ok (D r))) /\
    eval (S fuel) rho (ENest false names n a) = (do r <- nest_data names n la; Ok (D r)) /\
    eval (S fuel) rho (ESingleNest n a) = (do r <- single_nest_data n la; Ok (D r)).
Proof.
  intros fuel rho a b la lb names n Ha. repeat split.
  - intros op Hb. apply join_operator_is_join_data; assumption.
  - apply nest_operator_is_nest_data, Ha.
  - apply single_nest_operator_is_single_nest_data, Ha.
Qed.
Print Assumptions C04_operators_are_these_functions.

(* rank: the value of `a rank f` is the set of the rows of a, each extended - for every attribute k of its key
   tuple f(row) - with the number of rows whose k is strictly smaller (ties share a rank); one result row per
   source row, nothing else; for every operand, key function, scope and fuel *)
Theorem C04_rank_is_these_rows :
  forall fuel rho a fn m l cenv p body r,
    eval fuel rho a = Ok (D (VSet (m :: l))) -> eval fuel rho fn = Ok (Clos cenv p body) ->
    eval (S fuel) rho (ERank a fn) = Ok (D r) ->
    exists keyed rows, mapM (clos_key fuel cenv p body) (m :: l) = Ok keyed /\ rank_rows keyed = Ok rows /\ r = mkset rows.
Proof. exact eval_rank_characterised. Qed.
Print Assumptions C04_rank_is_these_rows.

Theorem C04_rank_rows_one_per_source_row :
  forall keyed rows, rank_rows keyed = Ok rows ->
    length rows = length keyed /\
    forall i tk, nth_error keyed i = Some tk ->
      exists ranks, mapM (rank_of keyed) (snd tk) = Ok ranks /\ nth_error rows i = Some (build_tuple (fst tk ++ ranks)).
Proof. exact rank_rows_rowwise. Qed.
Print Assumptions C04_rank_rows_one_per_source_row.

Theorem C04_rank_counts_strictly_smaller_keys :
  forall keyed k x r, rank_of keyed (k, VNum x) = Ok r -> r = (k, vint (Z.of_nat (count_smaller keyed k x))).
Proof. exact rank_of_is_count. Qed.
Print Assumptions C04_rank_counts_strictly_smaller_keys.

From Arrai Require Import Rep.RelJoin Proofs.RelJoinP Rep.GenJoin Proofs.GenJoinP Rep.RelNest Proofs.RelNestP.
(* ------------------------------------------------------------------------------------------
   The positional join engine of the implementation (Rep/RelJoin.v: Relation.Join,
   positionalRelation.Join with createMode and its four strategies, the Joiner's choice of
   common / left / right output names for the eight operators), inside the model.

   A Relation stores an attribute list in *stored* order (not sorted), a projector p (attribute i
   lives in column p[i]) and a duplicate-free set of positional rows; abs turns it into the
   canonical set of tuples it denotes.  wf_rel is the representation invariant: distinct names,
   p a permutation of the columns, every row of the heading's width, no duplicate row, not empty. *)

(* For EVERY pair of stored layouts (any column order and projector on each side, any overlap of
   the headings) and all eight operators: the engine does not panic, what it returns denotes
   exactly the specification join of the two denotations, and a Relation result satisfies the
   representation invariant again (so joins compose). *)
Theorem C04_positional_join_refines_spec :
  forall op a b, wf_rel a -> wf_rel b ->
    exists s, join_rel op a b = JOk s /\ join_data op (abs a) (abs b) = Ok (den s) /\ wf_jset s.
Proof. exact positional_join_refines_spec. Qed.
Print Assumptions C04_positional_join_refines_spec.

(* The result does not depend on the stored column order, projector or row order of either operand. *)
Theorem C04_join_independent_of_stored_layout :
  forall op a a' b b', wf_rel a -> wf_rel a' -> wf_rel b -> wf_rel b' -> abs a = abs a' -> abs b = abs b' ->
    exists s s', join_rel op a b = JOk s /\ join_rel op a' b' = JOk s' /\ den s = den s'.
Proof. exact join_independent_of_layout. Qed.
Print Assumptions C04_join_independent_of_stored_layout.

(* In particular: listing the stored columns of either operand in another order (heading and projector
   permuted alike, same rows) is the same relation and joins to the same result. *)
Theorem C04_relisting_columns_is_the_same_relation :
  forall q r, wf_rel r -> is_perm q (length (r_attrs r)) ->
    wf_rel (permute_cols q r) /\ abs (permute_cols q r) = abs r.
Proof. exact permute_cols_same_relation. Qed.
Print Assumptions C04_relisting_columns_is_the_same_relation.

Theorem C04_join_ignores_stored_column_order :
  forall op a b qa qb, wf_rel a -> wf_rel b -> is_perm qa (length (r_attrs a)) -> is_perm qb (length (r_attrs b)) ->
    exists s s', join_rel op (permute_cols qa a) (permute_cols qb b) = JOk s' /\ join_rel op a b = JOk s /\ den s' = den s.
Proof. exact join_ignores_column_order. Qed.
Print Assumptions C04_join_ignores_stored_column_order.

(* positionalRelation.Join itself, on projectors: whichever of JoinKeepEverything / joinOneSide /
   JoinCommonOnly / JoinIfCommonExist createMode selects, the rows returned are exactly
   leftOutput(t) ++ rightOutput(u) for the pairs of rows whose key cells are equal, without
   duplicates - provided one output is empty or both reach outside their keys (join_shape: the only
   shapes the eight operators produce) and no key is output partially (createMode's own panic). *)
Theorem C04_positional_engine_returns_the_agreeing_combinations :
  forall r r2 w1 w2 lk rk lo ro,
    width_is r w1 -> width_is r2 w2 -> r <> [] -> r2 <> [] -> NoDup r -> NoDup r2 ->
    inrange lk w1 -> inrange lo w1 -> inrange rk w2 -> inrange ro w2 ->
    length lk = length rk -> partial_key lk rk lo ro = false -> join_shape lk rk lo ro ->
    exists rows, positional_join r r2 lk rk lo ro = JOk rows /\ NoDup rows /\
      forall x, In x rows <-> exists t u, matching r r2 lk rk t u /\ x = pick lo t ++ pick ro u.
Proof. exact positional_join_spec. Qed.
Print Assumptions C04_positional_engine_returns_the_agreeing_combinations.

(* Outside those shapes positionalRelation.Join is NOT a join: with both outputs inside their keys it
   answers {()} where the pair (1, 1) is asked for.  No operator reaches this (partition_good). *)
Theorem C04_positional_engine_outside_its_shapes_refuted :
  exists r r2 lk rk lo ro rows,
    partial_key lk rk lo ro = false /\ positional_join r r2 lk rk lo ro = JOk rows /\
    ~ (forall x, In x rows <-> exists t u, matching r r2 lk rk t u /\ x = pick lo t ++ pick ro u).
Proof.
  exists [[vint 1]], [[vint 1]], [0%nat], [0%nat], [0%nat], [0%nat], [[]].
  split; [reflexivity|]. split; [vm_compute; reflexivity|].
  intros H. destruct (proj1 (H []) (or_introl eq_refl)) as (t & u & _ & E). discriminate.
Qed.
Print Assumptions C04_positional_engine_outside_its_shapes_refuted.

(* Every index the engine hands to a row lies inside the row (the model's default cell is never read;
   the Go code cannot fail with "index out of range" on well-formed operands). *)
Theorem C04_join_never_indexes_outside_a_row :
  forall op a b, wf_rel a -> wf_rel b ->
    let common := ns_intersect (r_attrs a) (r_attrs b) in
    let lo := fst (partitionNames op (r_attrs a) (r_attrs b) common) in
    let ro := snd (partitionNames op (r_attrs a) (r_attrs b) common) in
    exists lki rki loi roi,
      getIndices (r_attrs a) common = Some lki /\ getIndices (r_attrs b) common = Some rki /\
      getIndices (r_attrs a) lo = Some loi /\ getIndices (r_attrs b) ro = Some roi /\
      (forall v, In v (r_rows a) -> inrange (compose (r_p a) lki) (length v) /\ inrange (compose (r_p a) loi) (length v)) /\
      (forall v, In v (r_rows b) -> inrange (compose (r_p b) rki) (length v) /\ inrange (compose (r_p b) roi) (length v)).
Proof. exact join_indices_in_range. Qed.
Print Assumptions C04_join_never_indexes_outside_a_row.

(* Count() of a Relation - its number of stored rows - is the cardinality of the set it denotes. *)
Theorem C04_relation_count_is_cardinality : forall r, wf_rel r -> length (abs r) = length (r_rows r).
Proof. exact count_is_cardinality. Qed.
Print Assumptions C04_relation_count_is_cardinality.

(* the invariant is the executable test the correspondence run applies to every observed operand *)
Theorem C04_invariant_is_what_the_check_tests : forall r, wf_relb r = true <-> wf_rel r.
Proof. exact wf_relb_spec. Qed.
Print Assumptions C04_invariant_is_what_the_check_tests.

(* the hypotheses are satisfiable by non-trivial values: a join-built relation stored as (c, a), the
   same denotation stored as (a, c) through a non-identity projector, and a literal over (a, b) *)
Definition ex_ca : relation :=
  {| r_attrs := [[99]; [97]]; r_p := [0; 1]%nat; r_rows := [[vint 1; vint 5]; [vint 2; vint 5]; [vint 3; vint 7]] |}.
Definition ex_ac : relation :=
  {| r_attrs := [[97]; [99]]; r_p := [1; 0]%nat; r_rows := [[vint 3; vint 7]; [vint 1; vint 5]; [vint 2; vint 5]] |}.
Definition ex_ab : relation :=
  {| r_attrs := [[97]; [98]]; r_p := [0; 1]%nat; r_rows := [[vint 5; vint 6]; [vint 7; vint 8]; [vint 9; vint 9]] |}.

Example C04_example_operands_are_well_formed : wf_rel ex_ca /\ wf_rel ex_ac /\ wf_rel ex_ab /\ abs ex_ca = abs ex_ac.
Proof. repeat split; try (apply wf_relb_spec; vm_compute; reflexivity). Qed.

Example C04_example_join :
  join_rel JJoin ex_ca ex_ab
  = JOk (JSRel {| r_attrs := [[99]; [97]; [98]]; r_p := [0; 1; 2]%nat;
                  r_rows := [[vint 1; vint 5; vint 6]; [vint 2; vint 5; vint 6]; [vint 3; vint 7; vint 8]] |})
  /\ join_data JJoin (abs ex_ca) (abs ex_ab)
     = Ok (VSet [VTup [([97], vint 5); ([98], vint 6); ([99], vint 1)];
                 VTup [([97], vint 5); ([98], vint 6); ([99], vint 2)];
                 VTup [([97], vint 7); ([98], vint 8); ([99], vint 3)]])
  /\ (forall op, match join_rel op ex_ca ex_ab, join_rel op ex_ac ex_ab with
                 | JOk s, JOk s' => den s = den s'
                 | _, _ => False
                 end).
Proof. split; [vm_compute; reflexivity|]. split; [vm_compute; reflexivity|]. intros op; destruct op; vm_compute; reflexivity. Qed.

Example C04_example_permutation : is_perm [1; 0]%nat (length (r_attrs ex_ca)) /\ permute_cols [1; 0]%nat ex_ca
  = {| r_attrs := [[97]; [99]]; r_p := [1; 0]%nat; r_rows := r_rows ex_ca |}.
Proof. split; [|reflexivity]. split; [repeat constructor; simpl; intuition congruence|]. split; [reflexivity|]. intros i [<-|[<-|[]]]; simpl; lia. Qed.

Example C04_example_engine_hypotheses :
  width_is [[vint 1; vint 5]] 2 /\ inrange [1%nat] 2 /\ partial_key [1%nat] [0%nat] [0%nat; 1%nat] [1%nat] = false
  /\ join_shape [1%nat] [0%nat] [0%nat; 1%nat] [1%nat].
Proof.
  split; [intros v [<-|[]]; reflexivity|]. split; [intros i [<-|[]]; lia|]. split; [reflexivity|].
  right; right. split; reflexivity.
Qed.

(* ------------------------------------------------------------------------------------------
   The generic engine (Rep/GenJoin.v: RelationAttrs, the Joiner's generic branch, GenericJoin with its
   map from key to the two slots, the combine functions of the eight operators, Merge), used whenever
   an operand is not a Relation: for all operands whose members are name-sorted tuples (every canonical
   value) it never hands a nil tuple to the set builder and returns exactly the specification join -
   including the error when an operand is not a relation. *)
Theorem C04_generic_join_is_the_specification_join :
  forall op a b, Forall tuple_sorted a -> Forall tuple_sorted b -> generic_join op a b = Some (join_data op a b).
Proof. exact generic_join_is_join_data. Qed.
Print Assumptions C04_generic_join_is_the_specification_join.

Example C04_example_generic_operands :
  Forall tuple_sorted [vitem 0 (vint 5); vitem 1 (vint 6)] /\
  generic_join JCompose [vitem 0 (vint 5); vitem 1 (vint 6)] [VTup [(n_at, vint 1); ([120], vint 9)]]
  = Some (Ok (VSet [VTup [(n_item, vint 6); ([120], vint 9)]])).
Proof.
  split; [|vm_compute; reflexivity].
  apply Forall_cons; [|apply Forall_cons; [|apply Forall_nil]];
    (split; [intros q [<-|[]]; reflexivity | split; [intros q [] | exact I]]).
Qed.

(* ------------------------------------------------------------------------------------------
   nest over a Relation (Rep/RelNest.v: nestWithFunc, validNestOp, Nest, SingleAttrNest, Reduce, working on
   the tuples the Relation enumerates from its stored rows), for EVERY well-formed relation in any stored
   column order, every attribute list and every target name: where the specification gives a value the
   implementation model gives the same value; the validNestOp panic (names not all attributes - exactly
   then) and the clash of the target name with a key attribute are exactly the specification's two
   Unspec regions; nothing else can happen. *)
Theorem C04_positional_nest_refines_spec :
  forall names n r, wf_rel r ->
    nest_view (nest_data names n (abs r)) (nest_rel names n r)
    /\ (nest_rel names n r = NPanic <-> ~ incl names (r_attrs r)).
Proof. exact nest_refines_spec. Qed.
Print Assumptions C04_positional_nest_refines_spec.

Theorem C04_positional_single_nest_refines_spec :
  forall n r, wf_rel r ->
    nest_view (single_nest_data n (abs r)) (single_nest_rel n r)
    /\ (single_nest_rel n r = NPanic <-> ~ In n (r_attrs r)).
Proof. exact single_nest_refines_spec. Qed.
Print Assumptions C04_positional_single_nest_refines_spec.

Example C04_example_nest :
  nest_rel [[99]] [110] ex_ca
  = NOk (VSet [VTup [([97], vint 5); ([110], VSet [VTup [([99], vint 1)]; VTup [([99], vint 2)]])];
               VTup [([97], vint 7); ([110], VSet [VTup [([99], vint 3)]])]])
  /\ nest_rel [[99]] [110] ex_ac = nest_rel [[99]] [110] ex_ca
  /\ single_nest_rel [99] ex_ca
     = NOk (VSet [VTup [([97], vint 5); ([99], VSet [vint 1; vint 2])]; VTup [([97], vint 7); ([99], VSet [vint 3])]])
  /\ nest_rel [[120]] [110] ex_ca = NPanic /\ nest_rel [[99]] [97] ex_ca = NClash.
Proof. repeat split; vm_compute; reflexivity. Qed.
