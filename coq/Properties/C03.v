(* Property C03: values are immutable: deriving new values never changes existing ones.
   The slice-backed representations (String, Bytes, Array) are modelled as windows
   into a heap of arrays (Sys/Heap.v); every derivation either copies or re-slices.
   The theorem holds for ALL finite branching histories: each operation may take
   any earlier value as its parent, in any order, any number of times.
   Everything else (Dict, Relation, GenericSet, UnionSet, tuples) is backed by the
   persistent frozen library (assumed immutable, trusted base) and is covered by
   the correspondence run only. *)
From Arrai Require Import Base.Val Sys.Heap Proofs.HeapP Rep.SeqRep Proofs.HeapRefP.

Theorem C03_values_are_immutable :
  forall hist1 hist2 i v,
    nth_error (snd (run false hist1)) i = Some v ->
    nth_error (snd (run false (hist1 ++ hist2))) i = Some v /\
    den (fst (run false (hist1 ++ hist2))) v = den (fst (run false hist1)) v.
Proof. exact values_are_immutable. Qed.
Print Assumptions C03_values_are_immutable.

(* the same statement is FALSE when `with` appends into spare capacity, as
   String.with and Bytes.with did (append(s.s, char)); the witness is the probe
   of the property text *)
Theorem C03_q_append_in_place_refuted :
  exists hist1 hist2 i v,
    nth_error (snd (run true hist1)) i = Some v /\
    den (fst (run true (hist1 ++ hist2))) v <> den (fst (run true hist1)) v.
Proof. exact append_in_place_refuted. Qed.
Print Assumptions C03_q_append_in_place_refuted.

Theorem C03_q_reslice_then_append_refuted :
  den (fst (run true [OLit [97; 98; 99] 0; OWithout 0 2 99; OWith 1 2 120]))
      {| s_arr := 0; s_start := 0; s_len := 3; s_off := 0 |} = (0, [97; 98; 120]).
Proof. exact reslice_then_append_refuted. Qed.
Print Assumptions C03_q_reslice_then_append_refuted.

(* non-vacuity: the probe history with the repaired `with` keeps both siblings apart *)
Example C03_probe :
  dens (run false [OLit [97; 98; 99] 1; OWith 0 3 100; OWith 0 3 101])
  = [(0, [97; 98; 99]); (0, [97; 98; 99; 100]); (0, [97; 98; 99; 101])].
Proof. vm_compute. reflexivity. Qed.

(* What a derived value denotes does not depend on whether its storage is shared or copied: every with / without
   step of the heap model yields exactly the cell-level function of its parent's cells - the functions whose
   refinement to the mathematical with / without is property C01 (Rep/SeqRep.v). *)
Theorem C03_without_step_denotes_without :
  forall b h vals p v at_ char, nth_error vals p = Some v ->
    let st' := step b (h, vals) (OWithout p at_ char) in
    exists v', snd st' = vals ++ [v'] /\
      den (fst st') v' = (snd (without_cells (cells h v) (s_off v) at_ char), fst (without_cells (cells h v) (s_off v) at_ char)).
Proof. exact step_without_denotes. Qed.
Print Assumptions C03_without_step_denotes_without.

Theorem C03_with_step_denotes_with :
  forall h vals p v at_ char, nth_error vals p = Some v -> cells h v <> [] ->
    let st' := step false (h, vals) (OWith p at_ char) in
    exists v', snd st' = vals ++ [v'] /\
      den (fst st') v' = (snd (with_cells (cells h v) (s_off v) at_ char), fst (with_cells (cells h v) (s_off v) at_ char)).
Proof. exact step_with_denotes. Qed.
Print Assumptions C03_with_step_denotes_with.
