(* Property C12: printed values read back as the same value.
   PARTIAL.  Two theorems:
   (1) the string-content codec (reprEscape / reprStr vs parseArraiStringFragment), i.e. the
       text of string values and quoted attribute names, for every rune string; both sides are
       re-checked against tables regenerated from the running printer and parser;
   (2) the whole value printer (Sys/Printer.v, rel/value_repr.go and the Format methods) against
       the literal reader (Sys/Reader.v) at the level of tokens: numbers, tuples with identifier
       and quoted names, {}, true, strings, byte arrays, arrays with offsets and holes, generic and
       union sets, dicts and relations, nested in any way, for EVERY order in which the members are
       enumerated (C12_print_read_round_trip over printable_all; the _partial statements are its
       restriction to values without sequences).  Missing from (2): the lexer (characters to tokens).
   The printer model as a whole (sequences included) is compared with fu.Repr byte for byte, and
   the reader model with syntax.EvaluateExpr, on every run (Check/C12Check.v). *)
From Arrai Require Import Base.Val Sys.Escape Gen.Escapes Proofs.EscapeP.
From Arrai Require Import Sys.Printer Sys.Reader Proofs.PrintReadP.

Theorem C12_string_contents_roundtrip :
  forall delim s, delim = 39 \/ delim = 34 -> Forall (fun c => 0 <= c) s ->
    decode (encode delim s) = Some s.
Proof. exact decode_encode. Qed.
Print Assumptions C12_string_contents_roundtrip.

Theorem C12_printed_string_reads_back :
  forall s, Forall (fun c => 0 <= c) s -> decode (repr_str s) = Some s.
Proof. exact repr_str_roundtrip. Qed.
Print Assumptions C12_printed_string_reads_back.

(* the model is what the running printer and parser do (tables regenerated on every check) *)
Theorem C12_printer_matches_code : printer_agrees printer_table = true.
Proof. exact printer_table_agrees. Qed.
Print Assumptions C12_printer_matches_code.
Theorem C12_parser_matches_code : parser_agrees parser_table = true.
Proof. exact parser_table_agrees. Qed.
Print Assumptions C12_parser_matches_code.

Example C12_probe : decode (repr_str [97; 1; 98; 39; 92; 10]) = Some [97; 1; 98; 39; 92; 10].
Proof. vm_compute. reflexivity. Qed.

(* ---------- whole values, token level ---------- *)
(* w is any enumeration of a value (sets in any member order, even with repetitions): reading what
   the printer writes for it gives the canonical value it denotes, and leaves what follows untouched *)
Theorem C12_print_read_round_trip_partial :
  forall w rest, printable w = true -> follow_ok rest ->
    read_tokens (pr w ++ rest) = Some (norm w, rest).
Proof. exact read_print_tokens. Qed.
Print Assumptions C12_print_read_round_trip_partial.

(* for a canonical value: print, read, same value *)
Theorem C12_canonical_value_reads_back_partial :
  forall v, Canon v -> printable v = true -> read_all (pr v) = Some v.
Proof. exact read_print_canonical. Qed.
Print Assumptions C12_canonical_value_reads_back_partial.

(* {(a: -1, 'b c': 1.5), 2, {|x| (true), ({})}, {1: {2: ()}}} listed in a non-canonical order *)
Definition C12_example : val :=
  VSet [VSet [VTup [([120], VSet [VTup []])]; VTup [([120], VSet [])]];
        VTup [([97], VNum (NInt (-1))); ([98; 32; 99], VNum (NHalf 1))];
        VSet [VTup [(n_at, VNum (NInt 1)); (n_value, VSet [VTup [(n_at, VNum (NInt 2)); (n_value, VTup [])]])]];
        VNum (NInt 2)].
Example C12_example_printable : printable C12_example = true /\ norm C12_example <> C12_example.
Proof. split; [vm_compute; reflexivity | vm_compute; discriminate]. Qed.
Example C12_example_round_trip : read_all (pr C12_example) = Some (norm C12_example).
Proof. vm_compute. reflexivity. Qed.
(* the full domain (with sequences) on an example: tested, not proved *)
Example C12_example_sequences :
  let w := VSet [varr [vstr [97; 39]; vbytes [1; 2]]; VTup [([97], vstr [98])]] in
  printable_all w = true /\ printable w = false /\ read_all (pr w) = Some (norm w).
Proof. vm_compute. repeat split; reflexivity. Qed.

(* ---------- whole values, token level, the full domain ---------- *)
(* the same round trip for every value outside the open findings: strings with offsets, byte arrays in
   both printed forms, arrays with offsets and holes included, nested in any way, in any member order *)
Theorem C12_print_read_round_trip :
  forall w rest, printable_all w = true -> follow_ok rest ->
    read_tokens (pr w ++ rest) = Some (norm w, rest).
Proof. exact read_print_tokens_all. Qed.
Print Assumptions C12_print_read_round_trip.

Theorem C12_canonical_value_reads_back :
  forall v, Canon v -> printable_all v = true -> read_all (pr v) = Some v.
Proof. exact read_print_canonical_all. Qed.
Print Assumptions C12_canonical_value_reads_back.

(* {2\[ 'a''', , <<1, 2>>], (a: -3\'b'), <<'xy'>>} : offsets, a hole, both byte-array forms *)
Example C12_example_full :
  let w := VSet [VSet [vpair n_item (vint 4) (vbytes [1; 2]); vpair n_item (vint 2) (vstr [97; 39])];
                 VTup [([97], VSet [vpair n_char (vint (-3)) (vint 98)])]; vbytes [120; 121]] in
  printable_all w = true /\ norm w <> w /\ read_all (pr w) = Some (norm w).
Proof. vm_compute. repeat split; try reflexivity. discriminate. Qed.
