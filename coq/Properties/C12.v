(* Property C12: printed values read back as the same value.
   PARTIAL: the theorem covers the string-content codec (reprEscape / reprStr vs
   parseArraiStringFragment), i.e. string values and quoted attribute names, for
   every rune string; both sides are re-checked against tables regenerated from
   the running printer and parser.  Number formatting (strconv), the grammar
   engine, and the printers of tuples, sets, arrays, dicts and relations are
   covered by the implementation-side round-trip oracle v -> repr -> eval -> v'. *)
From Arrai Require Import Base.Val Sys.Escape Gen.Escapes Proofs.EscapeP.

Theorem C12_string_contents_roundtrip :
  forall delim s, delim = 39 \/ delim = 34 -> Forall (fun c => 0 <= c) s ->
    decode (encode delim s) = Some s.
Proof. exact decode_encode. Qed.
Print Assumptions C12_string_contents_roundtrip.

Theorem C12_printed_string_reads_back :
  forall s, Forall (fun c => 0 <= c) s -> decode (repr_str s) = Some s.
Proof. exact repr_str_roundtrip. Qed.
Print Assumptions C12_printed_string_reads_back.

(* the model is what the running printer and parser do (tables regenerated on every check) *)
Theorem C12_printer_matches_code : printer_agrees printer_table = true.
Proof. exact printer_table_agrees. Qed.
Print Assumptions C12_printer_matches_code.
Theorem C12_parser_matches_code : parser_agrees parser_table = true.
Proof. exact parser_table_agrees. Qed.
Print Assumptions C12_parser_matches_code.

Example C12_probe : decode (repr_str [97; 1; 98; 39; 92; 10]) = Some [97; 1; 98; 39; 92; 10].
Proof. vm_compute. reflexivity. Qed.
