(* Property C15: a bundle evaluates exactly like its sources and reads nothing else.
   Statements only; proofs live in Proofs/BundleP.v (theorems) and
   Proofs/BundleW.v (witnesses, by vm_compute).

   Model (Sys/Bundle.v): a layout is a finite map from absolute paths to files;
   `resolve_src` is EvaluateExpr over the source tree, `bundle` is `arrai bundle`
   (SetupBundle + Compile with the bundling hooks + OutputArraiz), `resolve_bun`
   is EvaluateBundleCtx over the archive, `run_bundle` = bundle then resolve_bun.
   Evaluation is abstracted to the resolved import tree: which file contents are
   read, how each is decoded (script / implicit decoder by extension / explicit
   decoder) and in which nesting; trees carry no paths, so equality of trees is
   "same import closure, same bytes".  `like_source q fuel L main` says: if the
   source run resolves to tree t, bundling succeeds and the bundle run resolves
   to the same t; if the source run fails, so does bundle-and-run.  Out-of-fuel
   (import nesting deeper than fuel, in particular cycles) is excluded. *)
From Arrai Require Import Sys.BPath Sys.Bundle Proofs.BundleP Proofs.BundleW.

(* (1) Main theorem, DESIGN 5.3 shape: for EVERY quirk set, every layout and main
   position satisfying the decidable precondition `pre`, on every input whose run
   does not depend on an enabled defective site. *)
Theorem C15_bundle_like_source :
  forall q fuel L main, pre L main = true ->
    run_bundle q fuel L main = run_bundle quirks_off fuel L main ->
    like_source q fuel L main.
Proof. exact bundle_like_source. Qed.
Print Assumptions C15_bundle_like_source.

(* the repaired implementation satisfies it unconditionally *)
Theorem C15_repaired :
  forall fuel L main, pre L main = true -> like_source quirks_off fuel L main.
Proof. exact bundle_like_source_off. Qed.
Print Assumptions C15_repaired.

(* (2) The path-mapping core: a host path below the bundle root is stored under
   prefix ++ (path relative to the root), and the run-time root search over the
   archive commutes with that mapping. *)
Theorem C15_path_mapping :
  forall pre R s, R <> [] -> names pre = true -> names s = true ->
    bundle_path_with pre R (R ++ s) = pre ++ s.
Proof. exact bundle_path_under. Qed.
Print Assumptions C15_path_mapping.

Theorem C15_root_search_commutes :
  forall L R (B : layout) (P : path) x x',
    (forall s, has_gomod B (P ++ s) = true -> has_gomod L (R ++ s) = true) ->
    find_rel L R x = Some x' -> has_gomod B (P ++ rev x') = true -> find_rel B P x = Some x'.
Proof. exact find_rel_sim. Qed.
Print Assumptions C15_root_search_commutes.

Theorem C15_extension_defaulting_commutes :
  forall d r, r <> [] -> add_arrai (d ++ r) = d ++ add_arrai r /\ path_ext (d ++ r) = path_ext r.
Proof. intros d r H. split; [apply add_arrai_app | apply path_ext_app]; exact H. Qed.
Print Assumptions C15_extension_defaulting_commutes.

(* (3) Bundling hooks and quirks never change what is compiled from source. *)
Theorem C15_source_run_ignores_quirks :
  forall q fuel L main, resolve_src q fuel L main = resolve_src quirks_off fuel L main.
Proof. exact resolve_src_q. Qed.
Print Assumptions C15_source_run_ignores_quirks.

(* (4) "reads nothing else" / "from any working directory": in the model the bundle
   run is a function of the archive only - resolve_bun takes neither the host layout
   nor a working directory (every path it handles is absolute inside the archive).
   Stated for the record; the differential run checks the Go side with a recording
   afero.Fs and two working directories. *)
Theorem C15_run_depends_only_on_archive :
  forall q fuel L1 m1 L2 m2 a,
    bundle q fuel L1 m1 = Ok a -> bundle q fuel L2 m2 = Ok a ->
    run_bundle q fuel L1 m1 = run_bundle q fuel L2 m2.
Proof. exact run_depends_only_on_archive. Qed.
Print Assumptions C15_run_depends_only_on_archive.

(* (5) Each quirk is a genuine defect (witness = the known finding's replay). *)
Theorem C15_q_unnamed_sentinel_refuted :
  exists L main, pre L main = true /\ ~ like_source only_sentinel 24 L main.
Proof. exact q_unnamed_sentinel_refuted. Qed.
Print Assumptions C15_q_unnamed_sentinel_refuted.

Theorem C15_q_modre_anchored_refuted :
  exists L main, pre L main = true /\ ~ like_source only_modre 24 L main.
Proof. exact q_modre_anchored_refuted. Qed.
Print Assumptions C15_q_modre_anchored_refuted.

Theorem C15_q_cfg_goquote_refuted :
  exists L main, pre L main = true /\ ~ like_source only_cfg 24 L main.
Proof. exact q_cfg_goquote_refuted. Qed.
Print Assumptions C15_q_cfg_goquote_refuted.

(* (6) Non-vacuity: a module layout (main in a sub-directory; ./, /-rooted with "..",
   nested and data imports) satisfies pre and the guard under all quirks on, and
   resolves to a three-child tree. *)
Example C15_nonvacuous :
  exists L main t1 t2 t3,
    pre L main = true /\
    run_bundle quirks_on 24 L main = run_bundle quirks_off 24 L main /\
    resolve_src quirks_on 24 L main = Ok (Node w_ok_main KScript [t1; t2; t3]).
Proof. exact nonvacuous. Qed.
Print Assumptions C15_nonvacuous.

(* Not proved here (limits): the archive is modelled as a finite map with
   first-write-wins and no directory/file conflicts; /config.arrai is a separate
   field (no collision with a bundled file: excluded by `names` of the module
   path in pre); zip encoding, zipfs, the import cache and the root cache are
   transparent by assumption; module (go mod) and URL imports, Windows paths and
   import cycles are outside the model. *)
