From Arrai Require Import Sys.BPath Sys.Bundle.
Example C15_stub : True. Proof. exact I. Qed.
