(* Property C16: local imports stay inside the module, are consistent, and
   cycles fail fast.  Statements only; proofs live in Proofs/GoPathP.v,
   Proofs/ImportP.v and Proofs/ImportCacheP.v.

   resolve q cwd gomod dot name sourceDir  models compilePackage + importLocalFile
   + findRootFromModule + fileValue for `//{./name'}` (dot = true) and
   `//{/name'}` (dot = false), name = "/name'", as (Stat calls, outcome), the
   outcome `Read p` being the exact file name handed to afero.ReadFile.
   q holds one boolean per defective call site (true = the Go code today). *)
From Coq Require Import List ZArith Bool.
From Arrai Require Import Sys.GoPath Sys.Import Sys.ImportCache Proofs.GoPathP Proofs.ImportP Proofs.ImportCacheP.
Import ListNotations.
Open Scope Z_scope.

(* (1) Confinement, for EVERY byte string `name`, every importing directory,
   every working directory and every placement of go.mod files: whenever the
   execution does not depend on an enabled quirk, the file read lies strictly
   beneath the importing script's directory (./ form) or beneath a directory
   that holds a go.mod (/ form). *)
Theorem C16_confinement :
  forall (q : Quirks) (cwd : str) (gomod : str -> bool) (dot : bool) (name source_dir : str) stats p,
    resolve q cwd gomod dot name source_dir = resolve quirks_off cwd gomod dot name source_dir ->
    resolve q cwd gomod dot name source_dir = (stats, Read p) ->
    if dot then beneath source_dir p
    else exists root, gomod root = true /\ root <> [] /\ beneath root p.
Proof. exact resolve_confined. Qed.
Print Assumptions C16_confinement.

(* the repaired model is confined on all inputs, no guard *)
Theorem C16_confinement_repaired :
  forall cwd gomod dot name source_dir stats p,
    resolve quirks_off cwd gomod dot name source_dir = (stats, Read p) ->
    confined gomod dot source_dir p.
Proof. exact resolve_off_confined. Qed.
Print Assumptions C16_confinement_repaired.

(* the directory a //{/...} import is confined to is the specification's module
   root of the importing directory: the nearest ancestor-or-self holding go.mod *)
Theorem C16_root_import_confined_to_nearest_module :
  forall (q : Quirks) cwd gomod name source_dir stats p,
    resolve q cwd gomod false name source_dir = resolve quirks_off cwd gomod false name source_dir ->
    resolve q cwd gomod false name source_dir = (stats, Read p) ->
    exists root, Root gomod (abs_path cwd source_dir) (Some root) /\ gomod root = true /\ root <> [] /\ beneath root p.
Proof.
  intros q cwd gomod name sd stats p Hg H. rewrite Hg in H.
  exact (resolve_off_confined_at cwd gomod false name sd stats p H).
Qed.
Print Assumptions C16_root_import_confined_to_nearest_module.

Theorem C16_module_root_unique : forall gomod cur a b, Root gomod cur a -> Root gomod cur b -> a = b.
Proof. exact Root_unique. Qed.
Print Assumptions C16_module_root_unique.

(* the per-evaluation root cache (LoadRoot first, StoreRoot for every directory
   passed by a successful walk) is transparent: starting from the empty cache,
   whatever was resolved earlier, the cached search answers the specification's
   root and keeps the cache sound *)
Theorem C16_root_cache_transparent :
  forall gomod fuel c cur r c',
    cache_sound gomod c ->
    find_root_cached fuel gomod c cur = Some (r, c') ->
    Root gomod cur r /\ cache_sound gomod c'.
Proof. exact find_root_cached_transparent. Qed.
Print Assumptions C16_root_cache_transparent.

Theorem C16_empty_root_cache_sound : forall gomod, cache_sound gomod [].
Proof. exact cache_sound_nil. Qed.
Print Assumptions C16_empty_root_cache_sound.

(* a ./ import from a directory that is inside the module stays inside the module *)
Theorem C16_relative_import_stays_in_module :
  forall q cwd gomod name source_dir stats p root,
    within root source_dir ->
    resolve q cwd gomod true name source_dir = resolve quirks_off cwd gomod true name source_dir ->
    resolve q cwd gomod true name source_dir = (stats, Read p) -> beneath root p.
Proof. exact resolve_rel_within_root. Qed.
Print Assumptions C16_relative_import_stays_in_module.

(* the building block the code relies on: deleting "../" from a path made of
   ordinary names never creates an empty, "." or ".." segment *)
Theorem C16_strip_dotdot_keeps_segments_ordinary :
  forall s, run S0 s = SN -> run S0 (strip_dotdotslash s) = SN.
Proof. exact strip_keeps_ok. Qed.
Print Assumptions C16_strip_dotdot_keeps_segments_ordinary.

Theorem C16_segment_automaton_means_ordinary_names :
  forall s, run S0 s = SN -> split s <> [] /\ Forall (fun x => normalb x = true) (split s).
Proof. exact run_ok_normals. Qed.
Print Assumptions C16_segment_automaton_means_ordinary_names.

Theorem C16_clean_idempotent : forall s, clean (clean s) = clean s.
Proof. exact clean_idempotent. Qed.
Print Assumptions C16_clean_idempotent.

(* the decision procedure used by the check and by the refutations is complete *)
Theorem C16_beneathb_complete : forall d p, beneath d p -> beneathb d p = true.
Proof. exact beneathb_complete. Qed.
Print Assumptions C16_beneathb_complete.

(* (2) Consistency: the file read depends on the cleaned name only; spellings
   that differ by "/./", "//" or "x/../" clean to the same name. *)
Theorem C16_same_clean_name_same_file :
  forall q cwd gomod (dot : bool) n1 n2 source_dir,
    has_prefix [47] n1 = true -> has_prefix [47] n2 = true ->
    q_import_trim_after_join q = false ->
    clean ((if dot then [46] else []) ++ trim_ws n1) = clean ((if dot then [46] else []) ++ trim_ws n2) ->
    resolve q cwd gomod dot n1 source_dir = resolve q cwd gomod dot n2 source_dir.
Proof. exact resolve_same_clean_same_file. Qed.
Print Assumptions C16_same_clean_name_same_file.

Theorem C16_spelling_dot : forall a b, a <> [] -> clean (a ++ 47 :: 46 :: 47 :: b) = clean (a ++ 47 :: b).
Proof. exact clean_spelling_dot. Qed.
Print Assumptions C16_spelling_dot.

Theorem C16_spelling_double_slash : forall a b, a <> [] -> clean (a ++ 47 :: 47 :: b) = clean (a ++ 47 :: b).
Proof. exact clean_spelling_slash. Qed.
Print Assumptions C16_spelling_double_slash.

Theorem C16_spelling_detour : forall a x b, a <> [] -> normalb x = true ->
  clean (a ++ 47 :: x ++ 47 :: 46 :: 46 :: 47 :: b) = clean (a ++ 47 :: b).
Proof. exact clean_spelling_detour. Qed.
Print Assumptions C16_spelling_detour.

(* (3) Import graphs.  For every finite graph the protocol terminates (both
   today's and the repaired one: the fuel |files|+1 is never exhausted) ... *)
Theorem C16_compile_terminates :
  forall (hang : bool) (g : graph) (imps : list key), fst (compile_main hang g imps) <> COutOfFuel.
Proof. exact compile_main_terminates. Qed.
Print Assumptions C16_compile_terminates.

(* ... the repaired protocol never waits on itself; with the quirk on this holds
   on the executions that do not reach it *)
Theorem C16_cycles_fail_fast :
  forall (hang : bool) g imps,
    compile_main hang g imps = compile_main false g imps ->
    fst (compile_main hang g imps) <> CHang /\ fst (compile_main hang g imps) <> COutOfFuel.
Proof.
  intros hang g imps E. split; [rewrite E; apply compile_main_no_hang | apply compile_main_terminates].
Qed.
Print Assumptions C16_cycles_fail_fast.

(* ... it reports a cycle only when the import relation has one reachable from the main script ... *)
Theorem C16_cycle_error_is_a_cycle :
  forall g imps st, compile_main false g imps = (CErrCycle, st) ->
    exists i c, In i imps /\ reach g i c /\ plus g c c.
Proof. exact compile_main_cycle_sound. Qed.
Print Assumptions C16_cycle_error_is_a_cycle.

(* ... and succeeds only when there is none *)
Theorem C16_success_means_acyclic :
  forall g imps st, compile_main false g imps = (COk, st) ->
    forall i c, In i imps -> reach g i c -> ~ plus g c c.
Proof. exact compile_main_ok_acyclic. Qed.
Print Assumptions C16_success_means_acyclic.

(* ---------- refutations of the unguarded statement on today's code ---------- *)
Lemma C16_q_import_trim_after_join_refuted_relative :
  exists name sd stats p,
    resolve (only true false false) [47; 99] no_gomod true name sd = (stats, Read p) /\ ~ confined no_gomod true sd p.
Proof. exact late_trim_refuted_rel. Qed.

Lemma C16_q_import_trim_after_join_refuted_root :
  exists name sd stats p,
    resolve (only true false false) [47; 99] (gomod_at [47; 114]) false name sd = (stats, Read p) /\
    forall root, gomod_at [47; 114] root = true -> ~ beneath root p.
Proof. exact late_trim_refuted_root. Qed.

Lemma C16_q_import_dir_as_file_refuted :
  exists name sd stats p,
    resolve (only false true false) [47; 99] no_gomod true name sd = (stats, Read p) /\ ~ confined no_gomod true sd p.
Proof. exact dir_as_file_refuted. Qed.

(* a.arrai = //{./b}, b.arrai = //{./a}; main script a: the second import of b waits on itself *)
Lemma C16_q_import_cycle_hangs_refuted :
  fst (compile_main true [(1, [2]); (2, [1])] [2]) = CHang /\
  fst (compile_main false [(1, [2]); (2, [1])] [2]) = CErrCycle.
Proof. vm_compute. split; reflexivity. Qed.

(* non-vacuity *)
Example C16_nonvacuous_resolution :
  resolve quirks_go [47; 99] (gomod_at [47; 114]) true [47; 46; 47; 97; 47; 47; 98; 47; 46; 46; 47; 121; 32] [47; 114; 47; 115]
    = ([], Read [47; 114; 47; 115; 47; 97; 47; 121; 46; 97; 114; 114; 97; 105]) /\
  resolve quirks_go [47; 99] (gomod_at [47; 114]) true [47; 46; 47; 97; 47; 47; 98; 47; 46; 46; 47; 121; 32] [47; 114; 47; 115]
    = resolve quirks_off [47; 99] (gomod_at [47; 114]) true [47; 46; 47; 97; 47; 47; 98; 47; 46; 46; 47; 121; 32] [47; 114; 47; 115] /\
  resolve quirks_go [47; 99] (gomod_at [47; 114]) false [47; 97; 47; 46; 46; 47; 46; 46; 47; 121] [47; 114; 47; 115]
    = resolve quirks_off [47; 99] (gomod_at [47; 114]) false [47; 97; 47; 46; 46; 47; 46; 46; 47; 121] [47; 114; 47; 115] /\
  snd (resolve quirks_off [47; 99] (gomod_at [47; 114]) false [47; 97; 47; 46; 46; 47; 46; 46; 47; 121] [47; 114; 47; 115])
    = Read [47; 114; 47; 121; 46; 97; 114; 114; 97; 105].
Proof. exact resolve_nonvacuous. Qed.

Example C16_nonvacuous_graph :
  compile_main true [(1, [2; 3]); (2, [3]); (3, [])] [1; 2] = compile_main false [(1, [2; 3]); (2, [3]); (3, [])] [1; 2] /\
  fst (compile_main true [(1, [2; 3]); (2, [3]); (3, [])] [1; 2]) = COk.
Proof. vm_compute. split; reflexivity. Qed.
