(* Property C06: < is a strict total order consistent with =, and sorting follows it.
   Statements only.  PARTIAL: the theorems cover (i) the construction every Go
   Less method follows - kind tie-break over per-kind comparisons, offset-then-
   content, element-wise lexicographic lifting - proving that it yields a strict
   total order whose Eq is identity whenever the pieces are, (ii) the side
   conditions on the Kind() numbers, re-instantiated on the table regenerated
   from the running code on every check, and (iii) the specification order of
   canonical values.  The closure of the recursion through generic sets sorted
   by the order itself, and the Dict/Relation/UnionSet comparisons, are not
   proved; they are covered by the implementation-side oracle (trichotomy,
   transitivity, derived operators, sort stability over the whole value pool)
   and by the correspondence of [rless] with the implementation. *)
From Arrai Require Import Base.Val Spec.SetAlg Eval.Interp Proofs.ValOrder Rep.Less Gen.Kinds Proofs.LessP Proofs.SortP.

(* the bundle: reflexive-Eq, Eq is identity, antisymmetric, transitive *)
Theorem C06_kind_tiebreak_is_total_order :
  forall (V K : Type) (kind : V -> K) (rank : K -> Z) (kc : K -> V -> V -> comparison),
    (forall a b, rank (kind a) = rank (kind b) -> kind a = kind b) ->
    (forall k a b c, kind a = k -> kind b = k -> kind c = k -> ordR (kc k) a b c) ->
    forall a b c, ordR (gcmp kind rank kc) a b c.
Proof. exact @gcmp_ordR. Qed.
Print Assumptions C06_kind_tiebreak_is_total_order.

Theorem C06_lexicographic_lifting :
  forall (A : Type) (cmp : A -> A -> comparison) (Q : A -> Prop),
    (forall x y z, Q x -> Q y -> Q z -> ordR cmp x y z) ->
    forall l m k, Forall Q l -> Forall Q m -> Forall Q k -> ordR (lcmp cmp) l m k.
Proof. exact @lcmp_ordR. Qed.
Print Assumptions C06_lexicographic_lifting.

Theorem C06_offset_then_content :
  forall (A : Type) (cmp : A -> A -> comparison) (Q : A -> Prop),
    (forall x y z, Q x -> Q y -> Q z -> ordR cmp x y z) ->
    forall p q r, Q (snd p) -> Q (snd q) -> Q (snd r) -> ordR (occmp cmp) p q r.
Proof. exact @occmp_ordR. Qed.
Print Assumptions C06_offset_then_content.

(* the Kind() numbers of the running code are pairwise distinct on every kind a
   value can have (incl. @neg wrappers), positive, and put numbers first *)
Theorem C06_kind_numbers_injective :
  forall a b, In a simple_kinds -> In b simple_kinds ->
    knum_of kind_table a = knum_of kind_table b -> a = b.
Proof. exact current_kinds_injective. Qed.
Print Assumptions C06_kind_numbers_injective.

(* exactly one of a < b, a = b, b < a; < transitive: the specification order *)
Theorem C06_trichotomy_and_transitivity_spec :
  forall a b c, vcmp a a = Eq /\ (vcmp a b = Eq -> a = b) /\
                vcmp b a = CompOpp (vcmp a b) /\
                (vcmp a b = Lt -> vcmp b c = Lt -> vcmp a c = Lt).
Proof. exact vcmp_ordR. Qed.
Print Assumptions C06_trichotomy_and_transitivity_spec.

(* sorting by any comparison with the order laws is canonical: the same members - presented in any
   order, with any repetitions - always yield the same strictly increasing sequence *)
Theorem C06_sorting_same_members_same_sequence :
  forall (A : Type) (cmp : A -> A -> comparison) (Q : A -> Prop),
    (forall x y z, Q x -> Q y -> Q z -> ordR cmp x y z) ->
    forall l l', Forall Q l -> Forall Q l' -> (forall x, In x l <-> In x l') -> gsort cmp l = gsort cmp l'.
Proof. exact @gsort_same_members. Qed.
Print Assumptions C06_sorting_same_members_same_sequence.

Theorem C06_sorted_sequence_strictly_increasing :
  forall (A : Type) (cmp : A -> A -> comparison) (Q : A -> Prop),
    (forall x y z, Q x -> Q y -> Q z -> ordR cmp x y z) ->
    forall l, Forall Q l -> gsorted cmp (gsort cmp l) /\ NoDup (gsort cmp l).
Proof. exact @gsort_strictly_increasing. Qed.
Print Assumptions C06_sorted_sequence_strictly_increasing.

(* ... in particular for the specification order (orderby ., printed member order) *)
Theorem C06_spec_sort_depends_on_members_only :
  forall l l', (forall x, In x l <-> In x l') -> vsort l = vsort l'.
Proof. exact vsort_same_members. Qed.
Print Assumptions C06_spec_sort_depends_on_members_only.

(* non-vacuity / probes of the property text on the model of the Go order *)
Example C06_probe :
  rless (knum_of kind_table) 20 (VSet []) (VTup [([97], vint 1)]) = Some true /\
  rless (knum_of kind_table) 20 (VTup [([97], vint 1)]) (VSet []) = Some false /\
  rless (knum_of kind_table) 20 (vstr [97]) (VSet (vseq_from n_char 1 [vint 97])) = Some true.
Proof. vm_compute. repeat split. Qed.
