(* Property C06: < is a strict total order consistent with =, and sorting follows it.
   Statements only.  The theorems cover (i) the executable model of the Go
   ordering (Rep/Less.v rcmp / rless: every Less method, incl. Dict, Relation and
   UnionSet, transcribed) - total on every value the Go representations can hold,
   irreflexive, consistent with =, asymmetric, total and transitive for every fuel
   above 2 * depth + 1, the recursion through sets "sorted by the order itself"
   closed by nested induction on the depth (C06_go_order_is_strict_total_order);
   (ii) the construction every Go Less method follows - kind tie-break over
   per-kind comparisons, offset-then-content, element-wise lexicographic lifting;
   (iii) the side conditions on the Kind() numbers, re-instantiated on the table
   regenerated from the running code on every check; (iv) the specification
   order of canonical values; (v) sorting by any comparison with the order laws
   is canonical.  Outside the domain of (i): hand-written nested @neg tuples,
   where the model - like the code - panics (C06_go_order_nested_neg_refuted). *)
From Arrai Require Import Base.Val Spec.SetAlg Eval.Interp Proofs.ValOrder Rep.Less Gen.Kinds Proofs.LessP Proofs.SortP Proofs.LessTotalP.

(* the bundle: reflexive-Eq, Eq is identity, antisymmetric, transitive *)
Theorem C06_kind_tiebreak_is_total_order :
  forall (V K : Type) (kind : V -> K) (rank : K -> Z) (kc : K -> V -> V -> comparison),
    (forall a b, rank (kind a) = rank (kind b) -> kind a = kind b) ->
    (forall k a b c, kind a = k -> kind b = k -> kind c = k -> ordR (kc k) a b c) ->
    forall a b c, ordR (gcmp kind rank kc) a b c.
Proof. exact @gcmp_ordR. Qed.
Print Assumptions C06_kind_tiebreak_is_total_order.

Theorem C06_lexicographic_lifting :
  forall (A : Type) (cmp : A -> A -> comparison) (Q : A -> Prop),
    (forall x y z, Q x -> Q y -> Q z -> ordR cmp x y z) ->
    forall l m k, Forall Q l -> Forall Q m -> Forall Q k -> ordR (lcmp cmp) l m k.
Proof. exact @lcmp_ordR. Qed.
Print Assumptions C06_lexicographic_lifting.

Theorem C06_offset_then_content :
  forall (A : Type) (cmp : A -> A -> comparison) (Q : A -> Prop),
    (forall x y z, Q x -> Q y -> Q z -> ordR cmp x y z) ->
    forall p q r, Q (snd p) -> Q (snd q) -> Q (snd r) -> ordR (occmp cmp) p q r.
Proof. exact @occmp_ordR. Qed.
Print Assumptions C06_offset_then_content.

(* the Kind() numbers of the running code are pairwise distinct on every kind a
   value can have (incl. @neg wrappers), positive, and put numbers first *)
Theorem C06_kind_numbers_injective :
  forall a b, In a simple_kinds -> In b simple_kinds ->
    knum_of kind_table a = knum_of kind_table b -> a = b.
Proof. exact current_kinds_injective. Qed.
Print Assumptions C06_kind_numbers_injective.

(* exactly one of a < b, a = b, b < a; < transitive: the specification order *)
Theorem C06_trichotomy_and_transitivity_spec :
  forall a b c, vcmp a a = Eq /\ (vcmp a b = Eq -> a = b) /\
                vcmp b a = CompOpp (vcmp a b) /\
                (vcmp a b = Lt -> vcmp b c = Lt -> vcmp a c = Lt).
Proof. exact vcmp_ordR. Qed.
Print Assumptions C06_trichotomy_and_transitivity_spec.

(* sorting by any comparison with the order laws is canonical: the same members - presented in any
   order, with any repetitions - always yield the same strictly increasing sequence *)
Theorem C06_sorting_same_members_same_sequence :
  forall (A : Type) (cmp : A -> A -> comparison) (Q : A -> Prop),
    (forall x y z, Q x -> Q y -> Q z -> ordR cmp x y z) ->
    forall l l', Forall Q l -> Forall Q l' -> (forall x, In x l <-> In x l') -> gsort cmp l = gsort cmp l'.
Proof. exact @gsort_same_members. Qed.
Print Assumptions C06_sorting_same_members_same_sequence.

Theorem C06_sorted_sequence_strictly_increasing :
  forall (A : Type) (cmp : A -> A -> comparison) (Q : A -> Prop),
    (forall x y z, Q x -> Q y -> Q z -> ordR cmp x y z) ->
    forall l, Forall Q l -> gsorted cmp (gsort cmp l) /\ NoDup (gsort cmp l).
Proof. exact @gsort_strictly_increasing. Qed.
Print Assumptions C06_sorted_sequence_strictly_increasing.

(* ... in particular for the specification order (orderby ., printed member order) *)
Theorem C06_spec_sort_depends_on_members_only :
  forall l l', (forall x, In x l <-> In x l') -> vsort l = vsort l'.
Proof. exact vsort_same_members. Qed.
Print Assumptions C06_spec_sort_depends_on_members_only.

(* THE GO ORDER IS A STRICT TOTAL ORDER.  For all canonical values a, b, c that the Go
   representations can hold (go_ok: sugar tuples well typed, no two sequence items at one
   index, no hand-written nested @neg) and every fuel above twice their depth, with the
   Kind() numbers of the running code: a < b is defined (no panic, no fuel shortage);
   never a < a; if neither a < b nor b < a then a = b; a < b excludes b < a; distinct
   values are ordered one way or the other; < is transitive. *)
Theorem C06_go_order_is_strict_total_order :
  forall a b c f,
    Canon a -> go_ok a = true -> Canon b -> go_ok b = true -> Canon c -> go_ok c = true ->
    (2 * Nat.max (vdepth a) (Nat.max (vdepth b) (vdepth c)) + 1 <= f)%nat ->
    let lt := rless (knum_of kind_table) f in
    (exists r, lt a b = ROk r) /\
    lt a a = ROk false /\
    (lt a b = ROk false -> lt b a = ROk false -> a = b) /\
    (lt a b = ROk true -> lt b a = ROk false) /\
    (a <> b -> lt a b = ROk true \/ lt b a = ROk true) /\
    (lt a b = ROk true -> lt b c = ROk true -> lt a c = ROk true).
Proof.
  exact (fun a b c f Ca Ga Cb Gb Cc Gc =>
           go_less_laws kind_table current_kinds_ok a b c f (conj Ca Ga) (conj Cb Gb) (conj Cc Gc)).
Qed.
Print Assumptions C06_go_order_is_strict_total_order.

(* the same for any Kind() table with the side conditions of C06_kind_numbers_injective,
   as the order bundle on the comparison itself *)
Theorem C06_go_order_bundle :
  forall t, check_kinds t = true ->
  forall a b c f, Canon a /\ go_ok a = true -> Canon b /\ go_ok b = true -> Canon c /\ go_ok c = true ->
    (2 * Nat.max (vdepth a) (Nat.max (vdepth b) (vdepth c)) + 1 <= f)%nat ->
    (exists r, rcmp (knum_of t) f a b = ROk r) /\
    ordR (fun x y => match rcmp (knum_of t) f x y with ROk r => r | _ => Eq end) a b c.
Proof. exact go_order_total. Qed.
Print Assumptions C06_go_order_bundle.

(* SETS SORTED BY THE ORDER ITSELF.  The member sequence a Go comparison walks (sort.Slice /
   OrderedElements by Less; insertion sort in the model) is strictly increasing in the Go order,
   has no repetition, and is the same for every enumeration order of the same members: so the
   comparison of two sets does not depend on hash seeds or construction order *)
Theorem C06_go_order_sorted_enumeration :
  forall l f, Canon (VSet l) /\ go_ok (VSet l) = true -> (2 * vdepth (VSet l) + 1 <= f)%nat ->
    let c := fun x y => match rcmp (knum_of kind_table) f x y with ROk r => r | _ => Eq end in
    gsorted c (isort c l) /\ NoDup (isort c l) /\
    forall l', NoDup l' -> (forall x, In x l' <-> In x l) -> isort c l' = isort c l.
Proof. exact (go_enumeration_sorted kind_table current_kinds_ok). Qed.
Print Assumptions C06_go_order_sorted_enumeration.

(* outside that domain: the hand-written (@neg: (@neg: 1)) has the Kind() number of a
   number, and comparing it with a number panics in the model as it does in the code
   (open finding KF-C06-01, witness re-run on every check) *)
Theorem C06_go_order_nested_neg_refuted :
  exists a b, Canon a /\ Canon b /\ go_ok a = false /\
    forall f, rless (knum_of kind_table) (S f) a b = RPanic.
Proof.
  exists (VTup [(n_neg, VTup [(n_neg, vint 1)])]), (vint 2).
  split; [reflexivity|]. split; [reflexivity|]. split; [reflexivity|].
  exact (fun f => nested_neg_panics (knum_of kind_table) f eq_refl).
Qed.
Print Assumptions C06_go_order_nested_neg_refuted.

(* the other two exclusions of go_ok are needed as well: two sequence items at one index
   (no Go representation: open finding of C01) make two different values incomparable,
   and a sugar tuple with a fractional index (rejected by NewTuple) makes the model panic *)
Theorem C06_go_order_domain_is_tight :
  (exists a b, Canon a /\ Canon b /\ a <> b /\ go_ok a = false /\
     rless (knum_of kind_table) 9 a b = ROk false /\ rless (knum_of kind_table) 9 b a = ROk false) /\
  (exists a, Canon a /\ go_ok a = false /\ rless (knum_of kind_table) 9 a a = RPanic).
Proof.
  split.
  - exists (VSet [vitem 0 (vint 1); vitem 0 (vint 2)]), (VSet [vitem 0 (vint 1)]).
    split; [reflexivity|]. split; [reflexivity|]. split; [discriminate|]. vm_compute. repeat split.
  - exists (VSet [vpair n_char (VNum (NHalf 0)) (vint 97)]).
    split; [reflexivity|]. vm_compute. split; reflexivity.
Qed.
Print Assumptions C06_go_order_domain_is_tight.

(* the hypotheses are satisfiable by non-trivial values: a dict with two values under one key,
   a union set of three buckets, a relation; and the model orders them Dict < UnionSet < Relation *)
Example C06_go_order_example :
  let a := VSet [ventry (vint 1) (vint 2); ventry (vint 1) (vint 3)] in
  let b := VSet [vint 1; vpair n_char (vint 0) (vint 97); VTup [([97], vint 1)]] in
  let c := VSet [VTup [([97], vint 1); ([98], vstr [120])]; VTup [([97], vint 2); ([98], vint 0)]] in
  (Canon a /\ go_ok a = true) /\ (Canon b /\ go_ok b = true) /\ (Canon c /\ go_ok c = true) /\
  (2 * Nat.max (vdepth a) (Nat.max (vdepth b) (vdepth c)) + 1 <= 9)%nat /\
  rless (knum_of kind_table) 9 a b = ROk true /\ rless (knum_of kind_table) 9 b c = ROk true /\
  rless (knum_of kind_table) 9 a c = ROk true /\ rless (knum_of kind_table) 9 c a = ROk false.
Proof. vm_compute. repeat split; try reflexivity. Qed.

(* non-vacuity / probes of the property text on the model of the Go order *)
Example C06_probe :
  rless (knum_of kind_table) 20 (VSet []) (VTup [([97], vint 1)]) = ROk true /\
  rless (knum_of kind_table) 20 (VTup [([97], vint 1)]) (VSet []) = ROk false /\
  rless (knum_of kind_table) 20 (vstr [97]) (VSet (vseq_from n_char 1 [vint 97])) = ROk true.
Proof. vm_compute. repeat split. Qed.
