(* Property C14: //seq functions give the same answer for strings, byte arrays
   and arrays, and each agrees with its textbook definition.
   This file contains statements only; proofs live in Proofs/SeqStdP.v. *)
From Arrai Require Import Base.Val Sys.SeqStd Proofs.SeqStdP.

(* (1) Every supported encoding computes the encoding-free abstract answer,
       hence any two encodings give corresponding results. *)
Theorem C14_encoding_independent :
  forall e c, supported e c = true -> forget (run_call e c) = spec_call c.
Proof. exact run_call_spec. Qed.
Print Assumptions C14_encoding_independent.

Theorem C14_any_two_encodings_agree :
  forall e1 e2 c, supported e1 c = true -> supported e2 c = true ->
  forget (run_call e1 c) = forget (run_call e2 c).
Proof. exact run_call_encoding_independent. Qed.
Print Assumptions C14_any_two_encodings_agree.

(* (2) The abstract answer is the textbook one. *)
Theorem C14_contains_iff_window :
  forall sub s, ref_contains Z.eqb sub s = true <-> exists l r, s = l ++ sub ++ r.
Proof. exact (contains_spec Z.eqb Zeqb_spec). Qed.
Print Assumptions C14_contains_iff_window.

Theorem C14_search_finds_least_occurrence :
  forall sub s k, index Z.eqb sub s = Some k <->
    0 <= k /\ occurs_at sub s (Z.to_nat k) /\
    forall n, (n < Z.to_nat k)%nat -> ~ occurs_at sub s n.
Proof. exact (index_least Z.eqb Zeqb_spec). Qed.
Print Assumptions C14_search_finds_least_occurrence.

Theorem C14_has_prefix_iff : forall p s, ref_has_prefix Z.eqb p s = true <-> exists t, s = p ++ t.
Proof. exact (has_prefix_spec Z.eqb Zeqb_spec). Qed.
Print Assumptions C14_has_prefix_iff.

Theorem C14_has_suffix_iff : forall p s, ref_has_suffix Z.eqb p s = true <-> exists l, s = l ++ p.
Proof. exact (has_suffix_spec Z.eqb Zeqb_spec). Qed.
Print Assumptions C14_has_suffix_iff.

Theorem C14_join_inverts_split :
  forall sep s, sep <> [] -> ref_join sep (ref_split Z.eqb sep s) = s.
Proof. exact (join_split Z.eqb Zeqb_spec). Qed.
Print Assumptions C14_join_inverts_split.

Theorem C14_split_pieces_free_of_separator :
  forall sep s, sep <> [] ->
    Forall (fun p => ref_contains Z.eqb sep p = false) (ref_split Z.eqb sep s).
Proof. exact (split_pieces Z.eqb Zeqb_spec). Qed.
Print Assumptions C14_split_pieces_free_of_separator.

Theorem C14_trim_prefix_exact :
  forall p s, (forall t, s = p ++ t -> ref_trim_prefix Z.eqb p s = t) /\
              ((forall t, s <> p ++ t) -> ref_trim_prefix Z.eqb p s = s).
Proof. exact (trim_prefix_spec Z.eqb Zeqb_spec). Qed.
Print Assumptions C14_trim_prefix_exact.

Theorem C14_trim_suffix_exact :
  forall p s, (forall l, s = l ++ p -> ref_trim_suffix Z.eqb p s = l) /\
              ((forall l, s <> l ++ p) -> ref_trim_suffix Z.eqb p s = s).
Proof. exact (trim_suffix_spec Z.eqb Zeqb_spec). Qed.
Print Assumptions C14_trim_suffix_exact.

(* sub is split-then-join (leftmost, non-overlapping replacement) *)
Theorem C14_sub_is_split_join :
  forall old new s, old <> [] -> ref_sub Z.eqb old new s = ref_join new (ref_split Z.eqb old s).
Proof. intros old new s H; destruct old; [congruence | reflexivity]. Qed.
Print Assumptions C14_sub_is_split_join.

(* non-vacuity: a self-overlapping pattern, the probe of the property text *)
Example C14_probe_overlap :
  run_call EArr (CContains [1;1;2] [1;1;1;2]) = RBool true /\
  run_call EArr (CHasSuffix [9;3] [1;2;3]) = RBool false /\
  supported EArr (CContains [1;1;2] [1;1;1;2]) = true.
Proof. vm_compute. repeat split. Qed.
