(* Property C01: set algebra is exact for every mix of value representations.
   Statements only; proofs in Proofs/SetAlgP.v and Proofs/ValOrder.v.

   The reference semantics (Eval/Interp.v) gives every data value ONE canonical
   mathematical form (Base/Val.v): a set is its strictly sorted member list.
   The theorems below say that the operators of the set-algebra family compute
   exactly the mathematical result on such sets, that the result is again
   canonical (so it can feed later operators: "values produced by earlier
   operators"), that canonical sets are extensional, and that count is the
   number of distinct members.  The Go representations (String, Bytes, Array,
   Dict, Relation, UnionSet, GenericSet, True/Empty) are tied to this semantics
   by the correspondence run, which compares the denotation of every
   implementation result with [run_data]. *)
From Arrai Require Import Base.Val Spec.SetAlg Eval.Interp Proofs.ValOrder Proofs.SetAlgP Sys.Heap Rep.SeqRep Proofs.WfP Proofs.WhereP.

Theorem C01_order_is_total_and_eq_is_identity :
  forall a b c, vcmp a a = Eq /\ (vcmp a b = Eq -> a = b) /\
                vcmp b a = CompOpp (vcmp a b) /\
                (vcmp a b = Lt -> vcmp b c = Lt -> vcmp a c = Lt).
Proof. exact vcmp_ordR. Qed.
Print Assumptions C01_order_is_total_and_eq_is_identity.

Theorem C01_sets_are_extensional :
  forall l m, ssorted l -> ssorted m -> (forall x, In x l <-> In x m) -> VSet l = VSet m.
Proof. intros l m Hl Hm H; f_equal; exact (ssorted_ext l m Hl Hm H). Qed.
Print Assumptions C01_sets_are_extensional.

Theorem C01_union : forall a b x, In x (s_union a b) <-> In x a \/ In x b.
Proof. exact s_union_spec. Qed.
Print Assumptions C01_union.
Theorem C01_intersection : forall a b x, In x (s_inter a b) <-> In x a /\ In x b.
Proof. exact s_inter_spec. Qed.
Print Assumptions C01_intersection.
Theorem C01_difference : forall a b x, In x (s_diff a b) <-> In x a /\ ~ In x b.
Proof. exact s_diff_spec. Qed.
Print Assumptions C01_difference.
Theorem C01_symmetric_difference :
  forall a b x, In x (s_symdiff a b) <-> (In x a /\ ~ In x b) \/ (In x b /\ ~ In x a).
Proof. exact s_symdiff_spec. Qed.
Print Assumptions C01_symmetric_difference.
Theorem C01_with : forall a v x, In x (s_with a v) <-> x = v \/ In x a.
Proof. exact s_with_spec. Qed.
Print Assumptions C01_with.
Theorem C01_without : forall a v x, In x (s_without a v) <-> In x a /\ x <> v.
Proof. exact s_without_spec. Qed.
Print Assumptions C01_without.
Theorem C01_member : forall x l, vmem x l = true <-> In x l.
Proof. exact vmem_in. Qed.
Print Assumptions C01_member.
Theorem C01_subset_or_equal : forall a b, s_subseteq a b = true <-> (forall x, In x a -> In x b).
Proof. exact s_subseteq_spec. Qed.
Print Assumptions C01_subset_or_equal.
Theorem C01_proper_subset :
  forall a b, s_subset a b = true <-> (forall x, In x a -> In x b) /\ exists y, In y b /\ ~ In y a.
Proof. exact s_subset_spec. Qed.
Print Assumptions C01_proper_subset.
Theorem C01_power_set :
  forall a, ssorted a -> forall s, In s (s_pow a) <->
    exists l, s = VSet l /\ ssorted l /\ forall x, In x l -> In x a.
Proof. exact s_pow_spec. Qed.
Print Assumptions C01_power_set.

(* results are canonical again, so they compose *)
Theorem C01_results_canonical :
  forall a b v, ssorted a ->
    ssorted (s_union a b) /\ ssorted (s_inter a b) /\ ssorted (s_diff a b) /\
    ssorted (s_symdiff a b) /\ ssorted (s_with a v) /\ ssorted (s_without a v) /\ ssorted (s_pow a).
Proof.
  intros a b v Ha. repeat split;
    [apply s_union_canon | apply s_inter_canon, Ha | apply s_diff_canon, Ha | apply s_symdiff_canon
    | apply s_with_canon, Ha | apply s_without_canon, Ha | apply s_pow_canon].
Qed.
Print Assumptions C01_results_canonical.

(* count is the number of distinct members: a canonical list has no duplicates *)
Theorem C01_count_is_cardinality : forall l, ssorted l -> NoDup l.
Proof. exact count_is_cardinality. Qed.
Print Assumptions C01_count_is_cardinality.

(* the operators of the expression language are these functions *)
Theorem C01_operators_are_the_set_functions :
  forall a b,
    bin_data BUnion (VSet a) (VSet b) = Ok (VSet (s_union a b)) /\
    bin_data BInter (VSet a) (VSet b) = Ok (VSet (s_inter a b)) /\
    bin_data BDiff (VSet a) (VSet b) = Ok (VSet (s_diff a b)) /\
    bin_data BSymDiff (VSet a) (VSet b) = Ok (VSet (s_symdiff a b)) /\
    (forall v, bin_data BWith (VSet a) v = Ok (VSet (s_with a v))) /\
    (forall v, bin_data BWithout (VSet a) v = Ok (VSet (s_without a v))) /\
    (forall v, cmp_data CMem v (VSet a) = Ok (vmem v a)) /\
    un_data UCount (VSet a) = Ok (vint (Z.of_nat (length a))) /\
    un_data UPow (VSet a) = Ok (VSet (s_pow a)).
Proof. intros; repeat split. Qed.
Print Assumptions C01_operators_are_the_set_functions.

(* non-vacuity: a mixed-representation program of the property's own probe *)
Example C01_probe :
  run_data 50 (EUn UCount (EBin BUnion (EDictE [(ELit (vint 1), ELit (vint 2))])
                                        (EDictE [(ELit (vint 1), ELit (vint 3))])))
  = Ok (vint 2).
Proof. vm_compute. reflexivity. Qed.

(* Representation level: the slice + offset + holes representation of strings (the cell functions
   the heap model of C03 runs against rel/value_set_str.go) refines with / without / membership of
   the denoted set of (@: i, @char: c) members, for every content, offset and position. *)
Theorem C01_string_with_refines :
  forall c off at_ char, c <> [] -> 0 <= char ->
  (get off c at_ = None \/ get off c at_ = Some char) ->
  let (c', off') := with_cells c off at_ char in
  forall j, get off' c' j = if j =? at_ then Some char else get off c j.
Proof. exact with_cells_lookup. Qed.
Print Assumptions C01_string_with_refines.
Theorem C01_string_without_refines :
  forall c off at_ char,
  let (c', off') := without_cells c off at_ char in
  forall j, get off' c' j =
            if (j =? at_) && (match get off c at_ with Some y => y =? char | None => false end)
            then None else get off c j.
Proof. exact without_cells_lookup. Qed.
Print Assumptions C01_string_without_refines.
Theorem C01_string_has_is_membership : forall off c i x, has off c i x = true <-> get off c i = Some x.
Proof. exact has_spec. Qed.
Print Assumptions C01_string_has_is_membership.

(* the set operators are applied to canonical operands whatever earlier operators produced them:
   every intermediate value of every program is canonical (scope and closures included) *)
Theorem C01_operands_are_canonical :
  forall n rho e v, EWF rho -> eval n rho e = Ok (D v) -> Canon v.
Proof. exact eval_canonical. Qed.
Print Assumptions C01_operands_are_canonical.

(* where and => are the comprehensions {x in A | p x} and {f x | x in A}: no member is dropped,
   duplicated or altered, for every operand (whatever produced it), function, scope and fuel *)
Theorem C01_where_is_comprehension :
  forall fuel rho a fn l cenv p body r,
    eval fuel rho a = Ok (D (VSet l)) -> eval fuel rho fn = Ok (Clos cenv p body) ->
    eval (S fuel) rho (EWhere a fn) = Ok (D r) ->
    exists m, r = VSet m /\ forall x, In x m <-> In x l /\ clos_pred fuel cenv p body x = Ok true.
Proof. exact where_is_comprehension. Qed.
Print Assumptions C01_where_is_comprehension.

Theorem C01_darrow_is_image :
  forall fuel rho a fn l cenv p body r,
    eval fuel rho a = Ok (D (VSet l)) -> eval fuel rho fn = Ok (Clos cenv p body) ->
    eval (S fuel) rho (EDArrow a fn) = Ok (D r) ->
    exists m, r = VSet m /\ ssorted m /\ forall y, In y m <-> exists x, In x l /\ clos_img fuel cenv p body x = Ok y.
Proof. exact darrow_is_image. Qed.
Print Assumptions C01_darrow_is_image.

From Arrai Require Import Rep.DictRep Proofs.DictRepP.
(* ---- the dictionary representation (rel/value_set_dict.go transcribed in Rep/DictRep.v: one value or a set of
   several values per key) refines the set of (@: k, @value: v) pairs it denotes.  Invariant: distinct keys and every
   several-values slot holds at least two different values. ---- *)

(* With adds exactly that member, Without removes exactly that member (the last one leaves the empty set); both
   preserve the invariant *)
Theorem C01_dict_with_is_set_with :
  forall d v, dict_ok d = true ->
    res_ok (dict_with d v) /\ (forall y, In y (res_members (dict_with d v)) <-> y = v \/ In y (dict_enum d)) /\
    mkset (res_members (dict_with d v)) = VSet (s_with (vsort (dict_enum d)) v).
Proof. intros d v H. destruct (dict_with_spec d v H) as [A B]. split; [exact A | split; [exact B | apply dict_with_refines, H]]. Qed.
Print Assumptions C01_dict_with_is_set_with.

Theorem C01_dict_without_is_set_without :
  forall d v, dict_ok d = true -> d <> [] ->
    res_ok (dict_without d v) /\ (forall y, In y (res_members (dict_without d v)) <-> In y (dict_enum d) /\ y <> v) /\
    mkset (res_members (dict_without d v)) = VSet (s_without (vsort (dict_enum d)) v).
Proof. intros d v H N. destruct (dict_without_spec d v H N) as [A B]. split; [exact A | split; [exact B | apply dict_without_refines; assumption]]. Qed.
Print Assumptions C01_dict_without_is_set_without.

(* Has is membership; Count is the number of members and no member is enumerated twice *)
Theorem C01_dict_has_is_membership : forall d v, dict_ok d = true -> (dict_has d v = true <-> In v (dict_enum d)).
Proof. exact dict_has_spec. Qed.
Print Assumptions C01_dict_has_is_membership.

Theorem C01_dict_count_is_cardinality :
  forall d, dict_ok d = true -> dict_count d = length (dict_enum d) /\ NoDup (dict_enum d).
Proof. exact dict_count_spec. Qed.
Print Assumptions C01_dict_count_is_cardinality.

(* Where keeps exactly the members the predicate accepts; NewDict builds exactly the given entries *)
Theorem C01_dict_where_is_comprehension :
  forall d p, dict_ok d = true ->
    res_ok (dict_where p d) /\ forall y, In y (res_members (dict_where p d)) <-> In y (dict_enum d) /\ p y = true.
Proof. exact dict_where_spec. Qed.
Print Assumptions C01_dict_where_is_comprehension.

Theorem C01_new_dict_is_the_set_of_its_entries :
  forall es, res_ok (new_dict true es) /\
    forall y, In y (res_members (new_dict true es)) <-> In y (map (fun e => ventry (fst e) (snd e)) es).
Proof. exact new_dict_spec. Qed.
Print Assumptions C01_new_dict_is_the_set_of_its_entries.

(* ... and so after ANY history of With / Without / Where: the representation meets its invariant and denotes
   exactly what the same history computes on plain sets *)
Theorem C01_dict_histories_compute_the_set_operations :
  forall ops r, res_ok r -> in_dict r -> forallb op_in_dict ops = true ->
    res_ok (fold_left dstep ops r) /\ in_dict (fold_left dstep ops r) /\
    forall y, In y (res_members (fold_left dstep ops r)) <-> In y (fold_left sstep ops (res_members r)).
Proof. exact dict_history. Qed.
Print Assumptions C01_dict_histories_compute_the_set_operations.

(* non-vacuity: a key goes from one value to several and back *)
Example C01_dict_probe :
  let e := fun k v => ventry (vint k) (vint v) in
  let r := fold_left dstep [DWith (e 1 3); DWith (e 2 5); DWithout (e 1 2)] (new_dict true [(vint 1, vint 2)]) in
  res_ok r /\ r = RDict [(vint 1, One (vint 3)); (vint 2, One (vint 5))].
Proof. vm_compute. repeat split; discriminate. Qed.


(* the set builder of rel/ (rel.NewSet, transcribed in Rep/Builder.v): a value is a member of the built set exactly when it
   is the denotation of one of the members given - none dropped, none invented - for every member list in the well-formed
   region and on which Equal is sound (see Properties/C02.v C02_builder_denotes_members for both hypotheses) *)
From Arrai Require Import Rep.Builder Proofs.BuilderAllP Proofs.BuilderCorP.
Theorem C01_set_builder_membership :
  forall ms r, build ms = BOk r -> wf_members ms -> equal_sound_on ms ->
    forall v, In v (set_elems (abs r)) <-> exists m, In m ms /\ v = abs m.
Proof. exact set_builder_membership. Qed.
Print Assumptions C01_set_builder_membership.
