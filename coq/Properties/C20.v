(* Property C20: `arrai test` passes exactly when every leaf of every test file
   is the literal true; each leaf is reported once under its path; the summary
   counts add up to the number of leaves; a false, non-boolean or unevaluable
   result fails the run.
   Statements only; proofs live in Proofs/TestRunP.v.  The model (Sys/TestRun.v)
   takes the record q of known-defect flags; every theorem holds for every q
   under the decidable guard `M q x = M quirks_off x`. *)
From Arrai Require Import Base.Val Sys.TestRun Proofs.TestRunP.

(* (1) The run succeeds iff there is at least one selected test file, every
       selected file evaluates to a tree and every leaf of every tree is rel.TrueSet.
       No condition on the trees: any nesting, holes, offsets, odd names, any leaf kinds. *)
Theorem C20_pass_iff_every_leaf_true :
  forall q tg, run_tests q tg = run_tests quirks_off tg ->
    (run_ok (run_tests q tg) = true <->
     exists path n, tg = Some (path, n) /\
       select_spec path n <> [] /\
       Forall (fun f => exists t, snd f = FTree t /\ Forall (fun pl => snd pl = LTrue) (leaves_spec t))
              (select_spec path n)).
Proof. exact pass_iff_all_true. Qed.
Print Assumptions C20_pass_iff_every_leaf_true.

(* (2) ForeachLeaf visits exactly the leaves of the tree, in order, each once,
       with the text of its structured path (names non-empty and not starting with '.'). *)
Theorem C20_walk_visits_exactly_the_leaves :
  forall q t, names_ok t = true -> walk q t [] = walk quirks_off t [] ->
    walk q t [] = map (fun pl => (render (fst pl), Some (snd pl))) (leaves_spec t).
Proof. exact walk_visits_exactly_the_leaves. Qed.
Print Assumptions C20_walk_visits_exactly_the_leaves.

(* (2') without any condition on names: the same leaves in the same order (only the path text may differ) *)
Theorem C20_walk_leaf_sequence :
  forall t arg, map snd (walk quirks_off t arg) = map (fun pl => Some (snd pl)) (leaves_spec t).
Proof. exact walk_off_kinds. Qed.
Print Assumptions C20_walk_leaf_sequence.

(* (3) The report lists, per selected file in walk order, every leaf once with its path text and the outcome of its kind. *)
Theorem C20_report_lists_every_leaf_once :
  forall q path n F s b,
    run_tests q (Some (path, n)) = run_tests quirks_off (Some (path, n)) ->
    trees_ok (select_spec path n) ->
    run_tests q (Some (path, n)) = RunDone F s b ->
    Forall2 (fun f fr => fst fr = fst f /\ exists t, snd f = FTree t /\
                         snd fr = map (fun pl => (render (fst pl), outcome_of (snd pl))) (leaves_spec t))
            (select_spec path n) F.
Proof. exact report_lists_every_leaf_once. Qed.
Print Assumptions C20_report_lists_every_leaf_once.

(* (4) Summary counts: for every q, passed+failed+invalid+ignored = total = number of reported results,
       the error is returned iff failed>0 or invalid>0; inside the guard total = number of leaves. *)
Theorem C20_counts_add_up :
  forall q tg F s b, run_tests q tg = RunDone F s b ->
    s = calc_stats F /\ b = run_failed s /\
    (st_passed s + st_failed s + st_invalid s + st_ignored s = st_total s)%nat /\
    st_total s = length (all_results F).
Proof. exact counts_add_up. Qed.
Print Assumptions C20_counts_add_up.

Theorem C20_total_is_number_of_leaves :
  forall q path n F s b,
    run_tests q (Some (path, n)) = run_tests quirks_off (Some (path, n)) ->
    run_tests q (Some (path, n)) = RunDone F s b ->
    st_total s = list_sum (map file_leaves (select_spec path n)).
Proof. exact total_is_number_of_leaves. Qed.
Print Assumptions C20_total_is_number_of_leaves.

(* (5) A selected file that does not compile or evaluate fails the run; so does any leaf that is not the literal true. *)
Theorem C20_unevaluable_file_fails_run :
  forall q path n f,
    run_tests q (Some (path, n)) = run_tests quirks_off (Some (path, n)) ->
    In f (select_spec path n) -> (forall t, snd f <> FTree t) ->
    run_ok (run_tests q (Some (path, n))) = false.
Proof. exact unevaluable_file_fails_run. Qed.
Print Assumptions C20_unevaluable_file_fails_run.

Theorem C20_nontrue_leaf_fails_run :
  forall q path n f t pl,
    run_tests q (Some (path, n)) = run_tests quirks_off (Some (path, n)) ->
    In f (select_spec path n) -> snd f = FTree t -> In pl (leaves_spec t) -> snd pl <> LTrue ->
    run_ok (run_tests q (Some (path, n))) = false.
Proof. exact nontrue_leaf_fails_run. Qed.
Print Assumptions C20_nontrue_leaf_fails_run.

(* (6) File selection: exactly the files below the target whose path ends in "_test.arrai"
       and that are not under a hidden directory (strictly below the target). *)
Theorem C20_file_selection :
  forall path n p r,
    In (p, r) (select quirks_off true path n) <->
    exists dirs, In (p, dirs, r) (all_files true path [] n) /\
                 forallb (fun d => negb (hidden d)) dirs = true /\ has_suffix p test_suffix = true.
Proof. exact select_off_in. Qed.
Print Assumptions C20_file_selection.

Theorem C20_file_selection_order :
  forall path n, select quirks_off true path n = select_spec path n.
Proof. exact select_off_spec. Qed.
Print Assumptions C20_file_selection_order.

(* NOT PROVED (limit): injectivity of `render` on structured paths.  It is false
   in general (attribute 'a(0)' vs a -> [..]; '' ; 'a.b'), and the per-level
   TrimPrefix makes it false even for names that merely start with '.'.  The
   statement that would complete "reported under its path":
     forall t, wf t -> plain_names t -> NoDup (map (fun pl => render (fst pl)) (leaves_spec t)).
   The correspondence run checks distinctness of the reported names on every
   generated tree with plain names instead. *)

(* quirks: each known defect refutes the property on a concrete witness *)
Lemma C20_q_test_sparse_array_nil_refuted :
  exists tg path n, tg = Some (path, n) /\ files_pass (select_spec path n) /\ run_ok (run_tests only_sparse tg) = false.
Proof. exact sparse_refuted. Qed.
Lemma C20_q_test_offset_paths_refuted :
  names_ok w_offset = true /\ canonical w_offset = true /\
  run_expr only_offset w_offset <> Ok (map leaf_result (leaves_spec w_offset)).
Proof. exact offset_refuted. Qed.
Lemma C20_q_test_hidden_root_refuted :
  exists tg path n, tg = Some (path, n) /\ files_pass (select_spec path n) /\ run_ok (run_tests only_hidden_root tg) = false.
Proof. exact hidden_root_refuted. Qed.

(* non-vacuity: a run with nested containers, a hidden sub-directory and a non-test file lies inside the guard of all Go quirks *)
Example C20_nonvacuous :
  run_tests quirks_go (Some (p_t, ex_fs)) = run_tests quirks_off (Some (p_t, ex_fs)) /\
  trees_ok (select_spec p_t ex_fs) /\
  (exists F s, run_tests quirks_go (Some (p_t, ex_fs)) = RunDone F s true /\
               st_total s = 3%nat /\ st_passed s = 2%nat /\ st_failed s = 1%nat).
Proof. exact nonvacuous. Qed.
