(* Property C08: documented source-level equivalences preserve meaning.
   Proved on the reference semantics (Eval/Interp.v), for all programs, scopes and fuels:
   - the three spellings of binding (let / -> / call) and laziness of &&, || and cond;
   - an array / dict literal is its spelled-out set of tuples (same value, same failure);
   - CONGRUENCE: a rewrite by any meaning-preserving rule, at any position of any program (all 27 expression forms,
     under binders, in transformer positions, inside the expressions of patterns), any number of them at once,
     preserves the function-free answers exactly and relates the functions (Eval/Rewrite.v: plug, crel, vrel);
   - replacing a let-bound name by its value: PARTIAL (bodies without binders); with binders in the body the model
     of the substitution (Eval/Rewrite.v: subst) is tied to the implementation by differential execution only.
   Comments, whitespace, redundant parentheses, precedence / associativity, the \. default binder and literal folding
   concern the wbnf parser and the compiler (syntax/compile.go), which are not modelled: they are decided by the
   metamorphic run original-vs-rewritten on the implementation and by the regenerated precedence table. *)
From Arrai Require Import Base.Val Spec.SetAlg Eval.Interp Eval.Rewrite Proofs.EquivP Proofs.FuelP Proofs.SugarP Proofs.RelValP Proofs.CongrP Proofs.SubstP Proofs.DictSugarP Proofs.CongrSymP Gen.Prec Sys.Prec.

Theorem C08_let_is_arrow :
  forall fuel rho p e1 e2,
    eval (S (S fuel)) rho (ELet p e1 e2) = eval (S (S fuel)) rho (EArrow e1 (EFn p e2)).
Proof. exact let_is_arrow. Qed.
Print Assumptions C08_let_is_arrow.

Theorem C08_arrow_is_call :
  forall fuel rho p e1 e2 v, eval (S fuel) rho e1 = Ok v ->
    eval (S (S fuel)) rho (EArrow e1 (EFn p e2)) = eval (S (S fuel)) rho (ECall (EFn p e2) e1).
Proof. exact arrow_is_call. Qed.
Print Assumptions C08_arrow_is_call.

Theorem C08_binding_forms_fail_together :
  forall fuel rho p e1 e2, eval (S fuel) rho e1 = Err ->
    eval (S (S fuel)) rho (ELet p e1 e2) = Err /\
    eval (S (S fuel)) rho (EArrow e1 (EFn p e2)) = Err /\
    eval (S (S fuel)) rho (ECall (EFn p e2) e1) = Err.
Proof. exact let_arrow_call_fail_together. Qed.
Print Assumptions C08_binding_forms_fail_together.

Theorem C08_and_evaluates_only_what_it_selects :
  forall fuel rho a b x, eval fuel rho a = Ok (D x) -> is_true x = false ->
    eval (S fuel) rho (EAnd a b) = Ok (D x).
Proof. exact and_short_circuits. Qed.
Print Assumptions C08_and_evaluates_only_what_it_selects.

Theorem C08_or_evaluates_only_what_it_selects :
  forall fuel rho a b x, eval fuel rho a = Ok (D x) -> is_true x = true ->
    eval (S fuel) rho (EOr a b) = Ok (D x).
Proof. exact or_short_circuits. Qed.
Print Assumptions C08_or_evaluates_only_what_it_selects.

Theorem C08_cond_evaluates_only_the_selected_arm :
  forall fuel rho c v arms dflt x, eval fuel rho c = Ok (D x) -> is_true x = true ->
    eval (S fuel) rho (ECond ((c, v) :: arms) dflt) = eval fuel rho v.
Proof. exact cond_selects_first_true. Qed.
Print Assumptions C08_cond_evaluates_only_the_selected_arm.

Theorem C08_let_bound_name_denotes_its_value :
  forall fuel rho x v rest, eval (S fuel) ((x, v) :: rest ++ rho) (EVar x) = Ok v.
Proof. exact let_bound_name_is_its_value. Qed.
Print Assumptions C08_let_bound_name_denotes_its_value.

(* non-vacuity: a falsy left operand hides a failing right operand *)
Example C08_probe :
  run_data 30 (EAnd (ELit (VSet [])) (EDot (ELit (vint 1)) [97])) = Ok (VSet []).
Proof. vm_compute. reflexivity. Qed.

(* the three spellings of a binding have one answer - value, error or out of fragment -
   whatever fuel each is run with (fuel only decides whether there is an answer yet) *)
Theorem C08_binding_forms_same_answer :
  forall n m rho p e1 e2 X Y,
    In X [ELet p e1 e2; EArrow e1 (EFn p e2); ECall (EFn p e2) e1] ->
    In Y [ELet p e1 e2; EArrow e1 (EFn p e2); ECall (EFn p e2) e1] ->
    eval n rho X <> OutOfFuel -> eval m rho Y <> OutOfFuel -> eval n rho X = eval m rho Y.
Proof. exact binding_forms_same_answer. Qed.
Print Assumptions C08_binding_forms_same_answer.

(* the meaning of an expression is independent of the fuel *)
Theorem C08_meaning_independent_of_fuel :
  forall n m rho e, eval n rho e <> OutOfFuel -> eval m rho e <> OutOfFuel -> eval n rho e = eval m rho e.
Proof. exact eval_fuel_independent. Qed.
Print Assumptions C08_meaning_independent_of_fuel.

(* the grouping the running parser and compiler give to `x o1 y o2 z` for every ordered pair of 23 binary
   operators (regenerated from the code on every check) is a precedence order: levels exist that explain every
   pair, and operators of one level share their associativity ... *)
Theorem C08_operator_grouping_is_a_precedence_order : consistent prec_table = true.
Proof. exact current_table_is_a_precedence_order. Qed.
Print Assumptions C08_operator_grouping_is_a_precedence_order.

(* ... and for arithmetic it is the documented one: ^ over * / % over + -, the latter five to the left, ^ to the right *)
Theorem C08_arithmetic_grouping_is_as_documented :
  forall o1 o2, In o1 arith_ops -> In o2 arith_ops -> lookup prec_table o1 o2 = documented o1 o2.
Proof. exact (arithmetic_pairs prec_table current_arithmetic_is_as_documented). Qed.
Print Assumptions C08_arithmetic_grouping_is_as_documented.

(* ---------- sugared literals ---------- *)

(* [x0, , x2, ...] is {(@: 0, @item: x0), (@: 2, @item: x2), ...} (Eval/Rewrite.v: spell_arr; holes take an index and
   no member): for every list of component expressions, every scope and every fuel the two have one answer - value,
   error, outside the fragment, or none yet (the spelled-out form is one form deeper, hence one more unit of fuel) *)
Theorem C08_array_literal_is_its_spelled_out_set :
  forall k rho l, eval (S (S (S k))) rho (spell_arr l) = eval (S (S k)) rho (EArrE l).
Proof. exact array_literal_spelled. Qed.
Print Assumptions C08_array_literal_is_its_spelled_out_set.

(* ... so they have the same meaning whatever fuel each is run with *)
Theorem C08_array_literal_same_meaning : forall l, same_meaning (EArrE l) (spell_arr l).
Proof. exact array_literal_same_meaning. Qed.
Print Assumptions C08_array_literal_same_meaning.

(* {k: v, ...} is {(@: k, @value: v), ...}: one answer (value and failure alike), except that the literal is refused
   when two of its key expressions evaluate to the same value, where the set of tuples still exists *)
Theorem C08_dict_literal_is_its_spelled_out_set :
  forall k rho l,
    eval (S (S k)) rho (EDictE l) = eval (S (S (S k))) rho (spell_dict l) \/
    (eval (S (S k)) rho (EDictE l) = Err /\ (exists v, eval (S (S (S k))) rho (spell_dict l) = Ok (D v)) /\
     dict_keys_clash (S k) rho l).
Proof. exact dict_literal_spelled. Qed.
Print Assumptions C08_dict_literal_is_its_spelled_out_set.

(* the exception is real: {1: 2, 1: 3} against {(@: 1, @value: 2), (@: 1, @value: 3)} *)
Theorem C08_dict_literal_with_repeated_key_differs :
  exists l, run 5 (EDictE l) = Err /\ exists v, run 5 (spell_dict l) = Ok (D v).
Proof. exact dict_literal_repeated_key_differs. Qed.
Print Assumptions C08_dict_literal_with_repeated_key_differs.

Example C08_array_sugar_probe :
  run_data 9 (EArrE [Some (ELit (vint 7)); None; Some (EBin BAdd (ELit (vint 1)) (ELit (vint 2)))]) =
  run_data 9 (spell_arr [Some (ELit (vint 7)); None; Some (EBin BAdd (ELit (vint 1)) (ELit (vint 2)))]) /\
  run_data 9 (EArrE [Some (ELit (vint 7)); None; Some (EBin BAdd (ELit (vint 1)) (ELit (vint 2)))]) =
  Ok (VSet [vitem 0 (vint 7); vitem 2 (vint 3)]).
Proof. vm_compute. split; reflexivity. Qed.

(* ---------- rewriting at any position ---------- *)

(* Congruence.  Let e and e' have the same meaning (in every scope: the same answer whenever both have one, and one has
   an answer iff the other has - Eval/Rewrite.v: same_meaning).  Then for EVERY one-hole context C - all 27 expression
   forms, under function, let and arm binders, in transformer positions, and inside the expressions of patterns -
   C[e] and C[e'] have exactly the same function-free answers in every scope: the same data value, the same error,
   the same "outside the fragment", at some fuel each. *)
Theorem C08_rewrites_apply_at_every_position :
  forall e e', same_meaning e e' -> forall C, same_data_meaning (plug C e) (plug C e').
Proof. exact rewrite_at_position_data. Qed.
Print Assumptions C08_rewrites_apply_at_every_position.

(* ... and when the answer is a function, the other program answers with a function too, related to it by the
   logical relation: captured scopes related name by name, parameter patterns and bodies equal up to the rewrite *)
Theorem C08_rewrites_apply_at_every_position_functions :
  forall e e', same_meaning e e' ->
  forall C, meaning_related (swap_rule e e') (plug C e) (plug C e') /\
            meaning_related (swap_rule e' e) (plug C e') (plug C e).
Proof. exact rewrite_at_position. Qed.
Print Assumptions C08_rewrites_apply_at_every_position_functions.

(* any number of rewrites at once, at any positions (compatible closure of a set R of meaning-preserving rules) *)
Theorem C08_simultaneous_rewrites_preserve_meaning :
  forall R : expr -> expr -> Prop, (forall e e', R e e' -> same_meaning e e') ->
  forall e e', crel R e e' -> meaning_related R e e'.
Proof. exact rewrites_everywhere. Qed.
Print Assumptions C08_simultaneous_rewrites_preserve_meaning.

(* the documented equivalences of the expression language (let = -> = call, array sugar, operands hidden behind
   && / || / cond; either direction) each preserve meaning ... *)
Theorem C08_documented_equivalences_preserve_meaning : forall e e', Rewrite.documented e e' -> same_meaning e e'.
Proof. exact documented_same_meaning. Qed.
Print Assumptions C08_documented_equivalences_preserve_meaning.

(* ... hence may be applied at every position of every program *)
Theorem C08_documented_rewrite_at_every_position :
  forall e e', Rewrite.documented e e' -> forall C, same_data_meaning (plug C e) (plug C e').
Proof. exact documented_rewrite_at_position. Qed.
Print Assumptions C08_documented_rewrite_at_every_position.

(* non-vacuity: a let turned into an arrow inside a function body that `where` applies to every member, under a let *)
Example C08_congruence_probe :
  let C := XLetBody (PVar [120]) (ELit (vint 2))
             (XWhereR (ESetE [ELit (vint 1); ELit (vint 2); ELit (vint 3)])
                (XFnBody (PVar [121]) XHole)) in
  let e := ELet (PVar [122]) (EVar [121]) (ECmp CLt (EVar [120]) (EVar [122])) in
  let e' := EArrow (EVar [121]) (EFn (PVar [122]) (ECmp CLt (EVar [120]) (EVar [122]))) in
  Rewrite.documented e e' /\ ctx_depth C = 3%nat /\
  run_data 20 (plug C e) = Ok (VSet [vint 3]) /\ run_data 20 (plug C e') = Ok (VSet [vint 3]).
Proof. cbv zeta. split; [constructor|]. vm_compute. repeat split. Qed.

(* ---------- replacing a let-bound name by its value ---------- *)

(* PARTIAL: bodies without binders (no function literal, no let, no pattern conditional - Eval/Rewrite.v: binder_free).
   `let x = v; e` and e with the free x replaced by the literal v (Eval/Rewrite.v: subst) have one answer at
   corresponding fuels, in every scope.  Missing: bodies with binders, where subst stops at the binders that rebind x
   and the captured scopes of the functions created differ by the binding of x (needs a second value relation);
   that part is checked against the implementation and the interpreter by the substitution stream only. *)
Theorem C08_let_bound_name_replaced_by_its_value_partial :
  forall x v n rho e, binder_free e = true ->
    eval (S (S n)) rho (ELet (PVar x) (ELit v) e) = eval (S n) rho (subst x v e).
Proof. exact let_literal_binder_free. Qed.
Print Assumptions C08_let_bound_name_replaced_by_its_value_partial.

(* ... also when the let is not the innermost binding (other names bound in between) *)
Theorem C08_bound_name_replaced_under_other_bindings_partial :
  forall x v n pre rho e, binder_free e = true -> name_in x (map fst pre) = false ->
    eval n (pre ++ (x, D (norm v)) :: rho) e = eval n (pre ++ rho) (subst x v e).
Proof. exact subst_binder_free. Qed.
Print Assumptions C08_bound_name_replaced_under_other_bindings_partial.

(* non-vacuity, and what subst does at binders that rebind the name (outside the partial theorem, evaluated here) *)
Example C08_subst_probe :
  let x := [120] in
  let body := EBin BAdd (EVar x) (ECond [(ECmp CLt (EVar x) (ELit (vint 5)), EBin BMul (EVar x) (EVar x))] None) in
  binder_free body = true /\
  run_data 9 (ELet (PVar x) (ELit (vint 3)) body) = Ok (vint 12) /\ run_data 9 (subst x (vint 3) body) = Ok (vint 12) /\
  (* let x = 3; x + (let x = x + 1; x * 10): the inner body keeps its x *)
  subst x (vint 3) (EBin BAdd (EVar x) (ELet (PVar x) (EBin BAdd (EVar x) (ELit (vint 1))) (EBin BMul (EVar x) (ELit (vint 10))))) =
    EBin BAdd (ELit (vint 3)) (ELet (PVar x) (EBin BAdd (ELit (vint 3)) (ELit (vint 1))) (EBin BMul (EVar x) (ELit (vint 10)))) /\
  run_data 9 (ELet (PVar x) (ELit (vint 3)) (EBin BAdd (EVar x) (ELet (PVar x) (EBin BAdd (EVar x) (ELit (vint 1))) (EBin BMul (EVar x) (ELit (vint 10)))))) = Ok (vint 43).
Proof. cbv zeta. vm_compute. repeat split. Qed.

(* non-vacuity of the dict theorem: both disjuncts occur *)
Example C08_dict_sugar_probe :
  run 5 (EDictE [(ELit (vint 1), ELit (vint 2)); (ELit (vint 3), ELit (vint 4))]) =
  run 6 (spell_dict [(ELit (vint 1), ELit (vint 2)); (ELit (vint 3), ELit (vint 4))]) /\
  run 5 (EDictE [(ELit (vint 1), ELit (vint 2)); (ELit (vint 3), ELit (vint 4))]) =
  Ok (D (VSet [ventry (vint 1) (vint 2); ventry (vint 3) (vint 4)])).
Proof. vm_compute. split; reflexivity. Qed.

(* ---------- more on sugar and on simultaneous rewrites ---------- *)

(* a dict literal whose keys are literals with pairwise different values has the same meaning as its spelled-out set,
   so this sugar too may be spelled out at every position *)
Theorem C08_dict_literal_same_meaning :
  forall l, distinct_literal_keys l -> same_meaning (EDictE l) (spell_dict l).
Proof. exact dict_literal_same_meaning. Qed.
Print Assumptions C08_dict_literal_same_meaning.

Theorem C08_dict_sugar_at_every_position :
  forall l, distinct_literal_keys l -> forall C, same_data_meaning (plug C (EDictE l)) (plug C (spell_dict l)).
Proof. exact dict_sugar_at_position. Qed.
Print Assumptions C08_dict_sugar_at_every_position.

Example C08_distinct_literal_keys_probe :
  distinct_literal_keys [(ELit (vint 1), EVar [97]); (ELit (vint 2), EVar [98])].
Proof.
  intros l1 p l2 q l3 H. destruct l1 as [|a l1]; cbn [app] in H.
  - injection H as <- H. destruct l2 as [|b l2]; cbn [app] in H.
    + injection H as <- _. exists (vint 1), (vint 2). repeat split. discriminate.
    + injection H as _ H. destruct l2; discriminate.
  - injection H as _ H. destruct l1 as [|b l1]; cbn [app] in H.
    + injection H as _ H. destruct l2; discriminate.
    + injection H as _ H. destruct l1; discriminate.
Qed.

(* any number of meaning-preserving rewrites at any positions at once, as an equivalence: exactly the same
   function-free answers (the closure is symmetric: Proofs/CongrSymP.v) *)
Theorem C08_simultaneous_rewrites_same_data_meaning :
  forall R : expr -> expr -> Prop, (forall e e', R e e' -> same_meaning e e') ->
  forall e e', crel R e e' -> same_data_meaning e e'.
Proof. exact rewrites_everywhere_data. Qed.
Print Assumptions C08_simultaneous_rewrites_same_data_meaning.

Theorem C08_documented_rewrites_everywhere :
  forall e e', crel Rewrite.documented e e' -> same_data_meaning e e'.
Proof. exact documented_rewrites_everywhere_data. Qed.
Print Assumptions C08_documented_rewrites_everywhere.
