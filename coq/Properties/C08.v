(* Property C08: documented source-level equivalences preserve meaning.
   PARTIAL.  Proved on the reference semantics, for all programs, scopes and fuel:
   the three spellings of binding (let / -> / call), and laziness of &&, || and
   cond (the result does not depend on the unselected operand in any way).
   Comments, whitespace, redundant parentheses, precedence/associativity, the \.
   default binder, literal folding and sugar vs spelled-out literals concern the
   wbnf parser and the compiler (syntax/compile.go), which are not modelled: they
   are decided by the metamorphic run original-vs-rewritten on the implementation. *)
From Arrai Require Import Base.Val Spec.SetAlg Eval.Interp Proofs.EquivP Proofs.FuelP Gen.Prec Sys.Prec.

Theorem C08_let_is_arrow :
  forall fuel rho p e1 e2,
    eval (S (S fuel)) rho (ELet p e1 e2) = eval (S (S fuel)) rho (EArrow e1 (EFn p e2)).
Proof. exact let_is_arrow. Qed.
Print Assumptions C08_let_is_arrow.

Theorem C08_arrow_is_call :
  forall fuel rho p e1 e2 v, eval (S fuel) rho e1 = Ok v ->
    eval (S (S fuel)) rho (EArrow e1 (EFn p e2)) = eval (S (S fuel)) rho (ECall (EFn p e2) e1).
Proof. exact arrow_is_call. Qed.
Print Assumptions C08_arrow_is_call.

Theorem C08_binding_forms_fail_together :
  forall fuel rho p e1 e2, eval (S fuel) rho e1 = Err ->
    eval (S (S fuel)) rho (ELet p e1 e2) = Err /\
    eval (S (S fuel)) rho (EArrow e1 (EFn p e2)) = Err /\
    eval (S (S fuel)) rho (ECall (EFn p e2) e1) = Err.
Proof. exact let_arrow_call_fail_together. Qed.
Print Assumptions C08_binding_forms_fail_together.

Theorem C08_and_evaluates_only_what_it_selects :
  forall fuel rho a b x, eval fuel rho a = Ok (D x) -> is_true x = false ->
    eval (S fuel) rho (EAnd a b) = Ok (D x).
Proof. exact and_short_circuits. Qed.
Print Assumptions C08_and_evaluates_only_what_it_selects.

Theorem C08_or_evaluates_only_what_it_selects :
  forall fuel rho a b x, eval fuel rho a = Ok (D x) -> is_true x = true ->
    eval (S fuel) rho (EOr a b) = Ok (D x).
Proof. exact or_short_circuits. Qed.
Print Assumptions C08_or_evaluates_only_what_it_selects.

Theorem C08_cond_evaluates_only_the_selected_arm :
  forall fuel rho c v arms dflt x, eval fuel rho c = Ok (D x) -> is_true x = true ->
    eval (S fuel) rho (ECond ((c, v) :: arms) dflt) = eval fuel rho v.
Proof. exact cond_selects_first_true. Qed.
Print Assumptions C08_cond_evaluates_only_the_selected_arm.

Theorem C08_let_bound_name_denotes_its_value :
  forall fuel rho x v rest, eval (S fuel) ((x, v) :: rest ++ rho) (EVar x) = Ok v.
Proof. exact let_bound_name_is_its_value. Qed.
Print Assumptions C08_let_bound_name_denotes_its_value.

(* non-vacuity: a falsy left operand hides a failing right operand *)
Example C08_probe :
  run_data 30 (EAnd (ELit (VSet [])) (EDot (ELit (vint 1)) [97])) = Ok (VSet []).
Proof. vm_compute. reflexivity. Qed.

(* the three spellings of a binding have one answer - value, error or out of fragment -
   whatever fuel each is run with (fuel only decides whether there is an answer yet) *)
Theorem C08_binding_forms_same_answer :
  forall n m rho p e1 e2 X Y,
    In X [ELet p e1 e2; EArrow e1 (EFn p e2); ECall (EFn p e2) e1] ->
    In Y [ELet p e1 e2; EArrow e1 (EFn p e2); ECall (EFn p e2) e1] ->
    eval n rho X <> OutOfFuel -> eval m rho Y <> OutOfFuel -> eval n rho X = eval m rho Y.
Proof. exact binding_forms_same_answer. Qed.
Print Assumptions C08_binding_forms_same_answer.

(* the meaning of an expression is independent of the fuel *)
Theorem C08_meaning_independent_of_fuel :
  forall n m rho e, eval n rho e <> OutOfFuel -> eval m rho e <> OutOfFuel -> eval n rho e = eval m rho e.
Proof. exact eval_fuel_independent. Qed.
Print Assumptions C08_meaning_independent_of_fuel.

(* the grouping the running parser and compiler give to `x o1 y o2 z` for every ordered pair of 23 binary
   operators (regenerated from the code on every check) is a precedence order: levels exist that explain every
   pair, and operators of one level share their associativity ... *)
Theorem C08_operator_grouping_is_a_precedence_order : consistent prec_table = true.
Proof. exact current_table_is_a_precedence_order. Qed.
Print Assumptions C08_operator_grouping_is_a_precedence_order.

(* ... and for arithmetic it is the documented one: ^ over * / % over + -, the latter five to the left, ^ to the right *)
Theorem C08_arithmetic_grouping_is_as_documented :
  forall o1 o2, In o1 arith_ops -> In o2 arith_ops -> lookup prec_table o1 o2 = documented o1 o2.
Proof. exact (arithmetic_pairs prec_table current_arithmetic_is_as_documented). Qed.
Print Assumptions C08_arithmetic_grouping_is_as_documented.
