(* Property C07: evaluation is deterministic across processes and hash seeds.
   PARTIAL BY NATURE.  The reference semantics is a function, so the same program
   has one value; what the theorems add is that the points where the Go code
   consumes an internal enumeration - the set builder / canonical form, set
   literals, and the operands of the set operators - give the same result for
   EVERY permutation of that enumeration.  That the Go trie enumerates some
   permutation of its content and that nothing else leaks (addresses, time,
   goroutine timing), and the order-insensitivity of the remaining consumers
   (Combine over Go maps, rank, nest, set patterns, printing), are observed by
   running the same programs under different hash seeds (hook VERIF_HASH_SEED)
   and comparing value and printed bytes. *)
From Arrai Require Import Base.Val Spec.SetAlg Eval.Interp Proofs.ValOrder Proofs.SetAlgP Proofs.PermP Proofs.FuelP Proofs.RankP.
From Coq Require Import Permutation.

Theorem C07_canonical_form_ignores_enumeration_order :
  forall l l', Permutation l l' -> norm (VSet l) = norm (VSet l') /\ mkset l = mkset l'.
Proof. intros l l' H; split; [apply norm_set_perm | apply mkset_perm]; exact H. Qed.
Print Assumptions C07_canonical_form_ignores_enumeration_order.

Theorem C07_set_operators_ignore_enumeration_order :
  forall a a' b b', Permutation a a' -> Permutation b b' ->
    s_union a b = s_union a' b' /\ s_inter a b = s_inter a b' /\ s_diff a b = s_diff a b'.
Proof. intros a a' b b' Ha Hb; repeat split; [apply s_union_perm | apply s_inter_perm | apply s_diff_perm]; assumption. Qed.
Print Assumptions C07_set_operators_ignore_enumeration_order.

Theorem C07_set_literal_order_irrelevant :
  forall fuel rho l l' v, Permutation l l' ->
    eval fuel rho (ESetE l) = Ok v -> eval fuel rho (ESetE l') = Ok v.
Proof. exact set_literal_order_irrelevant. Qed.
Print Assumptions C07_set_literal_order_irrelevant.

(* the evaluator is a function of the program: one value, whatever the run *)
Theorem C07_evaluation_is_a_function :
  forall fuel e v v', run_data fuel e = Ok v -> run_data fuel e = Ok v' -> v = v'.
Proof. intros fuel e v v' H1 H2. congruence. Qed.
Print Assumptions C07_evaluation_is_a_function.

Example C07_probe :
  run_data 40 (ESetE [ELit (vint 3); ELit (vint 1); ELit (vint 2)]) =
  run_data 40 (ESetE [ELit (vint 2); ELit (vint 3); ELit (vint 1)]).
Proof. vm_compute. reflexivity. Qed.

(* ... and the value does not depend on how much fuel the evaluation was given *)
Theorem C07_one_value_whatever_the_fuel :
  forall n m e v v', run_data n e = Ok v -> run_data m e = Ok v' -> v = v'.
Proof. exact run_data_fuel_independent. Qed.
Print Assumptions C07_one_value_whatever_the_fuel.

(* the relational operators do not depend on the order in which either operand is enumerated *)
Theorem C07_joins_and_nests_ignore_enumeration_order :
  forall a a' b b', Permutation a a' -> Permutation b b' ->
    (forall op, join_data op a b = join_data op a' b') /\
    (forall names n, nest_data names n a = nest_data names n a') /\
    (forall n, single_nest_data n a = single_nest_data n a').
Proof.
  intros a a' b b' Ha Hb. repeat split; intros.
  - apply join_data_perm; assumption.
  - apply nest_data_perm, Ha.
  - apply single_nest_data_perm, Ha.
Qed.
Print Assumptions C07_joins_and_nests_ignore_enumeration_order.

(* rank does not depend on the order in which the rows are enumerated: the same rows come out (in the other
   order), the same set, and whether there is a value at all is the same *)
Theorem C07_rank_ignores_enumeration_order :
  forall keyed keyed', Permutation keyed keyed' ->
    (forall rows, rank_rows keyed = Ok rows ->
       exists rows', rank_rows keyed' = Ok rows' /\ Permutation rows rows' /\ mkset rows = mkset rows') /\
    ((exists rows, rank_rows keyed = Ok rows) <-> (exists rows, rank_rows keyed' = Ok rows)).
Proof.
  intros keyed keyed' Hp. split.
  - intros rows H. exact (rank_rows_perm _ _ _ Hp H).
  - exact (rank_rows_defined_perm _ _ Hp).
Qed.
Print Assumptions C07_rank_ignores_enumeration_order.

(* non-vacuity: three keyed rows with a tie, enumerated in two orders *)
Example C07_rank_probe :
  let r1 : krow := ([([97], vint 1)], [([114], vint 5)]) in
  let r2 : krow := ([([97], vint 2)], [([114], vint 5)]) in
  let r3 : krow := ([([97], vint 3)], [([114], vint 7)]) in
  (exists rows, rank_rows [r1; r2; r3] = Ok rows /\ rank_rows [r3; r1; r2] <> Ok rows) /\
  (do rows <- rank_rows [r1; r2; r3]; Ok (mkset rows)) = (do rows <- rank_rows [r3; r1; r2]; Ok (mkset rows)).
Proof. vm_compute. split; [eexists; split; [reflexivity | discriminate] | reflexivity]. Qed.
