(* Property C19: `--out` writes exactly the described tree, or changes nothing.
   Statements only; proofs live in Proofs/OutFSP.v; the model is Sys/OutFS.v.

   Vocabulary.  [out_dir_mode q v PATH (init m k)] is arrai.OutputValue(value, "dir:PATH") on the file
   system [m] with the description [v], the k-th file system operation failing when [k = Some _];
   [q] says which known-defective call sites behave as in today's code ([quirks_on]) or as repaired
   ([quirks_off]).  Paths are component lists, innermost first.  [wfv v]: no dictionary of the
   description has two entries with the same key (true of every real dictionary).  [wf m]: every
   entry of [m] has a directory as parent (true of every real file system). *)
From Coq Require Import List ZArith Bool.
Import ListNotations.
From Arrai Require Import Sys.OutFS Proofs.OutFSP.
Open Scope Z_scope.

(* (2) ATOMICITY.  For all descriptions, all prior states: if the command fails, no file was created,
   overwritten or deleted.  Proved for the repaired writer outright ... *)
Theorem C19_atomic_repaired :
  forall v c par m s', wfv v -> wf m ->
    out_dir_mode quirks_off v (c :: par) (init m None) = Err s' -> fs s' = m.
Proof. exact atomic_off. Qed.
Print Assumptions C19_atomic_repaired.

(* ... and for every quirk setting (in particular today's code) on every input whose outcome does not
   depend on an enabled defective site (decidable guard, DESIGN 5.3). *)
Theorem C19_atomic :
  forall q v c par m s', wfv v -> wf m ->
    obs_eq (out_dir_mode q v (c :: par) (init m None)) (out_dir_mode quirks_off v (c :: par) (init m None)) ->
    out_dir_mode q v (c :: par) (init m None) = Err s' -> forall x, lookup x (fs s') = lookup x m.
Proof. exact atomic_guarded. Qed.
Print Assumptions C19_atomic.

(* the mechanism: the repaired dry run changes nothing ... *)
Theorem C19_dry_run_is_pure :
  forall q v r p s, q_dry_mkdir q = false -> fs (res_st (out q r true v p s)) = fs s.
Proof. exact dry_pure. Qed.
Print Assumptions C19_dry_run_is_pure.

(* ... and rejects everything the real run would (for every entry, at every depth, relative to the
   state [s0] the dry run saw and the state [s] the real run is in when it reaches the entry) *)
Theorem C19_dry_run_rejects_what_the_real_run_would :
  forall v r c par s0 s0' s, wfv v -> sim c par s0 s ->
    out quirks_off r true v (c :: par) s0 = Ok s0' -> exists s', out quirks_off r false v (c :: par) s = Ok s'.
Proof. exact main_all. Qed.
Print Assumptions C19_dry_run_rejects_what_the_real_run_would.

(* (1a) NOTHING OUTSIDE PATH IS TOUCHED: for every outcome (success, failure, crash), every fault,
   every quirk setting that does not include the unchecked path.Join of keys. *)
Theorem C19_nothing_outside_PATH :
  forall q v p m k x, q_name_escapes q = false -> underb p x = false ->
    lookup x (fs (res_st (out_dir_mode q v p (init m k)))) = lookup x m.
Proof. exact frame_dir_mode. Qed.
Print Assumptions C19_nothing_outside_PATH.

Theorem C19_file_mode_touches_only_PATH :
  forall q v c par m k x, x <> c :: par ->
    lookup x (fs (res_st (out_file_mode q v (c :: par) (init m k)))) = lookup x m.
Proof. exact frame_file_mode. Qed.
Print Assumptions C19_file_mode_touches_only_PATH.

Theorem C19_file_mode_content :
  forall b c par m s',
    out_file_mode quirks_off (VStr b) (c :: par) (init m None) = Ok s' -> lookup (c :: par) (fs s') = Some (File b).
Proof. exact file_mode_content. Qed.
Print Assumptions C19_file_mode_content.

(* (1b) THE ifExists RULES (repaired model, no fault), for an entry at path p.
   C19_spec_partial: the full statement "on success the subtree under PATH equals spec_apply v m for a
   separately defined tree overlay spec_apply" is NOT proved; what is proved is the meaning of every rule
   at its own entry, from which the overlay is composed, plus (1a):                                      *)
Theorem C19_rule_ignore_keeps :
  forall d f dry p s n, fault s = None -> stat (fs s) p = SNode n ->
    out quirks_off REntry dry (cfg w_ignore d f) p s = Ok (tk s).       (* fs (tk s) = fs s *)
Proof. exact rule_ignore. Qed.
Print Assumptions C19_rule_ignore_keeps.

Theorem C19_rule_fail_refuses :
  forall d f dry p s n, fault s = None -> stat (fs s) p = SNode n ->
    out quirks_off REntry dry (cfg w_fail d f) p s = Err (tk s).
Proof. exact rule_fail. Qed.
Print Assumptions C19_rule_fail_refuses.

Theorem C19_rule_remove_deletes :
  forall p s n s', fault s = None -> stat (fs s) p = SNode n ->
    out quirks_off REntry false (cfg w_remove None None) p s = Ok s' ->
    fs s' = remove_subtree p (fs s) /\ forall x, x <> [] -> underb p x = true -> lookup x (fs s') = None.
Proof. exact rule_remove. Qed.
Print Assumptions C19_rule_remove_deletes.

Theorem C19_rule_replace_substitutes :
  forall d f p s n, fault s = None -> stat (fs s) p = SNode n -> eqb (isSome d) (isSome f) = false ->
    exists s2, fault s2 = None /\ fs s2 = remove_subtree p (fs s) /\
      out quirks_off REntry false (cfg w_replace d f) p s = out_files quirks_off false d f p s2.
Proof. exact rule_replace. Qed.
Print Assumptions C19_rule_replace_substitutes.

Theorem C19_rule_merge_overlays :
  forall dv p s n, fault s = None -> stat (fs s) p = SNode n ->
    out quirks_off REntry false (cfg w_merge (Some dv) None) p s = out quirks_off RDir false dv p (tk s).
Proof. exact rule_merge. Qed.
Print Assumptions C19_rule_merge_overlays.

Theorem C19_rule_absent_target_is_plain_write :
  forall w wd d f p s, fault s = None -> stat (fs s) p = SNoEnt -> word_of w = Some wd -> wd <> WRemove ->
    precheck quirks_off wd d f = false ->
    out quirks_off REntry false (cfg w d f) p s = out quirks_off REntry false (VTup None d f) p (tk s).
Proof. exact rule_absent. Qed.
Print Assumptions C19_rule_absent_target_is_plain_write.

Theorem C19_file_entry_holds_exactly_the_bytes :
  forall b c par s s', fault s = None ->
    out quirks_off RFile false (VStr b) (c :: par) s = Ok s' -> lookup (c :: par) (fs s') = Some (File b).
Proof. exact rule_file. Qed.
Print Assumptions C19_file_entry_holds_exactly_the_bytes.

(* (3) FAULTS: whatever file system operation the injected I/O error hits (in either pass), the command
   does not report success.  [fired] is set by exactly the operation whose index equals the fault index. *)
Theorem C19_fault_is_never_reported_as_success :
  forall q, q_stat_err_ignored q = false -> q_close_err_ignored q = false ->
  forall v p m k s', out_dir_mode q v p (init m k) = Ok s' -> fired s' = false.
Proof. exact fault_never_success. Qed.
Print Assumptions C19_fault_is_never_reported_as_success.

Theorem C19_fault_is_never_reported_as_success_file_mode :
  forall q, q_stat_err_ignored q = false -> q_close_err_ignored q = false ->
  forall v p m k s', out_file_mode q v p (init m k) = Ok s' -> fired s' = false.
Proof. exact fault_never_success_file. Qed.
Print Assumptions C19_fault_is_never_reported_as_success_file_mode.

(* Each known defect, alone, violates the property (witness = the finding's replay). *)
Lemma C19_q_dry_mkdir_refuted : exists v s', wfv v /\ wf m_fresh /\
  out_dir_mode only_dry_mkdir v PATH (init m_fresh None) = Err s' /\ lookup PATH (fs s') <> lookup PATH m_fresh.
Proof. exact dry_mkdir_refuted. Qed.
Lemma C19_q_skip_unsupported_refuted : exists v s' s'',
  out_dir_mode only_skip_unsupported v PATH (init m_fresh None) = Ok s' /\
  out_dir_mode quirks_off v PATH (init m_fresh None) = Err s''.
Proof. exact skip_unsupported_refuted. Qed.
Lemma C19_q_name_escapes_refuted : exists v s' x,
  out_dir_mode only_name_escapes v PATH (init m_fresh None) = Ok s' /\
  underb PATH x = false /\ lookup x (fs s') <> lookup x m_fresh.
Proof. exact name_escapes_refuted. Qed.
Lemma C19_q_replace_unvalidated_refuted : exists v s', wfv v /\ wf m_t /\
  out_dir_mode only_replace_unvalidated v PATH (init m_t None) = Err s' /\
  lookup [[107]; [116]; nO; nW] (fs s') <> lookup [[107]; [116]; nO; nW] m_t.
Proof. exact replace_unvalidated_refuted. Qed.
Lemma C19_q_multi_panic_refuted : exists v s', out_dir_mode only_multi_panic v PATH (init m_fresh None) = Panic s'.
Proof. exact multi_panic_refuted. Qed.
Lemma C19_q_stat_err_ignored_refuted : exists v k s',
  out_dir_mode only_stat_err_ignored v PATH (init m_fresh (Some k)) = Ok s' /\ fired s' = true.
Proof. exact stat_err_ignored_refuted. Qed.
Lemma C19_q_close_err_ignored_refuted : exists v k s',
  out_dir_mode only_close_err_ignored v PATH (init m_fresh (Some k)) = Ok s' /\ fired s' = true.
Proof. exact close_err_ignored_refuted. Qed.
Lemma C19_q_kind_unchecked_refuted : exists v s', wfv v /\ wf m_d /\
  out_dir_mode only_kind_unchecked v PATH (init m_d None) = Err s' /\
  lookup [[97]; nO; nW] (fs s') <> lookup [[97]; nO; nW] m_d.
Proof. exact kind_unchecked_refuted. Qed.

(* The hypotheses are satisfiable on a non-trivial state, and there today's code agrees with the repaired model. *)
Example C19_nonvacuous : exists s' s'', wf m_nv /\
  out_dir_mode quirks_on v_nv PATH (init m_nv None) = Ok s' /\
  out_dir_mode quirks_off v_nv PATH (init m_nv None) = Ok s'' /\
  (forallb (fun x => match lookup x (fs s'), lookup x (fs s'') with
                     | Some (File a), Some (File b) => zs_eqb a b | Some Dir, Some Dir => true | None, None => true | _, _ => false end)
           (map fst (fs s') ++ map fst (fs s'')) = true) /\
  lookup [[97]; nO; nW] (fs s') = Some (File [120]) /\ lookup [[116]; nO; nW] (fs s') = Some (File [65]) /\
  lookup [[117]; nO; nW] (fs s') = Some (File [122]) /\ lookup [[101]; [100]; nO; nW] (fs s') = Some (File []).
Proof. exact nonvacuous. Qed.
