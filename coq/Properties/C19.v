From Arrai Require Import Sys.OutFS.
