(* Set algebra on canonical values: the mathematical meaning of | & &~ ~~ with
   without <: count ^ and the subset comparisons.  Deliberately naive. *)
From Arrai Require Import Base.Val.

Fixpoint vmem (x : val) (l : list val) : bool :=
  match l with [] => false | y :: l' => veqb x y || vmem x l' end.

Definition mkset (l : list val) : val := VSet (vsort l).
Definition mktup (l : list (name * val)) : val := VTup (asort l).

Definition s_union (a b : list val) : list val := vsort (a ++ b).
Definition s_inter (a b : list val) : list val := filter (fun x => vmem x b) a.
Definition s_diff (a b : list val) : list val := filter (fun x => negb (vmem x b)) a.
Definition s_symdiff (a b : list val) : list val := vsort (s_diff a b ++ s_diff b a).
Definition s_with (a : list val) (x : val) : list val := vinsert x a.
Definition s_without (a : list val) (x : val) : list val := filter (fun y => negb (veqb y x)) a.
Definition s_subseteq (a b : list val) : bool := forallb (fun x => vmem x b) a.
Definition s_eq (a b : list val) : bool := s_subseteq a b && s_subseteq b a.
Definition s_subset (a b : list val) : bool := s_subseteq a b && negb (s_subseteq b a).

(* all subsets, each kept in the (sorted) order of the input *)
Fixpoint sublists (l : list val) : list (list val) :=
  match l with
  | [] => [[]]
  | x :: l' => let r := sublists l' in map (cons x) r ++ r
  end.
Definition s_pow (a : list val) : list val := vsort (map VSet (sublists a)).

(* truthiness: IsTrue *)
Definition is_true (v : val) : bool :=
  match v with
  | VNum n => negb (Z.eqb (num2 n) 0)
  | VTup l => match l with [] => false | _ => true end
  | VSet l => match l with [] => false | _ => true end
  end.

(* tuple access *)
Fixpoint tget (n : name) (l : list (name * val)) : option val :=
  match l with
  | [] => None
  | (m, v) :: l' => match name_cmp n m with Eq => Some v | _ => tget n l' end
  end.
Definition tdel (n : name) (l : list (name * val)) : list (name * val) :=
  filter (fun p => match name_cmp n (fst p) with Eq => false | _ => true end) l.

(* keyed collections: a member (@: k, x: v) with exactly two attributes pairs k with v *)
Definition as_pair (m : val) : option (val * name * val) :=
  match m with
  | VTup [(n1, k); (n2, v)] =>
      match name_cmp n1 n_at with
      | Eq => Some (k, n2, v)
      | _ => match name_cmp n2 n_at with Eq => Some (v, n1, k) | _ => None end
      end
  | _ => None
  end.

(* all values paired with key k *)
Fixpoint lookup_all (k : val) (l : list val) : option (list val) :=
  match l with
  | [] => Some []
  | m :: l' =>
      match as_pair m, lookup_all k l' with
      | Some (k', _, v), Some r => Some (if veqb k k' then v :: r else r)
      | _, _ => None                   (* a member that is not a (@, x) pair *)
      end
  end.

Definition num_add (a b : num) : num :=
  let s := num2 a + num2 b in
  if Z.even s then NInt (s / 2) else NHalf ((s - 1) / 2).
Definition num_neg (a : num) : num :=
  let s := - num2 a in if Z.even s then NInt (s / 2) else NHalf ((s - 1) / 2).
Definition num_int (a : num) : option Z := match a with NInt z => Some z | NHalf _ => None end.
