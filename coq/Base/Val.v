(* The mathematical value universe of arr.ai: numbers, tuples, finite sets.
   Canonical values are sorted and duplicate-free at every level, so Leibniz
   equality on canonical values is extensional equality. *)
From Coq Require Export List ZArith Bool Lia.
Export ListNotations.
Open Scope Z_scope.

(* integers and half-integers: NInt z = z, NHalf z = z + 1/2 *)
Inductive num := NInt (z : Z) | NHalf (z : Z).
Definition num2 (n : num) : Z := match n with NInt z => 2 * z | NHalf z => 2 * z + 1 end.
Definition num_cmp (a b : num) : comparison := Z.compare (num2 a) (num2 b).

Definition name := list Z. (* UTF-8 bytes *)

Fixpoint name_cmp (a b : name) : comparison :=
  match a, b with
  | [], [] => Eq
  | [], _ => Lt
  | _, [] => Gt
  | x :: a', y :: b' => match Z.compare x y with Eq => name_cmp a' b' | c => c end
  end.

Inductive val :=
| VNum (n : num)
| VTup (attrs : list (name * val))
| VSet (elems : list val).

Fixpoint vcmp (a b : val) : comparison :=
  match a, b with
  | VNum x, VNum y => num_cmp x y
  | VNum _, _ => Lt
  | VTup _, VNum _ => Gt
  | VTup l, VTup m =>
      (fix go (l : list (name * val)) (m : list (name * val)) : comparison :=
         match l, m with
         | [], [] => Eq
         | [], _ => Lt
         | _, [] => Gt
         | (n1, v1) :: l', (n2, v2) :: m' =>
             match name_cmp n1 n2 with
             | Eq => match vcmp v1 v2 with Eq => go l' m' | c => c end
             | c => c
             end
         end) l m
  | VTup _, VSet _ => Lt
  | VSet l, VSet m =>
      (fix go (l : list val) (m : list val) : comparison :=
         match l, m with
         | [], [] => Eq
         | [], _ => Lt
         | _, [] => Gt
         | v1 :: l', v2 :: m' => match vcmp v1 v2 with Eq => go l' m' | c => c end
         end) l m
  | VSet _, _ => Gt
  end.

Definition veqb (a b : val) : bool := match vcmp a b with Eq => true | _ => false end.
Definition vltb (a b : val) : bool := match vcmp a b with Lt => true | _ => false end.

(* sorted, duplicate-free insertion *)
Fixpoint vinsert (x : val) (l : list val) : list val :=
  match l with
  | [] => [x]
  | y :: l' => match vcmp x y with
               | Lt => x :: l
               | Eq => l
               | Gt => y :: vinsert x l'
               end
  end.
Definition vsort (l : list val) : list val := fold_right vinsert [] l.

Fixpoint ainsert (x : name * val) (l : list (name * val)) : list (name * val) :=
  match l with
  | [] => [x]
  | y :: l' => match name_cmp (fst x) (fst y) with
               | Lt => x :: l
               | Eq => x :: l'
               | Gt => y :: ainsert x l'
               end
  end.
Definition asort (l : list (name * val)) : list (name * val) := fold_right ainsert [] l.

Fixpoint norm (v : val) : val :=
  match v with
  | VNum n => VNum n
  | VTup l => VTup (asort (map (fun p => (fst p, norm (snd p))) l))
  | VSet l => VSet (vsort (map norm l))
  end.

Definition Canon (v : val) : Prop := norm v = v.

(* handy constructors *)
Definition vint (z : Z) : val := VNum (NInt z).
Definition vtrue : val := VSet [VTup []].
Definition vfalse : val := VSet [].
Definition vbool (b : bool) : val := if b then vtrue else vfalse.
Definition n_at : name := [64].                       (* "@" *)
Definition n_char : name := [64;99;104;97;114].       (* "@char" *)
Definition n_item : name := [64;105;116;101;109].     (* "@item" *)
Definition n_byte : name := [64;98;121;116;101].      (* "@byte" *)
Definition n_value : name := [64;118;97;108;117;101]. (* "@value" *)
Definition vpair (k : name) (i x : val) : val := VTup [(n_at, i); (k, x)].

(* a sequence as a set of (@:i, k:x) pairs starting at index off *)
Fixpoint vseq_from (k : name) (off : Z) (l : list val) : list val :=
  match l with
  | [] => []
  | x :: l' => vpair k (vint off) x :: vseq_from k (off + 1) l'
  end.
Definition vstr (s : list Z) : val := VSet (vseq_from n_char 0 (map vint s)).
Definition vbytes (s : list Z) : val := VSet (vseq_from n_byte 0 (map vint s)).
Definition varr (l : list val) : val := VSet (vseq_from n_item 0 l).
