#!/usr/bin/env python3
"""bin/sync_manifest.py : copy the per-property fragments manifest/Cxx.json into MANIFEST.json and validate it."""
import json, os, sys
root = os.path.dirname(os.path.dirname(os.path.abspath(__file__)))
mp = os.path.join(root, "MANIFEST.json")
m = json.load(open(mp))
for f in sorted(os.listdir(os.path.join(root, "manifest"))):
    frag = json.load(open(os.path.join(root, "manifest", f)))
    for i, c in enumerate(m["checks"]):
        if c["property_id"] == frag["property_id"]:
            m["checks"][i] = frag
            break
    else:
        m["checks"].append(frag)
m["checks"].sort(key=lambda c: c["property_id"])
json.dump(m, open(mp, "w"), indent=1)
try:
    import jsonschema
    jsonschema.validate(m, json.load(open("/root/.vp/MANIFEST.schema.json")))
    print("MANIFEST.json valid,", len(m["checks"]), "checks")
except ImportError:
    print("jsonschema unavailable; not validated")
