#!/usr/bin/env python3
"""Run /repo's pinned test suite (guard off) and compare with /root/.vp/BASELINE.json stable_pass."""
import json, os, subprocess, sys
env = dict(os.environ); env.update({"GOFLAGS": "-mod=mod", "GOPROXY": "off"})
env.pop("GOTOOLCHAIN", None); env.pop("GOSUMDB", None)
p = subprocess.run("go test -json -vet=off -count=1 -timeout 25m ./...", shell=True, cwd=sys.argv[1] if len(sys.argv) > 1 else "/repo",
                   env=env, stdout=subprocess.PIPE, stderr=subprocess.DEVNULL, text=True)
res = {}
for line in p.stdout.splitlines():
    try:
        o = json.loads(line)
    except Exception:
        continue
    if o.get("Test") and o.get("Action") in ("pass", "fail", "skip"):
        res["%s::%s" % (o["Package"], o["Test"])] = o["Action"]
base = json.load(open("/root/.vp/BASELINE.json"))["stable_pass"]
bad = [t for t in base if res.get(t) != "pass"]
print("baseline tests:", len(base), "passing now:", len(base) - len(bad))
for t in bad:
    print("  NOT PASSING:", t, res.get(t))
sys.exit(1 if bad else 0)
