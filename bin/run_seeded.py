#!/usr/bin/env python3
"""bin/run_seeded.py [name ...] : re-run the stored seeded changes (seeded/<name>/) against the check that is
recorded as catching them, each in a scratch git worktree of /repo under /var/tmp (removed afterwards).
Prints one line per change; exit 1 if a change that was caught before is missed now.  Development tool:
not registered in MANIFEST.json."""
import json, os, re, subprocess, sys
root = os.path.dirname(os.path.dirname(os.path.abspath(__file__)))
names = sys.argv[1:] or sorted(os.listdir(os.path.join(root, "seeded")))
# scratch worktrees compile the whole module under a new path each time: keep that out of the shared build cache
env = dict(os.environ, GOFLAGS="-mod=mod", GOPROXY="off", GOCACHE="/var/tmp/gocache-mt")
missed = []
for name in names:
    d = os.path.join(root, "seeded", name)
    meta = json.load(open(os.path.join(d, "meta.json")))
    m = re.match(r"\s*(C\d\d)", meta.get("caught_by", ""))
    prop = m.group(1) if m else meta["breaks_property"]
    w = "/var/tmp/rs-" + name
    subprocess.run(["git", "-C", "/repo", "worktree", "remove", "--force", w], capture_output=True)
    subprocess.run(["git", "-C", "/repo", "worktree", "prune"], capture_output=True)
    if subprocess.run(["git", "-C", "/repo", "worktree", "add", "-q", "--detach", w, "HEAD"], capture_output=True).returncode:
        print(name, "WORKTREE-FAIL"); continue
    try:
        if subprocess.run(["git", "apply", os.path.join(d, "patch.diff")], cwd=w, capture_output=True).returncode:
            print(name, prop, "PATCH-DOES-NOT-APPLY (the code it changed has moved on)"); continue
        r = subprocess.run([os.path.join(root, "bin", "check"), prop], cwd=root, env=dict(env, VERIF_REPO=w),
                           capture_output=True, text=True, timeout=3000)
        v = [l for l in r.stdout.splitlines() if l.startswith("VIOLATION")]
        nf = sum("no-failing-input-found" in l for l in v)
        print(name, prop, "rc=%d" % r.returncode, "%d violations (%d without a failing input)" % (len(v), nf), flush=True)
        if r.returncode != 1:
            missed.append(name)
    finally:
        subprocess.run(["git", "-C", "/repo", "worktree", "remove", "--force", w], capture_output=True)
        sz = subprocess.run("du -s /var/tmp/gocache-mt 2>/dev/null | awk '{print int($1/1048576)}'", shell=True, capture_output=True, text=True).stdout.strip()
        if sz.isdigit() and int(sz) > 60:
            subprocess.run(["rm", "-rf", "/var/tmp/gocache-mt"])
print("missed:", missed)
sys.exit(1 if missed else 0)
