#!/usr/bin/env python3
"""bin/confirm_seed.py <outdir> [--no-suite]: confirm a seeded change delivered by a sub-agent before it is kept.
<outdir> holds patch.diff, a demo (*_test.go whose first lines name the package directory, or main.go) and README.md.
In a scratch git worktree of /repo (under /var/tmp, removed afterwards): the patch applies; `go build ./...` passes;
the pinned test suite still passes (bin/baseline_check.py); the demo FAILS with the patch and PASSES without it.
Prints one line per step and exits 0 only if everything is confirmed."""
import os, re, shutil, subprocess, sys
root = os.path.dirname(os.path.dirname(os.path.abspath(__file__)))
out = os.path.abspath(sys.argv[1])
suite = "--no-suite" not in sys.argv
env = dict(os.environ, GOFLAGS="-mod=mod", GOPROXY="off")
env.pop("GOTOOLCHAIN", None); env.pop("GOSUMDB", None)
w = "/var/tmp/confirm-" + re.sub(r"\W+", "-", out.strip("/"))[-40:]
def sh(cmd, cwd=w, timeout=2400):
    p = subprocess.run(cmd, shell=True, cwd=cwd, env=env, capture_output=True, text=True, timeout=timeout)
    return p.returncode, p.stdout + p.stderr
subprocess.run(["git", "-C", "/repo", "worktree", "remove", "--force", w], capture_output=True)
subprocess.run(["git", "-C", "/repo", "worktree", "prune"], capture_output=True)
rc = subprocess.run(["git", "-C", "/repo", "worktree", "add", "-q", "--detach", w, "HEAD"], capture_output=True).returncode
ok = rc == 0
try:
    demos = [f for f in os.listdir(out) if f.endswith("_test.go") or f == "main.go"]
    if not demos:
        print("NO-DEMO"); sys.exit(1)
    demo = demos[0]
    txt = open(os.path.join(out, demo)).read()
    m = re.search(r"^package\s+(\w+)", txt, re.M)
    pkgname = m.group(1)
    # package directory: named in the head comment or the README, else guessed from the package name
    cands = re.findall(r"(?:^|[\s`'\"(])((?:rel|syntax|engine|pkg/\w+(?:/\w+)*|cmd/\w+|internal/\w+|translate(?:/\w+)*|tools/\w+)/?)(?=[\s`'\"),.:]|$)", txt[:1500])
    d = None
    for c in cands:
        c = c.rstrip("/")
        if os.path.isdir(os.path.join(w, c)):
            pk = subprocess.run("grep -h '^package ' %s/*.go | sort | uniq -c | sort -rn | head -3" % c, shell=True, cwd=w, capture_output=True, text=True).stdout
            if re.search(r"package %s\b" % re.escape(pkgname), pk) or pkgname.endswith("_test") and re.search(r"package %s\b" % re.escape(pkgname[:-5]), pk):
                d = c; break
    if d is None:
        print("CANNOT-LOCATE-PACKAGE for demo", demo, "package", pkgname, "candidates", cands); sys.exit(1)
    def run_demo():
        if demo == "main.go":
            os.makedirs(os.path.join(w, "zz_demo"), exist_ok=True)
            shutil.copy(os.path.join(out, demo), os.path.join(w, "zz_demo", "main.go"))
            return sh("go run ./zz_demo", timeout=900)
        shutil.copy(os.path.join(out, demo), os.path.join(w, d, "zz_demo_test.go"))
        names = re.findall(r"^func (Test\w+)\(", txt, re.M)
        return sh("go test -vet=off -count=1 -run '^(%s)$' ./%s/" % ("|".join(names), d), timeout=1200)
    rc0, o0 = run_demo()
    print("demo on unchanged tree:", "PASS" if rc0 == 0 else "FAIL"); ok &= rc0 == 0
    if rc0 != 0: print(o0[-1500:])
    rc, o = sh("git apply %s" % os.path.join(out, "patch.diff"))
    print("patch applies:", rc == 0); ok &= rc == 0
    if rc != 0: print(o[-800:])
    rc, o = sh("go build ./...")
    print("go build ./...:", rc == 0); ok &= rc == 0
    rc1, o1 = run_demo()
    print("demo with the change:", "FAIL (as wanted)" if rc1 != 0 else "PASS (change not demonstrated)"); ok &= rc1 != 0
    if suite and ok:
        for f in ("zz_demo_test.go",):
            p = os.path.join(w, d, f)
            if os.path.exists(p): os.remove(p)
        shutil.rmtree(os.path.join(w, "zz_demo"), ignore_errors=True)
        rc, o = sh("python3 %s/bin/baseline_check.py %s" % (root, w), cwd=root)
        print("pinned suite with the change:", o.strip().splitlines()[0] if o.strip() else "?", "->", "ok" if rc == 0 else "BROKEN"); ok &= rc == 0
        if rc != 0: print(o[-1500:])
finally:
    subprocess.run(["git", "-C", "/repo", "worktree", "remove", "--force", w], capture_output=True)
print("CONFIRMED" if ok else "NOT-CONFIRMED", out)
sys.exit(0 if ok else 1)
