#!/usr/bin/env python3
"""bin/keep_seed.py <name> <property> <mutdir> <caught-by> <needs...> : store a confirmed seeded change under seeded/<name>/"""
import json, os, shutil, sys
root = os.path.dirname(os.path.dirname(os.path.abspath(__file__)))
name, prop, src, caught = sys.argv[1:5]
needs = " ".join(sys.argv[5:])
dst = os.path.join(root, "seeded", name)
os.makedirs(dst, exist_ok=True)
for f in os.listdir(src):
    if f == "patch.diff" or f.endswith("_test.go") or f == "README.md":
        shutil.copy(os.path.join(src, f), os.path.join(dst, f if not f.endswith("_test.go") else f + ".txt"))
json.dump({"breaks_property": prop, "needs_to_manifest": needs, "caught_by": caught,
           "confirmed": "patch applied in a scratch git worktree of /repo; go build ./... ok; demo test fails with the patch and passes without; `VERIF_REPO=<scratch> bin/check` run against it",
           }, open(os.path.join(dst, "meta.json"), "w"), indent=1)
print("kept", dst)
