#!/bin/bash
# setup_cmd: build the framework from files on disk only (offline).
set -e
cd "$(dirname "$0")/.."
export GOFLAGS=-mod=mod GOPROXY=off CARGO_NET_OFFLINE=true PIP_NO_INDEX=1
unset GOTOOLCHAIN GOSUMDB
mkdir -p .build evidence replay
cp /repo/go.sum harness/go.sum
(cd harness && go build -tags verif -o ../.build/vharness .)
(cd harness && go build -tags verif -race -o ../.build/vharness-race .) || echo "race build failed (C11 will rebuild)"
./.build/vharness tables .build/gen-tmp 2>/dev/null || true
rm -rf .build/gen-tmp
(cd coq && coq_makefile -f _CoqProject -o Makefile && timeout 3000 make -j16)
echo setup ok
