#!/usr/bin/env python3
"""bin/flip_finding.py KF-ID COMMIT : turn an `open:` line of known_findings.txt into the `fixed:` record."""
import re, sys, os
root = os.path.dirname(os.path.dirname(os.path.abspath(__file__)))
p = os.path.join(root, "known_findings.txt")
kf, commit = sys.argv[1], sys.argv[2]
out, n = [], 0
for line in open(p):
    if line.startswith("open:") and ("id=%s " % kf) in line:
        prop = re.search(r"property=(\S+)", line).group(1)
        sig = re.search(r"sig=(\S+)", line).group(1)
        m = re.search(r"witness=(.*?)\s*::\s*(.*)$", line.rstrip("\n"))
        out.append("fixed: property=%s %s %s [was %s sig=%s witness=%s]\n" % (prop, commit, m.group(2), kf, sig, m.group(1)))
        n += 1
    else:
        out.append(line)
open(p, "w").write("".join(out))
print("flipped", n)
