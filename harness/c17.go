// C17: drives engine.Start / Update / Observe / cancel / Hangup / Stop (public API
// only) with generated histories.  Every history runs in a fresh engine inside a
// CHILD process (`vharness c17child`): a nil dereference in the engine's loop
// goroutine kills the whole process and cannot be recovered, so the parent
// treats a dead child as outcome "crash" and keeps what the child had reported
// up to that point.
//
// Blocking is not guessed from a timeout alone: the harness reads the state of
// the engine's loop goroutine from runtime.Stack.  The loop is
//   idle    parked in its top-level select
//   wedged  parked in a channel send issued from inside engine.(*watcher).update
//           (the cancel closure; the harness's callbacks perform no channel
//           operations), i.e. a send to itself
//   gone    the goroutine has returned (Stop)
//   stuck   parked in some other channel operation for more than 3 s
// A call is reported "blocked" only when the loop is wedged/gone/stuck AND the
// calling goroutine is itself parked in a channel operation.  The loop accepts the
// next call only when the previous handler and its notifications are finished, so
// sequential calls need no barrier; at the end of a history the harness waits until
// the loop is idle (or wedged/gone) so that the log is complete.
package main

import (
	"bufio"
	"context"
	"encoding/json"
	"errors"
	"fmt"
	"io"
	"os"
	"os/exec"
	"regexp"
	"runtime"
	"strconv"
	"strings"
	"sync"
	"time"

	"github.com/arr-ai/arrai/engine"
	"github.com/arr-ai/arrai/pkg/arraictx"
	"github.com/arr-ai/arrai/rel"
	"github.com/arr-ai/arrai/syntax"
	"github.com/sirupsen/logrus"
)

func init() {
	if len(os.Args) >= 2 && os.Args[1] == "c17child" {
		c17ChildMain()
		os.Exit(0)
	}
	register("c17", c17Parent)
}

// ---------- parent side ----------

type c17Child struct {
	cmd    *exec.Cmd
	in     io.WriteCloser
	out    *bufio.Reader
	served int
	stderr *tailBuf
}

type tailBuf struct {
	mu sync.Mutex
	b  []byte
}

func (t *tailBuf) Write(p []byte) (int, error) {
	t.mu.Lock()
	defer t.mu.Unlock()
	t.b = append(t.b, p...)
	if len(t.b) > 1<<16 {
		t.b = t.b[len(t.b)-(1<<15):]
	}
	return len(p), nil
}

var c17cur *c17Child

func c17Spawn() (*c17Child, error) {
	cmd := exec.Command(os.Args[0], "c17child")
	in, err := cmd.StdinPipe()
	if err != nil {
		return nil, err
	}
	out, err := cmd.StdoutPipe()
	if err != nil {
		return nil, err
	}
	tb := &tailBuf{}
	cmd.Stderr = tb
	if err := cmd.Start(); err != nil {
		return nil, err
	}
	return &c17Child{cmd: cmd, in: in, out: bufio.NewReaderSize(out, 1<<16), stderr: tb}, nil
}

func (c *c17Child) kill() {
	_ = c.in.Close()
	_ = c.cmd.Process.Kill()
	_ = c.cmd.Wait()
}

var panicSiteRe = regexp.MustCompile(`(?m)^github\.com/arr-ai/arrai/(.+)\([^()]*\)$`)

func c17Parent(in map[string]any) map[string]any {
	if c17cur != nil && c17cur.served >= 150 {
		c17cur.kill()
		c17cur = nil
	}
	if c17cur == nil {
		c, err := c17Spawn()
		if err != nil {
			return map[string]any{"st": "harness-error", "msg": err.Error()}
		}
		c17cur = c
	}
	c := c17cur
	c.served++
	line, _ := json.Marshal(in)
	if _, err := c.in.Write(append(line, '\n')); err != nil {
		c.kill()
		c17cur = nil
		return map[string]any{"st": "harness-error", "msg": "child write: " + err.Error()}
	}
	acks := []any{}
	log := []any{}
	res := map[string]any{}
	type rl struct {
		s   string
		err error
	}
	for {
		ch := make(chan rl, 1)
		go func() {
			s, err := c.out.ReadString('\n')
			ch <- rl{s, err}
		}()
		var r rl
		select {
		case r = <-ch:
		case <-time.After(90 * time.Second):
			c.kill()
			c17cur = nil
			res["st"] = "timeout"
			res["acks"], res["log"] = acks, log
			return res
		}
		if r.err != nil {
			// the child died: a panic in a goroutine of the engine
			_ = c.cmd.Wait()
			c17cur = nil
			res["st"] = "crash"
			res["acks"], res["log"] = acks, log
			tail := string(c.stderr.b)
			if i := strings.Index(tail, "panic:"); i >= 0 {
				msg := tail[i:]
				if j := strings.Index(msg, "\n"); j >= 0 {
					res["panic"] = msg[:j]
				}
				if m := panicSiteRe.FindStringSubmatch(msg); m != nil {
					res["site"] = m[1]
				}
			}
			return res
		}
		var m map[string]any
		if json.Unmarshal([]byte(r.s), &m) != nil {
			continue
		}
		switch m["t"] {
		case "A":
			acks = append(acks, []any{m["c"], m["k"], m["a"]})
		case "L":
			log = append(log, []any{m["o"], m["m"], m["v"]})
		case "F":
			res["st"] = "done"
			res["final"] = m["final"]
			res["acks"], res["log"] = acks, log
			if m["note"] != nil {
				res["note"] = m["note"]
			}
			return res
		}
	}
}

// ---------- child side ----------

var (
	c17out   *bufio.Writer
	c17outMu sync.Mutex
)

func c17emit(m map[string]any) {
	b, _ := json.Marshal(m)
	c17outMu.Lock()
	c17out.Write(b)
	c17out.WriteByte('\n')
	c17out.Flush()
	c17outMu.Unlock()
}

var goHdr = regexp.MustCompile(`^goroutine (\d+) \[([^\],]+)`)

type gstate struct {
	state string
	stack string
}

var (
	stackMu  sync.Mutex
	stackBuf = make([]byte, 1<<16)
)

func allGoroutines() map[uint64]gstate {
	stackMu.Lock()
	var dump string
	for {
		n := runtime.Stack(stackBuf, true)
		if n < len(stackBuf) {
			dump = string(stackBuf[:n])
			break
		}
		stackBuf = make([]byte, 2*len(stackBuf))
	}
	stackMu.Unlock()
	res := map[uint64]gstate{}
	for _, blk := range strings.Split(dump, "\n\n") {
		m := goHdr.FindStringSubmatch(blk)
		if m == nil {
			continue
		}
		id, _ := strconv.ParseUint(m[1], 10, 64)
		res[id] = gstate{m[2], blk}
	}
	return res
}

func curGID() uint64 {
	buf := make([]byte, 64)
	n := runtime.Stack(buf, false)
	m := goHdr.FindStringSubmatch(string(buf[:n]))
	if m == nil {
		return 0
	}
	id, _ := strconv.ParseUint(m[1], 10, 64)
	return id
}

const loopFn = "engine.Start.func1"

func loopIDs() map[uint64]bool {
	r := map[uint64]bool{}
	for id, g := range allGoroutines() {
		if strings.Contains(g.stack, loopFn) {
			r[id] = true
		}
	}
	return r
}

type c17run struct {
	mu        sync.Mutex
	loop      uint64
	chanSince time.Time
}

// loop state: idle | busy | wedged | gone | stuck
func (r *c17run) classify(gs map[uint64]gstate) string {
	r.mu.Lock()
	defer r.mu.Unlock()
	g, ok := gs[r.loop]
	if !ok {
		return "gone"
	}
	switch g.state {
	case "select":
		r.chanSince = time.Time{}
		return "idle"
	case "chan send", "chan receive", "chan send (nil chan)", "chan receive (nil chan)", "select (no cases)":
		// a send to a harness-side one-shot receiver is also a channel park inside update, but a transient
		// one: the park must persist before it counts
		if r.chanSince.IsZero() {
			r.chanSince = time.Now()
		} else if g.state == "chan send" && strings.Contains(g.stack, "engine.(*watcher).update") && time.Since(r.chanSince) > 150*time.Millisecond {
			return "wedged"
		} else if time.Since(r.chanSince) > 3*time.Second {
			return "stuck"
		}
		return "busy"
	}
	r.chanSince = time.Time{}
	return "busy"
}

func parked(gs map[uint64]gstate, gid uint64) bool {
	g, ok := gs[gid]
	if !ok {
		return false
	}
	return strings.HasPrefix(g.state, "chan ") || strings.HasPrefix(g.state, "select")
}

// settle waits until the loop is idle, wedged, gone or stuck.
func (r *c17run) settle() string {
	t0 := time.Now()
	d := 50 * time.Microsecond
	for {
		st := r.classify(allGoroutines())
		if st != "busy" {
			return st
		}
		if time.Since(t0) > 30*time.Second {
			return "timeout"
		}
		time.Sleep(d)
		if d < 2*time.Millisecond {
			d *= 2
		}
	}
}

type c17obs struct {
	oid     int
	failAt  int
	panicAt map[int]bool
	n       int
	oneshot chan error // non-nil: onclose hands the error to a receiver that receives exactly once (the gRPC front end's shape)
}

// c17panicExpr is a rel.Expr (public interface) whose evaluation panics: always
// (limit < 0) or when the inner expression's value is not a number <= limit.
type c17panicExpr struct {
	rel.Expr
	always bool
	limit  float64
}

func (p c17panicExpr) Eval(ctx context.Context, local rel.Scope) (rel.Value, error) {
	if p.always {
		panic("c17: this expression panics")
	}
	v, err := p.Expr.Eval(ctx, local)
	if err != nil {
		return nil, err
	}
	if n, ok := v.(rel.Number); ok && n.Float64() <= p.limit {
		return v, nil
	}
	panic(fmt.Sprintf("c17: cannot evaluate on %v", v))
}

var (
	c17cacheMu sync.Mutex
	c17cache   = map[string]rel.Expr{}
)

// compiled expressions are immutable: compile each source once per child
func c17compile(ctx context.Context, src string) (rel.Expr, error) {
	c17cacheMu.Lock()
	e, ok := c17cache[src]
	c17cacheMu.Unlock()
	if ok {
		return e, nil
	}
	e, err := c17compile1(ctx, src)
	if err == nil {
		c17cacheMu.Lock()
		c17cache[src] = e
		c17cacheMu.Unlock()
	}
	return e, err
}

func c17compile1(ctx context.Context, src string) (rel.Expr, error) {
	if strings.HasPrefix(src, "!panic") {
		inner, err := syntax.Compile(ctx, syntax.NoPath, "$")
		if err != nil {
			return nil, err
		}
		if src == "!panic" {
			return c17panicExpr{inner, true, 0}, nil
		}
		lim, err := strconv.ParseFloat(strings.TrimPrefix(src, "!panicgt:"), 64)
		if err != nil {
			return nil, err
		}
		return c17panicExpr{inner, false, lim}, nil
	}
	return syntax.Compile(ctx, syntax.NoPath, src)
}

type c17eng struct {
	e       *engine.Engine
	r       *c17run
	mu      sync.Mutex
	cancels map[int]func()
}

var errCB = errors.New("observer callback failed")

func valText(v rel.Value) string {
	switch x := v.(type) {
	case rel.Number:
		return fmtNum(x.Float64())
	case rel.Set:
		if !x.IsTrue() {
			return "none"
		}
	}
	return "other:" + v.String()
}

func (g *c17eng) call(ctx context.Context, ev map[string]any) string {
	switch ev["op"] {
	case "update":
		expr, err := c17compile(ctx, ev["expr"].(string))
		if err != nil {
			return "compile-error"
		}
		if err := g.e.Update(expr); err != nil {
			return "err"
		}
		return "ok"
	case "observe":
		expr, err := c17compile(ctx, ev["expr"].(string))
		if err != nil {
			return "compile-error"
		}
		o := &c17obs{oid: int(ev["oid"].(float64)), failAt: int(ev["fail_at"].(float64)), panicAt: map[int]bool{}}
		if l, ok := ev["panic_at"].([]any); ok {
			for _, x := range l {
				o.panicAt[int(x.(float64))] = true
			}
		}
		if b, _ := ev["oneshot"].(bool); b {
			o.oneshot = make(chan error)
			go func() { <-o.oneshot }() // `return <-retch`: receives once, then is gone
		}
		cancel := g.e.Observe(expr,
			func(v rel.Value) error {
				c17emit(map[string]any{"t": "L", "o": o.oid, "m": "U", "v": valText(v)})
				k := o.n
				o.n++
				if o.panicAt[k] {
					panic("c17: observer callback panics")
				}
				if k == o.failAt {
					return errCB
				}
				return nil
			},
			func(err error) {
				if err == nil {
					c17emit(map[string]any{"t": "L", "o": o.oid, "m": "C", "v": "nil"})
				} else {
					c17emit(map[string]any{"t": "L", "o": o.oid, "m": "C", "v": "err"})
				}
				if o.oneshot != nil {
					o.oneshot <- err // a second close finds no receiver and parks the caller: the engine loop
				}
			})
		g.mu.Lock()
		g.cancels[o.oid] = cancel
		g.mu.Unlock()
		return "done"
	case "cancel":
		g.mu.Lock()
		c := g.cancels[int(ev["oid"].(float64))]
		g.mu.Unlock()
		if c == nil {
			return "no-such-observer"
		}
		c()
		return "done"
	case "hangup":
		g.e.Hangup()
		return "done"
	case "stop":
		g.e.Stop()
		return "done"
	}
	return "bad-op"
}

// issue performs one call in its own goroutine and returns its answer, or
// "blocked" once it is certain that nobody can ever complete the rendezvous.
func (g *c17eng) issue(ctx context.Context, ev map[string]any) string {
	resc := make(chan string, 1)
	gidc := make(chan uint64, 1)
	go func() {
		gidc <- curGID()
		resc <- g.call(ctx, ev)
	}()
	gid := <-gidc
	t0 := time.Now()
	d := 2 * time.Millisecond // a served call returns within microseconds; only then look at the goroutines
	for {
		select {
		case a := <-resc:
			return a
		case <-time.After(d):
		}
		gs := allGoroutines()
		st := g.r.classify(gs)
		if (st == "wedged" || st == "gone" || st == "stuck") && parked(gs, gid) {
			select {
			case a := <-resc:
				return a
			default:
			}
			return "blocked"
		}
		if time.Since(t0) > 30*time.Second {
			return "timeout"
		}
	}
}

func evList(x any) []map[string]any {
	res := []map[string]any{}
	l, _ := x.([]any)
	for _, e := range l {
		res = append(res, e.(map[string]any))
	}
	return res
}

func c17RunCase(in map[string]any) {
	ctx := arraictx.InitRunCtx(context.Background())
	old := loopIDs()
	e := engine.Start()
	g := &c17eng{e: e, r: &c17run{}, cancels: map[int]func(){}}
	for tries := 0; g.r.loop == 0 && tries < 1000; tries++ {
		for id := range loopIDs() {
			if !old[id] {
				g.r.loop = id
			}
		}
		if g.r.loop == 0 {
			time.Sleep(time.Millisecond)
		}
	}
	note := ""
	if g.r.loop == 0 {
		note = "loop goroutine not found (" + loopFn + ")"
	}
	final := g.r.settle()
	seq := func(client int, evs []map[string]any, barrier bool) {
		for k, ev := range evs {
			a := g.issue(ctx, ev)
			c17emit(map[string]any{"t": "A", "c": client, "k": k, "a": a})
			if barrier {
				final = g.r.settle()
			}
		}
	}
	// sequential prefix, concurrent clients, sequential suffix
	// no barrier between sequential calls: the loop takes the next rendezvous only when the previous handler
	// (including its notifications, which run after Update has been answered) is finished, and the callbacks
	// write the log themselves, in order; one barrier at the end of each phase is enough
	seq(0, evList(in["events"]), false)
	final = g.r.settle()
	if cl, ok := in["clients"].([]any); ok && len(cl) > 0 {
		var wg sync.WaitGroup
		start := make(chan struct{})
		for ci, c := range cl {
			wg.Add(1)
			go func(ci int, evs []map[string]any) {
				defer wg.Done()
				<-start
				seq(ci+1, evs, false)
			}(ci, evList(c))
		}
		close(start)
		wg.Wait()
		final = g.r.settle()
		seq(99, evList(in["after"]), false)
	}
	final = g.r.settle()
	m := map[string]any{"t": "F", "final": final}
	if note != "" {
		m["note"] = note
	}
	c17emit(m)
}

func c17ChildMain() {
	logrus.SetOutput(io.Discard)
	logrus.SetLevel(logrus.PanicLevel)
	c17out = bufio.NewWriter(os.Stdout)
	rd := bufio.NewReaderSize(os.Stdin, 1<<20)
	dec := json.NewDecoder(rd)
	for {
		var in map[string]any
		if err := dec.Decode(&in); err != nil {
			return
		}
		c17RunCase(in)
	}
}

var _ = fmt.Sprintf
