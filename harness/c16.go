//go:build verif

// C16 harness: local imports on a recording file system (real temp directory,
// real working directory), cyclic import graphs under a wall-clock bound, and
// the reference stream for the Go path/strings functions modelled in
// coq/Sys/GoPath.v.
package main

import (
	"context"
	"fmt"
	"os"
	"path"
	"path/filepath"
	"runtime/debug"
	"strings"
	"sync"
	"time"

	"github.com/spf13/afero"

	"github.com/arr-ai/arrai/pkg/arraictx"
	"github.com/arr-ai/arrai/pkg/ctxfs"
	"github.com/arr-ai/arrai/syntax"
)

// recFs16 records the raw name of every path the implementation asks the source
// file system for.
type recFs16 struct {
	afero.Fs
	mu  sync.Mutex
	log [][2]string
}

func (r *recFs16) rec(op, name string) {
	r.mu.Lock()
	r.log = append(r.log, [2]string{op, name})
	r.mu.Unlock()
}

func (r *recFs16) Open(name string) (afero.File, error) {
	r.rec("open", name)
	return r.Fs.Open(name)
}

func (r *recFs16) OpenFile(name string, flag int, perm os.FileMode) (afero.File, error) {
	r.rec("open", name)
	return r.Fs.OpenFile(name, flag, perm)
}

func (r *recFs16) Stat(name string) (os.FileInfo, error) {
	r.rec("stat", name)
	return r.Fs.Stat(name)
}

func (r *recFs16) snapshot() [][2]string {
	r.mu.Lock()
	defer r.mu.Unlock()
	return append([][2]string(nil), r.log...)
}

func toBytes(s string) []int {
	out := make([]int, len(s))
	for i := 0; i < len(s); i++ {
		out[i] = int(s[i])
	}
	return out
}

func fromBytes(v any) string {
	xs, _ := v.([]any)
	b := make([]byte, 0, len(xs))
	for _, x := range xs {
		f, _ := x.(float64)
		b = append(b, byte(int(f)))
	}
	return string(b)
}

var c16LastLayout string

// layout (re)creates base with exactly the given files; cached while the same
// layout is used by consecutive cases.
func c16Layout(base string, files map[string]any) error {
	keys := make([]string, 0, len(files))
	for k := range files {
		keys = append(keys, k)
	}
	sig := base + "\x00"
	// deterministic signature
	for {
		swapped := false
		for i := 1; i < len(keys); i++ {
			if keys[i-1] > keys[i] {
				keys[i-1], keys[i] = keys[i], keys[i-1]
				swapped = true
			}
		}
		if !swapped {
			break
		}
	}
	for _, k := range keys {
		s, _ := files[k].(string)
		sig += k + "\x01" + s + "\x02"
	}
	if sig == c16LastLayout {
		return nil
	}
	c16LastLayout = ""
	if !strings.HasPrefix(base, "/") || strings.Count(base, "/") < 3 {
		return fmt.Errorf("refusing base %q", base)
	}
	if err := os.RemoveAll(base); err != nil {
		return err
	}
	if err := os.MkdirAll(base, 0o755); err != nil {
		return err
	}
	for _, k := range keys {
		s, _ := files[k].(string)
		p := filepath.Join(base, k)
		if !strings.HasPrefix(p, base+"/") {
			return fmt.Errorf("layout file %q outside base", k)
		}
		if strings.HasSuffix(k, "/") {
			if err := os.MkdirAll(p, 0o755); err != nil {
				return err
			}
			continue
		}
		if err := os.MkdirAll(filepath.Dir(p), 0o755); err != nil {
			return err
		}
		if err := os.WriteFile(p, []byte(s), 0o644); err != nil {
			return err
		}
	}
	c16LastLayout = sig
	return nil
}

func init() {
	// c16: {"base": abs dir, "files": {rel: content}, "cwd": dir (abs), "main": path given to EvaluateExpr,
	//       "src": source of the main script, "budget_ms": n}   (or "fs": "mem", "files": {abs: content}, absolute "main")
	// -> {"st": ok|err|panic|timeout, "val": dump, "opens": [[op, [bytes]]...]}
	register("c16", func(in map[string]any) map[string]any {
		base, _ := in["base"].(string)
		files, _ := in["files"].(map[string]any)
		cwd, _ := in["cwd"].(string)
		mainPath := fromBytesOrString(in["main"])
		src := fromBytesOrString(in["src"])
		budget := 3 * time.Second
		if b, ok := in["budget_ms"].(float64); ok {
			budget = time.Duration(b) * time.Millisecond
		}
		var rfs *recFs16
		if fsKind, _ := in["fs"].(string); fsKind == "mem" {
			// in-memory tree with absolute file names (lets go.mod sit in "/"); the
			// main path must be absolute so that the working directory plays no part
			mem := afero.NewMemMapFs()
			for k, v := range files {
				s, _ := v.(string)
				if !strings.HasPrefix(k, "/") {
					return map[string]any{"st": "harness-error", "msg": "mem layout needs absolute names: " + k}
				}
				if err := afero.WriteFile(mem, k, []byte(s), 0o644); err != nil {
					return map[string]any{"st": "harness-error", "msg": err.Error()}
				}
			}
			rfs = &recFs16{Fs: mem}
		} else {
			if err := c16Layout(base, files); err != nil {
				return map[string]any{"st": "harness-error", "msg": err.Error()}
			}
			if err := os.Chdir(cwd); err != nil {
				return map[string]any{"st": "harness-error", "msg": err.Error()}
			}
			rfs = &recFs16{Fs: afero.NewOsFs()}
		}
		ch := make(chan evalResult, 1)
		go func() {
			var r evalResult
			defer func() {
				if p := recover(); p != nil {
					r.panic = fmt.Sprint(p)
					r.site = panicSite(string(debug.Stack()))
					r.val, r.err = nil, nil
				}
				ch <- r
			}()
			ctx := arraictx.InitRunCtx(context.Background())
			ctx = ctxfs.SourceFsOnto(ctx, rfs)
			r.val, r.err = syntax.EvaluateExpr(ctx, mainPath, src)
		}()
		var out map[string]any
		select {
		case r := <-ch:
			out = obs(r, false, false)
		case <-time.After(budget):
			out = obs(evalResult{}, true, false)
		}
		ops := [][]any{}
		for _, e := range rfs.snapshot() {
			ops = append(ops, []any{e[0], toBytes(e[1])})
		}
		out["opens"] = ops
		return out
	})

	// gopath: {"fn": name, "a": [bytes], "b": [bytes]} -> {"r": [bytes]} using the real Go standard library
	register("gopath", func(in map[string]any) map[string]any {
		fn, _ := in["fn"].(string)
		a, b := fromBytes(in["a"]), fromBytes(in["b"])
		var r string
		switch fn {
		case "clean":
			r = path.Clean(a)
		case "fclean":
			r = filepath.Clean(a)
		case "join":
			r = filepath.Join(a, b)
		case "dir":
			r = filepath.Dir(a)
		case "ext":
			r = filepath.Ext(a)
		case "trimws":
			r = strings.Trim(a, " \t\n")
		case "trimslash":
			r = strings.Trim(a, "/")
		case "strip":
			r = strings.ReplaceAll(a, "../", "")
		case "hasprefix":
			if strings.HasPrefix(a, b) {
				r = "1"
			} else {
				r = "0"
			}
		case "absfrom":
			// filepath.Abs(a) with working directory b (unix): IsAbs -> Clean, else Join(wd, a)
			if err := os.Chdir(b); err != nil {
				return map[string]any{"err": err.Error()}
			}
			x, err := filepath.Abs(a)
			if err != nil {
				return map[string]any{"err": err.Error()}
			}
			r = x
		default:
			return map[string]any{"err": "unknown fn"}
		}
		return map[string]any{"r": toBytes(r)}
	})
}

func fromBytesOrString(v any) string {
	if s, ok := v.(string); ok {
		return s
	}
	return fromBytes(v)
}
