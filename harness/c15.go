package main

// C15: a bundle evaluates exactly like its sources and reads nothing else.
// One case = a file layout on an afero MemMapFs + the absolute path of the main
// script.  The layout is (a) evaluated from source with syntax.EvaluateExpr,
// (b) bundled with bundle.BundledScripts and the archive evaluated with
// syntax.EvaluateBundleCtx (from two different working directories), with a
// recording afero.Fs installed as source/runtime/default fs during the bundle
// run: everything the run touches outside the zip shows up in "reads".

import (
	"archive/zip"
	"bytes"
	"context"
	"fmt"
	"io"
	"os"
	"runtime/debug"
	"sort"
	"sync"
	"time"

	"github.com/spf13/afero"

	"github.com/arr-ai/arrai/pkg/arraictx"
	"github.com/arr-ai/arrai/pkg/bundle"
	"github.com/arr-ai/arrai/pkg/ctxfs"
	"github.com/arr-ai/arrai/pkg/ctxrootcache"
	"github.com/arr-ai/arrai/rel"
	"github.com/arr-ai/arrai/syntax"
)

type recFs struct {
	afero.Fs
	mu   sync.Mutex
	log  []string
	okay []string
}

func (r *recFs) note(op, name string, err error) {
	r.mu.Lock()
	defer r.mu.Unlock()
	r.log = append(r.log, op+" "+name)
	if err == nil && op != "stat" {
		r.okay = append(r.okay, name)
	}
}

func (r *recFs) Open(name string) (afero.File, error) {
	f, err := r.Fs.Open(name)
	r.note("open", name, err)
	return f, err
}

func (r *recFs) OpenFile(name string, flag int, perm os.FileMode) (afero.File, error) {
	f, err := r.Fs.OpenFile(name, flag, perm)
	r.note("open", name, err)
	return f, err
}

func (r *recFs) Stat(name string) (os.FileInfo, error) {
	fi, err := r.Fs.Stat(name)
	r.note("stat", name, err)
	return fi, err
}

func (r *recFs) Create(name string) (afero.File, error) {
	f, err := r.Fs.Create(name)
	r.note("create", name, err)
	return f, err
}

func (r *recFs) take() (all, okay []string) {
	r.mu.Lock()
	defer r.mu.Unlock()
	all, okay = r.log, r.okay
	r.log, r.okay = nil, nil
	if all == nil {
		all = []string{}
	}
	if okay == nil {
		okay = []string{}
	}
	return
}

// guarded runs f with a wall-clock budget, turning panics into a result.
func guarded(budget time.Duration, f func() (rel.Value, error)) (evalResult, bool) {
	ch := make(chan evalResult, 1)
	go func() {
		var r evalResult
		defer func() {
			if p := recover(); p != nil {
				r.panic = fmt.Sprint(p)
				r.site = panicSite(string(debug.Stack()))
				r.val, r.err = nil, nil
			}
			ch <- r
		}()
		r.val, r.err = f()
	}()
	select {
	case r := <-ch:
		return r, false
	case <-time.After(budget):
		return evalResult{}, true
	}
}

// obs15 is obs with the error text rendered defensively: rel.ContextErr.Error
// itself can panic (nil scanner), which must not take the harness down.
func obs15(r evalResult, timedOut bool) map[string]any {
	if r.err != nil && r.panic == "" && !timedOut {
		msg := func() (m string) {
			defer func() {
				if p := recover(); p != nil {
					m = "error text unavailable: Error() panicked"
				}
			}()
			return r.err.Error()
		}()
		if len(msg) > 300 {
			msg = msg[:300]
		}
		return map[string]any{"st": "err", "msg": msg}
	}
	return obs(r, timedOut, false)
}

func c15Ctx(fs afero.Fs) context.Context {
	ctx := arraictx.InitRunCtx(context.Background())
	ctx = ctxfs.SourceFsOnto(ctx, fs)
	ctx = ctxfs.RuntimeFsOnto(ctx, fs)
	ctx = ctxrootcache.WithRootCache(ctx)
	return ctx
}

func init() {
	register("c15", func(in map[string]any) map[string]any {
		out := map[string]any{}
		mem := afero.NewMemMapFs()
		files, _ := in["files"].([]any)
		for _, e := range files {
			p := e.([]any)
			name, content := p[0].(string), p[1].(string)
			if err := afero.WriteFile(mem, name, []byte(content), 0o644); err != nil {
				out["setup_err"] = err.Error()
				return out
			}
		}
		mainPath, _ := in["main"].(string)
		budget := 5 * time.Second
		if b, ok := in["budget_ms"].(float64); ok {
			budget = time.Duration(b) * time.Millisecond
		}
		cwds := []string{"/", os.TempDir()}
		rec := &recFs{Fs: mem}
		ctxfs.SetDefaultFs(rec)
		defer ctxfs.SetDefaultFs(nil)

		// (a) from source
		mainSrc, err := afero.ReadFile(mem, mainPath)
		if err != nil {
			out["setup_err"] = "main: " + err.Error()
			return out
		}
		_ = os.Chdir(cwds[0])
		r, to := guarded(budget, func() (rel.Value, error) {
			return syntax.EvaluateExpr(c15Ctx(rec), mainPath, string(mainSrc))
		})
		out["src"] = obs15(r, to)
		_, okay := rec.take()
		sort.Strings(okay)
		out["src_reads"] = okay

		// (b) bundle
		var buf bytes.Buffer
		br, bto := guarded(budget, func() (rel.Value, error) {
			return nil, bundle.BundledScripts(c15Ctx(rec), mainPath, &buf)
		})
		rec.take()
		switch {
		case bto:
			out["bst"] = "timeout"
		case br.panic != "":
			out["bst"] = "panic"
			out["bmsg"] = br.site + ": " + br.panic
		case br.err != nil:
			out["bst"] = "err"
			out["bmsg"] = obs15(br, false)["msg"]
		default:
			out["bst"] = "ok"
		}
		if out["bst"] != "ok" {
			return out
		}
		data := buf.Bytes()
		listing := []string{}
		if zr, err := zip.NewReader(bytes.NewReader(data), int64(len(data))); err == nil {
			for _, f := range zr.File {
				listing = append(listing, f.Name)
				// read every entry back through the written bytes (inflate + CRC)
				if rc, err := f.Open(); err != nil {
					out["zip_err"] = f.Name + ": " + err.Error()
				} else {
					if _, err := io.Copy(io.Discard, rc); err != nil {
						out["zip_err"] = f.Name + ": " + err.Error()
					}
					rc.Close()
				}
				if f.Name == "config.arrai" {
					if rc, err := f.Open(); err == nil {
						b, _ := io.ReadAll(rc)
						rc.Close()
						out["config"] = string(b)
					}
				}
			}
		} else {
			out["zip_err"] = err.Error()
		}
		sort.Strings(listing)
		out["listing"] = listing

		// (c) run the bundle from two working directories; the recording fs
		// is everything it could reach besides the zip.
		runs := []any{}
		for _, cwd := range cwds {
			_ = os.Chdir(cwd)
			rr, rto := guarded(budget, func() (rel.Value, error) {
				return syntax.EvaluateBundleCtx(c15Ctx(rec), data)
			})
			runs = append(runs, obs15(rr, rto))
		}
		_ = os.Chdir(cwds[0])
		all, _ := rec.take()
		out["runs"] = runs
		out["reads"] = all
		return out
	})
}
