package main

import (
	"context"
	"fmt"
	"strings"
	"time"

	"github.com/arr-ai/arrai/pkg/arraictx"
	"github.com/arr-ai/arrai/syntax"
)

// Gen/Kinds.v: the Kind() number of one witness value per Go representation,
// observed by running the implementation.
func init() {
	tableWriters = append(tableWriters, func() (map[string]string, error) {
		witnesses := [][2]string{
			{"KNum", `1`}, {"KEmpty", `{}`}, {"KTrue", `true`}, {"KGeneric", `{1}`}, {"KStr", `"a"`},
			{"KBytes", `<<1>>`}, {"KArr", `[1]`}, {"KDict", `{1: 2}`}, {"KUnion", `{1, "a"} | [1]`}, {"KRel", `{(a: 1)}`},
			{"KTupG", `(a: 1)`}, {"KTupChar", `(@: 0, @char: 97)`}, {"KTupItem", `(@: 0, @item: 1)`},
			{"KTupEntry", `(@: 1, @value: 2)`}, {"KTupByte", `(@: 0, @byte: 1)`},
		}
		var sb strings.Builder
		sb.WriteString("(* REGENERATED on every check by `vharness tables` from the running implementation: do not edit. *)\n")
		sb.WriteString("From Arrai Require Import Base.Val Rep.Less.\n\n")
		sb.WriteString("Definition kind_table : list (rkind * Z) := [\n")
		ctx := arraictx.InitRunCtx(context.Background())
		for i, w := range witnesses {
			v, err := syntax.EvaluateExpr(ctx, "", w[1])
			if err != nil {
				return nil, fmt.Errorf("kinds: %s: %v", w[1], err)
			}
			sep := ";"
			if i == len(witnesses)-1 {
				sep = ""
			}
			fmt.Fprintf(&sb, "  (%s, %d)%s\n", w[0], v.Kind(), sep)
		}
		sb.WriteString("].\n\n")
		// the @neg rule: kind (-x) = - kind x, observed on two witnesses
		neg := 1
		for _, src := range []string{`{1}`, `(a: 1)`} {
			v, err := syntax.EvaluateExpr(ctx, "", src)
			if err != nil {
				return nil, err
			}
			n, err := syntax.EvaluateExpr(ctx, "", "-"+src)
			if err != nil {
				return nil, err
			}
			if n.Kind() != -v.Kind() {
				neg = 0
			}
		}
		fmt.Fprintf(&sb, "Definition neg_kind_is_negation : bool := %v.\n", neg == 1)
		return map[string]string{"Kinds.v": sb.String()}, nil
	})
}

// gotype: {"src": "..."} -> the Go type name and Kind() number of the value the
// implementation represents the expression with (compared with the
// representation the model of the order predicts for the same value).
func init() {
	register("gotype", func(in map[string]any) map[string]any {
		src, _ := in["src"].(string)
		r, to := safeEval(src, 10*time.Second)
		out := obs(r, to, false)
		if out["st"] == "ok" {
			out["gotype"] = fmt.Sprintf("%T", r.val)
			out["kind"] = r.val.Kind()
			delete(out, "val")
		}
		return out
	})
}
