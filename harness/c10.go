package main

import (
	"fmt"
	"go/ast"
	"go/parser"
	"go/token"
	"os"
	"path/filepath"
	"sort"
	"strings"
)

// Gen/Sites.v: for every function of the evaluator packages, the number of
// explicit panic( calls and of single-value (unchecked) type assertions, read
// from the source with go/ast.  (This is the one table obtained by reading
// source: an unreached panic cannot be observed by running the code.)
func init() {
	tableWriters = append(tableWriters, func() (map[string]string, error) {
		root := os.Getenv("VERIF_REPO")
		if root == "" {
			root = "/repo"
		}
		counts := map[string][2]int{}
		for _, dir := range []string{"rel", "syntax", "translate", "engine", "pkg/arrai", "pkg/test", "pkg/importcache", "tools"} {
			files, _ := filepath.Glob(filepath.Join(root, dir, "*.go"))
			for _, f := range files {
				if strings.HasSuffix(f, "_test.go") || strings.HasSuffix(f, "bindata.go") || strings.Contains(filepath.Base(f), "verif_") {
					continue
				}
				fset := token.NewFileSet()
				node, err := parser.ParseFile(fset, f, nil, 0)
				if err != nil {
					return nil, err
				}
				for _, d := range node.Decls {
					fd, ok := d.(*ast.FuncDecl)
					if !ok || fd.Body == nil {
						continue
					}
					name := fd.Name.Name
					if fd.Recv != nil && len(fd.Recv.List) == 1 {
						t := fd.Recv.List[0].Type
						if s, is := t.(*ast.StarExpr); is {
							t = s.X
						}
						if idx, is := t.(*ast.IndexExpr); is {
							t = idx.X
						}
						if id, is := t.(*ast.Ident); is {
							name = id.Name + "." + name
						}
					}
					key := dir + ":" + name
					c := counts[key]
					// assertions whose second result is used are checked: collect them first
					checked := map[*ast.TypeAssertExpr]bool{}
					ast.Inspect(fd.Body, func(n ast.Node) bool {
						switch x := n.(type) {
						case *ast.AssignStmt:
							if len(x.Lhs) == 2 && len(x.Rhs) == 1 {
								if ta, is := x.Rhs[0].(*ast.TypeAssertExpr); is {
									checked[ta] = true
								}
							}
						case *ast.ValueSpec:
							if len(x.Names) == 2 && len(x.Values) == 1 {
								if ta, is := x.Values[0].(*ast.TypeAssertExpr); is {
									checked[ta] = true
								}
							}
						}
						return true
					})
					ast.Inspect(fd.Body, func(n ast.Node) bool {
						switch x := n.(type) {
						case *ast.CallExpr:
							if id, is := x.Fun.(*ast.Ident); is && id.Name == "panic" {
								c[0]++
							}
						case *ast.TypeAssertExpr:
							if x.Type != nil && !checked[x] { // x.(type) switches have Type == nil
								c[1]++
							}
						}
						return true
					})
					if c[0]+c[1] > 0 {
						counts[key] = c
					}
				}
			}
		}
		keys := make([]string, 0, len(counts))
		for k := range counts {
			keys = append(keys, k)
		}
		sort.Strings(keys)
		var sb strings.Builder
		sb.WriteString("(* REGENERATED on every check by `vharness tables` (go/ast walk of the evaluator packages): do not edit. *)\n")
		sb.WriteString("From Coq Require Import List String ZArith.\nImport ListNotations.\nOpen Scope string_scope.\n\n")
		sb.WriteString("(* function, explicit panic( calls, unchecked type assertions *)\n")
		sb.WriteString("Definition current_sites : list (string * (nat * nat)) := [\n")
		for i, k := range keys {
			sep := ";"
			if i == len(keys)-1 {
				sep = ""
			}
			fmt.Fprintf(&sb, "  (\"%s\", (%d, %d))%s\n", k, counts[k][0], counts[k][1], sep)
		}
		sb.WriteString("]%list.\n")
		return map[string]string{"Sites.v": sb.String()}, nil
	})
}
