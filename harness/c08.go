package main

import (
	"context"
	"fmt"
	"strings"

	"github.com/arr-ai/arrai/pkg/arraictx"
	"github.com/arr-ai/arrai/syntax"
)

// Gen/Prec.v: how the running parser and compiler group `1 o1 2 o2 3` for every
// ordered pair of binary operators, read off the fully parenthesised rendering of the
// compiled expression: 1 = ((1 o1 2) o2 3), 2 = (1 o1 (2 o2 3)), 0 = neither shape
// (rejected, folded into something else, or a chained comparison).
var precOps = []string{"+", "-", "*", "/", "%", "^", "//", "++", "&", "|", "&~", "~~", "<&>", "<->", "-&-", "---", "+>", "with", "without", "where", "=>", ">>", "->"}

func init() {
	tableWriters = append(tableWriters, func() (map[string]string, error) {
		ctx := arraictx.InitRunCtx(context.Background())
		var sb strings.Builder
		sb.WriteString("(* REGENERATED on every check by `vharness tables` from the running implementation: do not edit. *)\n")
		sb.WriteString("From Arrai Require Import Base.Val.\n\n")
		sb.WriteString("(* (operator 1, operator 2, grouping of `x o1 y o2 z`): 1 = left, 2 = right, 0 = other *)\n")
		sb.WriteString("Definition prec_table : list (list Z * list Z * Z) := [\n")
		first := true
		for _, o1 := range precOps {
			for _, o2 := range precOps {
				g := 0
				func() {
					defer func() { _ = recover() }()
					e, err := syntax.Compile(ctx, "", fmt.Sprintf("\\x \\y \\z x %s y %s z", o1, o2))
					if err != nil {
						return
					}
					s := e.String()
					// strip the three binders
					i := strings.LastIndex(s, "\\z")
					if i < 0 {
						return
					}
					body := strings.TrimSpace(s[i+2:])
					body = strings.TrimRight(body, ")")
					body = strings.TrimSpace(body)
					switch {
					case strings.HasPrefix(body, "((x ") && strings.HasSuffix(body, " z"):
						g = 1
					case strings.HasPrefix(body, "(x ") && strings.Contains(body, "(y "):
						g = 2
					}
				}()
				if !first {
					sb.WriteString(";\n")
				}
				first = false
				fmt.Fprintf(&sb, "  (%s, %s, %d)", zlist([]byte(o1)), zlist([]byte(o2)), g)
			}
		}
		sb.WriteString("\n].\n")
		return map[string]string{"Prec.v": sb.String()}, nil
	})
}
