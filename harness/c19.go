package main

// C19: arrai.OutputValue (--out=dir:PATH / file:PATH) against a prior file
// system state.  The file system is either the real OS file system confined
// to a fresh temporary directory (afero.BasePathFs over afero.OsFs: what the
// CLI uses) or afero.MemMapFs.  A wrapper counts the file system operations
// and can make the k-th one fail.  Observables: ok/err/panic, complete
// snapshot (paths, kinds, bytes) before and after, operation log.

import (
	"context"
	"errors"
	"fmt"
	"os"
	"path/filepath"
	"runtime/debug"
	"sort"
	"strings"

	"github.com/spf13/afero"

	"github.com/arr-ai/arrai/pkg/arrai"
	"github.com/arr-ai/arrai/pkg/arraictx"
	"github.com/arr-ai/arrai/pkg/ctxfs"
	"github.com/arr-ai/arrai/rel"
	"github.com/arr-ai/arrai/syntax"
)

var errInjected = errors.New("verif: injected I/O error")

// ---------- counting / fault-injecting fs ----------

type faultFs struct {
	afero.Fs
	n     int      // operations seen so far
	fault int      // index of the operation that fails (-1: none)
	fired string   // name of the operation the fault hit ("" if it never fired)
	log   []string // "op path"
}

func (f *faultFs) tick(op, p string) bool {
	k := f.n
	f.n++
	f.log = append(f.log, op+" "+p)
	if k == f.fault {
		f.fired = op
		return true
	}
	return false
}

func (f *faultFs) Stat(name string) (os.FileInfo, error) {
	if f.tick("stat", name) {
		return nil, errInjected
	}
	return f.Fs.Stat(name)
}
func (f *faultFs) Mkdir(name string, perm os.FileMode) error {
	if f.tick("mkdir", name) {
		return errInjected
	}
	return f.Fs.Mkdir(name, perm)
}
func (f *faultFs) MkdirAll(name string, perm os.FileMode) error {
	if f.tick("mkdirall", name) {
		return errInjected
	}
	return f.Fs.MkdirAll(name, perm)
}
func (f *faultFs) RemoveAll(name string) error {
	if f.tick("removeall", name) {
		return errInjected
	}
	return f.Fs.RemoveAll(name)
}
func (f *faultFs) Remove(name string) error {
	if f.tick("remove", name) {
		return errInjected
	}
	return f.Fs.Remove(name)
}
func (f *faultFs) Rename(a, b string) error {
	if f.tick("rename", a) {
		return errInjected
	}
	return f.Fs.Rename(a, b)
}
func (f *faultFs) Create(name string) (afero.File, error) {
	if f.tick("create", name) {
		return nil, errInjected
	}
	fl, err := f.Fs.Create(name)
	if err != nil {
		return nil, err
	}
	return &faultFile{File: fl, fs: f, name: name}, nil
}
func (f *faultFs) OpenFile(name string, flag int, perm os.FileMode) (afero.File, error) {
	if f.tick("openfile", name) {
		return nil, errInjected
	}
	fl, err := f.Fs.OpenFile(name, flag, perm)
	if err != nil {
		return nil, err
	}
	return &faultFile{File: fl, fs: f, name: name}, nil
}

type faultFile struct {
	afero.File
	fs   *faultFs
	name string
}

func (f *faultFile) Write(b []byte) (int, error) {
	if f.fs.tick("write", f.name) {
		return 0, errInjected
	}
	return f.File.Write(b)
}
func (f *faultFile) WriteString(s string) (int, error) { return f.Write([]byte(s)) }
func (f *faultFile) Sync() error {
	if f.fs.tick("sync", f.name) {
		return errInjected
	}
	return f.File.Sync()
}
func (f *faultFile) Close() error {
	if f.fs.tick("close", f.name) {
		f.File.Close()
		return errInjected
	}
	return f.File.Close()
}

// ---------- description of the value (abstraction function, enumeration order kept) ----------

func byteList(b []byte) []int {
	out := make([]int, len(b))
	for i, x := range b {
		out[i] = int(x)
	}
	return out
}

func descOf(v rel.Value, depth int) any {
	if depth > 30 {
		return map[string]any{"O": 1}
	}
	switch x := v.(type) {
	case rel.Tuple:
		t := map[string]any{}
		for _, n := range []string{"ifExists", "dir", "file"} {
			if f, has := x.Get(n); has {
				t[n] = descOf(f, depth+1)
			}
		}
		return map[string]any{"T": t}
	case rel.Dict:
		es := []any{}
		e := x.DictEnumerator()
		for e.MoveNext() {
			var k, val rel.Value
			multi := false
			func() {
				defer func() {
					if recover() != nil {
						multi = true
					}
				}()
				k, val = e.Current()
			}()
			if multi {
				es = append(es, []any{map[string]any{"o": 1}, map[string]any{"M": 1}})
				continue
			}
			var kd any
			if s, is := k.(rel.String); is {
				kd = map[string]any{"s": byteList([]byte(s.String()))}
			} else {
				kd = map[string]any{"o": 1}
			}
			es = append(es, []any{kd, descOf(val, depth+1)})
		}
		return map[string]any{"D": es}
	case rel.Bytes:
		return map[string]any{"B": byteList(x.Bytes())}
	case rel.String:
		return map[string]any{"S": byteList([]byte(x.String()))}
	case rel.Set:
		if !x.IsTrue() {
			return map[string]any{"E": 1}
		}
		return map[string]any{"X": 1}
	}
	return map[string]any{"O": 1}
}

// ---------- file system set-up and snapshots ----------

type priorEntry struct {
	p string
	k string
	b []byte
}

func parsePrior(in any) []priorEntry {
	var out []priorEntry
	l, _ := in.([]any)
	for _, e := range l {
		a, _ := e.([]any)
		if len(a) < 2 {
			continue
		}
		pe := priorEntry{p: a[0].(string), k: a[1].(string)}
		if len(a) > 2 {
			if bl, ok := a[2].([]any); ok {
				for _, x := range bl {
					pe.b = append(pe.b, byte(int(x.(float64))))
				}
			}
		}
		out = append(out, pe)
	}
	return out
}

type world struct {
	fs      afero.Fs
	tmp     string // "" for MemMapFs
	cleanup func()
}

func newWorld(kind string, prior []priorEntry) (*world, error) {
	w := &world{cleanup: func() {}}
	if kind == "mem" {
		w.fs = afero.NewMemMapFs()
	} else {
		base := os.Getenv("VERIF_C19_TMP")
		tmp, err := os.MkdirTemp(base, "c19-")
		if err != nil {
			return nil, err
		}
		w.tmp = tmp
		w.fs = afero.NewBasePathFs(afero.NewOsFs(), tmp)
		w.cleanup = func() { os.RemoveAll(tmp) }
	}
	for _, e := range prior {
		if e.k == "d" {
			if err := w.fs.MkdirAll(e.p, 0755); err != nil {
				w.cleanup()
				return nil, err
			}
		} else {
			if err := w.fs.MkdirAll(filepath.Dir(e.p), 0755); err != nil {
				w.cleanup()
				return nil, err
			}
			if err := afero.WriteFile(w.fs, e.p, e.b, 0644); err != nil {
				w.cleanup()
				return nil, err
			}
		}
	}
	return w, nil
}

func (w *world) snapshot() []any {
	out := []any{}
	add := func(p string, isDir bool, data []byte) {
		if p == "/" || p == "" {
			return
		}
		if isDir {
			out = append(out, []any{p, "d"})
		} else {
			out = append(out, []any{p, "f", byteList(data)})
		}
	}
	if w.tmp != "" {
		_ = filepath.Walk(w.tmp, func(p string, info os.FileInfo, err error) error {
			if err != nil {
				return nil
			}
			r := strings.TrimPrefix(p, w.tmp)
			if info.IsDir() {
				add(r, true, nil)
			} else {
				b, _ := os.ReadFile(p)
				add(r, false, b)
			}
			return nil
		})
	} else {
		_ = afero.Walk(w.fs, "/", func(p string, info os.FileInfo, err error) error {
			if err != nil || info == nil {
				return nil
			}
			if info.IsDir() {
				add(p, true, nil)
			} else {
				b, _ := afero.ReadFile(w.fs, p)
				add(p, false, b)
			}
			return nil
		})
	}
	sort.Slice(out, func(i, j int) bool { return out[i].([]any)[0].(string) < out[j].([]any)[0].(string) })
	return out
}

type outRun struct {
	st    string
	msg   string
	site  string
	after []any
	ops   []string
	fired string
}

func runOut(kind string, prior []priorEntry, val rel.Value, outArg string, fault int) (*outRun, []any, error) {
	w, err := newWorld(kind, prior)
	if err != nil {
		return nil, nil, err
	}
	defer w.cleanup()
	before := w.snapshot()
	ffs := &faultFs{Fs: w.fs, fault: fault}
	r := &outRun{}
	func() {
		defer func() {
			if p := recover(); p != nil {
				r.st = "panic"
				r.msg = fmt.Sprint(p)
				r.site = panicSite(string(debug.Stack()))
			}
		}()
		ctx := ctxfs.RuntimeFsOnto(arraictx.InitRunCtx(context.Background()), ffs)
		if e := arrai.OutputValue(ctx, val, nil, outArg); e != nil {
			r.st = "err"
			r.msg = e.Error()
			if len(r.msg) > 200 {
				r.msg = r.msg[:200]
			}
		} else {
			r.st = "ok"
		}
	}()
	r.after = w.snapshot()
	r.ops = ffs.log
	r.fired = ffs.fired
	return r, before, nil
}

func (r *outRun) json(withOps bool) map[string]any {
	o := map[string]any{"st": r.st, "after": r.after, "nops": len(r.ops)}
	if r.msg != "" {
		o["msg"] = r.msg
	}
	if r.site != "" {
		o["site"] = r.site
	}
	if withOps {
		o["ops"] = r.ops
	}
	if r.fired != "" {
		o["fired"] = r.fired
	}
	return o
}

func init() {
	// c19: {"src": arr.ai source of the result value, "prior": [[path,"d"]|[path,"f",[bytes]]...],
	//       "out": "dir:/w/out", "fs": "os"|"mem", "faults": bool}
	register("c19", func(in map[string]any) map[string]any {
		src, _ := in["src"].(string)
		outArg, _ := in["out"].(string)
		kind, _ := in["fs"].(string)
		if kind == "" {
			kind = "os"
		}
		faults, _ := in["faults"].(bool)
		prior := parsePrior(in["prior"])
		res := map[string]any{}
		var val rel.Value
		var everr error
		func() {
			defer func() {
				if p := recover(); p != nil {
					everr = fmt.Errorf("panic in evaluation: %v", p)
				}
			}()
			ctx := arraictx.InitRunCtx(context.Background())
			val, everr = syntax.EvaluateExpr(ctx, "", src)
		}()
		if everr != nil {
			res["st"] = "evalerr"
			res["msg"] = everr.Error()
			return res
		}
		res["desc"] = descOf(val, 0)
		r, before, err := runOut(kind, prior, val, outArg, -1)
		if err != nil {
			res["st"] = "setuperr"
			res["msg"] = err.Error()
			return res
		}
		res["before"] = before
		for k, v := range r.json(true) {
			res[k] = v
		}
		if faults && r.st != "panic" {
			fr := []any{}
			for k := 0; k < len(r.ops); k++ {
				rk, _, err := runOut(kind, prior, val, outArg, k)
				if err != nil {
					continue
				}
				o := rk.json(false)
				o["k"] = k
				fr = append(fr, o)
			}
			res["faultruns"] = fr
		}
		return res
	})
}
