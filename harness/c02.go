package main

// C02 builder correspondence: constructions given as trees are built through the public API
// (rel.NewNumber, rel.NewTuple, rel.NewSet in the given argument order) and reported as shapes:
// the Go type of every value, Count() and the enumerated members of every set, plus Equal() both ways.

import (
	"fmt"
	"runtime/debug"
	"sort"
	"strconv"

	"github.com/arr-ai/arrai/rel"
)

func buildTree(t any) (rel.Value, error) {
	m, ok := t.(map[string]any)
	if !ok {
		return nil, fmt.Errorf("bad tree")
	}
	if n, ok := m["n"].(string); ok {
		f, err := strconv.ParseFloat(n, 64)
		if err != nil {
			return nil, err
		}
		return rel.NewNumber(f), nil
	}
	if as, ok := m["t"].([]any); ok {
		attrs := make([]rel.Attr, 0, len(as))
		for _, a := range as {
			p := a.([]any)
			v, err := buildTree(p[1])
			if err != nil {
				return nil, err
			}
			attrs = append(attrs, rel.NewAttr(p[0].(string), v))
		}
		return rel.NewTuple(attrs...), nil
	}
	if ms, ok := m["s"].([]any); ok {
		vals := make([]rel.Value, 0, len(ms))
		for _, x := range ms {
			v, err := buildTree(x)
			if err != nil {
				return nil, err
			}
			vals = append(vals, v)
		}
		return rel.NewSet(vals...)
	}
	return nil, fmt.Errorf("bad tree")
}

func shapeOf(v rel.Value, depth int) any {
	if depth > 40 {
		return map[string]any{"x": "deep"}
	}
	switch x := v.(type) {
	case rel.Number:
		return map[string]any{"n": fmtNum(x.Float64())}
	case rel.Tuple:
		attrs := [][2]any{}
		for e := x.Enumerator(); e.MoveNext(); {
			name, val := e.Current()
			attrs = append(attrs, [2]any{name, shapeOf(val, depth+1)})
		}
		sort.Slice(attrs, func(i, j int) bool { return attrs[i][0].(string) < attrs[j][0].(string) })
		return map[string]any{"T": fmt.Sprintf("%T", v), "a": attrs}
	case rel.Set:
		ms := []any{}
		for e := x.Enumerator(); e.MoveNext(); {
			ms = append(ms, shapeOf(e.Current(), depth+1))
		}
		return map[string]any{"T": fmt.Sprintf("%T", v), "c": x.Count(), "m": ms}
	}
	return map[string]any{"x": fmt.Sprintf("%T", v)}
}

func buildObserved(t any) (v rel.Value, out map[string]any) {
	out = map[string]any{}
	defer func() {
		if p := recover(); p != nil {
			v = nil
			out = map[string]any{"st": "panic", "site": panicSite(string(debug.Stack())), "msg": fmt.Sprint(p)}
		}
	}()
	val, err := buildTree(t)
	if err != nil {
		return nil, map[string]any{"st": "err", "msg": err.Error()}
	}
	out["shape"] = shapeOf(val, 0)
	out["st"] = "ok"
	return val, out
}

func equalObserved(a, b rel.Value) (res any) {
	defer func() {
		if p := recover(); p != nil {
			res = "panic"
		}
	}()
	return a.Equal(b)
}

func init() {
	// build: {"a": tree, "b": tree} -> shapes of both constructions and a.Equal(b), b.Equal(a)
	register("build", func(in map[string]any) map[string]any {
		va, oa := buildObserved(in["a"])
		vb, ob := buildObserved(in["b"])
		out := map[string]any{"st": "done", "a": oa, "b": ob}
		if va != nil && vb != nil {
			out["ab"] = equalObserved(va, vb)
			out["ba"] = equalObserved(vb, va)
		}
		return out
	})
}
