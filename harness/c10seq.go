package main

// C10 seqop: one method of a slice+offset+holes sequence representation (rel.Array, rel.String,
// rel.Bytes), called through the public API on an operand whose LAYOUT (offset, cells incl. holes,
// Count()) is reported next to the outcome, so that the Coq model (Rep/SeqSafe.v) can be run on the
// same (layout, operation, argument) triple.  The layout is read through the public API only:
// Array.Values(), String.String(), Bytes.Bytes(), Enumerator(), Count() and the offset prefix of fu.Repr.

import (
	"context"
	"fmt"
	"math"
	"regexp"
	"runtime/debug"
	"strconv"
	"strings"
	"time"

	"github.com/arr-ai/wbnf/parser"

	"github.com/arr-ai/arrai/pkg/arraictx"
	"github.com/arr-ai/arrai/pkg/fu"
	"github.com/arr-ai/arrai/rel"
	"github.com/arr-ai/arrai/syntax"
)

var offsetPrefix = regexp.MustCompile(`^(-?\d+)\\`)

func reprOffsetOf(v rel.Value) string {
	if m := offsetPrefix.FindStringSubmatch(fu.Repr(v)); m != nil {
		return m[1]
	}
	return "0"
}

func numText(v rel.Value) (string, bool) {
	n, ok := v.(rel.Number)
	if !ok {
		return "", false
	}
	f := n.Float64()
	if math.IsNaN(f) || math.IsInf(f, 0) || f != math.Trunc(f) {
		return "", false
	}
	return strconv.FormatFloat(f, 'f', 0, 64), true
}

// members: the (@, value) pairs an enumeration yields, as decimal texts
func members(s rel.Set, attr string) ([][2]string, bool) {
	out := [][2]string{}
	ok := true
	for e := s.Enumerator(); e.MoveNext(); {
		t, is := e.Current().(rel.Tuple)
		if !is {
			return out, false
		}
		at, has1 := t.Get("@")
		val, has2 := t.Get(attr)
		if !has1 || !has2 {
			return out, false
		}
		a, ok1 := numText(at)
		b, ok2 := numText(val)
		if !ok1 || !ok2 {
			ok = false
			continue
		}
		out = append(out, [2]string{a, b})
	}
	return out, ok
}

// layout of a value: kind (Go type), offset, cells (null = hole), Count()
func layoutSeq(v rel.Value) map[string]any {
	out := map[string]any{"type": fmt.Sprintf("%T", v)}
	switch x := v.(type) {
	case rel.Array:
		out["k"] = "array"
		cells := []any{}
		for _, c := range x.Values() {
			if c == nil {
				cells = append(cells, nil)
			} else if t, ok := numText(c); ok {
				cells = append(cells, t)
			} else {
				cells = append(cells, "x")
				out["opaque"] = true
			}
		}
		out["cells"] = cells
		out["off"] = reprOffsetOf(v)
		out["count"] = x.Count()
	case rel.String:
		out["k"] = "string"
		// the cells are the runes of String(); a hole prints as U+FFFD (the generators never use that character)
		runes := []rune(x.String())
		cells := make([]any, len(runes))
		off := reprOffsetOf(v)
		for j, r := range runes {
			if r != 0xFFFD {
				cells[j] = strconv.Itoa(int(r))
			}
		}
		out["cells"] = cells
		out["off"] = off
		out["count"] = x.Count()
	case rel.Bytes:
		out["k"] = "bytes"
		cells := []any{}
		for _, b := range x.Bytes() {
			cells = append(cells, strconv.Itoa(int(b)))
		}
		out["cells"] = cells
		out["off"] = reprOffsetOf(v)
		out["count"] = x.Count()
	default:
		if out["type"] == "rel.EmptySet" {
			out["k"] = "none"
		} else {
			out["k"] = "other"
		}
	}
	return out
}

type seqOutcome struct {
	res   map[string]any
	err   error
	panic string
	site  string
}

func seqGuarded(budget time.Duration, f func() (map[string]any, error)) (seqOutcome, bool) {
	ch := make(chan seqOutcome, 1)
	go func() {
		var r seqOutcome
		defer func() {
			if p := recover(); p != nil {
				r = seqOutcome{panic: fmt.Sprint(p), site: panicSite(string(debug.Stack()))}
			}
			ch <- r
		}()
		r.res, r.err = f()
	}()
	select {
	case r := <-ch:
		return r, false
	case <-time.After(budget):
		return seqOutcome{}, true
	}
}

var seqCache = map[string]rel.Value{}

func evalCached(ctx context.Context, src string) (rel.Value, error) {
	if v, ok := seqCache[src]; ok {
		return v, nil
	}
	v, err := syntax.EvaluateExpr(ctx, "", src)
	if err == nil {
		seqCache[src] = v
	}
	return v, err
}

func init() {
	// seqop: {"seq": src, "op": with|without|has|call|enum|offset|where|concat, "arg": src, "keep": [..], "fail": n}
	register("seqop", func(in map[string]any) map[string]any {
		out := map[string]any{}
		seqSrc, _ := in["seq"].(string)
		op, _ := in["op"].(string)
		argSrc, _ := in["arg"].(string)
		budget := 4 * time.Second
		if b, ok := in["budget_ms"].(float64); ok {
			budget = time.Duration(b) * time.Millisecond
		}
		ctx := arraictx.InitRunCtx(context.Background())
		// the operand and the argument are built first; a failure there is not the operation's
		var seq, arg rel.Value
		pre, to := seqGuarded(budget, func() (map[string]any, error) {
			var err error
			if seq, err = evalCached(ctx, seqSrc); err != nil {
				return nil, err
			}
			if argSrc != "" {
				if arg, err = evalCached(ctx, argSrc); err != nil {
					return nil, err
				}
			}
			return map[string]any{"in": layoutSeq(seq)}, nil
		})
		switch {
		case to:
			out["st"], out["phase"] = "timeout", "operand"
			return out
		case pre.panic != "":
			out["st"], out["phase"], out["site"], out["msg"] = "panic", "operand", pre.site, pre.panic
			return out
		case pre.err != nil:
			out["st"], out["phase"] = "err", "operand"
			return out
		}
		out["in"] = pre.res["in"]
		set, isSet := seq.(rel.Set)
		if !isSet {
			out["st"], out["phase"] = "err", "operand"
			return out
		}
		keep := map[int64]bool{}
		if ks, ok := in["keep"].([]any); ok {
			for _, k := range ks {
				keep[int64(k.(float64))] = true
			}
		}
		failAt, hasFail := in["fail"].(float64)
		r, to := seqGuarded(budget, func() (map[string]any, error) {
			switch op {
			case "with":
				return map[string]any{"out": layoutSeq(set.With(arg))}, nil
			case "without":
				return map[string]any{"out": layoutSeq(set.Without(arg))}, nil
			case "has":
				return map[string]any{"bool": set.Has(arg)}, nil
			case "call":
				sb := rel.NewSetBuilder()
				if err := set.CallAll(ctx, arg, sb); err != nil {
					return nil, err
				}
				res, err := sb.Finish()
				if err != nil {
					return nil, err
				}
				vals := []string{}
				for e := res.Enumerator(); e.MoveNext(); {
					t, ok := numText(e.Current())
					if !ok {
						t = "x"
					}
					vals = append(vals, t)
				}
				return map[string]any{"vals": vals}, nil
			case "enum":
				attr := map[string]string{"rel.Array": "@item", "rel.String": "@char", "rel.Bytes": "@byte"}[fmt.Sprintf("%T", seq)]
				ms, ok := members(set, attr)
				return map[string]any{"enum": ms, "enum_ok": ok}, nil
			case "offset":
				v, err := rel.NewOffsetExpr(*parser.NewScanner(""), arg, seq).Eval(ctx, rel.EmptyScope)
				if err != nil {
					return nil, err
				}
				return map[string]any{"out": layoutSeq(v)}, nil
			case "where":
				v, err := set.Where(func(m rel.Value) (bool, error) {
					t, ok := m.(rel.Tuple)
					if !ok {
						return false, fmt.Errorf("not a tuple")
					}
					at, _ := t.Get("@")
					i := int64(at.(rel.Number).Float64())
					if hasFail && i == int64(failAt) {
						return false, fmt.Errorf("predicate fails here")
					}
					return keep[i], nil
				})
				if err != nil {
					return nil, err
				}
				return map[string]any{"out": layoutSeq(v)}, nil
			case "concat":
				b, ok := arg.(rel.Set)
				if !ok {
					return nil, fmt.Errorf("not a set")
				}
				v, err := rel.Concatenate(set, b)
				if err != nil {
					return nil, err
				}
				return map[string]any{"out": layoutSeq(v), "arg_in": layoutSeq(arg)}, nil
			}
			return nil, fmt.Errorf("unknown op %s", op)
		})
		switch {
		case to:
			out["st"] = "timeout"
		case r.panic != "":
			out["st"], out["site"], out["msg"] = "panic", r.site, r.panic
			if len(r.panic) > 200 {
				out["msg"] = r.panic[:200]
			}
		case r.err != nil:
			out["st"] = "err"
		default:
			out["st"] = "ok"
			for k, v := range r.res {
				out[k] = v
			}
		}
		if op == "concat" && arg != nil {
			if _, has := out["arg_in"]; !has {
				func() {
					defer func() { _ = recover() }()
					out["arg_in"] = layoutSeq(arg)
				}()
			}
		}
		if s, _ := out["msg"].(string); strings.Contains(s, "out of memory") {
			out["st"] = "crash"
		}
		return out
	})
}
