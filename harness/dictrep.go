package main

// dictrep: API-level histories over rel.Dict (rel/value_set_dict.go), observed through the public API:
// the layout (per key: one value or several) is read from Dict.Export(), whose map holds either a
// rel.Value or the unexported multipleValues (a frozen.Set[rel.Value] underneath).

import (
	"context"
	"fmt"
	"reflect"
	"runtime/debug"
	"time"

	"github.com/arr-ai/frozen"

	"github.com/arr-ai/arrai/rel"
)

func dictLayout(d rel.Dict) (out []any, ok bool) {
	m, is := d.Export(context.Background()).(frozen.Map[rel.Value, any])
	if !is {
		return nil, false
	}
	setT := reflect.TypeOf(frozen.Set[rel.Value]{})
	for i := m.Range(); i.Next(); {
		k, v := i.Entry()
		if one, is := v.(rel.Value); is {
			out = append(out, map[string]any{"k": dump(k, 0), "m": false, "v": []any{dump(one, 0)}})
			continue
		}
		rv := reflect.ValueOf(v)
		if !rv.Type().ConvertibleTo(setT) {
			return nil, false
		}
		s := rv.Convert(setT).Interface().(frozen.Set[rel.Value])
		vs := []any{}
		for e := s.Range(); e.Next(); {
			vs = append(vs, dump(e.Value(), 0))
		}
		out = append(out, map[string]any{"k": dump(k, 0), "m": true, "v": vs})
	}
	return out, true
}

func obsSet(v rel.Value, err error) map[string]any {
	if err != nil {
		return map[string]any{"ty": "err"}
	}
	s, is := v.(rel.Set)
	if !is {
		return map[string]any{"ty": "notset"}
	}
	o := map[string]any{"members": dump(s, 0), "go": fmt.Sprintf("%T", v)}
	switch x := v.(type) {
	case rel.Dict:
		if l, ok := dictLayout(x); ok {
			o["ty"] = "dict"
			o["layout"] = l
		} else {
			o["ty"] = "dict-unreadable"
		}
	case rel.EmptySet:
		o["ty"] = "empty"
	default:
		o["ty"] = "other"
	}
	return o
}

var evalSrcCache = map[string]rel.Value{}

func evalSrc(src string) (rel.Value, error) {
	if v, has := evalSrcCache[src]; has {
		return v, nil
	}
	v, err := evalSrcUncached(src)
	if err == nil {
		evalSrcCache[src] = v
	}
	return v, err
}

func evalSrcUncached(src string) (rel.Value, error) {
	r, to := safeEval(src, 5*time.Second)
	if to {
		return nil, fmt.Errorf("timeout")
	}
	if r.panic != "" {
		return nil, fmt.Errorf("panic: %s", r.panic)
	}
	return r.val, r.err
}

func dictPred(kind string, c rel.Value) func(rel.Value) (bool, error) {
	return func(v rel.Value) (bool, error) {
		t, is := v.(rel.Tuple)
		if !is {
			return false, nil
		}
		k, _ := t.Get("@")
		x, _ := t.Get(rel.DictValueAttr)
		switch kind {
		case "all":
			return true, nil
		case "none":
			return false, nil
		case "keyne":
			return !k.Equal(c), nil
		case "valne":
			return !x.Equal(c), nil
		case "valeq":
			return x.Equal(c), nil
		}
		return false, fmt.Errorf("unknown predicate")
	}
}

func init() {
	register("dictrep", func(in map[string]any) (out map[string]any) {
		steps := []any{}
		out = map[string]any{"st": "ok"}
		defer func() {
			if p := recover(); p != nil {
				out["st"] = "panic"
				out["site"] = panicSite(string(debug.Stack()))
				out["msg"] = fmt.Sprint(p)
				out["at_step"] = len(steps) + 1
			}
			out["steps"] = steps
		}()
		regs := []rel.Value{}
		val := func(x any) rel.Value {
			v, err := evalSrc(x.(string))
			if err != nil {
				panic(fmt.Sprintf("harness: cannot evaluate operand %q: %v", x, err))
			}
			return v
		}
		reg := func(x any) (rel.Dict, bool) {
			i := int(x.(float64))
			if i < 0 || i >= len(regs) || regs[i] == nil {
				return rel.Dict{}, false
			}
			d, is := regs[i].(rel.Dict)
			return d, is
		}
		ops, _ := in["ops"].([]any)
		for _, o := range ops {
			op := o.(map[string]any)
			var res rel.Value
			var step map[string]any
			switch op["op"] {
			case "new":
				var entries []rel.DictEntryTuple
				for _, e := range op["entries"].([]any) {
					kv := e.([]any)
					entries = append(entries, rel.NewDictEntryTuple(val(kv[0]), val(kv[1])))
				}
				v, err := rel.NewDict(op["allow"].(bool), entries...)
				step = obsSet(v, err)
				if err == nil {
					res = v
				}
			case "with", "without", "where":
				d, is := reg(op["d"])
				if !is {
					step = map[string]any{"ty": "skip"}
					break
				}
				var v rel.Value
				var err error
				switch op["op"] {
				case "with":
					v = d.With(val(op["v"]))
				case "without":
					v = d.Without(val(op["v"]))
				default:
					var c rel.Value = rel.None
					if s, has := op["c"].(string); has {
						c = val(s)
					}
					v, err = d.Where(dictPred(op["pred"].(string), c))
				}
				step = obsSet(v, err)
				if err == nil {
					res = v
				}
			case "has":
				if d, is := reg(op["d"]); is {
					step = map[string]any{"ty": "bool", "b": d.Has(val(op["v"]))}
				} else {
					step = map[string]any{"ty": "skip"}
				}
			case "count":
				if d, is := reg(op["d"]); is {
					step = map[string]any{"ty": "num", "n": d.Count()}
				} else {
					step = map[string]any{"ty": "skip"}
				}
			case "call":
				if d, is := reg(op["d"]); is {
					sb := rel.NewSetBuilder()
					if err := d.CallAll(context.Background(), val(op["k"]), sb); err != nil {
						step = map[string]any{"ty": "err"}
						break
					}
					s, err := sb.Finish()
					if err != nil {
						step = map[string]any{"ty": "err"}
						break
					}
					vs := []any{}
					for e := s.Enumerator(); e.MoveNext(); {
						vs = append(vs, dump(e.Current(), 0))
					}
					step = map[string]any{"ty": "vals", "vs": vs}
				} else {
					step = map[string]any{"ty": "skip"}
				}
			case "equal":
				a, isa := reg(op["a"])
				b, isb := reg(op["b"])
				if isa && isb {
					step = map[string]any{"ty": "bool", "b": a.Equal(b), "b2": b.Equal(a)}
				} else {
					step = map[string]any{"ty": "skip"}
				}
			default:
				panic("harness: unknown op")
			}
			regs = append(regs, res)
			steps = append(steps, step)
		}
		return out
	})
}
