package main

import (
	"context"
	"fmt"
	"math"
	"regexp"
	"runtime"
	"runtime/debug"
	"sort"
	"strconv"
	"strings"
	"time"

	"github.com/arr-ai/arrai/pkg/arraictx"
	"github.com/arr-ai/arrai/pkg/fu"
	"github.com/arr-ai/arrai/rel"
	"github.com/arr-ai/arrai/syntax"
)

// dump renders a value through the public API only, as a canonical JSON tree:
// numbers {"n": text}, tuples {"t": [[name, dump]...]} (sorted by name),
// sets {"s": [dump...], "c": Count()} in enumeration order, functions {"f": 1}.
func dump(v rel.Value, depth int) any {
	if depth > 40 {
		return map[string]any{"x": "deep"}
	}
	switch x := v.(type) {
	case rel.Number:
		f := x.Float64()
		return map[string]any{"n": fmtNum(f)}
	case rel.Tuple:
		attrs := [][2]any{}
		for e := x.Enumerator(); e.MoveNext(); {
			name, val := e.Current()
			attrs = append(attrs, [2]any{name, dump(val, depth+1)})
		}
		sort.Slice(attrs, func(i, j int) bool { return attrs[i][0].(string) < attrs[j][0].(string) })
		return map[string]any{"t": attrs}
	case rel.Closure, rel.ExprClosure, *rel.NativeFunction:
		return map[string]any{"f": 1}
	case rel.Set:
		ms := []any{}
		for e := x.Enumerator(); e.MoveNext(); {
			ms = append(ms, dump(e.Current(), depth+1))
		}
		return map[string]any{"s": ms, "c": x.Count()}
	}
	return map[string]any{"x": fmt.Sprintf("%T", v)}
}

func fmtNum(f float64) string {
	if math.IsNaN(f) {
		return "nan"
	}
	if math.IsInf(f, 0) {
		if f > 0 {
			return "inf"
		}
		return "-inf"
	}
	return strconv.FormatFloat(f, 'g', -1, 64)
}

var frameRe = regexp.MustCompile(`github\.com/arr-ai/arrai/([^\s(]+?)\.((?:\(\*?[A-Za-z0-9_]+(?:\[[^\]]*\])?\)\.)?[A-Za-z0-9_]+)(?:\.func\d+(?:\.\d+)*)?(?:\[\.\.\.\])?\(`)

// panicSite normalises a stack to "pkg:function" of the first /repo frame.
func panicSite(stack string) string {
	for _, line := range strings.Split(stack, "\n") {
		if m := frameRe.FindStringSubmatch(line); m != nil {
			return m[1] + ":" + m[2]
		}
	}
	return "unknown"
}

type evalResult struct {
	val   rel.Value
	err   error
	panic string
	site  string
}

func safeEval(src string, budget time.Duration) (res evalResult, timedOut bool) {
	ch := make(chan evalResult, 1)
	go func() {
		var r evalResult
		defer func() {
			if p := recover(); p != nil {
				r.panic = fmt.Sprint(p)
				r.site = panicSite(string(debug.Stack()))
				r.val, r.err = nil, nil
			}
			ch <- r
		}()
		ctx := arraictx.InitRunCtx(context.Background())
		r.val, r.err = syntax.EvaluateExpr(ctx, "", src)
	}()
	select {
	case r := <-ch:
		return r, false
	case <-time.After(budget):
		// where is it stuck?  The stacks of all goroutines tell a parse error being rendered
		// (wbnf ParseError.Error / walkErrors, exponential) from anything else.
		buf := make([]byte, 4<<20)
		stack := string(buf[:runtime.Stack(buf, true)])
		where := "elsewhere"
		if strings.Contains(stack, "parser.ParseError.Error") || strings.Contains(stack, "parser.(*ParseError).Error") ||
			strings.Contains(stack, "walkErrors") {
			where = "parse-error-text"
		}
		return evalResult{site: where}, true
	}
}

func obs(r evalResult, timedOut bool, wantRepr bool) map[string]any {
	out := map[string]any{}
	switch {
	case timedOut:
		out["st"] = "timeout"
		out["stuck_in"] = r.site
	case r.panic != "":
		out["st"] = "panic"
		out["site"] = r.site
		out["msg"] = r.panic
	case r.err != nil:
		out["st"] = "err"
		// Rendering the text of some parse errors takes exponential time
		// (wbnf ParseError.Error): never wait for it unboundedly.
		ch := make(chan string, 1)
		go func() {
			defer func() {
				if p := recover(); p != nil {
					ch <- "panic while rendering the error: " + fmt.Sprint(p)
				}
			}()
			ch <- r.err.Error()
		}()
		select {
		case msg := <-ch:
			if len(msg) > 300 {
				msg = msg[:300]
			}
			out["msg"] = msg
		case <-time.After(1500 * time.Millisecond):
			out["msg"] = "<error text not rendered within 1.5s>"
			out["slow_error_text"] = true
			out["exit_after"] = true
		}
	default:
		func() {
			defer func() {
				if p := recover(); p != nil {
					out["st"] = "panic"
					out["site"] = panicSite(string(debug.Stack()))
					out["msg"] = "in dump: " + fmt.Sprint(p)
				}
			}()
			out["val"] = dump(r.val, 0)
			if wantRepr {
				out["repr"] = fu.Repr(r.val)
			}
			out["st"] = "ok"
		}()
	}
	return out
}

func init() {
	// eval: {"src": "..."} -> observation of syntax.EvaluateExpr
	register("eval", func(in map[string]any) map[string]any {
		src, _ := in["src"].(string)
		budget := 10 * time.Second
		if b, ok := in["budget_ms"].(float64); ok {
			budget = time.Duration(b) * time.Millisecond
		}
		r, to := safeEval(src, budget)
		return obs(r, to, true)
	})
}
