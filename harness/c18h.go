package main

// C18, histories of evaluators: one run creates several evaluators and uses them in a given
// order.  Command `c18h`:
//   {"setup": src, "evs": [...], "uses": [{"name": "u0", "ev": "A", "lit": "<arr.ai literal of the source>"}],
//    "inline": src-or-""}
//  driven (inline == ""): `setup` evaluates (top level) to a tuple of evaluators; for every use
//    the harness evaluates the literal to a value and applies <ev>.eval to it (rel.SetCall),
//    in order, in the same process and context;
//  inline: the whole program (setup + the uses bound by let + a result tuple u0: .., u1: ..)
//    is evaluated at top level.
// Per use: st, marks (attribute names of a result tuple, #data for a string, #res for bytes,
// #fn for a function), file (the runtime fs was opened during the use).

import (
	"context"
	"fmt"
	"net/http"
	"runtime/debug"
	"sort"
	"strings"

	"github.com/arr-ai/arrai/pkg/arraictx"
	"github.com/arr-ai/arrai/pkg/ctxfs"
	"github.com/arr-ai/arrai/rel"
	"github.com/arr-ai/arrai/syntax"
)

func marks18(v rel.Value) []string {
	switch x := v.(type) {
	case rel.String:
		return []string{"#data"}
	case rel.Bytes:
		return []string{"#res"}
	case *rel.NativeFunction, rel.Closure, rel.ExprClosure:
		return []string{"#fn"}
	case rel.Tuple:
		ns := []string{}
		for e := x.Enumerator(); e.MoveNext(); {
			n, _ := e.Current()
			ns = append(ns, n)
		}
		sort.Strings(ns)
		return ns
	}
	return []string{"#other"}
}

// guarded18 runs f, turning a panic into (nil, nil, text, site)
func guarded18(f func() (rel.Value, error)) (v rel.Value, err error, pmsg, site string) {
	defer func() {
		if p := recover(); p != nil {
			if e, ok := p.(error); ok {
				pmsg = "error: " + errText(e)
			} else {
				pmsg = trunc18(fmt.Sprint(p))
			}
			if pmsg == "" {
				pmsg = "panic"
			}
			site = panicSite(string(debug.Stack()))
			v, err = nil, nil
		}
	}()
	v, err = f()
	return
}

func fileReads18(effs []string) bool {
	for _, e := range effs {
		if strings.HasPrefix(e, "run:open:") {
			return true
		}
	}
	return false
}

func init() {
	register("c18h", func(in map[string]any) map[string]any {
		c18Init.Do(func() { http.DefaultTransport = refuser{} })
		setup, _ := in["setup"].(string)
		inline, _ := in["inline"].(string)
		usesIn, _ := in["uses"].([]any)
		eff := &effects{}
		curEff.mu.Lock()
		curEff.e = eff
		curEff.mu.Unlock()
		ctx := arraictx.InitRunCtx(context.Background())
		ctx = ctxfs.SourceFsOnto(ctx, newFs("src", eff))
		ctx = ctxfs.RuntimeFsOnto(ctx, newFs("run", eff))
		out := map[string]any{}
		status := func(err error, pmsg, site string, into map[string]any) bool {
			switch {
			case pmsg != "":
				into["st"] = "panic"
				into["msg"] = pmsg
				into["site"] = site
			case err != nil:
				into["st"] = "err"
				into["msg"] = errText(err)
			default:
				into["st"] = "ok"
				return true
			}
			return false
		}
		uses := []map[string]any{}
		if inline != "" {
			v, err, pmsg, site := guarded18(func() (rel.Value, error) { return syntax.EvaluateExpr(ctx, "", inline) })
			ok := status(err, pmsg, site, out)
			out["file"] = fileReads18(eff.snapshot())
			if ok {
				t, isT := v.(rel.Tuple)
				for _, ui := range usesIn {
					u, _ := ui.(map[string]any)
					name, _ := u["name"].(string)
					o := map[string]any{"name": name, "st": "missing", "file": false}
					if isT {
						if r, has := t.Get(name); has {
							o["st"] = "ok"
							o["marks"] = marks18(r)
						}
					}
					uses = append(uses, o)
				}
			}
			out["uses"] = uses
			return out
		}
		v, err, pmsg, site := guarded18(func() (rel.Value, error) { return syntax.EvaluateExpr(ctx, "", setup) })
		if !status(err, pmsg, site, out) {
			out["uses"] = uses
			return out
		}
		t, isT := v.(rel.Tuple)
		for _, ui := range usesIn {
			u, _ := ui.(map[string]any)
			name, _ := u["name"].(string)
			evName, _ := u["ev"].(string)
			lit, _ := u["lit"].(string)
			o := map[string]any{"name": name}
			before := len(eff.snapshot())
			r, err, pmsg, site := guarded18(func() (rel.Value, error) {
				if !isT {
					return nil, fmt.Errorf("setup is not a tuple")
				}
				ev, has := t.Get(evName)
				if !has {
					return nil, fmt.Errorf("no evaluator %s", evName)
				}
				evT, ok := ev.(rel.Tuple)
				if !ok {
					return nil, fmt.Errorf("evaluator %s is not a tuple", evName)
				}
				fn, has := evT.Get("eval")
				if !has {
					return nil, fmt.Errorf("evaluator %s has no eval", evName)
				}
				fnSet, ok := fn.(rel.Set)
				if !ok {
					return nil, fmt.Errorf("eval of %s is not a function", evName)
				}
				arg, err := syntax.EvaluateExpr(ctx, "", lit)
				if err != nil {
					return nil, err
				}
				return rel.SetCall(ctx, fnSet, arg)
			})
			if status(err, pmsg, site, o) {
				o["marks"] = marks18(r)
			}
			o["file"] = fileReads18(eff.snapshot()[before:])
			uses = append(uses, o)
		}
		out["uses"] = uses
		return out
	})
}
