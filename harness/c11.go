package main

// C11: N goroutines evaluate the same compiled expressions over shared values
// with first-use contention (fresh shared values every round, so that the lazily
// initialised caches are contended each time).  Meant to run in the -race build;
// the driver (gen/c11.py) runs one process per scenario and reads the race
// detector's reports from GORACE=log_path.  Results of every goroutine are
// compared with a single-goroutine evaluation of a separately built copy.

import (
	"context"
	"encoding/json"
	"errors"
	"fmt"
	"io"
	"os"
	"runtime"
	"runtime/debug"
	"sort"
	"sync"
	"sync/atomic"
	"syscall"
	"time"

	"github.com/arr-ai/wbnf/parser"
	"github.com/sirupsen/logrus"

	"github.com/arr-ai/arrai/pkg/arraictx"
	"github.com/arr-ai/arrai/pkg/deprecate"
	"github.com/arr-ai/arrai/pkg/importcache"
	"github.com/arr-ai/arrai/rel"
	"github.com/arr-ai/arrai/syntax"
)

// canon: the canonical dump with set members sorted (enumeration order is not an observable here).
func canon(d any) any {
	m, ok := d.(map[string]any)
	if !ok {
		return d
	}
	if s, ok := m["s"].([]any); ok {
		keyed := make([][2]any, len(s))
		for i, x := range s {
			c := canon(x)
			b, _ := json.Marshal(c)
			keyed[i] = [2]any{string(b), c}
		}
		sort.Slice(keyed, func(i, j int) bool { return keyed[i][0].(string) < keyed[j][0].(string) })
		out := make([]any, len(s))
		for i := range keyed {
			out[i] = keyed[i][1]
		}
		return map[string]any{"s": out, "c": m["c"]}
	}
	if t, ok := m["t"].([][2]any); ok {
		out := make([][2]any, len(t))
		for i, kv := range t {
			out[i] = [2]any{kv[0], canon(kv[1])}
		}
		return map[string]any{"t": out}
	}
	return d
}

// observe one evaluation as a short canonical string: "ok:<json>", "err", "panic:<site>"
func evalObs(ctx context.Context, e rel.Expr, scope rel.Scope) (res string) {
	defer func() {
		if p := recover(); p != nil {
			res = "panic:" + panicSite(string(debug.Stack()))
		}
	}()
	if e == nil {
		return "cerr"
	}
	v, err := e.Eval(arraictx.ContextWithIsCompiling(ctx, false), scope)
	if err != nil {
		return "err"
	}
	b, _ := json.Marshal(canon(dump(v, 0)))
	return "ok:" + string(b)
}

func buildShared(ctx context.Context, src string) (rel.Value, error) {
	return syntax.EvaluateExpr(ctx, "", src)
}

func compileAll(ctx context.Context, srcs []string) ([]rel.Expr, error) {
	out := make([]rel.Expr, len(srcs))
	for i, s := range srcs {
		e, err := syntax.Compile(ctx, "", s)
		if err != nil {
			e = nil // observed as "cerr" by every evaluator
		}
		out[i] = e
	}
	return out, nil
}

func strs(x any) []string {
	l, _ := x.([]any)
	out := make([]string, 0, len(l))
	for _, e := range l {
		if s, ok := e.(string); ok {
			out = append(out, s)
		}
	}
	return out
}

func num(in map[string]any, k string, def int) int {
	if f, ok := in[k].(float64); ok {
		return int(f)
	}
	return def
}

// parallel runs f(i) on n goroutines released together; false when not all returned within the budget.
func parallel(n int, budget time.Duration, f func(i int)) bool {
	var wg sync.WaitGroup
	start := make(chan struct{})
	for i := 0; i < n; i++ {
		wg.Add(1)
		go func(i int) {
			defer wg.Done()
			<-start
			f(i)
		}(i)
	}
	close(start)
	done := make(chan struct{})
	go func() { wg.Wait(); close(done) }()
	select {
	case <-done:
		return true
	case <-time.After(budget):
		return false
	}
}

type mismatch struct {
	Round, Goroutine int
	Expr             string
	Got, Want        string
}

func clip(s string) string {
	if len(s) > 200 {
		return s[:200] + "..."
	}
	return s
}

// kind eval: {"shared": src, "exprs": [src...], "n": goroutines, "rounds": r}; the shared value is bound to x.
func c11Eval(in map[string]any) map[string]any {
	ctx := arraictx.InitRunCtx(context.Background())
	shared, _ := in["shared"].(string)
	exprs := strs(in["exprs"])
	n, rounds := num(in, "n", 8), num(in, "rounds", 2)
	out := map[string]any{"st": "ok"}
	var bad []mismatch
	evals, nontrivial := 0, 0
	for r := 0; r < rounds; r++ {
		// single-goroutine reference on its own copy
		v0, err := buildShared(ctx, shared)
		if err != nil {
			return map[string]any{"st": "err", "msg": "shared: " + clip(err.Error())}
		}
		es0, _ := compileAll(ctx, exprs)
		sc0 := rel.EmptyScope.With("x", v0)
		want := make([]string, len(es0))
		for i, e := range es0 {
			want[i] = evalObs(ctx, e, sc0)
			if len(want[i]) > 20 {
				nontrivial++
			}
		}
		if r == 0 {
			w := make([]string, len(want))
			for i := range want {
				w[i] = want[i]
				if len(w[i]) > 60 {
					w[i] = w[i][:60]
				}
			}
			out["wants"] = w
		}
		// the contended copy: fresh value, fresh compiled expressions, shared by all goroutines
		v1, _ := buildShared(ctx, shared)
		es1, _ := compileAll(ctx, exprs)
		sc1 := rel.EmptyScope.With("x", v1)
		got := make([][]string, n)
		okAll := parallel(n, 60*time.Second, func(g int) {
			res := make([]string, len(es1))
			for k := range es1 {
				i := (k + g) % len(es1) // rotated start: different goroutines hit different caches first
				res[i] = evalObs(ctx, es1[i], sc1)
			}
			got[g] = res
		})
		if !okAll {
			out["hang"] = true
			break
		}
		for g := 0; g < n; g++ {
			for i := range exprs {
				evals++
				if got[g][i] != want[i] && len(bad) < 5 {
					bad = append(bad, mismatch{r, g, exprs[i], clip(got[g][i]), clip(want[i])})
				}
			}
		}
	}
	out["serial"] = len(bad) == 0
	out["mismatches"] = bad
	out["evals"] = evals
	out["nontrivial"] = nontrivial
	return out
}

// kind tuple: direct use of the Tuple API on a fresh tuple per round:
// Names(), TupleOrderedNames() and set construction (which asks tuples for their bucket).
func c11Tuple(in map[string]any) map[string]any {
	names := strs(in["attrs"])
	n, rounds := num(in, "n", 8), num(in, "rounds", 20)
	mk := func(off int) rel.Tuple {
		attrs := make([]rel.Attr, len(names))
		for i, nm := range names {
			attrs[i] = rel.NewAttr(nm, rel.NewNumber(float64(i+off)))
		}
		return rel.NewTuple(attrs...)
	}
	obsTuple := func(t, other rel.Tuple, which int) string {
		switch which % 4 {
		case 3:
			// t :> \v v, taken while other goroutines make the first use of t's sorted-name cache: the mapped tuple
			// has the same heading, printed in the same order
			m, err := t.Map(func(v rel.Value) (rel.Value, error) { return v, nil })
			if err != nil {
				return "err"
			}
			if g, ok := m.(*rel.GenericTuple); ok {
				return fmt.Sprint(rel.TupleOrderedNames(g), m.Names().OrderedNames(), m.String())
			}
			return fmt.Sprint(m.Names().OrderedNames(), m.String())
		case 0:
			return fmt.Sprint(t.Names().OrderedNames())
		case 1:
			if g, ok := t.(*rel.GenericTuple); ok {
				return fmt.Sprint(rel.TupleOrderedNames(g))
			}
			return fmt.Sprint(t.Names().OrderedNames())
		default:
			s, err := rel.NewSet(t, other)
			if err != nil {
				return "err"
			}
			b, _ := json.Marshal(canon(dump(s, 0)))
			return string(b)
		}
	}
	var bad []mismatch
	evals := 0
	hang := false
	for r := 0; r < rounds && !hang; r++ {
		t0, o0 := mk(0), mk(1)
		want := [4]string{obsTuple(t0, o0, 0), obsTuple(t0, o0, 1), obsTuple(t0, o0, 2), obsTuple(mk(0), o0, 3)}
		t1, o1 := mk(0), mk(1)
		got := make([][4]string, n)
		if !parallel(n, 30*time.Second, func(g int) {
			for k := 0; k < 4; k++ {
				i := (k + g) % 4
				got[g][i] = obsTuple(t1, o1, i)
			}
		}) {
			hang = true
		}
		for g := 0; g < n && !hang; g++ {
			for i := 0; i < 4; i++ {
				evals++
				if got[g][i] != want[i] && len(bad) < 5 {
					bad = append(bad, mismatch{r, g, fmt.Sprint("tuple-op-", i), clip(got[g][i]), clip(want[i])})
				}
			}
		}
	}
	return map[string]any{"st": "ok", "serial": len(bad) == 0, "mismatches": bad, "evals": evals, "nontrivial": evals, "hang": hang}
}

// kind std: first use of the process-wide lazies from n goroutines at once.
func c11Std(in map[string]any) map[string]any {
	n := num(in, "n", 8)
	exprs := strs(in["exprs"])
	ctx := arraictx.InitRunCtx(context.Background())
	got := make([][]string, n)
	ok := parallel(n, 120*time.Second, func(g int) {
		for k := 0; k < 3; k++ { // all three lazies, each goroutine starting with a different one
			switch (g + k) % 3 {
			case 0:
				syntax.FixFuncs()
			case 1:
				syntax.SafeStdScope()
			default:
				syntax.StdScope()
			}
		}
		res := make([]string, len(exprs))
		for i, s := range exprs {
			r, to := safeEval(s, 60*time.Second)
			o := obs(r, to, false)
			if o["st"] == "ok" {
				b, _ := json.Marshal(canon(o["val"]))
				res[i] = "ok:" + string(b)
			} else {
				res[i] = fmt.Sprint(o["st"])
			}
		}
		got[g] = res
	})
	if !ok {
		return map[string]any{"st": "ok", "serial": true, "hang": true}
	}
	// reference: afterwards, alone (the lazies are process-wide; they are pure)
	var bad []mismatch
	for i, s := range exprs {
		e, err := syntax.Compile(ctx, "", s)
		want := "err"
		if err == nil {
			want = evalObs(ctx, e, rel.EmptyScope)
		}
		for g := 0; g < n; g++ {
			if got[g][i] != want && len(bad) < 5 {
				bad = append(bad, mismatch{0, g, s, clip(got[g][i]), clip(want)})
			}
		}
	}
	return map[string]any{"st": "ok", "serial": len(bad) == 0, "mismatches": bad, "evals": n * len(exprs), "nontrivial": n * len(exprs)}
}

// kind importcache: n goroutines ask the import cache for the same key.
// mode ok: add() returns an expression; nil: (nil, nil); err: an error.
// Serial behaviour: every caller gets add()'s outcome.  "hang" = some caller never returned.
func c11ImportCache(in map[string]any) map[string]any {
	n, rounds := num(in, "n", 4), num(in, "rounds", 5)
	mode, _ := in["mode"].(string)
	budget := time.Duration(num(in, "timeout_ms", 2000)) * time.Millisecond
	var bad []mismatch
	hang := false
	var adds int64
	if mode == "chain" {
		// three importers, two keys: g0 compiles k (which fails), g1 compiles j, whose compilation imports k, g2 imports j and
		// starts waiting before g1 does.  Serial behaviour: all three get k's error.  One condition variable serves all keys,
		// so waking ONE waiter when k fails can wake the waiter on j and strand the waiter on k.
		for r := 0; r < rounds && !hang; r++ {
			ctx := importcache.WithNewImportCache(context.Background())
			boom := errors.New("k does not compile")
			kStarted, jStarted := make(chan struct{}), make(chan struct{})
			addK := func() (rel.Expr, error) {
				close(kStarted)
				time.Sleep(600 * time.Millisecond)
				return nil, boom
			}
			addJ := func() (rel.Expr, error) {
				close(jStarted)
				time.Sleep(250 * time.Millisecond) // g2 reaches the in-flight marker of j first
				return importcache.GetOrAddFromCache(ctx, "k", func() (rel.Expr, error) { return nil, boom })
			}
			got := make([]string, 3)
			if !parallel(3, budget, func(g int) {
				var err error
				switch g {
				case 0:
					_, err = importcache.GetOrAddFromCache(ctx, "k", addK)
				case 1:
					<-kStarted
					_, err = importcache.GetOrAddFromCache(ctx, "j", addJ)
				default:
					<-jStarted
					time.Sleep(50 * time.Millisecond)
					_, err = importcache.GetOrAddFromCache(ctx, "j", func() (rel.Expr, error) { return nil, boom })
				}
				if err != nil {
					got[g] = "err"
				} else {
					got[g] = "no-error"
				}
			}) {
				hang = true
				break
			}
			for g := 0; g < 3; g++ {
				if got[g] != "err" && len(bad) < 5 {
					bad = append(bad, mismatch{r, g, "GetOrAddFromCache/chain", got[g], "err"})
				}
			}
		}
		return map[string]any{"st": "ok", "serial": len(bad) == 0, "mismatches": bad, "hang": hang, "adds": int64(0),
			"evals": 3 * rounds, "nontrivial": 3 * rounds}
	}
	for r := 0; r < rounds && !hang; r++ {
		ctx := importcache.WithNewImportCache(context.Background())
		val := rel.Expr(rel.NewNumber(float64(42 + r)))
		boom := errors.New("add failed")
		add := func() (rel.Expr, error) {
			atomic.AddInt64(&adds, 1)
			// let the other callers reach the in-flight marker (longer where a missed overlap would hide the finding)
			if mode == "err" {
				time.Sleep(300 * time.Millisecond)
			} else {
				time.Sleep(100 * time.Millisecond)
			}
			switch mode {
			case "ok":
				return val, nil
			case "nil":
				return nil, nil
			default:
				return nil, boom
			}
		}
		want := map[string]string{"ok": fmt.Sprint("val:", val), "nil": "nil", "err": "err"}[mode]
		got := make([]string, n)
		if !parallel(n, budget, func(g int) {
			e, err := importcache.GetOrAddFromCache(ctx, "key", add)
			switch {
			case err != nil:
				got[g] = "err"
			case e == nil:
				got[g] = "nil"
			default:
				got[g] = fmt.Sprint("val:", e)
			}
		}) {
			hang = true
			break
		}
		for g := 0; g < n; g++ {
			if got[g] != want && len(bad) < 5 {
				bad = append(bad, mismatch{r, g, "GetOrAddFromCache/" + mode, got[g], want})
			}
		}
	}
	return map[string]any{"st": "ok", "serial": len(bad) == 0, "mismatches": bad, "hang": hang, "adds": atomic.LoadInt64(&adds),
		"evals": n * rounds, "nontrivial": n * rounds}
}

// kind deprecate: n goroutines hit one Deprecator with the same source position (sampled only, not modelled).
func c11Deprecate(in map[string]any) map[string]any {
	n, rounds := num(in, "n", 8), num(in, "rounds", 10)
	logrus.SetOutput(io.Discard)
	errs := int64(0)
	hang := false
	for r := 0; r < rounds && !hang; r++ {
		d := deprecate.MustNewDeprecator("verif feature", "2999-01-01", "2999-01-02", "2999-01-03")
		sc := *parser.NewScanner(fmt.Sprint("src", r))
		if !parallel(n, 20*time.Second, func(g int) {
			if err := d.Deprecate(context.Background(), sc); err != nil {
				atomic.AddInt64(&errs, 1)
			}
		}) {
			hang = true
		}
	}
	return map[string]any{"st": "ok", "serial": errs == 0, "hang": hang, "evals": n * rounds, "nontrivial": n * rounds}
}

// kind stdin: the lazily filled cache behind //os.stdin ((*stdOsStdin).read in syntax/std_os.go).
// The source is the process's stdin (os.Stdin as it was at package initialisation, i.e. file
// descriptor 0), and there is no public way to reset the cache: one contended first use per process.
// Public API only: descriptor 0 is re-pointed (dup2) at a pipe that a producer goroutine feeds in small
// chunks, like a terminal or a slow pipe; n goroutines then evaluate the same compiled `//os.stdin`
// at once.  Serial result: the whole stream, for every goroutine and for every later evaluation.
// Must be the only (last) case of its process: afterwards descriptor 0 is at end of file.
func c11Stdin(in map[string]any) map[string]any {
	n, size, chunk := num(in, "n", 8), num(in, "size", 32768), num(in, "chunk", 128)
	input := make([]byte, size)
	for i := range input {
		input[i] = byte('a' + (i*7+i/chunk)%26)
	}
	var p [2]int
	if err := syscall.Pipe(p[:]); err != nil { // blocking pipe, like the one the driver gave us as stdin
		return map[string]any{"st": "err", "msg": "pipe: " + err.Error()}
	}
	if err := syscall.Dup2(p[0], 0); err != nil {
		return map[string]any{"st": "err", "msg": "dup2: " + err.Error()}
	}
	_ = syscall.Close(p[0])
	w := os.NewFile(uintptr(p[1]), "stdin-producer")
	ctx := arraictx.InitRunCtx(context.Background())
	expr, err := syntax.Compile(ctx, "", `//os.stdin`)
	if err != nil {
		return map[string]any{"st": "err", "msg": "compile: " + clip(err.Error())}
	}
	// observation: ok:<length>:<fnv-1a of the bytes> (a 32 KiB canonical dump per goroutine is too slow under -race)
	sum := func(b []byte) string {
		h := uint64(14695981039346656037)
		for _, c := range b {
			h = (h ^ uint64(c)) * 1099511628211
		}
		return fmt.Sprintf("ok:%d:%016x", len(b), h)
	}
	observe := func() (res string) {
		defer func() {
			if p := recover(); p != nil {
				res = "panic:" + panicSite(string(debug.Stack()))
			}
		}()
		v, err := expr.Eval(arraictx.ContextWithIsCompiling(ctx, false), rel.EmptyScope)
		if err != nil {
			return "err"
		}
		if b, ok := v.(rel.Bytes); ok {
			return sum(b.Bytes())
		}
		if s, ok := v.(rel.Set); ok && !s.IsTrue() {
			return sum(nil)
		}
		return fmt.Sprintf("other:%T", v)
	}
	want := sum(input)
	// warm everything except the stdin cache itself, so that the goroutines reach it together
	syntax.StdScope()
	safeEval(`//os.args`, 60*time.Second)
	var once sync.Once
	produce := func() { // started by the first consumer; slower than the consumers
		go func() {
			for off := 0; off < len(input); off += chunk {
				end := off + chunk
				if end > len(input) {
					end = len(input)
				}
				_, _ = w.Write(input[off:end])
				runtime.Gosched()
				time.Sleep(50 * time.Microsecond)
			}
			_ = w.Close()
		}()
	}
	got := make([]string, n)
	if !parallel(n, 60*time.Second, func(g int) {
		once.Do(produce)
		got[g] = observe()
	}) {
		return map[string]any{"st": "ok", "serial": true, "hang": true}
	}
	later := observe() // a quiet evaluation afterwards sees the cache
	var bad []mismatch
	short := func(s string) string { return s }
	for g := 0; g <= n; g++ {
		r := later
		if g < n {
			r = got[g]
		}
		if r != want && len(bad) < 5 {
			bad = append(bad, mismatch{0, g, "//os.stdin", short(r), short(want)})
		}
	}
	return map[string]any{"st": "ok", "serial": len(bad) == 0, "mismatches": bad, "evals": n + 1, "nontrivial": n + 1,
		"wants": []string{want}}
}

func init() {
	register("c11", func(in map[string]any) map[string]any {
		kind, _ := in["kind"].(string)
		switch kind {
		case "eval":
			return c11Eval(in)
		case "tuple":
			return c11Tuple(in)
		case "std":
			return c11Std(in)
		case "importcache":
			return c11ImportCache(in)
		case "deprecate":
			return c11Deprecate(in)
		case "stdin":
			return c11Stdin(in)
		}
		return map[string]any{"st": "err", "msg": "unknown kind " + kind}
	})
}
