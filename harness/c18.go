package main

// C18: sandboxed evaluation.
//  * table writer: coq/Gen/Stdlib.v = inventory of the safe and the full
//    standard library of the RUNNING implementation (path, kind, capability
//    class, arity), classes from the committed name table below;
//  * command `c18`: evaluates a generated program with a recording in-memory
//    file system, a refusing recording http transport, and reports the
//    capability classes observable from the result plus the effects seen.

import (
	"context"
	"errors"
	"fmt"
	"net/http"
	"os"
	"regexp"
	"runtime/debug"
	"sort"
	"strings"
	"sync"
	"time"

	"github.com/spf13/afero"

	"github.com/arr-ai/arrai/pkg/arraictx"
	"github.com/arr-ai/arrai/pkg/ctxfs"
	"github.com/arr-ai/arrai/rel"
	"github.com/arr-ai/arrai/syntax"
)

// ---------------------------------------------------------------------------
// committed capability name table: library path -> class.
// Every function of the library known at the time of writing is listed; a
// function that is not listed is emitted as "unclassified" and breaks the
// instantiation lemma in Proofs/SandboxP.v until somebody classifies it.
// Classes: none | file | fsmeta | net | exec | env | stdin | evalvalue |
// evaleval | evaluator.
// ---------------------------------------------------------------------------

var c18Arity = map[string]int{"net.http.get": 2, "net.http.post": 3}

var c18Special = map[string]string{
	"os.file":         "file",   // reads a file through the runtime fs
	"os.exists":       "fsmeta", // Stat on the runtime fs
	"os.tree":         "fsmeta", // filepath.Walk on the real fs: names, sizes, mtimes
	"os.get_env":      "env",
	"os.&args":        "env",
	"os.&stdin":       "stdin",
	"os.isatty":       "none",
	"net.http.get":    "net",
	"net.http.post":   "net",
	"deprecated.exec": "exec",
	"eval.value":      "evalvalue",
	"eval.eval":       "evaleval",
	"eval.evaluator":  "evaluator",
}

// functions reviewed as pure computation (no file, network, process, environment or stdin access)
var c18Pure = strings.Fields(`
dict tuple error
math.sin math.cos
grammar.parse
fn.fix fn.fixt
log.print log.printf
archive.tar.tar archive.zip.zip
arrai.info
bits.set bits.mask
encoding.bytes.decode
encoding.csv.decode encoding.csv.decoder encoding.csv.encode encoding.csv.encoder
encoding.json.decode encoding.json.decoder encoding.json.encode encoding.json.encode_indent encoding.json.encoder
encoding.proto.decode encoding.proto.descriptor
encoding.xlsx.decode encoding.xlsx.decodeToRelation
encoding.xml.decode encoding.xml.decoder encoding.xml.encode
encoding.yaml.decode encoding.yaml.decoder encoding.yaml.encode encoding.yaml.encoder
flag.help flag.parser
fmt.pretty
re.compile
rel.union
seq.concat seq.contains seq.has_prefix seq.has_suffix seq.join seq.repeat seq.split seq.sub seq.trim_prefix seq.trim_suffix
str.expand str.lower str.repr str.title str.upper
test.assert.equal test.assert.false test.assert.size test.assert.true test.assert.unequal
`)

var c18Classes = func() map[string]string {
	m := map[string]string{}
	for _, p := range c18Pure {
		m[p] = "none"
	}
	for p, c := range c18Special {
		m[p] = c
	}
	return m
}()

type libEntry struct {
	path  []string
	kind  string // native | closure | data
	class string
	arity int
}

func classOfPath(path []string, kind string) string {
	if kind == "data" {
		return "none"
	}
	p := path
	// //std.safe is a second copy of the safe library
	if len(p) >= 2 && p[0] == "std" && p[1] == "safe" {
		p = p[2:]
	}
	if c, ok := c18Classes[strings.Join(p, ".")]; ok {
		return c
	}
	return "unclassified"
}

func arityOfPath(path []string) int {
	p := path
	if len(p) >= 2 && p[0] == "std" && p[1] == "safe" {
		p = p[2:]
	}
	if a, ok := c18Arity[strings.Join(p, ".")]; ok {
		return a
	}
	return 1
}

// walkLib lists the members of a library tuple; a sub-tuple that contains no
// function at any depth is one "data" entry.  ptrs collects native identities.
func walkLib(v rel.Value, path []string, ptrs map[*rel.NativeFunction]string, depth int) []libEntry {
	cp := append([]string{}, path...)
	switch x := v.(type) {
	case *rel.NativeFunction:
		if ptrs != nil {
			ptrs[x] = classOfPath(cp, "native")
		}
		return []libEntry{{cp, "native", classOfPath(cp, "native"), arityOfPath(cp)}}
	case rel.Closure, rel.ExprClosure:
		return []libEntry{{cp, "closure", classOfPath(cp, "closure"), 1}}
	case rel.Tuple:
		if depth > 12 {
			return []libEntry{{cp, "data", "none", 0}}
		}
		var out []libEntry
		names := []string{}
		for e := x.Enumerator(); e.MoveNext(); {
			n, _ := e.Current()
			names = append(names, n)
		}
		sort.Strings(names)
		fn := false
		for _, n := range names {
			sub := walkLib(x.MustGet(n), append(cp, n), ptrs, depth+1)
			for _, s := range sub {
				if s.kind != "data" {
					fn = true
				}
			}
			out = append(out, sub...)
		}
		if !fn && len(cp) > 0 {
			return []libEntry{{cp, "data", "none", 0}}
		}
		return out
	}
	return []libEntry{{cp, "data", "none", 0}}
}

func coqStr(s string) string { return `"` + strings.ReplaceAll(s, `"`, `""`) + `"` }

func coqTable(name string, es []libEntry) string {
	var b strings.Builder
	fmt.Fprintf(&b, "Definition %s : list (list string * string * string * nat) := [\n", name)
	for i, e := range es {
		ps := make([]string, len(e.path))
		for j, p := range e.path {
			ps[j] = coqStr(p)
		}
		sep := ";"
		if i == len(es)-1 {
			sep = ""
		}
		fmt.Fprintf(&b, "  ([%s], %s, %s, %d%%nat)%s\n", strings.Join(ps, "; "), coqStr(e.kind), coqStr(e.class), e.arity, sep)
	}
	b.WriteString("].\n")
	return b.String()
}

func stdlibTable() (map[string]string, error) {
	safe := walkLib(syntax.SafeStdScopeTuple(), nil, nil, 0)
	fullV, _ := syntax.StdScope().Get("//")
	full := walkLib(fullV.(rel.Value), nil, nil, 0)
	var b strings.Builder
	b.WriteString("(* GENERATED by `vharness tables` from the running implementation (harness/c18.go);\n")
	b.WriteString("   do not edit: bin/check regenerates and overwrites this file on every run.\n")
	b.WriteString("   Rows: (path, kind, capability class, arity). *)\n")
	b.WriteString("From Coq Require Import List String.\nImport ListNotations.\nOpen Scope string_scope.\n\n")
	b.WriteString(coqTable("safe_table", safe))
	b.WriteString("\n")
	b.WriteString(coqTable("full_table", full))
	return map[string]string{"Stdlib.v": b.String()}, nil
}

func init() {
	tableWriters = append(tableWriters, stdlibTable)
}

// ---------------------------------------------------------------------------
// recording file system and transport
// ---------------------------------------------------------------------------

type effects struct {
	mu   sync.Mutex
	list []string
}

func (e *effects) add(s string) {
	e.mu.Lock()
	defer e.mu.Unlock()
	e.list = append(e.list, s)
}

func (e *effects) snapshot() []string {
	e.mu.Lock()
	defer e.mu.Unlock()
	return append([]string{}, e.list...)
}

type recFs18 struct {
	afero.Fs
	tag string
	eff *effects
}

func (r recFs18) Open(name string) (afero.File, error) {
	r.eff.add(r.tag + ":open:" + name)
	return r.Fs.Open(name)
}

func (r recFs18) OpenFile(name string, flag int, perm os.FileMode) (afero.File, error) {
	r.eff.add(r.tag + ":open:" + name)
	return r.Fs.OpenFile(name, flag, perm)
}

func (r recFs18) Stat(name string) (os.FileInfo, error) {
	r.eff.add(r.tag + ":stat:" + name)
	return r.Fs.Stat(name)
}

type refuser struct{ eff *effects }

var curEff struct {
	mu sync.Mutex
	e  *effects
}

func (refuser) RoundTrip(req *http.Request) (*http.Response, error) {
	curEff.mu.Lock()
	e := curEff.e
	curEff.mu.Unlock()
	if e != nil {
		e.add("net:" + req.Method + ":" + req.URL.Host)
	}
	return nil, errors.New("vharness: network refused")
}

// the files every C18 case can see (source fs and runtime fs hold the same tree)
var c18Files = map[string]string{
	"secret.arrai": `"TOPSECRET"`,
	"lib.arrai":    `//os.file`,
	"pure.arrai":   `(\x x)`,
	"data.txt":     "hello\n",
	"go.mod":       "module example.invalid/sandbox\n",
}

func newFs(tag string, eff *effects) afero.Fs {
	m := afero.NewMemMapFs()
	for n, body := range c18Files {
		_ = afero.WriteFile(m, n, []byte(body), 0o644)
	}
	return recFs18{Fs: m, tag: tag, eff: eff}
}

// ---------------------------------------------------------------------------
// observation of a result: capability classes of the functions it gives access to
// ---------------------------------------------------------------------------

var (
	ptrOnce  sync.Once
	ptrClass map[*rel.NativeFunction]string
	nameCls  map[string]string
)

var curriedRe = regexp.MustCompile(`\$\d+$`)

func initPtrs() {
	ptrOnce.Do(func() {
		ptrClass = map[*rel.NativeFunction]string{}
		nameCls = map[string]string{}
		add := func(v rel.Value) {
			tmp := map[*rel.NativeFunction]string{}
			walkLib(v, nil, tmp, 0)
			for p, c := range tmp {
				ptrClass[p] = c
				n := strings.Trim(p.Name(), "⦑⦒")
				if old, ok := nameCls[n]; !ok || old == "none" {
					nameCls[n] = c
				}
			}
		}
		s, _ := syntax.SafeStdScope().Get("//")
		add(s.(rel.Value))
		f, _ := syntax.StdScope().Get("//")
		add(f.(rel.Value))
	})
}

func classOfNative(f *rel.NativeFunction) string {
	initPtrs()
	if c, ok := ptrClass[f]; ok {
		return c
	}
	n := curriedRe.ReplaceAllString(strings.Trim(f.Name(), "⦑⦒"), "")
	if c, ok := nameCls[n]; ok {
		return c
	}
	return "unknown:" + n
}

// observe collects the classes of every native function reachable from v
// through tuple attributes, set/array/dict members, and -- for arr.ai closures,
// whose captured scope is not part of the public API -- by applying the closure
// to the probe argument () up to `probes` times.
func observe(ctx context.Context, v rel.Value, probes int, depth int, out map[string]bool, names map[string]bool) {
	if depth > 30 {
		return
	}
	switch x := v.(type) {
	case *rel.NativeFunction:
		out[classOfNative(x)] = true
		names[strings.Trim(x.Name(), "⦑⦒")] = true
	case rel.Closure:
		if probes > 0 {
			func() {
				defer func() { _ = recover() }()
				r, err := rel.SetCall(ctx, x, rel.NewTuple())
				if err == nil && r != nil {
					observe(ctx, r, probes-1, depth+1, out, names)
				}
			}()
		}
	case rel.ExprClosure:
	case rel.Tuple:
		for e := x.Enumerator(); e.MoveNext(); {
			_, a := e.Current()
			observe(ctx, a, probes, depth+1, out, names)
		}
	case rel.Set:
		if x.Count() > 64 {
			return
		}
		for e := x.Enumerator(); e.MoveNext(); {
			observe(ctx, e.Current(), probes, depth+1, out, names)
		}
	}
}

func keys(m map[string]bool) []string {
	ks := []string{}
	for k := range m {
		ks = append(ks, k)
	}
	sort.Strings(ks)
	return ks
}

var c18Init sync.Once

func init() {
	// c18: {"mode": "top"|"safe", "src": "..."}
	//   top  = syntax.EvaluateExpr(ctx, "", src)           (the program itself calls //eval.*)
	//   safe = syntax.EvalWithScope(ctx, "", src, SafeStdScope())
	register("c18", func(in map[string]any) map[string]any {
		c18Init.Do(func() { http.DefaultTransport = refuser{} })
		src, _ := in["src"].(string)
		mode, _ := in["mode"].(string)
		eff := &effects{}
		curEff.mu.Lock()
		curEff.e = eff
		curEff.mu.Unlock()
		ctx := arraictx.InitRunCtx(context.Background())
		ctx = ctxfs.SourceFsOnto(ctx, newFs("src", eff))
		ctx = ctxfs.RuntimeFsOnto(ctx, newFs("run", eff))
		type res struct {
			v     rel.Value
			err   error
			panic string
			site  string
		}
		ch := make(chan res, 1)
		go func() {
			var r res
			defer func() {
				if p := recover(); p != nil {
					if e, ok := p.(error); ok {
						r.panic = "error: " + errText(e)
					} else {
						r.panic = fmt.Sprint(p)
					}
					r.site = panicSite(string(debug.Stack()))
					r.v, r.err = nil, nil
				}
				ch <- r
			}()
			if mode == "safe" {
				r.v, r.err = syntax.EvalWithScope(ctx, "", src, syntax.SafeStdScope())
			} else {
				r.v, r.err = syntax.EvaluateExpr(ctx, "", src)
			}
		}()
		out := map[string]any{}
		select {
		case r := <-ch:
			switch {
			case r.panic != "":
				out["st"] = "panic"
				out["site"] = r.site
				out["msg"] = trunc18(r.panic)
			case r.err != nil:
				out["st"] = "err"
				out["msg"] = errText(r.err)
			default:
				out["st"] = "ok"
				out["effects"] = eff.snapshot()
				cls, names := map[string]bool{}, map[string]bool{}
				observe(ctx, r.v, 3, 0, cls, names)
				for _, k := range []string{"none", "evalvalue", "evaleval", "evaluator"} {
					delete(cls, k) // the //eval.* functions are modelled by their behaviour, not by a class
				}
				out["classes"] = keys(cls)
				out["natives"] = keys(names)
				switch r.v.(type) {
				case rel.Closure:
					out["shape"] = "closure"
				case *rel.NativeFunction:
					out["shape"] = "native"
				case rel.Tuple:
					out["shape"] = "tuple"
				default:
					out["shape"] = "data"
				}
			}
			if _, ok := out["effects"]; !ok {
				out["effects"] = eff.snapshot()
			}
		case <-time.After(10 * time.Second):
			out["st"] = "timeout"
			out["effects"] = eff.snapshot()
		}
		return out
	})
}

func init() {
	// c18table: the safe-library inventory as JSON (the same rows as coq/Gen/Stdlib.v)
	register("c18table", func(in map[string]any) map[string]any {
		rows := []map[string]any{}
		for _, e := range walkLib(syntax.SafeStdScopeTuple(), nil, nil, 0) {
			if e.kind == "data" {
				continue
			}
			rows = append(rows, map[string]any{"path": e.path, "kind": e.kind, "class": e.class})
		}
		return map[string]any{"safe": rows}
	})
}

// errText names the error type only: formatting a wbnf parse failure can take
// minutes of CPU (observed: 95 s for a failing macro body), and C18 never
// compares error texts.
func errText(err error) string {
	return fmt.Sprintf("%T", err)
}

func trunc18(s string) string {
	if len(s) > 300 {
		return s[:300]
	}
	return s
}
