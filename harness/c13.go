package main

import (
	"fmt"
	"runtime/debug"
	"time"

	"github.com/arr-ai/arrai/rel"
)

// C13 (server wire format): rel.MarshalToJSON / rel.UnmarshalFromJSON are
// driven directly, exactly as cmd/arrai/serve_grpc.go and observe.go do.
//
//   c13wire     {"src": arr.ai source}  evaluate, marshal, unmarshal; reports
//               the value, the wire text, the value read back and whether the
//               two are Equal.
//   c13wiredec  {"doc": wire text}      unmarshal only (foreign documents).

type wireOut struct {
	text  string
	back  rel.Value
	err   error
	panic string
	site  string
	stage string
}

func wireRoundTrip(v rel.Value) (w wireOut) {
	defer func() {
		if p := recover(); p != nil {
			w.panic = fmt.Sprint(p)
			w.site = panicSite(string(debug.Stack()))
		}
	}()
	w.stage = "marshal"
	w.text = string(rel.MarshalToJSON(v))
	w.stage = "unmarshal"
	w.back, w.err = rel.UnmarshalFromJSON([]byte(w.text))
	return w
}

// withBudget runs f in a goroutine; ok is false when it did not finish in time
// (the goroutine is abandoned, as eval.go does for evaluations).
func withBudget(budget time.Duration, f func() wireOut) (wireOut, bool) {
	ch := make(chan wireOut, 1)
	go func() { ch <- f() }()
	select {
	case w := <-ch:
		return w, true
	case <-time.After(budget):
		return wireOut{}, false
	}
}

func wireReport(out map[string]any, w wireOut, orig rel.Value) {
	out["wire"] = w.text
	switch {
	case w.panic != "":
		out["st"] = "panic"
		out["stage"] = w.stage
		out["site"] = w.site
		out["msg"] = w.panic
	case w.err != nil:
		out["st"] = "err"
		out["stage"] = w.stage
		out["msg"] = w.err.Error()
	default:
		func() {
			defer func() {
				if p := recover(); p != nil {
					out["st"] = "panic"
					out["stage"] = "dump"
					out["site"] = panicSite(string(debug.Stack()))
					out["msg"] = fmt.Sprint(p)
				}
			}()
			out["back"] = dump(w.back, 0)
			out["back_type"] = rel.ValueTypeAsString(w.back)
			if orig != nil {
				out["equal"] = orig.Equal(w.back) && w.back.Equal(orig)
			}
			out["st"] = "ok"
		}()
	}
}

func init() {
	register("c13wire", func(in map[string]any) map[string]any {
		src, _ := in["src"].(string)
		r, to := safeEval(src, 10*time.Second)
		out := map[string]any{}
		if to || r.panic != "" || r.err != nil {
			o := obs(r, to, false)
			out["st"] = "input-" + o["st"].(string)
			out["msg"] = o["msg"]
			return out
		}
		out["val"] = dump(r.val, 0)
		out["val_type"] = rel.ValueTypeAsString(r.val)
		w, ok := withBudget(5*time.Second, func() wireOut { return wireRoundTrip(r.val) })
		if !ok {
			out["st"] = "timeout"
			return out
		}
		wireReport(out, w, r.val)
		return out
	})
	register("c13wiredec", func(in map[string]any) map[string]any {
		doc, _ := in["doc"].(string)
		out := map[string]any{}
		var w wireOut
		func() {
			defer func() {
				if p := recover(); p != nil {
					w.panic = fmt.Sprint(p)
					w.site = panicSite(string(debug.Stack()))
				}
			}()
			w.stage = "unmarshal"
			w.text = doc
			w.back, w.err = rel.UnmarshalFromJSON([]byte(doc))
		}()
		wireReport(out, w, nil)
		return out
	})
}
