module vharness

go 1.24.0

replace github.com/arr-ai/arrai => /repo

replace github.com/spf13/afero => github.com/anz-bank/afero v1.2.4

require (
	github.com/arr-ai/arrai v0.0.0
	github.com/arr-ai/frozen v1.11.0
	github.com/arr-ai/proto v0.0.0-20180422074755-2ffbedebee50
	github.com/arr-ai/wbnf v0.38.0
	github.com/gorilla/websocket v1.5.3
	github.com/sirupsen/logrus v1.9.4
	github.com/spf13/afero v1.11.0
	google.golang.org/grpc v1.59.0
)

require (
	github.com/arr-ai/hash v1.1.0 // indirect
	github.com/cpuguy83/go-md2man/v2 v2.0.4 // indirect
	github.com/davecgh/go-spew v1.1.1 // indirect
	github.com/go-errors/errors v1.5.1 // indirect
	github.com/golang/protobuf v1.5.4 // indirect
	github.com/iancoleman/strcase v0.3.0 // indirect
	github.com/mattn/go-isatty v0.0.20 // indirect
	github.com/mohae/deepcopy v0.0.0-20170929034955-c48cc78d4826 // indirect
	github.com/pkg/errors v0.9.1 // indirect
	github.com/pmezard/go-difflib v1.0.0 // indirect
	github.com/richardlehane/mscfb v1.0.4 // indirect
	github.com/richardlehane/msoleps v1.0.3 // indirect
	github.com/russross/blackfriday/v2 v2.1.0 // indirect
	github.com/stretchr/testify v1.10.0 // indirect
	github.com/urfave/cli/v2 v2.2.0 // indirect
	github.com/xuri/efp v0.0.0-20240408161823-9ad904a10d6d // indirect
	github.com/xuri/excelize/v2 v2.8.1 // indirect
	github.com/xuri/nfp v0.0.0-20240318013403-ab9948c2c4a7 // indirect
	golang.org/x/crypto v0.48.0 // indirect
	golang.org/x/net v0.50.0 // indirect
	golang.org/x/sys v0.41.0 // indirect
	golang.org/x/text v0.34.0 // indirect
	google.golang.org/genproto/googleapis/rpc v0.0.0-20230822172742-b8732ec3820d // indirect
	google.golang.org/protobuf v1.34.2 // indirect
	gopkg.in/yaml.v3 v3.0.1 // indirect
)
