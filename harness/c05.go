package main

// C05 at the level of the Go representations: report the exact layout the implementation holds for a
// collection (Go type, offset, cells, holes/count fields, dict slots, stored column order, buckets) and what
// SetCall / CallAll / n\s / ++ do on it, so that the transcription in coq/Rep/CallRep.v is evaluated on the
// same layout.  The layout is read from the unexported fields by reflection (read-only; nothing in /repo is
// touched); everything else goes through the public API.

import (
	"context"
	"fmt"
	"reflect"
	"runtime/debug"
	"time"
	"unsafe"

	"github.com/arr-ai/arrai/pkg/arraictx"
	"github.com/arr-ai/arrai/rel"
	"github.com/arr-ai/frozen"
)

// priv returns the named unexported field of a struct value as an ordinary (readable) reflect.Value.
func priv(v any, name string) reflect.Value {
	rv := reflect.ValueOf(v)
	cp := reflect.New(rv.Type()).Elem()
	cp.Set(rv)
	f := cp.FieldByName(name)
	if !f.IsValid() {
		panic(fmt.Sprintf("layout: %T has no field %q", v, name))
	}
	return reflect.NewAt(f.Type(), unsafe.Pointer(f.UnsafeAddr())).Elem()
}

func layout05(v rel.Value, depth int) map[string]any {
	if depth > 6 {
		return map[string]any{"ty": "deep"}
	}
	switch x := v.(type) {
	case rel.EmptySet:
		return map[string]any{"ty": "EmptySet"}
	case rel.TrueSet:
		return map[string]any{"ty": "TrueSet"}
	case rel.String:
		cells := []int64{}
		for _, r := range priv(x, "s").Interface().([]rune) {
			cells = append(cells, int64(r))
		}
		return map[string]any{"ty": "String", "off": priv(x, "offset").Int(), "cells": cells, "holes": priv(x, "holes").Int()}
	case rel.Bytes:
		bs := []int64{}
		for _, b := range x.Bytes() {
			bs = append(bs, int64(b))
		}
		return map[string]any{"ty": "Bytes", "off": priv(x, "offset").Int(), "b": bs}
	case rel.Array:
		cells := []any{}
		for _, it := range x.Values() {
			if it == nil {
				cells = append(cells, nil)
			} else {
				cells = append(cells, dump(it, 0))
			}
		}
		return map[string]any{"ty": "Array", "off": priv(x, "offset").Int(), "cells": cells, "count": priv(x, "count").Int()}
	case rel.Dict:
		m := priv(x, "m").Interface().(frozen.Map[rel.Value, any])
		es := []any{}
		for i := m.Range(); i.Next(); {
			e := map[string]any{"k": dump(i.Key(), 0)}
			switch s := i.Value().(type) {
			case rel.Value:
				e["multi"] = false
				e["vs"] = []any{dump(s, 0)}
			default:
				set := reflect.ValueOf(s).Convert(reflect.TypeOf(frozen.Set[rel.Value]{})).Interface().(frozen.Set[rel.Value])
				vs := []any{}
				for j := set.Range(); j.Next(); {
					vs = append(vs, dump(j.Value(), 0))
				}
				e["multi"] = true
				e["vs"] = vs
			}
			es = append(es, e)
		}
		return map[string]any{"ty": "Dict", "es": es}
	case rel.Relation:
		attrs := []string{}
		for _, a := range x.AttrsName() {
			attrs = append(attrs, a)
		}
		pv := priv(x, "p")
		p := []int64{}
		for i := 0; i < pv.Len(); i++ {
			p = append(p, pv.Index(i).Int())
		}
		rowsPtr := priv(x, "rows")
		sf := rowsPtr.Elem().FieldByName("set")
		set := reflect.NewAt(sf.Type(), unsafe.Pointer(sf.UnsafeAddr())).Elem().Interface().(frozen.Set[any])
		rows := []any{}
		for i := set.Range(); i.Next(); {
			row := []any{}
			for _, c := range i.Value().(rel.Values) {
				row = append(row, dump(c, 0))
			}
			rows = append(rows, row)
		}
		return map[string]any{"ty": "Relation", "attrs": attrs, "p": p, "rows": rows}
	case rel.GenericSet:
		ms := []any{}
		for e := x.Enumerator(); e.MoveNext(); {
			ms = append(ms, dump(e.Current(), 0))
		}
		return map[string]any{"ty": "GenericSet", "ms": ms}
	case rel.UnionSet:
		m := priv(x, "m").Interface().(frozen.Map[string, any])
		bs := []any{}
		for i := m.Range(); i.Next(); {
			bs = append(bs, layout05(i.Value().(rel.Value), depth+1))
		}
		return map[string]any{"ty": "UnionSet", "bs": bs}
	}
	return map[string]any{"ty": fmt.Sprintf("%T", v)}
}

// guarded runs f under recover and a time budget.
func c05guarded(budget time.Duration, f func() map[string]any) map[string]any {
	ch := make(chan map[string]any, 1)
	go func() {
		var out map[string]any
		defer func() {
			if p := recover(); p != nil {
				out = map[string]any{"st": "panic", "site": panicSite(string(debug.Stack())), "msg": fmt.Sprint(p)}
			}
			ch <- out
		}()
		out = f()
	}()
	select {
	case o := <-ch:
		return o
	case <-time.After(budget):
		return map[string]any{"st": "timeout"}
	}
}

func evalLayout(src string) (rel.Value, map[string]any) {
	r, to := safeEval(src, 10*time.Second)
	o := obs(r, to, false)
	if o["st"] == "ok" {
		v := r.val
		lo := c05guarded(5*time.Second, func() map[string]any { return layout05(v, 0) })
		o["layout"] = lo
		if s, ok := v.(rel.Set); ok {
			o["count"] = s.Count()
		}
		return v, o
	}
	return nil, o
}

func init() {
	// c05rep: {"op": "call", "c": src, "k": src} | {"op": "offset", "n": src, "s": src} | {"op": "concat", "a": src, "b": src}
	register("c05rep", func(in map[string]any) map[string]any {
		out := map[string]any{"st": "done"}
		str := func(k string) string { s, _ := in[k].(string); return s }
		ctx := arraictx.InitRunCtx(context.Background())
		switch str("op") {
		case "call":
			cv, co := evalLayout(str("c"))
			kv, ko := evalLayout(str("k"))
			out["c"], out["k"] = co, ko
			set, isSet := cv.(rel.Set)
			if cv != nil && kv != nil && isSet {
				out["setcall"] = c05guarded(5*time.Second, func() map[string]any {
					v, err := rel.SetCall(ctx, set, kv)
					if err != nil {
						if _, is := err.(rel.NoReturnError); is {
							return map[string]any{"st": "noreturn"}
						}
						return map[string]any{"st": "err"}
					}
					return map[string]any{"st": "ok", "val": dump(v, 0)}
				})
				out["cands"] = c05guarded(5*time.Second, func() map[string]any {
					b := rel.NewSetBuilder()
					if err := set.CallAll(ctx, kv, b); err != nil {
						return map[string]any{"st": "err"}
					}
					all, err := b.Finish()
					if err != nil {
						return map[string]any{"st": "finish-err"}
					}
					return map[string]any{"st": "ok", "val": dump(all, 0)}
				})
			}
			r1, t1 := safeEval(str("call_src"), 10*time.Second)
			out["call_src"] = obs(r1, t1, false)
			r2, t2 := safeEval(str("safe_src"), 10*time.Second)
			out["safe_src"] = obs(r2, t2, false)
		case "offset":
			_, so := evalLayout(str("s"))
			_, no := evalLayout(str("n"))
			_, ro := evalLayout(str("res_src"))
			out["s"], out["n"], out["res"] = so, no, ro
		case "concat":
			_, ao := evalLayout(str("a"))
			_, bo := evalLayout(str("b"))
			_, ro := evalLayout(str("res_src"))
			out["a"], out["b"], out["res"] = ao, bo, ro
		default:
			out["st"] = "bad-op"
		}
		return out
	})
}
