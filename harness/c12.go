package main

import (
	"context"
	"fmt"
	"sort"
	"strings"
	"time"

	"github.com/arr-ai/arrai/pkg/arraictx"
	"github.com/arr-ai/arrai/pkg/fu"
	"github.com/arr-ai/arrai/rel"
	"github.com/arr-ai/arrai/syntax"
)

func zlist(bs []byte) string {
	parts := make([]string, len(bs))
	for i, b := range bs {
		parts[i] = fmt.Sprint(int(b))
	}
	return "[" + strings.Join(parts, "; ") + "]"
}

// Gen/Escapes.v: what the running printer writes for every one-rune string below 128,
// and what the running parser reads for every \c escape and every \xHH.
func init() {
	tableWriters = append(tableWriters, func() (map[string]string, error) {
		var sb strings.Builder
		sb.WriteString("(* REGENERATED on every check by `vharness tables` from the running implementation: do not edit. *)\n")
		sb.WriteString("From Arrai Require Import Base.Val.\n\n")
		sb.WriteString("(* rune -> printed form of the one-rune string (with its delimiters) *)\n")
		sb.WriteString("Definition printer_table : list (Z * list Z) := [\n")
		for c := 0; c < 128; c++ {
			s := fu.Repr(rel.NewString([]rune{rune(c)}))
			sep := ";"
			if c == 127 {
				sep = ""
			}
			fmt.Fprintf(&sb, "  (%d, %s)%s\n", c, zlist([]byte(s)), sep)
		}
		sb.WriteString("].\n\n(* body text -> runes the parser reads (-1 = rejected); delimiter ' *)\n")
		sb.WriteString("Definition parser_table : list (list Z * list Z) := [\n")
		ctx := arraictx.InitRunCtx(context.Background())
		first := true
		add := func(body []byte) {
			res := "[-1]"
			func() {
				defer func() { _ = recover() }()
				v, err := syntax.EvaluateExpr(ctx, "", "'"+string(body)+"'")
				if err != nil {
					return
				}
				switch s := v.(type) {
				case rel.String:
					rs := []rune(s.String())
					parts := make([]string, len(rs))
					for i, r := range rs {
						parts[i] = fmt.Sprint(int(r))
					}
					res = "[" + strings.Join(parts, "; ") + "]"
				default:
					if set, is := v.(rel.Set); is && !set.IsTrue() {
						res = "[]"
					}
				}
			}()
			if !first {
				sb.WriteString(";\n")
			}
			first = false
			fmt.Fprintf(&sb, "  (%s, %s)", zlist(body), res)
		}
		// every \c for printable c, followed by a sentinel so that swallowed characters show
		for c := 33; c < 127; c++ {
			if c == 'x' || c == 'u' || c == 'U' || (c >= '0' && c <= '7') || c == 'i' {
				continue
			}
			add([]byte{'\\', byte(c), 'Z'})
		}
		for _, h := range []string{"00", "07", "1b", "1f", "41", "7f", "0A", "fF"} {
			add([]byte("\\x" + h + "Z"))
		}
		sb.WriteString("\n].\n")
		return map[string]string{"Escapes.v": sb.String()}, nil
	})
}

// dumpOrdered is dump with the members of every set listed in the order the Format
// method of its representation writes them (Dict.OrderedEntries, OrderedValues of
// generic and union sets, the name-ordered row enumeration of relations).  Sequences
// are listed as enumerated; the printer model sorts them by index itself.
func dumpOrdered(v rel.Value, depth int) any {
	if depth > 40 {
		return map[string]any{"x": "deep"}
	}
	members := func(e rel.ValueEnumerator) any {
		ms := []any{}
		for e.MoveNext() {
			ms = append(ms, dumpOrdered(e.Current(), depth+1))
		}
		return map[string]any{"s": ms}
	}
	switch x := v.(type) {
	case rel.Number:
		return map[string]any{"n": fmtNum(x.Float64())}
	case rel.Tuple:
		attrs := [][2]any{}
		for e := x.Enumerator(); e.MoveNext(); {
			name, val := e.Current()
			attrs = append(attrs, [2]any{name, dumpOrdered(val, depth+1)})
		}
		sort.Slice(attrs, func(i, j int) bool { return attrs[i][0].(string) < attrs[j][0].(string) })
		return map[string]any{"t": attrs}
	case rel.Closure, rel.ExprClosure, *rel.NativeFunction:
		return map[string]any{"f": 1}
	case rel.Dict:
		ms := []any{}
		for _, e := range x.OrderedEntries() {
			ms = append(ms, dumpOrdered(e, depth+1))
		}
		return map[string]any{"s": ms}
	case rel.Relation:
		return members(x.ArrayEnumerator())
	case rel.OrderableSet:
		return members(x.OrderedValues())
	case rel.Set:
		return members(x.Enumerator())
	}
	return map[string]any{"x": fmt.Sprintf("%T", v)}
}

func init() {
	// c12: {"src": "..."} -> value, the value as the printer enumerates it, printed text, Go type
	register("c12", func(in map[string]any) map[string]any {
		src, _ := in["src"].(string)
		budget := 10 * time.Second
		if b, ok := in["budget_ms"].(float64); ok {
			budget = time.Duration(b) * time.Millisecond
		}
		r, to := safeEval(src, budget)
		out := obs(r, to, true)
		if out["st"] == "ok" {
			func() {
				defer func() {
					if p := recover(); p != nil {
						out["ord_panic"] = fmt.Sprint(p)
					}
				}()
				out["ord"] = dumpOrdered(r.val, 0)
				out["type"] = fmt.Sprintf("%T", r.val)
			}()
		}
		return out
	})
}
