package main

import (
	"context"
	"fmt"
	"strings"

	"github.com/arr-ai/arrai/pkg/arraictx"
	"github.com/arr-ai/arrai/pkg/fu"
	"github.com/arr-ai/arrai/rel"
	"github.com/arr-ai/arrai/syntax"
)

func zlist(bs []byte) string {
	parts := make([]string, len(bs))
	for i, b := range bs {
		parts[i] = fmt.Sprint(int(b))
	}
	return "[" + strings.Join(parts, "; ") + "]"
}

// Gen/Escapes.v: what the running printer writes for every one-rune string below 128,
// and what the running parser reads for every \c escape and every \xHH.
func init() {
	tableWriters = append(tableWriters, func() (map[string]string, error) {
		var sb strings.Builder
		sb.WriteString("(* REGENERATED on every check by `vharness tables` from the running implementation: do not edit. *)\n")
		sb.WriteString("From Arrai Require Import Base.Val.\n\n")
		sb.WriteString("(* rune -> printed form of the one-rune string (with its delimiters) *)\n")
		sb.WriteString("Definition printer_table : list (Z * list Z) := [\n")
		for c := 0; c < 128; c++ {
			s := fu.Repr(rel.NewString([]rune{rune(c)}))
			sep := ";"
			if c == 127 {
				sep = ""
			}
			fmt.Fprintf(&sb, "  (%d, %s)%s\n", c, zlist([]byte(s)), sep)
		}
		sb.WriteString("].\n\n(* body text -> runes the parser reads (-1 = rejected); delimiter ' *)\n")
		sb.WriteString("Definition parser_table : list (list Z * list Z) := [\n")
		ctx := arraictx.InitRunCtx(context.Background())
		first := true
		add := func(body []byte) {
			res := "[-1]"
			func() {
				defer func() { _ = recover() }()
				v, err := syntax.EvaluateExpr(ctx, "", "'"+string(body)+"'")
				if err != nil {
					return
				}
				switch s := v.(type) {
				case rel.String:
					rs := []rune(s.String())
					parts := make([]string, len(rs))
					for i, r := range rs {
						parts[i] = fmt.Sprint(int(r))
					}
					res = "[" + strings.Join(parts, "; ") + "]"
				default:
					if set, is := v.(rel.Set); is && !set.IsTrue() {
						res = "[]"
					}
				}
			}()
			if !first {
				sb.WriteString(";\n")
			}
			first = false
			fmt.Fprintf(&sb, "  (%s, %s)", zlist(body), res)
		}
		// every \c for printable c, followed by a sentinel so that swallowed characters show
		for c := 33; c < 127; c++ {
			if c == 'x' || c == 'u' || c == 'U' || (c >= '0' && c <= '7') || c == 'i' {
				continue
			}
			add([]byte{'\\', byte(c), 'Z'})
		}
		for _, h := range []string{"00", "07", "1b", "1f", "41", "7f", "0A", "fF"} {
			add([]byte("\\x" + h + "Z"))
		}
		sb.WriteString("\n].\n")
		return map[string]string{"Escapes.v": sb.String()}, nil
	})
}
