package main

import (
	"context"
	"fmt"
	"reflect"
	"runtime/debug"
	"time"

	"github.com/arr-ai/wbnf/parser"

	"github.com/arr-ai/arrai/pkg/arraictx"
	"github.com/arr-ai/arrai/rel"
)

// C04, positional join engine: the operands are evaluated from source, their *stored* layout
// (Relation.AttrsName(), the column projector p read by reflection, every row laid out in stored
// column order) is reported together with the result of the operator applied to those very values.

var joinCtors = map[string]func(parser.Scanner, rel.Expr, rel.Expr) rel.Expr{
	"<&>": rel.NewJoinExpr,
	"<->": rel.NewComposeExpr,
	"-&-": rel.NewJoinCommonExpr,
	"---": rel.NewJoinExistsExpr,
	"-&>": rel.NewRightMatchExpr,
	"<&-": rel.NewLeftMatchExpr,
	"-->": rel.NewRightResidueExpr,
	"<--": rel.NewLeftResidueExpr,
}

// storedProjector reads Relation.p (an unexported []int) without touching it.
func storedProjector(r rel.Relation) ([]int, bool) {
	f := reflect.ValueOf(r).FieldByName("p")
	if !f.IsValid() || f.Kind() != reflect.Slice {
		return nil, false
	}
	p := make([]int, f.Len())
	for i := range p {
		e := f.Index(i)
		if e.Kind() != reflect.Int {
			return nil, false
		}
		p[i] = int(e.Int())
	}
	return p, true
}

// layout reports the stored layout of a Relation: row[p[i]] is the value of attrs[i].
func layout04(r rel.Relation) map[string]any {
	attrs := []string(r.AttrsName())
	p, ok := storedProjector(r)
	out := map[string]any{"attrs": append([]string{}, attrs...), "count": r.Count()}
	if !ok || len(p) != len(attrs) {
		out["bad"] = "projector not readable"
		return out
	}
	out["p"] = p
	width := 0
	for _, i := range p {
		if i+1 > width {
			width = i + 1
		}
	}
	if width != len(attrs) {
		out["bad"] = "projector is not a permutation"
		return out
	}
	rows := []any{}
	for e := r.Enumerator(); e.MoveNext(); {
		t, is := e.Current().(rel.Tuple)
		if !is {
			out["bad"] = "member is not a tuple"
			return out
		}
		row := make([]any, width)
		for i, name := range attrs {
			v, has := t.Get(name)
			if !has {
				out["bad"] = "row lacks attribute " + name
				return out
			}
			row[p[i]] = dump(v, 1)
		}
		rows = append(rows, row)
	}
	out["rows"] = rows
	return out
}

func resultClass(v rel.Value) int {
	switch v.(type) {
	case rel.EmptySet:
		return 0
	case rel.TrueSet:
		return 1
	case rel.Relation:
		return 2
	}
	return 3
}

func init() {
	// reljoin: {"a": src, "b": src, "op": "<&>"} -> stored layouts of both operands and of a op b
	register("reljoin", func(in map[string]any) map[string]any {
		asrc, _ := in["a"].(string)
		bsrc, _ := in["b"].(string)
		op, _ := in["op"].(string)
		out := map[string]any{}
		ctor, ok := joinCtors[op]
		if !ok {
			out["st"] = "skip"
			out["why"] = "unknown operator"
			return out
		}
		ra, toa := safeEval(asrc, 10*time.Second)
		rb, tob := safeEval(bsrc, 10*time.Second)
		if toa || tob || ra.panic != "" || rb.panic != "" || ra.err != nil || rb.err != nil {
			out["st"] = "skip"
			out["why"] = "operand does not evaluate"
			return out
		}
		a, isA := ra.val.(rel.Relation)
		b, isB := rb.val.(rel.Relation)
		var ea, eb rel.Expr = a, b
		generic := !isA || !isB
		if generic {
			// the generic engine (GenericJoin): the operands are reported by their members
			sa, okA := ra.val.(rel.Set)
			sb, okB := rb.val.(rel.Set)
			if !okA || !okB {
				out["st"] = "skip"
				out["why"] = fmt.Sprintf("operands are %T and %T", ra.val, rb.val)
				return out
			}
			out["generic"] = fmt.Sprintf("%T x %T", ra.val, rb.val)
			out["ga"] = dump(sa, 0)
			out["gb"] = dump(sb, 0)
			ea, eb = sa, sb
		} else {
			out["a"] = layout04(a)
			out["b"] = layout04(b)
		}
		type res struct {
			v     rel.Value
			err   error
			panic string
			site  string
		}
		ch := make(chan res, 1)
		go func() {
			var r res
			defer func() {
				if p := recover(); p != nil {
					r.panic = fmt.Sprint(p)
					r.site = panicSite(string(debug.Stack()))
				}
				ch <- r
			}()
			ctx := arraictx.InitRunCtx(context.Background())
			r.v, r.err = ctor(*parser.NewScanner(""), ea, eb).Eval(ctx, rel.EmptyScope)
		}()
		select {
		case r := <-ch:
			switch {
			case r.panic != "":
				out["st"] = "panic"
				out["site"] = r.site
				out["msg"] = r.panic
			case r.err != nil:
				out["st"] = "err"
				out["msg"] = r.err.Error()
			default:
				func() {
					defer func() {
						if p := recover(); p != nil {
							out["st"] = "panic"
							out["site"] = panicSite(string(debug.Stack()))
							out["msg"] = "in dump: " + fmt.Sprint(p)
						}
					}()
					o := map[string]any{"cls": resultClass(r.v), "type": fmt.Sprintf("%T", r.v), "val": dump(r.v, 0)}
					if rr, is := r.v.(rel.Relation); is {
						o["attrs"] = append([]string{}, []string(rr.AttrsName())...)
						if p, ok := storedProjector(rr); ok {
							o["p"] = p
						} else {
							o["bad"] = "projector not readable"
						}
					}
					out["res"] = o
					out["st"] = "ok"
				}()
			}
		case <-time.After(10 * time.Second):
			out["st"] = "timeout"
		}
		return out
	})
}
