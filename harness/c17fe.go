// C17, front-end stream: runs the REAL server of the tree under test - the binary built from
// <REPO>/cmd/arrai (serve.go, serve_grpc.go, serve_ws.go), started as `arrai serve --listen .. --ws ..`
// on free loopback ports as a child process - and talks to it as its clients do: the gRPC client
// generated in github.com/arr-ai/proto (Update stream, Observe stream) and gorilla/websocket.
//
// mode "seq":    one deterministic sequential front-end history.  After every step the harness
//                waits for the step's own completion signal (update: ack or RPC error; ws request:
//                pong to a ping sent right after the text frame - the handler reads frames in order,
//                so the pong proves the request was handled; gRPC observe: first Recv result) and
//                then for an engine barrier (a probe gRPC Observe of `0` whose initial value arrives
//                only when the loop has finished every earlier handler and fan-out).  Reported: the
//                answer of every step and what every connection received, in order.
// mode "stress": N websocket observers + G gRPC observers of `$`, one updater issuing 1,2,3,...,
//                websocket connections that re-subscribe continuously, connections that hang up
//                and come back, a misbehaving connection (garbage / failing expressions).  The
//                oracle is the property text: every update is answered, every live observer gets
//                every installed state exactly once and in order, other connections' behaviour
//                is irrelevant.  A wedge is reported only when an update stayed unanswered for
//                wedge_ms (>= 20 s) AND a probe update on a fresh connection is unanswered too.
package main

import (
	"context"
	"encoding/json"
	"fmt"
	"math/rand"
	"net"
	"os"
	"os/exec"
	"strconv"
	"strings"
	"sync"
	"sync/atomic"
	"time"

	pb "github.com/arr-ai/proto"
	"github.com/gorilla/websocket"
	"google.golang.org/grpc"
	"google.golang.org/grpc/credentials/insecure"

	"github.com/arr-ai/arrai/rel"
)

func init() { register("c17fe", c17fe) }

// ---------- the server under test ----------

type feSrv struct {
	cmd      *exec.Cmd
	grpcAddr string
	wsURL    string
	stderr   *tailBuf
	dead     int32
	exited   chan struct{}
	cc       *grpc.ClientConn
	cl       pb.ArraiClient
}

func freePort() (int, error) {
	l, err := net.Listen("tcp", "127.0.0.1:0")
	if err != nil {
		return 0, err
	}
	defer l.Close()
	return l.Addr().(*net.TCPAddr).Port, nil
}

func feStart() (*feSrv, error) {
	bin := os.Getenv("VERIF_ARRAI_BIN")
	if bin == "" {
		return nil, fmt.Errorf("VERIF_ARRAI_BIN not set")
	}
	var lastErr error
	for attempt := 0; attempt < 4; attempt++ {
		p1, err := freePort()
		if err != nil {
			return nil, err
		}
		p2, err := freePort()
		if err != nil {
			return nil, err
		}
		s := &feSrv{grpcAddr: fmt.Sprintf("127.0.0.1:%d", p1), wsURL: fmt.Sprintf("ws://127.0.0.1:%d/", p2), stderr: &tailBuf{}, exited: make(chan struct{})}
		s.cmd = exec.Command(bin, "serve", "--listen", s.grpcAddr, "--ws", fmt.Sprintf("127.0.0.1:%d", p2))
		s.cmd.Stderr = s.stderr
		s.cmd.Stdout = s.stderr
		if err := s.cmd.Start(); err != nil {
			return nil, err
		}
		go func() {
			_ = s.cmd.Wait()
			atomic.StoreInt32(&s.dead, 1)
			close(s.exited)
		}()
		ok := true
		for _, addr := range []string{s.grpcAddr, fmt.Sprintf("127.0.0.1:%d", p2)} {
			up := false
			for t0 := time.Now(); time.Since(t0) < 30*time.Second && atomic.LoadInt32(&s.dead) == 0; time.Sleep(20 * time.Millisecond) {
				c, err := net.DialTimeout("tcp", addr, time.Second)
				if err == nil {
					c.Close()
					up = true
					break
				}
			}
			ok = ok && up
		}
		if !ok {
			lastErr = fmt.Errorf("server did not come up: %s", s.stderrTail(400))
			s.stop()
			continue
		}
		cc, err := grpc.Dial(s.grpcAddr, grpc.WithTransportCredentials(insecure.NewCredentials()))
		if err != nil {
			s.stop()
			return nil, err
		}
		s.cc, s.cl = cc, pb.NewArraiClient(cc)
		return s, nil
	}
	return nil, lastErr
}

func (s *feSrv) stop() {
	if s.cc != nil {
		_ = s.cc.Close()
	}
	if s.cmd != nil && s.cmd.Process != nil {
		_ = s.cmd.Process.Kill()
	}
	select {
	case <-s.exited:
	case <-time.After(5 * time.Second):
	}
}

func (s *feSrv) isDead() bool { return atomic.LoadInt32(&s.dead) != 0 }

func (s *feSrv) stderrTail(n int) string {
	s.stderr.mu.Lock()
	defer s.stderr.mu.Unlock()
	var keep []string
	for _, l := range strings.Split(string(s.stderr.b), "\n") {
		if !strings.Contains(l, "level=info") && strings.TrimSpace(l) != "" {
			if len(l) > 300 {
				l = l[:300]
			}
			keep = append(keep, l)
		}
	}
	b := []byte(strings.Join(keep, "\n"))
	// keep the panic report if there is one
	if i := strings.Index(string(b), "panic:"); i >= 0 {
		b = b[i:]
		if len(b) > n {
			b = b[:n]
		}
		return string(b)
	}
	if len(b) > n {
		b = b[len(b)-n:]
	}
	return string(b)
}

var feNoneJSON = string(rel.MarshalToJSON(rel.None))

func feValText(data string) string {
	data = strings.TrimSpace(data)
	if data == feNoneJSON {
		return "none"
	}
	if f, err := strconv.ParseFloat(data, 64); err == nil {
		return fmtNum(f)
	}
	return "other:" + data
}

// update over gRPC on its own stream: "ok", "err" (the RPC ended with an error: the expression did not
// compile or did not evaluate), "blocked" (no answer within d)
func (s *feSrv) update(cl pb.ArraiClient, src string, d time.Duration) string {
	ctx, cancel := context.WithCancel(context.Background())
	defer cancel()
	res := make(chan string, 1)
	go func() {
		st, err := cl.Update(ctx)
		if err != nil {
			res <- "err"
			return
		}
		if err := st.Send(&pb.UpdateReq{Expr: src}); err != nil {
			res <- "err"
			return
		}
		if _, err := st.Recv(); err != nil {
			res <- "err"
			return
		}
		_ = st.CloseSend()
		res <- "ok"
	}()
	select {
	case r := <-res:
		return r
	case <-time.After(d):
		return "blocked"
	}
}

// ---------- gRPC observer ----------

type gObs struct {
	mu      sync.Mutex
	items   []string
	nums    []float64
	cancel  context.CancelFunc
	first   chan struct{}
	ended   chan struct{}
	stopped int32
}

func (s *feSrv) gObserve(cl pb.ArraiClient, src string) *gObs {
	ctx, cancel := context.WithCancel(context.Background())
	o := &gObs{cancel: cancel, first: make(chan struct{}), ended: make(chan struct{})}
	go func() {
		defer close(o.ended)
		var once sync.Once
		sig := func() { once.Do(func() { close(o.first) }) }
		defer sig()
		st, err := cl.Observe(ctx, &pb.ObserveReq{Expr: src})
		if err != nil {
			o.add("end-err", 0, false)
			return
		}
		for {
			r, err := st.Recv()
			if err != nil {
				if atomic.LoadInt32(&o.stopped) == 0 {
					o.add("end-err", 0, false)
				}
				return
			}
			t := feValText(r.GetValue().GetJson())
			f, e := strconv.ParseFloat(t, 64)
			o.add("v:"+t, f, e == nil)
			sig()
		}
	}()
	return o
}

func (o *gObs) add(item string, f float64, isNum bool) {
	o.mu.Lock()
	o.items = append(o.items, item)
	if isNum {
		o.nums = append(o.nums, f)
	}
	o.mu.Unlock()
}

func (o *gObs) disconnect() {
	atomic.StoreInt32(&o.stopped, 1)
	o.cancel()
}

func (o *gObs) snapshot() ([]string, []float64) {
	o.mu.Lock()
	defer o.mu.Unlock()
	return append([]string(nil), o.items...), append([]float64(nil), o.nums...)
}

func (s *feSrv) barrier(d time.Duration) bool {
	o := s.gObserve(s.cl, "0")
	defer o.disconnect()
	select {
	case <-o.first:
		it, _ := o.snapshot()
		return len(it) > 0 && it[0] == "v:0"
	case <-time.After(d):
		return false
	}
}

// ---------- websocket client ----------

type wsCli struct {
	conn   *websocket.Conn
	mu     sync.Mutex
	wmu    sync.Mutex
	items  []string
	nums   []float64
	pongs  chan string
	closed chan struct{}
	hungup int32
}

func (s *feSrv) wsOpen() (*wsCli, error) {
	d := websocket.Dialer{HandshakeTimeout: 20 * time.Second}
	conn, _, err := d.Dial(s.wsURL, nil)
	if err != nil {
		return nil, err
	}
	c := &wsCli{conn: conn, pongs: make(chan string, 64), closed: make(chan struct{})}
	conn.SetPongHandler(func(p string) error {
		select {
		case c.pongs <- p:
		default:
		}
		return nil
	})
	go func() {
		defer close(c.closed)
		for {
			mt, p, err := conn.ReadMessage()
			if err != nil {
				if atomic.LoadInt32(&c.hungup) == 0 {
					if os.Getenv("VERIF_FE_DEBUG") != "" {
						fmt.Fprintln(os.Stderr, "ws read error:", err)
					}
					c.add("closed", 0, false)
				}
				return
			}
			if mt != websocket.TextMessage {
				continue
			}
			var obj map[string]any
			if len(p) > 0 && p[0] == '{' && json.Unmarshal(p, &obj) == nil {
				if _, isErr := obj["error"]; isErr && len(obj) == 1 {
					c.add("error", 0, false)
					continue
				}
			}
			t := feValText(string(p))
			f, e := strconv.ParseFloat(t, 64)
			c.add("v:"+t, f, e == nil)
		}
	}()
	return c, nil
}

func (c *wsCli) add(item string, f float64, isNum bool) {
	c.mu.Lock()
	c.items = append(c.items, item)
	if isNum {
		c.nums = append(c.nums, f)
	}
	c.mu.Unlock()
}

func (c *wsCli) snapshot() ([]string, []float64) {
	c.mu.Lock()
	defer c.mu.Unlock()
	return append([]string(nil), c.items...), append([]float64(nil), c.nums...)
}

func (c *wsCli) send(src string) error {
	c.wmu.Lock()
	defer c.wmu.Unlock()
	_ = c.conn.SetWriteDeadline(time.Now().Add(30 * time.Second))
	return c.conn.WriteMessage(websocket.TextMessage, []byte(src))
}

var pingSeq int64

// ping and wait for the matching pong: everything the server wrote to this socket before it read the ping has been read
func (c *wsCli) sync(d time.Duration) bool {
	tag := strconv.FormatInt(atomic.AddInt64(&pingSeq, 1), 10)
	c.wmu.Lock()
	err := c.conn.WriteControl(websocket.PingMessage, []byte(tag), time.Now().Add(d))
	c.wmu.Unlock()
	if err != nil {
		return false
	}
	deadline := time.After(d)
	for {
		select {
		case p := <-c.pongs:
			if p == tag {
				return true
			}
		case <-c.closed:
			return false
		case <-deadline:
			return false
		}
	}
}

func (c *wsCli) hangup(abrupt bool) {
	atomic.StoreInt32(&c.hungup, 1)
	if !abrupt {
		c.wmu.Lock()
		_ = c.conn.WriteControl(websocket.CloseMessage, websocket.FormatCloseMessage(websocket.CloseNormalClosure, ""), time.Now().Add(time.Second))
		c.wmu.Unlock()
	}
	_ = c.conn.Close()
}

// ---------- entry ----------

func c17fe(in map[string]any) map[string]any {
	s, err := feStart()
	if err != nil {
		return map[string]any{"st": "harness-error", "msg": err.Error()}
	}
	defer s.stop()
	mode, _ := in["mode"].(string)
	if mode == "stress" {
		return feStress(s, in)
	}
	return feSeq(s, in)
}

func numOr(in map[string]any, k string, d float64) float64 {
	if v, ok := in[k].(float64); ok {
		return v
	}
	return d
}

// ---------- sequential histories ----------

func feSeq(s *feSrv, in map[string]any) map[string]any {
	stepWait := time.Duration(numOr(in, "step_ms", 20000)) * time.Millisecond
	evs, _ := in["events"].([]any)
	ws := map[string]*wsCli{}
	gs := map[string]*gObs{}
	order := []string{}
	acks := []string{}
	final := "alive"
	key := func(prefix string, v any) string { return prefix + strconv.Itoa(int(v.(float64))) }
	for _, e0 := range evs {
		ev := e0.(map[string]any)
		if final != "alive" {
			acks = append(acks, "blocked")
			continue
		}
		a := "done"
		switch ev["op"] {
		case "update":
			a = s.update(s.cl, ev["expr"].(string), stepWait)
		case "wssub":
			k := key("w", ev["c"])
			c := ws[k]
			if c == nil {
				c, err := s.wsOpen()
				if err != nil {
					a = "connect-failed"
					break
				}
				ws[k] = c
				order = append(order, k)
			}
			c = ws[k]
			if err := c.send(ev["expr"].(string)); err != nil {
				a = "closed"
			} else if !c.sync(stepWait) {
				select {
				case <-c.closed:
					a = "closed"
				default:
					a = "blocked"
				}
			}
		case "wsclose":
			if c := ws[key("w", ev["c"])]; c != nil {
				c.sync(stepWait) // read what has been written so far, then leave
				c.hangup(ev["abrupt"] == true)
			}
		case "gobs":
			k := key("g", ev["g"])
			o := s.gObserve(s.cl, ev["expr"].(string))
			gs[k] = o
			order = append(order, k)
			select {
			case <-o.first:
			case <-time.After(stepWait):
				a = "blocked"
			}
		case "gcancel":
			if o := gs[key("g", ev["g"])]; o != nil {
				o.disconnect()
			}
		}
		if a == "blocked" || !s.barrier(stepWait) {
			if s.isDead() {
				final = "dead"
			} else if a == "blocked" || !s.barrier(stepWait) {
				final = "wedged"
			}
		}
		acks = append(acks, a)
	}
	// settle: websocket data is ordered before the pong; gRPC streams: wait for a quiet window
	if final == "alive" {
		for _, c := range ws {
			if atomic.LoadInt32(&c.hungup) == 0 {
				c.sync(stepWait)
			}
		}
		quiet, last := 0, -1
		for t0 := time.Now(); quiet < 6 && time.Since(t0) < 10*time.Second; time.Sleep(50 * time.Millisecond) {
			n := 0
			for _, o := range gs {
				it, _ := o.snapshot()
				n += len(it)
			}
			if n == last {
				quiet++
			} else {
				quiet, last = 0, n
			}
		}
	}
	if s.isDead() {
		final = "dead"
	}
	conns := [][]any{}
	for _, k := range order {
		var it []string
		if c := ws[k]; c != nil {
			it, _ = c.snapshot()
		} else {
			it, _ = gs[k].snapshot()
		}
		if it == nil {
			it = []string{}
		}
		conns = append(conns, []any{k, it})
	}
	out := map[string]any{"st": "done", "acks": acks, "conns": conns, "final": final}
	if final != "alive" || os.Getenv("VERIF_FE_DEBUG") != "" {
		out["stderr"] = s.stderrTail(6000)
	}
	for _, c := range ws {
		c.hangup(true)
	}
	for _, o := range gs {
		o.disconnect()
	}
	return out
}

// ---------- schedule stress ----------

type feViol struct {
	mu sync.Mutex
	l  []string
}

func (v *feViol) add(f string, a ...any) {
	v.mu.Lock()
	if len(v.l) < 40 {
		v.l = append(v.l, fmt.Sprintf(f, a...))
	}
	v.mu.Unlock()
}

// values must be v0, v0+1, ..., each exactly once
func checkConsecutive(who string, nums []float64, wantFirst float64, checkFirst bool, viol *feViol) {
	for i, x := range nums {
		if i == 0 {
			if checkFirst && x != wantFirst {
				viol.add("%s: first value %v, expected the state at subscription %v", who, x, wantFirst)
			}
			continue
		}
		switch d := x - nums[i-1]; {
		case d == 1:
		case d == 0:
			viol.add("%s: state %v delivered twice (position %d)", who, x, i)
			return
		case d > 1:
			viol.add("%s: gap: %v followed by %v (states in between never delivered)", who, nums[i-1], x)
			return
		default:
			viol.add("%s: out of order: %v followed by %v", who, nums[i-1], x)
			return
		}
	}
}

const feTagBase = 100000

// a re-subscribing connection: its two subscriptions observe `$ * feTagBase + j` and `$ * feTagBase + (j+1)`
func checkChurn(who string, nums []float64, j int, viol *feViol) {
	lastTag, lastK := 0, -1.0
	for i, x := range nums {
		tag := int(x) % feTagBase
		k := float64(int(x) / feTagBase)
		switch {
		case tag != j && tag != j+1:
			viol.add("%s: received %v, which is a value of neither of its subscriptions %d, %d", who, x, j, j+1)
			return
		case tag < lastTag:
			viol.add("%s: value of cancelled subscription %d arrived after subscription %d had started (position %d)", who, tag, lastTag, i)
			return
		case tag == lastTag:
			if k != lastK+1 {
				viol.add("%s: subscription %d: state %v followed by %v (gap, duplicate or disorder)", who, tag, lastK, k)
				return
			}
		default:
			if k < lastK {
				viol.add("%s: subscription %d starts at state %v, older than %v already seen", who, tag, k, lastK)
				return
			}
		}
		lastTag, lastK = tag, k
	}
}

func feStress(s *feSrv, in map[string]any) map[string]any {
	nWs := int(numOr(in, "ws_observers", 30))
	nG := int(numOr(in, "grpc_observers", 4))
	nChurn := int(numOr(in, "churners", 3))
	nHang := int(numOr(in, "hangers", 2))
	nGHang := int(numOr(in, "grpc_hangers", 1))
	nBad := int(numOr(in, "misbehavers", 1))
	dur := time.Duration(numOr(in, "duration_ms", 8000)) * time.Millisecond
	wedge := time.Duration(numOr(in, "wedge_ms", 20000)) * time.Millisecond
	probeWait := time.Duration(numOr(in, "probe_ms", 15000)) * time.Millisecond
	maxUpdates := int(numOr(in, "max_updates", 6000))
	pace := time.Duration(numOr(in, "pace_us", 300)) * time.Microsecond
	seed := int64(numOr(in, "seed", 1))
	viol := &feViol{}
	stats := map[string]any{}
	fail := func(kind string) map[string]any {
		return map[string]any{"st": "done", "verdict": kind, "violations": viol.l, "stats": stats, "stderr": s.stderrTail(1500)}
	}
	if a := s.update(s.cl, "0", wedge); a != "ok" {
		viol.add("initial update 0 answered %q", a)
		return fail("setup")
	}
	wsObs := make([]*wsCli, 0, nWs)
	for i := 0; i < nWs; i++ {
		c, err := s.wsOpen()
		if err != nil {
			return map[string]any{"st": "harness-error", "msg": "ws connect: " + err.Error()}
		}
		defer c.hangup(true)
		if err := c.send("$"); err != nil || !c.sync(wedge) {
			viol.add("websocket observer %d: subscription `$` on an idle server was not handled within %v", i, wedge)
			return fail("setup")
		}
		wsObs = append(wsObs, c)
	}
	gObsL := make([]*gObs, 0, nG)
	for i := 0; i < nG; i++ {
		o := s.gObserve(s.cl, "$")
		defer o.disconnect()
		select {
		case <-o.first:
		case <-time.After(wedge):
			viol.add("gRPC observer %d: no initial value within %v on an idle server", i, wedge)
			return fail("setup")
		}
		gObsL = append(gObsL, o)
	}
	if !s.barrier(wedge) {
		viol.add("engine barrier after the subscriptions not passed within %v", wedge)
		return fail("setup")
	}

	var stop int32
	var wg sync.WaitGroup
	running := func() bool { return atomic.LoadInt32(&stop) == 0 }

	// re-subscribing connections: subscribe `$ * B + j`, a moment later `$ * B + (j+1)` on the same connection
	// (cancel + observe), listen a little, hang up, come back
	var resubs int64
	for i := 0; i < nChurn; i++ {
		rng := rand.New(rand.NewSource(seed*1000 + int64(i)))
		who := fmt.Sprintf("re-subscribing websocket connection %d", i)
		wg.Add(1)
		go func() {
			defer wg.Done()
			for j := 1; running() && j < feTagBase-2; j += 2 {
				c, err := s.wsOpen()
				if err != nil {
					time.Sleep(5 * time.Millisecond)
					continue
				}
				if c.send(fmt.Sprintf("$ * %d + %d", feTagBase, j)) == nil {
					if rng.Intn(3) == 0 {
						c.sync(wedge + probeWait)
					}
					time.Sleep(time.Duration(rng.Intn(3000)) * time.Microsecond)
					if c.send(fmt.Sprintf("$ * %d + %d", feTagBase, j+1)) == nil {
						atomic.AddInt64(&resubs, 1)
						if rng.Intn(2) == 0 {
							c.sync(wedge + probeWait)
						}
						time.Sleep(time.Duration(rng.Intn(3000)) * time.Microsecond)
					}
				}
				c.hangup(rng.Intn(2) == 0)
				select {
				case <-c.closed:
				case <-time.After(wedge):
				}
				_, nums := c.snapshot()
				checkChurn(who, nums, j, viol)
			}
		}()
	}
	// connections that subscribe, listen a little, hang up, and come back
	var hangRounds, hangBad int64
	for i := 0; i < nHang; i++ {
		rng := rand.New(rand.NewSource(seed*2000 + int64(i)))
		who := fmt.Sprintf("hang-up connection %d", i)
		wg.Add(1)
		go func() {
			defer wg.Done()
			for running() {
				c, err := s.wsOpen()
				if err != nil {
					atomic.AddInt64(&hangBad, 1)
					time.Sleep(5 * time.Millisecond)
					continue
				}
				if c.send("$") == nil {
					time.Sleep(time.Duration(rng.Intn(6000)) * time.Microsecond)
				}
				abrupt := rng.Intn(2) == 0
				c.hangup(abrupt)
				<-c.closed
				_, nums := c.snapshot()
				checkConsecutive(who, nums, 0, false, viol)
				atomic.AddInt64(&hangRounds, 1)
			}
		}()
	}
	for i := 0; i < nGHang; i++ {
		rng := rand.New(rand.NewSource(seed*3000 + int64(i)))
		who := fmt.Sprintf("disconnecting gRPC observer %d", i)
		wg.Add(1)
		go func() {
			defer wg.Done()
			cc, err := grpc.Dial(s.grpcAddr, grpc.WithTransportCredentials(insecure.NewCredentials()))
			if err != nil {
				return
			}
			defer cc.Close()
			cl := pb.NewArraiClient(cc)
			for running() {
				o := s.gObserve(cl, "$")
				time.Sleep(time.Duration(rng.Intn(8000)) * time.Microsecond)
				o.disconnect()
				select {
				case <-o.ended:
				case <-time.After(wedge):
				}
				_, nums := o.snapshot()
				checkConsecutive(who, nums, 0, false, viol)
				atomic.AddInt64(&hangRounds, 1)
			}
		}()
	}
	// a misbehaving connection: garbage, failing and valid expressions in quick succession (its own trace is not judged)
	var badMsgs int64
	for i := 0; i < nBad; i++ {
		rng := rand.New(rand.NewSource(seed*4000 + int64(i)))
		wg.Add(1)
		go func() {
			defer wg.Done()
			var c *wsCli
			for running() {
				if c == nil {
					var err error
					if c, err = s.wsOpen(); err != nil {
						c = nil
						time.Sleep(5 * time.Millisecond)
						continue
					}
				}
				msg := []string{"$ $", "$", "(a: 1).b", "$ +", "cond {$ > 3: (a: 1).b, _: $}", "$ + 1"}[rng.Intn(6)]
				if c.send(msg) != nil {
					c.hangup(true)
					c = nil
					continue
				}
				atomic.AddInt64(&badMsgs, 1)
				time.Sleep(time.Duration(rng.Intn(1500)) * time.Microsecond)
				select {
				case <-c.closed:
					c.hangup(true)
					c = nil
				default:
				}
			}
			if c != nil {
				c.hangup(true)
			}
		}()
	}

	// the updater
	lastAcked, unanswered := 0, 0
	var maxLatency time.Duration
	verdict := "ok"
	ust, err := s.cl.Update(context.Background())
	if err != nil {
		return map[string]any{"st": "harness-error", "msg": "update stream: " + err.Error()}
	}
	type ackRes struct{ err error }
	t0 := time.Now()
	for k := 1; k <= maxUpdates && time.Since(t0) < dur; k++ {
		ts := time.Now()
		ch := make(chan ackRes, 1)
		go func() {
			if err := ust.Send(&pb.UpdateReq{Expr: strconv.Itoa(k)}); err != nil {
				ch <- ackRes{err}
				return
			}
			_, err := ust.Recv()
			ch <- ackRes{err}
		}()
		select {
		case r := <-ch:
			if r.err != nil {
				if s.isDead() {
					verdict = "crash"
					viol.add("the server process died while update %d was in flight", k)
				} else {
					verdict = "update-failed"
					viol.add("update %d (a constant) was answered with an error: %v", k, r.err)
				}
			} else {
				lastAcked = k
				if l := time.Since(ts); l > maxLatency {
					maxLatency = l
				}
			}
		case <-time.After(wedge):
			unanswered = k
			// probe on a fresh connection
			cc, err := grpc.Dial(s.grpcAddr, grpc.WithTransportCredentials(insecure.NewCredentials()))
			pr := "blocked"
			if err == nil {
				pr = s.update(pb.NewArraiClient(cc), strconv.Itoa(k+1), probeWait)
				cc.Close()
			}
			if s.isDead() {
				verdict = "crash"
				viol.add("the server process died; update %d never answered", k)
			} else if pr == "blocked" {
				verdict = "wedged"
				viol.add("update %d unanswered for %v and a probe update on a fresh connection unanswered for %v: the engine is wedged", k, wedge, probeWait)
			} else {
				verdict = "update-unanswered"
				viol.add("update %d unanswered for %v although a probe update on a fresh connection was answered %q", k, wedge, pr)
			}
		}
		if verdict != "ok" {
			break
		}
		if pace > 0 {
			time.Sleep(pace)
		}
	}
	atomic.StoreInt32(&stop, 1)
	wgDone := make(chan struct{})
	go func() { wg.Wait(); close(wgDone) }()
	grace := wedge + probeWait + 5*time.Second
	if verdict != "ok" {
		grace = 2 * time.Second
	}
	select {
	case <-wgDone:
	case <-time.After(grace):
		if verdict == "ok" {
			// a client goroutine is stuck: decide with a probe whether the engine still serves
			if a := s.update(s.cl, strconv.Itoa(lastAcked+1), probeWait); a == "ok" {
				lastAcked++
			} else {
				verdict = "wedged"
				viol.add("after the update stream: a client is stuck and a probe update was answered %q", a)
			}
		}
	}
	stats["updates_acked"] = lastAcked
	stats["update_unanswered"] = unanswered
	stats["max_update_latency_ms"] = maxLatency.Milliseconds()
	stats["hangup_rounds"] = atomic.LoadInt64(&hangRounds)
	stats["misbehaver_messages"] = atomic.LoadInt64(&badMsgs)
	stats["elapsed_ms"] = time.Since(t0).Milliseconds()

	// every stable observer must end up with 0..lastAcked; wait for the tail (only if the engine serves)
	lastOf := func(nums []float64) float64 {
		if len(nums) == 0 {
			return -1
		}
		return nums[len(nums)-1]
	}
	if verdict == "ok" {
		deadline := time.Now().Add(wedge)
		for time.Now().Before(deadline) {
			all := true
			for _, c := range wsObs {
				_, nums := c.snapshot()
				all = all && lastOf(nums) >= float64(lastAcked)
			}
			for _, o := range gObsL {
				_, nums := o.snapshot()
				all = all && lastOf(nums) >= float64(lastAcked)
			}
			if all {
				break
			}
			time.Sleep(20 * time.Millisecond)
		}
	}
	for i, c := range wsObs {
		items, nums := c.snapshot()
		who := fmt.Sprintf("websocket observer %d of `$`", i)
		checkConsecutive(who, nums, 0, true, viol)
		if len(items) != len(nums) {
			viol.add("%s: received something that is not a number (%d of %d items)", who, len(items)-len(nums), len(items))
		}
		if lastOf(nums) != float64(lastAcked) && verdict == "ok" {
			viol.add("%s: last value %v, but update %d was acknowledged %v ago", who, lastOf(nums), lastAcked, wedge)
		}
	}
	for i, o := range gObsL {
		items, nums := o.snapshot()
		who := fmt.Sprintf("gRPC observer %d of `$`", i)
		checkConsecutive(who, nums, 0, true, viol)
		if len(items) != len(nums) {
			viol.add("%s: stream ended or carried a non-number (%d of %d items)", who, len(items)-len(nums), len(items))
		}
		if lastOf(nums) != float64(lastAcked) && verdict == "ok" {
			viol.add("%s: last value %v, but update %d was acknowledged %v ago", who, lastOf(nums), lastAcked, wedge)
		}
	}
	stats["resubscriptions"] = atomic.LoadInt64(&resubs)
	if s.isDead() && verdict == "ok" {
		verdict = "crash"
		viol.add("the server process died")
	}
	if verdict == "ok" && len(viol.l) > 0 {
		verdict = "observer-trace"
	}
	out := map[string]any{"st": "done", "verdict": verdict, "violations": viol.l, "stats": stats}
	if len(viol.l) == 0 {
		out["violations"] = []string{}
	}
	if verdict != "ok" {
		out["stderr"] = s.stderrTail(1500)
	}
	return out
}
