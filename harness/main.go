// vharness: drives the real arr-ai/arrai implementation (linked from /repo's
// working tree) on generated cases and prints canonical observables as JSON lines.
package main

import (
	"bufio"
	"encoding/json"
	"fmt"
	"os"
	"runtime/debug"
)

type handler func(in map[string]any) map[string]any

var handlers = map[string]handler{}

func register(name string, h handler) { handlers[name] = h }

func main() {
	if len(os.Args) < 2 {
		fmt.Fprintln(os.Stderr, "usage: vharness <cmd> < cases.jsonl > out.jsonl")
		os.Exit(2)
	}
	cmd := os.Args[1]
	// infinite recursion must kill the process quickly (fatal, not recoverable)
	debug.SetMaxStack(256 << 20)
	if cmd == "tables" {
		if err := writeTables(os.Args[2]); err != nil {
			fmt.Fprintln(os.Stderr, err)
			os.Exit(1)
		}
		return
	}
	h, ok := handlers[cmd]
	if !ok {
		fmt.Fprintln(os.Stderr, "unknown command", cmd)
		os.Exit(2)
	}
	rd := bufio.NewReaderSize(os.Stdin, 1<<20)
	wr := bufio.NewWriterSize(os.Stdout, 1<<20)
	defer wr.Flush()
	dec := json.NewDecoder(rd)
	enc := json.NewEncoder(wr)
	enc.SetEscapeHTML(false)
	for {
		var in map[string]any
		if err := dec.Decode(&in); err != nil {
			break
		}
		out := h(in)
		out["id"] = in["id"]
		if err := enc.Encode(out); err != nil {
			panic(err)
		}
		wr.Flush()
		if ea, _ := out["exit_after"].(bool); ea {
			os.Exit(3)
		}
		if st, _ := out["st"].(string); st == "timeout" {
			// the abandoned goroutine keeps burning a core: leave, the driver restarts us
			os.Exit(3)
		}
	}
}
