package main

func writeTables(dir string) error {
	return nil
}
