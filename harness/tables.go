package main

import (
	"os"
	"path/filepath"
)

// tableWriters regenerate coq/Gen/*.v from the running implementation; each
// returns file name -> contents.  Registered from init() of the file that owns
// the table.
var tableWriters []func() (map[string]string, error)

func writeTables(dir string) error {
	if err := os.MkdirAll(dir, 0o755); err != nil {
		return err
	}
	for _, w := range tableWriters {
		files, err := w()
		if err != nil {
			return err
		}
		for name, body := range files {
			if err := os.WriteFile(filepath.Join(dir, name), []byte(body), 0o644); err != nil {
				return err
			}
		}
	}
	return nil
}
