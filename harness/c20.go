package main

// C20: drives pkg/test (the `arrai test` runner) through its public API only.
//   c20expr: {"src": ...}                          -> test.RunExpr on the compiled source (+ the raw ForeachLeaf walk)
//   c20run:  {"files": {path: content}, "dirs": [..], "target": path}
//                                                  -> test.RunTests over an afero MemMapFs, parsed report

import (
	"bytes"
	"context"
	"fmt"
	"os"
	"regexp"
	"runtime/debug"
	"strconv"
	"strings"
	"time"

	"github.com/spf13/afero"

	"github.com/arr-ai/arrai/pkg/arraictx"
	"github.com/arr-ai/arrai/pkg/ctxfs"
	"github.com/arr-ai/arrai/pkg/ctxrootcache"
	"github.com/arr-ai/arrai/pkg/test"
	"github.com/arr-ai/arrai/rel"
	"github.com/arr-ai/arrai/syntax"
)

var outcomeName = map[test.Outcome]string{test.Failed: "failed", test.Invalid: "invalid", test.Ignored: "ignored", test.Passed: "passed"}

func c20guard(out map[string]any, budget time.Duration, f func()) {
	done := make(chan struct{})
	go func() {
		defer close(done)
		defer func() {
			if p := recover(); p != nil {
				out["st"] = "panic"
				out["site"] = panicSite(string(debug.Stack()))
				msg := fmt.Sprint(p)
				if len(msg) > 300 {
					msg = msg[:300]
				}
				out["msg"] = msg
			}
		}()
		f()
	}()
	select {
	case <-done:
	case <-time.After(budget):
		out["st"] = "timeout"
	}
}

func c20expr(in map[string]any) map[string]any {
	out := map[string]any{}
	src, _ := in["src"].(string)
	ctx := arraictx.InitRunCtx(context.Background())
	var val rel.Value
	c20guard(out, 10*time.Second, func() {
		expr, err := syntax.Compile(ctx, "", src)
		if err != nil {
			out["st"] = "err"
			out["phase"] = "compile"
			out["msg"] = trunc(err.Error())
			return
		}
		v, err := expr.Eval(ctx, rel.Scope{})
		if err != nil {
			out["st"] = "err"
			out["phase"] = "eval"
			out["msg"] = trunc(err.Error())
			return
		}
		val = v
		out["type"] = fmt.Sprintf("%T", v)
		results, err := test.RunExpr(ctx, expr)
		if err != nil {
			out["st"] = "err"
			out["phase"] = "run"
			out["msg"] = trunc(err.Error())
			return
		}
		rs := [][2]string{}
		for _, r := range results {
			rs = append(rs, [2]string{r.Name, outcomeName[r.Outcome]})
		}
		out["results"] = rs
		out["st"] = "ok"
	})
	// the raw walk, separately (so that a panic in the classification does not hide the leaves)
	if val != nil {
		w := map[string]any{}
		c20guard(w, 10*time.Second, func() {
			leaves := [][3]string{}
			test.ForeachLeaf(val, "", func(v rel.Value, path string) {
				s := "<nil>"
				if v != nil {
					s = trunc(v.String())
				}
				leaves = append(leaves, [3]string{path, fmt.Sprintf("%T", v), s})
			})
			w["leaves"] = leaves
			w["st"] = "ok"
		})
		out["walk"] = w
	}
	return out
}

func trunc(s string) string {
	if len(s) > 300 {
		return s[:300]
	}
	return s
}

var (
	c20fileRe = regexp.MustCompile(`^=======  (.*) \(([0-9,]+)ms\)$`)
	c20resRe  = regexp.MustCompile("^\x1b\\[38;5;255;([0-9]+);1m(FAIL| \\?\\? |SKIP|PASS)\x1b\\[0m  (.*)$")
	c20sumRe  = regexp.MustCompile(`^(?:([0-9,]+) failed, )?(?:([0-9,]+) invalid, )?(?:([0-9,]+) ignored, )?([0-9,]+) passed of ([0-9,]+) total tests\. Took [0-9,]+ms\.$`)
)

func c20num(s string) int {
	if s == "" {
		return 0
	}
	n, err := strconv.Atoi(strings.ReplaceAll(s, ",", ""))
	if err != nil {
		return -1
	}
	return n
}

// parseReport reads the text written by test.Report back into per-file results and the summary counts.
func parseReport(text string) map[string]any {
	files := []map[string]any{}
	var cur map[string]any
	var summary map[string]any
	inSummary := false
	unparsed := 0
	tag := map[string]string{"FAIL": "failed", " ?? ": "invalid", "SKIP": "ignored", "PASS": "passed"}
	for _, line := range strings.Split(text, "\n") {
		switch {
		case line == "":
		case line == "=======  Summary":
			inSummary = true
		case inSummary:
			if m := c20sumRe.FindStringSubmatch(line); m != nil && summary == nil {
				summary = map[string]any{"failed": c20num(m[1]), "invalid": c20num(m[2]), "ignored": c20num(m[3]),
					"passed": c20num(m[4]), "total": c20num(m[5])}
			} else {
				unparsed++
			}
		case c20fileRe.MatchString(line):
			m := c20fileRe.FindStringSubmatch(line)
			cur = map[string]any{"path": m[1], "results": [][2]string{}}
			files = append(files, cur)
		case c20resRe.MatchString(line):
			m := c20resRe.FindStringSubmatch(line)
			if cur == nil {
				unparsed++
				continue
			}
			cur["results"] = append(cur["results"].([][2]string), [2]string{strings.TrimRight(m[3], " "), tag[m[2]]})
		case strings.HasPrefix(line, "      "): // message line
		default:
			unparsed++
		}
	}
	return map[string]any{"files": files, "summary": summary, "unparsed": unparsed}
}

func c20run(in map[string]any) map[string]any {
	out := map[string]any{}
	fs := afero.NewMemMapFs()
	if ds, ok := in["dirs"].([]any); ok {
		for _, d := range ds {
			_ = fs.MkdirAll(d.(string), 0o755)
		}
	}
	if fm, ok := in["files"].(map[string]any); ok {
		for p, c := range fm {
			if err := afero.WriteFile(fs, p, []byte(c.(string)), 0o644); err != nil {
				out["st"] = "harness-error"
				out["msg"] = err.Error()
				return out
			}
		}
	}
	target, _ := in["target"].(string)
	if err := os.Chdir("/"); err != nil {
		out["st"] = "harness-error"
		return out
	}
	ctx := arraictx.InitRunCtx(context.Background())
	ctx = ctxfs.SourceFsOnto(ctx, fs)
	ctx = ctxrootcache.WithRootCache(ctx)
	buf := &bytes.Buffer{}
	c20guard(out, 20*time.Second, func() {
		err := test.RunTests(ctx, buf, target)
		if err != nil {
			out["st"] = "err"
			out["msg"] = trunc(err.Error())
			out["run_failed_msg"] = strings.Contains(err.Error(), "FAILED")
		} else {
			out["st"] = "ok"
		}
	})
	if out["st"] != "timeout" {
		out["report"] = parseReport(buf.String())
		if w, _ := in["raw"].(bool); w {
			out["raw"] = buf.String()
		}
	}
	return out
}

func init() {
	register("c20expr", c20expr)
	register("c20run", c20run)
}
