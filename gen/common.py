"""Shared plumbing for /verif/bin/check: builds, harness and Coq runners,
verdict logic, evidence and replay files.  No property logic lives here."""
import fcntl
import glob
import json
import os
import re
import shutil
import subprocess
import sys
import time

ROOT = os.path.dirname(os.path.dirname(os.path.abspath(__file__)))
REPO = os.environ.get("VERIF_REPO", "/repo")
# A check against another tree (VERIF_REPO=<scratch worktree>, used to try seeded changes) gets its own
# build directory, its own copy of the harness module and of the Coq project, so that it never disturbs
# the binaries, go.mod or regenerated tables used for /repo itself.
ALT = os.path.realpath(REPO) != "/repo"
if ALT:
    import hashlib
    BUILD = os.path.join(ROOT, ".build", "alt-" + hashlib.md5(os.path.realpath(REPO).encode()).hexdigest()[:10])
    COQ = os.path.join(BUILD, "coq")
    HARNESS = os.path.join(BUILD, "harness")
else:
    BUILD = os.path.join(ROOT, ".build")
    COQ = os.path.join(ROOT, "coq")
    HARNESS = os.path.join(ROOT, "harness")


def sync_alt():
    """refresh the private copies used for an alternative tree (mtimes preserved: no needless rebuilds)"""
    if not ALT:
        return
    os.makedirs(BUILD, exist_ok=True)
    subprocess.run(["rsync", "-a", "--delete", os.path.join(ROOT, "harness") + "/", HARNESS + "/"], check=True)
    subprocess.run(["rsync", "-a", "--delete", "--exclude", ".lia.cache", os.path.join(ROOT, "coq") + "/", COQ + "/"], check=True)
WORK = os.path.join(ROOT, ".work", str(os.getpid()))

GOENV = dict(os.environ)
GOENV.update({"GOFLAGS": "-mod=mod", "GOPROXY": "off", "CARGO_NET_OFFLINE": "true", "PIP_NO_INDEX": "1"})
GOENV.pop("GOTOOLCHAIN", None)
GOENV.pop("GOSUMDB", None)

ALLOWED_AXIOMS = set()  # every property theorem must be closed under the global context

TRUSTED_BASE = [
    "Coq 8.16.1 kernel (coqc; coqchk in the thorough tier); vm_compute for finite tables, witnesses and the correspondence evaluation; no native_compute",
    "no Axiom/Parameter/Admitted in the development (scanned on every run); Print Assumptions of every property theorem re-read on every run",
    "correspondence check: python generators and differ (gen/*.py), Go harness (harness/*.go, build tag verif) linked against /repo's working tree, model evaluated inside Coq by vm_compute on the same inputs",
    "modelled, not verified: the Go code itself; Go runtime and standard library, github.com/arr-ai/frozen, hash and wbnf are outside the model",
]


def log(*a):
    print(*a, file=sys.stderr, flush=True)


def sh(cmd, timeout=1200, cwd=None, env=None, inp=None):
    p = subprocess.run(cmd, shell=isinstance(cmd, str), cwd=cwd, env=env or GOENV, input=inp,
                       stdout=subprocess.PIPE, stderr=subprocess.PIPE, timeout=timeout, text=True)
    return p.returncode, p.stdout, p.stderr


def workdir():
    os.makedirs(WORK, exist_ok=True)
    return WORK


def cleanup():
    shutil.rmtree(WORK, ignore_errors=True)


class Lock:
    def __init__(self, name="build"):
        os.makedirs(BUILD, exist_ok=True)
        self.path = os.path.join(BUILD, name + ".lock")

    def __enter__(self):
        self.f = open(self.path, "w")
        fcntl.flock(self.f, fcntl.LOCK_EX)
        return self

    def __exit__(self, *a):
        fcntl.flock(self.f, fcntl.LOCK_UN)
        self.f.close()


def build_harness(race=False):
    """(Re)build vharness against /repo's current working tree, hooks on."""
    out = os.path.join(BUILD, "vharness-race" if race else "vharness")
    with Lock("go"):
        shutil.copyfile(os.path.join(REPO, "go.sum"), os.path.join(HARNESS, "go.sum"))
        gomod = open(os.path.join(HARNESS, "go.mod")).read()
        want = "replace github.com/arr-ai/arrai => " + REPO
        gomod2 = re.sub(r"replace github.com/arr-ai/arrai => \S+", want, gomod)
        if gomod2 != gomod:
            open(os.path.join(HARNESS, "go.mod"), "w").write(gomod2)
        cmd = ["go", "build", "-tags", "verif"] + (["-race"] if race else []) + ["-o", out, "."]
        rc, so, se = sh(cmd, timeout=1500, cwd=HARNESS)
    if rc != 0:
        raise BuildError("go build of the harness against %s failed:\n%s" % (REPO, se[-4000:]))
    return out


class BuildError(Exception):
    pass


def regen_tables(vharness):
    """Regenerate coq/Gen/*.v by running the implementation; returns list of changed files."""
    tmp = os.path.join(workdir(), "gen")
    os.makedirs(tmp, exist_ok=True)
    env = dict(GOENV)
    env["VERIF_REPO"] = REPO
    rc, so, se = sh([vharness, "tables", tmp], timeout=300, env=env)
    if rc != 0:
        raise BuildError("vharness tables failed: " + se[-2000:])
    changed = []
    with Lock("coq"):
        for f in sorted(os.listdir(tmp)):
            dst = os.path.join(COQ, "Gen", f)
            new = open(os.path.join(tmp, f)).read()
            old = open(dst).read() if os.path.exists(dst) else None
            if old != new:
                open(dst, "w").write(new)
                changed.append(f)
    return changed


def coq_make(targets=None, clean=False):
    """Full .vo build of the Coq project (never -vos). Returns (ok, log)."""
    with Lock("coq"):
        if clean:
            sh("make clean >/dev/null 2>&1; rm -f Makefile Makefile.conf .Makefile.d", cwd=COQ)
        if not os.path.exists(os.path.join(COQ, "Makefile")) or \
                os.path.getmtime(os.path.join(COQ, "_CoqProject")) > os.path.getmtime(os.path.join(COQ, "Makefile")):
            rc, so, se = sh("coq_makefile -f _CoqProject -o Makefile", cwd=COQ)
            if rc != 0:
                return False, se
        cmd = "timeout 3000 make -j16 " + (" ".join(targets) if targets else "")
        rc, so, se = sh(cmd, timeout=3100, cwd=COQ)
    return rc == 0, (so + se)[-6000:]


FORBIDDEN = re.compile(r"\b(Admitted|admit|Axiom|Axioms|Parameter|Parameters|Conjecture|Abort)\b|Unset\s+Guard|bypass_check|type-in-type|impredicative-set|Admit\s+Obligations")


def strip_comments(s):
    out, depth, i = [], 0, 0
    while i < len(s):
        if s.startswith("(*", i):
            depth += 1
            i += 2
        elif s.startswith("*)", i) and depth > 0:
            depth -= 1
            i += 2
        else:
            if depth == 0:
                out.append(s[i])
            i += 1
    return "".join(out)


def project_files():
    fs = []
    for line in open(os.path.join(COQ, "_CoqProject")):
        line = line.strip()
        if line.endswith(".v"):
            fs.append(line)
    return fs


def forbidden_scan():
    hits = []
    for f in project_files():
        body = strip_comments(open(os.path.join(COQ, f)).read())
        for m in FORBIDDEN.finditer(body):
            hits.append("%s: %s" % (f, m.group(0)))
    return hits


STMT = re.compile(r"^\s*(Theorem|Lemma|Corollary|Example|Fact|Proposition|Remark)\s+([A-Za-z0-9_']+)", re.M)


def cone(files):
    """Transitive closure of project-local dependencies of the given .v files."""
    seen, todo = [], list(files)
    while todo:
        f = todo.pop()
        if f in seen or not os.path.exists(os.path.join(COQ, f)):
            continue
        seen.append(f)
        body = strip_comments(open(os.path.join(COQ, f)).read())
        for m in re.finditer(r"From\s+Arrai\s+Require\s+(?:Import|Export)\s+(.*?)\.(?=\s)", body, re.S):
            for mod in m.group(1).split():
                todo.append(mod.replace(".", "/") + ".v")
    return sorted(seen)


def count_statements(files):
    n = 0
    for f in files:
        n += len(STMT.findall(strip_comments(open(os.path.join(COQ, f)).read())))
    return n


def print_assumptions(prop_file):
    """Re-run Print Assumptions for every theorem stated in Properties/<prop>.v."""
    body = strip_comments(open(os.path.join(COQ, prop_file)).read())
    names = [m.group(2) for m in STMT.finditer(body)]
    mod = prop_file[:-2].replace("/", ".")
    w = workdir()
    src = "From Arrai Require Import %s.\n" % mod
    for n in names:
        src += 'Goal True. idtac "@@ %s". Abort.\nPrint Assumptions %s.\n' % (n, n)
    path = os.path.join(w, "pa_%s.v" % mod.replace(".", "_"))
    open(path, "w").write(src)
    rc, so, se = sh(["coqc", "-Q", COQ, "Arrai", path], timeout=600, cwd=w)
    res = {}
    if rc != 0:
        return None, (so + se)[-3000:]
    cur = None
    for line in so.splitlines():
        if line.startswith("@@ "):
            cur = line[3:].strip()
            res[cur] = []
        elif cur is not None and line.strip():
            res[cur].append(line.strip())
    return res, ""


def run_harness(vharness, cmd, cases, timeout=1200, env=None, extra_args=(), stall=25, confirm=True):
    """Run cases through the harness, reading results as they come.  A case that produces no
    answer within `stall` seconds (the process can be wedged beyond its own timers) is recorded as
    st=timeout, one on which the process dies as st=crash; the rest continue in a fresh process."""
    import queue
    import threading
    e = dict(GOENV)
    if env:
        e.update(env)
    outs, last_rc, last_err = {}, 0, ""
    todo = list(cases)
    t_end = time.time() + timeout
    while todo:
        if time.time() > t_end:
            for c in todo:
                outs[c.get("id")] = {"id": c.get("id"), "st": "timeout", "msg": "harness wall-clock budget exhausted"}
            break
        lim = e.pop("VERIF_MEM_LIMIT_GB", None)      # address-space cap for streams that can ask for absurd allocations

        def cap(lim=lim):
            if lim:
                import resource
                resource.setrlimit(resource.RLIMIT_AS, (int(lim) << 30, int(lim) << 30))
        p = subprocess.Popen([vharness, cmd] + list(extra_args), stdin=subprocess.PIPE, stdout=subprocess.PIPE,
                             stderr=subprocess.PIPE, env=e, preexec_fn=cap)
        q = queue.Queue()
        errbuf = []

        def feed(p=p, todo=list(todo)):
            try:
                for c in todo:
                    p.stdin.write((json.dumps(c, ensure_ascii=False) + "\n").encode("utf-8"))
                    p.stdin.flush()
                p.stdin.close()
            except Exception:
                pass

        def read(p=p):
            for line in p.stdout:
                q.put(line)
            q.put(None)

        def readerr(p=p):
            try:
                errbuf.append(p.stderr.read()[-6000:])
            except Exception:
                pass

        for fn in (feed, read, readerr):
            threading.Thread(target=fn, daemon=True).start()
        hung = False
        while True:
            try:
                line = q.get(timeout=max(1, min(stall, t_end - time.time())))
            except queue.Empty:
                hung = True
                p.kill()
                break
            if line is None:
                break
            line = line.decode("utf-8", "replace").strip()
            if not line.startswith("{"):
                continue
            try:
                o = json.loads(line)
            except Exception:
                continue
            outs[o.get("id")] = o
        try:
            p.wait(timeout=10)
        except Exception:
            p.kill()
        time.sleep(0.05)
        last_rc = p.returncode
        last_err = (errbuf[0] if errbuf else b"").decode("utf-8", "replace")[-3000:]
        rest = [c for c in todo if c.get("id") not in outs]
        if not rest:
            break
        if hung:
            outs[rest[0].get("id")] = {"id": rest[0].get("id"), "st": "timeout", "msg": "no answer within %ds (process wedged); killed" % stall}
            todo = rest[1:]
            continue
        if last_rc == 3:
            todo = rest          # voluntary exit after a timed-out case
            continue
        head = last_err.strip().splitlines()[0][:200] if last_err.strip() else ""
        outs[rest[0].get("id")] = {"id": rest[0].get("id"), "st": "crash", "msg": head, "site": "unknown"}
        todo = rest[1:]
    if confirm:
        # a wedge or a death seen by the watchdog is believed only if the case does it again alone in a fresh process
        # (a loaded machine can stall a process for tens of seconds; a genuine hang or crash is deterministic here)
        again = [c for c in cases if (outs.get(c.get("id")) or {}).get("st") in ("timeout", "crash")
                 and "budget exhausted" not in ((outs.get(c.get("id")) or {}).get("msg") or "")]
        for c in again[:40]:
            o2, _, _ = run_harness(vharness, cmd, [c], timeout=4 * stall + 60, env=env, extra_args=extra_args, stall=2 * stall, confirm=False)
            r = o2.get(c.get("id"))
            if r is not None and r.get("st") not in ("timeout", "crash"):
                r["first_attempt"] = outs[c.get("id")].get("st")
                outs[c.get("id")] = r
    return outs, last_rc, last_err


def run_harness_par(vharness, cmd, cases, nproc=6, **kw):
    """run_harness over `nproc` processes (round-robin split); same result shape"""
    import concurrent.futures
    if len(cases) < 4 * nproc:
        return run_harness(vharness, cmd, cases, **kw)
    parts = [cases[i::nproc] for i in range(nproc)]
    outs, rc, err = {}, 0, ""
    with concurrent.futures.ThreadPoolExecutor(max_workers=nproc) as ex:
        for o, r, e in ex.map(lambda part: run_harness(vharness, cmd, part, **kw), parts):
            outs.update(o)
            rc = rc or r
            err = err or e
    return outs, rc, err


def coq_eval(name, src, timeout=1200):
    """Compile a generated .v file against the built project; returns stdout."""
    w = workdir()
    path = os.path.join(w, name + ".v")
    open(path, "w").write(src)
    rc, so, se = sh("ulimit -v 12000000; timeout %d coqc -Q %s Arrai %s" % (timeout, COQ, path), timeout=timeout + 30, cwd=w)
    return rc, so, se


def coq_report(so, name="R"):
    """Parse `Print R.` output of a `list (Z * Z)` (or list Z) into python ints/tuples."""
    m = re.search(r"\b%s\s*=\s*(.*?)\n\s*:\s*list" % re.escape(name), so, re.S)
    if not m:
        return None
    body = m.group(1).replace("%Z", "").replace("\n", " ")
    pairs = re.findall(r"\(\s*(-?\d+)\s*,\s*(-?\d+)\s*\)", body)
    if pairs:
        return [(int(a), int(b)) for a, b in pairs]
    if re.fullmatch(r"\s*\[\s*\]\s*", body) or body.strip() == "nil":
        return []
    return [int(x) for x in re.findall(r"-?\d+", body)]


# ---------- Coq term emitters ----------

def zl(xs):
    return "[" + "; ".join(str(int(x)) for x in xs) + "]"


def zll(xss):
    return "[" + "; ".join(zl(x) for x in xss) + "]"


def cbool(b):
    return "true" if b else "false"


def num_term(text):
    """number text (Go 'g' format) -> Coq num term, or None when outside the model (not an integer or half-integer below 2^53)."""
    try:
        f = float(text)
    except Exception:
        return None
    if f != f or f in (float("inf"), float("-inf")) or abs(f) >= 2 ** 53:
        return None
    if f == int(f):
        return "(NInt (%d))" % int(f)
    g = f - 0.5
    if g == int(g):
        return "(NHalf (%d))" % int(g)
    return None


def name_term(s):
    return zl(list(s.encode("utf-8")))


def val_term(d):
    """harness dump -> Coq val term (None when not expressible)."""
    if "n" in d:
        t = num_term(d["n"])
        return None if t is None else "(VNum %s)" % t
    if "t" in d:
        parts = []
        for nm, v in d["t"]:
            t = val_term(v)
            if t is None:
                return None
            parts.append("(%s, %s)" % (name_term(nm), t))
        return "(VTup [" + "; ".join(parts) + "])"
    if "s" in d:
        parts = []
        for v in d["s"]:
            t = val_term(v)
            if t is None:
                return None
            parts.append(t)
        return "(VSet [" + "; ".join(parts) + "])"
    return None


# ---------- known findings ----------

def load_findings(prop):
    """known_findings.txt lines: `open: property=Cxx id=KF-.. sig=<signature> witness=<...> :: what fails`
    and `fixed: property=Cxx <commit> <what failed>`."""
    opened, fixed = [], []
    p = os.path.join(ROOT, "known_findings.txt")
    if not os.path.exists(p):
        return opened, fixed
    for line in open(p):
        line = line.rstrip("\n")
        if not line or line.startswith("#"):
            continue
        if ("property=%s " % prop) not in line:
            continue
        if line.startswith("open:"):
            d = {"line": line}
            head, _, what = line.partition("::")
            d["what"] = what.strip()
            for k in ("id", "sig"):
                m = re.search(r"\b%s=(\S+)" % k, head)
                d[k] = m.group(1) if m else None
            m = re.search(r"witness=(.*)$", head)
            d["witness"] = m.group(1).strip() if m else None
            opened.append(d)
        elif line.startswith("fixed:"):
            fixed.append(line)
    return opened, fixed


# ---------- the run ----------

class Run:
    def __init__(self, prop, tier, seed):
        self.prop, self.tier, self.seed = prop, tier, seed
        self.t0 = time.time()
        self.violations = []      # dicts: {reason, case, observed, expected, ...}
        self.corr_breaks = []     # correspondence-only mismatches / broken proofs
        self.known_hits = {}      # finding id -> example
        self.cov = {"evaluations": 0, "distinct_nontrivial": 0, "rule": "", "samples": []}
        self.assumptions = []
        self.notes = []
        self.opened, self.fixed = load_findings(prop)

    def finding_for(self, sig):
        for f in self.opened:
            if f["sig"] == sig:
                return f
        return None

    def classify_failure(self, sig, record):
        """A failing case with defect signature `sig` (None = unattributed)."""
        f = self.finding_for(sig) if sig else None
        if f is not None:
            self.known_hits.setdefault(f["id"], record)
        else:
            record = dict(record)
            record["signature"] = sig
            self.violations.append(record)

    def finish(self, proof):
        """proof: dict(ok, obligations, discharged, checker_cmd, assumptions_text, broken=[...])"""
        OUT = BUILD if ALT else ROOT      # a run against another tree must not overwrite the real evidence
        os.makedirs(os.path.join(OUT, "evidence"), exist_ok=True)
        os.makedirs(os.path.join(OUT, "replay"), exist_ok=True)
        lines, rc = [], 0
        n = 0
        for v in self.violations[:5]:
            n += 1
            path = os.path.join(OUT, "replay", "%s-%d-%d.json" % (self.prop, self.seed, n))
            v = dict(v)
            v.update({"property": self.prop, "tier": self.tier, "seed": self.seed, "kind": "failing-input"})
            json.dump(v, open(path, "w"), indent=1, ensure_ascii=False, default=str)
            lines.append("VIOLATION property=%s replay=%s" % (self.prop, path))
            rc = 1
        if not self.violations:
            broken = list(proof.get("broken", [])) + self.corr_breaks
            if broken:
                path = os.path.join(OUT, "replay", "%s-%d-nofail.json" % (self.prop, self.seed))
                json.dump({"property": self.prop, "tier": self.tier, "seed": self.seed, "kind": "no-failing-input-found",
                           "no_longer_checks": broken[:20]}, open(path, "w"), indent=1, ensure_ascii=False, default=str)
                lines.append("VIOLATION property=%s replay=%s no-failing-input-found" % (self.prop, path))
                rc = 1
        for fid, ex in sorted(self.known_hits.items()):
            f = [x for x in self.opened if x["id"] == fid][0]
            print("KNOWN-FINDING: property=%s %s %s" % (self.prop, fid, f["what"]))
        for l in lines:
            print(l)
        cov = dict(self.cov)
        cov.update({
            "obligations": proof.get("obligations", 0),
            "discharged": proof.get("discharged", 0),
            "checker_cmd": proof.get("checker_cmd", ""),
            "trusted_base": TRUSTED_BASE + proof.get("trusted_extra", []),
            "print_assumptions": proof.get("assumptions_text", {}),
            "known_findings_hit": sorted(self.known_hits.keys()),
            "correspondence_breaks": len(self.corr_breaks),
            "notes": self.notes,
        })
        ev = {
            "property_id": self.prop, "tier": self.tier, "seed": self.seed, "level": "proof",
            "coverage": cov, "assumptions": self.assumptions,
            "wall_s": round(time.time() - self.t0, 2), "violations": len(self.violations) + (1 if rc and not self.violations else 0),
        }
        json.dump(ev, open(os.path.join(OUT, "evidence", self.prop + ".json"), "w"), indent=1, ensure_ascii=False, default=str)
        sys.stdout.flush()
        return rc


def prepare(prop_files, need_race=False, thorough=False):
    """Build everything from the current trees; returns (vharness path, proof dict)."""
    sync_alt()
    vh = build_harness()
    if need_race:
        build_harness(race=True)
    changed = regen_tables(vh)
    ok, mlog = coq_make(targets=[f[:-2] + ".vo" for f in prop_files])
    proof = {"broken": [], "trusted_extra": []}
    prop_file = prop_files[0]
    files = cone(prop_files)
    proof["obligations"] = count_statements(files)
    proof["checker_cmd"] = "cd /verif/coq && coq_makefile -f _CoqProject -o Makefile && make -j16 (full .vo) ; Print Assumptions re-run for every theorem of %s" % prop_file
    if changed:
        proof["tables_changed"] = changed
    hits = forbidden_scan()
    if not ok:
        m = re.search(r'File "\./([^"]+)", line (\d+)', mlog)
        proof["broken"].append({"what": "coq build failed", "file": m.group(1) if m else "?", "log": mlog[-1500:]})
    if hits:
        proof["broken"].append({"what": "forbidden keyword", "hits": hits})
    pa = {}
    if ok:
        pa, err = print_assumptions(prop_file)
        if pa is None:
            proof["broken"].append({"what": "Print Assumptions failed", "log": err})
            pa = {}
        for thm, lines in pa.items():
            if lines != ["Closed under the global context"]:
                ax = [l for l in lines if l not in ("Axioms:",)]
                bad = [a for a in ax if a.split(" ")[0] not in ALLOWED_AXIOMS]
                if bad:
                    proof["broken"].append({"what": "theorem depends on axioms", "theorem": thm, "axioms": bad})
    proof["assumptions_text"] = {k: " ".join(v) for k, v in pa.items()}
    proof["discharged"] = proof["obligations"] if (ok and not hits and not proof["broken"]) else 0
    proof["ok"] = ok and not proof["broken"]
    if thorough and ok:
        rc, so, se = sh("timeout 2400 coqchk -silent -o -Q . Arrai Arrai.%s" % prop_file[:-2].replace("/", "."), timeout=2500, cwd=COQ)
        proof["coqchk"] = (so + se)[-1500:]
        proof["checker_cmd"] += " ; coqchk -silent -o -Q . Arrai Arrai." + prop_file[:-2].replace("/", ".")
        if rc != 0:
            proof["broken"].append({"what": "coqchk failed", "log": (so + se)[-1500:]})
            proof["ok"] = False
            proof["discharged"] = 0
    return vh, proof
