"""The shared value pool: programs that construct data values in every representation
the evaluator can produce (DESIGN §3.2).  Each entry is an expr.py tree."""
import expr as X

N = X.num


def T(**kw):
    return X.tup([(k.replace("AT", "@"), v) for k, v in kw.items()])


def pair(kind, i, v):
    return X.tup([("@", N(i)), (kind, v)])


def base_pool():
    P = {}
    # numbers and tuples
    for x in (0, 1, 2, -1, 0.5, 1.5):
        P["n%s" % x] = N(x)
    P["t0"] = X.tup([])
    P["ta1"] = X.tup([("a", N(1))])
    P["ta2"] = X.tup([("a", N(2))])
    P["tb1"] = X.tup([("b", N(1))])
    P["tab"] = X.tup([("a", N(1)), ("b", N(2))])
    P["tat"] = X.tup([("@", N(0))])
    P["tatx"] = X.tup([("@", N(0)), ("x", N(1))])
    P["tchar"] = pair("@char", 0, N(97))
    P["tchar2"] = pair("@char", 2, N(99))
    P["titem"] = pair("@item", 0, N(1))
    P["titem1"] = pair("@item", 1, N(2))
    P["tbyte"] = pair("@byte", 0, N(1))
    P["tentry"] = X.tup([("@", N(1)), ("@value", N(2))])
    # plain sets
    P["empty"] = X.set_([])
    P["true"] = X.true_()
    P["s1"] = X.set_([N(1)])
    P["s12"] = X.set_([N(1), N(2)])
    P["s23"] = X.set_([N(2), N(3)])
    P["sE"] = X.set_([X.set_([])])
    P["ss1"] = X.set_([X.set_([N(1)])])
    P["smix"] = X.set_([N(1), X.tup([("a", N(1))])])
    P["s9"] = X.set_([N(i) for i in range(1, 11)])
    # strings
    P["str_a"] = X.string("a")
    P["str_ab"] = X.string("ab")
    P["str_abc"] = X.string("abc")
    P["str_b"] = X.string("b")
    P["str_off"] = X.string("a", 1)
    P["str_neg"] = X.string("ab", -1)
    P["str_hole"] = X.binop("without", X.string("abc"), pair("@char", 1, N(98)))
    P["str_rel"] = X.rel(["@", "@char"], [[N(0), N(97)], [N(1), N(98)]])
    P["str_where"] = X.where(X.string("abc"), X.dotfn(X.cmpop("<", X.dot(X.var("."), "@"), N(2))))
    P["str_seq"] = X.seqarrow(X.string("ab"), X.dotfn(X.binop("+", X.var("."), N(1))))
    P["str_long"] = X.string("abcdefghijkl")
    # bytes
    P["by_12"] = X.bytes_([1, 2])
    P["by_123"] = X.bytes_([1, 2, 3])
    P["by_off"] = X.bytes_([1, 2], 2)
    P["by_set"] = X.set_([pair("@byte", 0, N(1)), pair("@byte", 1, N(2))])
    # arrays
    P["ar_1"] = X.arr([N(1)])
    P["ar_12"] = X.arr([N(1), N(2)])
    P["ar_123"] = X.arr([N(1), N(2), N(3)])
    P["ar_hole"] = X.arr([N(1), None, N(3)])
    P["ar_off"] = X.arr([N(3)], 2)
    P["ar_nest"] = X.arr([X.arr([N(1)]), X.string("a")])
    P["ar_set"] = X.set_([pair("@item", 0, N(1)), pair("@item", 1, N(2))])
    P["ar_map"] = X.darrow(X.set_([N(0), N(1)]), X.dotfn(X.tup([("@", X.var(".")), ("@item", X.binop("+", X.var("."), N(1)))])))
    P["ar_long"] = X.arr([N(i) for i in range(12)])
    # dicts
    P["d12"] = X.dict_([(N(1), N(2))])
    P["da1"] = X.dict_([(X.string("a"), N(1))])
    P["dab"] = X.dict_([(X.string("a"), N(1)), (X.string("b"), N(2))])
    P["dmulti"] = X.binop("|", X.dict_([(N(1), N(2))]), X.dict_([(N(1), N(3))]))
    P["drel"] = X.rel(["@", "@value"], [[N(1), N(2)]])
    # relations
    P["r_a"] = X.rel(["a"], [[N(1)], [N(2)]])
    P["r_ab"] = X.rel(["a", "b"], [[N(1), N(2)], [N(1), N(3)]])
    P["r_bc"] = X.rel(["b", "c"], [[N(2), N(5)]])
    P["r_atx"] = X.rel(["@", "x"], [[N(0), N(1)], [N(1), N(2)]])
    P["r_set"] = X.set_([X.tup([("a", N(1)), ("b", N(2))]), X.tup([("a", N(2)), ("b", N(2))])])
    # join-built relations: the stored heading is left ++ right, not sorted
    P["rj_ba"] = X.join("<&>", X.rel(["b"], [[N(2)], [N(3)]]), X.rel(["a"], [[N(1)]]))           # = r_ab
    P["rj_cab"] = X.join("<&>", X.rel(["c"], [[N(5)]]), X.rel(["a", "b"], [[N(1), N(2)], [N(2), N(2)]]))
    P["rj_bc"] = X.join("<&>", X.rel(["c"], [[N(5)]]), X.rel(["b"], [[N(2)]]))                      # = r_bc
    P["rj_x_at"] = X.join("<&>", X.rel(["x"], [[N(1)]]), X.rel(["@"], [[N(0)]]))
    # unions (several buckets)
    P["u_str_num"] = X.binop("|", X.string("ab"), X.set_([N(1)]))
    P["u_arr_str"] = X.binop("|", X.arr([N(1)]), X.string("a"))
    P["u_3"] = X.set_([N(1), X.tup([("a", N(1))]), pair("@char", 0, N(97)), pair("@item", 0, N(5))])
    P["u_rel2"] = X.set_([X.tup([("a", N(1))]), X.tup([("b", N(1))])])
    return P
