"""C17 front-end stream: the real server (binary built from <REPO>/cmd/arrai, `arrai serve`) driven through its
gRPC and websocket front-ends (harness/c17fe.go).

* sequential front-end histories are mapped to engine histories (fe_map: one watcher per valid subscription,
  re-subscribe = Cancel old + Observe new, client hang-up / disconnect = no engine event) and compared inside Coq
  (Check/C17FeCheck.v) with the engine model Sys/Engine.v;
* a schedule-stress run (many observers, one updater, re-subscribing / hanging-up / misbehaving connections) is
  judged by the property text only (harness/c17fe.go feStress)."""
import concurrent.futures
import random
from common import *

SIG_RESUB = "ws-resubscribe-closes-connection"
GARBAGE = ["$ +", "$ $"]          # rejected by syntax.Compile quickly ("(((" and ")" take the parser > 20 s)


def build_arrai():
    """the server binary of the tree under test (cmd/arrai is package main)"""
    out = os.path.join(BUILD, "arrai-serve")
    with Lock("go"):
        rc, so, se = sh(["go", "build", "-o", out, "./cmd/arrai"], timeout=1500, cwd=REPO)
    if rc != 0:
        raise BuildError("go build of %s/cmd/arrai failed:\n%s" % (REPO, se[-4000:]))
    return out


def is_garbage(e):
    return e[0] == "garbage"


def fe_src(e):
    import c17
    return GARBAGE[e[1] % len(GARBAGE)] if is_garbage(e) else c17.src(e)


def fe_json(ev):
    op = ev[0]
    if op == "update":
        return {"op": "update", "expr": fe_src(ev[1])}
    if op == "wssub":
        return {"op": "wssub", "c": ev[1], "expr": fe_src(ev[2])}
    if op == "wsclose":
        return {"op": "wsclose", "c": ev[1], "abrupt": bool(ev[2])}
    if op == "gobs":
        return {"op": "gobs", "g": ev[1], "expr": fe_src(ev[2])}
    return {"op": "gcancel", "g": ev[1]}


def fe_text(ev):
    op = ev[0]
    if op == "update":
        return "grpc.Update(%s)" % fe_src(ev[1])
    if op == "wssub":
        return "ws#%d.send(%s)" % (ev[1], fe_src(ev[2]))
    if op == "wsclose":
        return "ws#%d.%s" % (ev[1], "drop" if ev[2] else "close")
    if op == "gobs":
        return "grpc#%d.Observe(%s)" % (ev[1], fe_src(ev[2]))
    return "grpc#%d.disconnect" % ev[1]


def conn_key(k):
    """Coq connection key: websocket connection c -> 2c, gRPC Observe call g -> 2g+1"""
    return 2 * int(k[1:]) + (1 if k[0] == "g" else 0)


def fe_coq(ev):
    """front-end event -> Sys/FrontEnd.v fe_op term"""
    import c17
    op = ev[0]
    ex = lambda e: "None" if is_garbage(e) else "(Some %s)" % c17.cexpr(e)
    if op == "update":
        return "(FeUpdate %s)" % ex(ev[1])
    if op in ("wssub", "gobs"):
        return "(FeSubscribe %d %s (cb_of None))" % (conn_key(("w%d" if op == "wssub" else "g%d") % ev[1]), ex(ev[2]))
    return "(FeHangup %d)" % conn_key(("w%d" if op == "wsclose" else "g%d") % ev[1])


def fe_map(events, resub_closes):
    """front-end history -> (engine history, per front-end event: list of engine-event indices, connections).
    connections: key -> dict(ids, mode, garbage, cancelled, kind)"""
    h, where, conns, nxt = [], [], {}, 1
    for ev in events:
        op = ev[0]
        idx = []
        if op == "update":
            if not is_garbage(ev[1]):
                idx.append(len(h)); h.append(("update", ev[1]))
        elif op in ("wssub", "gobs"):
            k = ("w%d" if op == "wssub" else "g%d") % ev[1]
            c = conns.setdefault(k, {"ids": [], "mode": 0, "garbage": 0, "kind": k[0], "resub": False})
            if is_garbage(ev[2]):
                c["garbage"] += 1
            else:
                if c["ids"]:
                    idx.append(len(h)); h.append(("cancel", c["ids"][-1]))
                    c["resub"] = True
                    if resub_closes:
                        c["mode"] = 2
                idx.append(len(h)); h.append(("observe", nxt, ev[2], -1))
                c["ids"].append(nxt)
                nxt += 1
        else:
            k = ("w%d" if op == "wsclose" else "g%d") % ev[1]
            if k in conns and conns[k]["mode"] == 0:
                conns[k]["mode"] = 1
        where.append(idx)
    return h, where, conns


CORPUS = [
    # the demo history of the missed change, run while the server is quiet
    [("update", ("const", 0)), ("gobs", 1, ("root",)), ("wssub", 1, ("root",)), ("update", ("const", 1)), ("wssub", 1, ("add", 1)), ("update", ("const", 2))],
    [("update", ("const", 5)), ("wssub", 1, ("root",)), ("gobs", 1, ("add", 1)), ("update", ("muladd", 3)), ("wssub", 1, ("garbage", 0)), ("update", ("fail",)),
     ("gobs", 2, ("failgt", 60)), ("update", ("add", 10)), ("gcancel", 1), ("wsclose", 1, False), ("update", ("const", 7)), ("gobs", 3, ("garbage", 1)), ("update", ("garbage", 0))],
    [("wssub", 1, ("root",)), ("wssub", 2, ("root",)), ("update", ("const", 1)), ("wsclose", 1, True), ("update", ("add", 1)), ("update", ("add", 1)), ("wssub", 3, ("muladd", 1)), ("update", ("add", 1))],
    [("update", ("const", 1)), ("gobs", 1, ("fail",)), ("wssub", 1, ("fail",)), ("gobs", 2, ("root",)), ("update", ("const", 2)), ("wssub", 2, ("failgt", 2)), ("update", ("const", 3)), ("update", ("const", 4))],
    [("gobs", 1, ("root",)), ("gobs", 2, ("root",)), ("gcancel", 1), ("update", ("const", 3)), ("update", ("muladd", 1)), ("gcancel", 2), ("update", ("add", 1)), ("gobs", 3, ("root",))],
]


def gen_seq(rng):
    import c17
    n = rng.randrange(4, 13)
    evs, db_set, nw, ng = [], False, 0, 0
    ws_open, ws_plain, g_open = [], [], []       # ws_plain: connections whose expression never fails (re-subscribe / garbage allowed)
    if rng.random() < 0.8:
        evs.append(("update", ("const", rng.randrange(0, 10)))); db_set = True
    while len(evs) < n:
        r = rng.random()
        if r < 0.4:
            u = c17.rnd_update(rng, db_set) if rng.random() < 0.93 else ("update", ("garbage", rng.randrange(2)))
            if u[1][0] == "const":
                db_set = True
            if u[1][0] == "muladd" and sum(1 for e in evs if e[0] == "update" and e[1][0] == "muladd") >= 7:
                continue
            evs.append(u)
        elif r < 0.58:
            nw += 1
            e = rng.choice([("root",), ("root",), ("add", rng.randrange(1, 4)), ("muladd", rng.randrange(0, 10)), ("fail",), ("failgt", rng.randrange(0, 40))]) if db_set else \
                rng.choice([("root",), ("root",), ("fail",)])
            if rng.random() < 0.15:
                evs.append(("wssub", nw, ("garbage", rng.randrange(2))))
            evs.append(("wssub", nw, e))
            ws_open.append(nw)
            if e[0] not in ("fail", "failgt"):
                ws_plain.append(nw)
        elif r < 0.7:
            ng += 1
            e = rng.choice([("root",), ("add", 1), ("muladd", 2), ("fail",), ("failgt", rng.randrange(0, 40)), ("garbage", 0)]) if db_set else rng.choice([("root",), ("fail",)])
            evs.append(("gobs", ng, e))
            if not is_garbage(e):
                g_open.append(ng)
        elif r < 0.78 and ws_plain:
            c = rng.choice(ws_plain)
            evs.append(("wssub", c, ("garbage", rng.randrange(2))))
        elif r < 0.86 and ws_plain:
            c = ws_plain.pop(rng.randrange(len(ws_plain)))        # re-subscribe: last action on that connection
            ws_open.remove(c)
            evs.append(("wssub", c, rng.choice([("root",), ("add", 2)])))
        elif r < 0.93 and ws_open:
            c = ws_open.pop(rng.randrange(len(ws_open)))
            if c in ws_plain:
                ws_plain.remove(c)
            evs.append(("wsclose", c, rng.random() < 0.5))
        elif g_open:
            evs.append(("gcancel", g_open.pop(rng.randrange(len(g_open)))))
    for _ in range(rng.randrange(1, 3)):
        evs.append(("update", rng.choice([("const", rng.randrange(0, 50)), ("add", rng.randrange(1, 9))]) if db_set else ("const", 1)))
        db_set = True
    return evs


def coq_case(cid, c, o, resub_closes):
    """-> (term or None, python-side complaint or None)"""
    import c17
    h, where, conns = fe_map(c["events"], resub_closes)
    acks = []
    if len(o.get("acks", [])) != len(c["events"]):
        return None, "harness answered %d of %d steps" % (len(o.get("acks", [])), len(c["events"]))
    for ev, idx, a in zip(c["events"], where, o["acks"]):
        garbage = ev[0] in ("update", "wssub", "gobs") and is_garbage(ev[-1])
        if a == "blocked":
            acks += ["ANone"] * len(idx)
        elif ev[0] == "update":
            if garbage:
                if a != "err":
                    return None, "%s: an update that does not parse was answered %r" % (fe_text(ev), a)
            elif a not in ("ok", "err"):
                return None, "%s answered %r" % (fe_text(ev), a)
            else:
                acks.append("(AUpd %s)" % cbool(a == "ok"))
        elif a == "done" or (a == "closed" and len(idx) == 2 and resub_closes):
            acks += ["ADone"] * len(idx)
        else:
            return None, "%s answered %r" % (fe_text(ev), a)
    status = {"alive": "Running", "wedged": "Wedged", "dead": "Crashed"}.get(o.get("final"))
    if status is None:
        return None, "unknown final state %r" % o.get("final")
    seen = dict((k, items) for k, items in o.get("conns", []))
    terms = []
    for k, cn in sorted(conns.items()):
        items = list(seen.get(k, []))
        if items.count("error" if cn["kind"] == "w" else "end-err") < (cn["garbage"] if cn["kind"] == "w" else 0):
            return None, "%s: %d requests did not parse but %d error replies arrived" % (k, cn["garbage"], items.count("error"))
        if cn["kind"] == "w":
            if items.count("error") != cn["garbage"]:
                return None, "%s: %d requests did not parse but %d error replies arrived" % (k, cn["garbage"], items.count("error"))
            items = [x for x in items if x != "error"]
            closed = "closed" in items
            if closed and items[-1] != "closed":
                return None, "%s: data after the close" % k
            items = [x for x in items if x != "closed"]
            if closed != (cn["mode"] == 2):
                return None, "%s: the server %s the connection" % (k, "closed" if closed else "did not close")
            ended = -1
        else:
            if not cn["ids"]:          # only a request that does not parse: the stream must end with an error, nothing else
                if items != ["end-err"]:
                    return None, "%s: Observe of an expression that does not parse gave %r" % (k, items)
                continue
            e = "end-err" in items
            if e and items[-1] != "end-err":
                return None, "%s: data after the end of the stream" % k
            items = [x for x in items if x != "end-err"]
            ended = -1 if cn["mode"] == 1 else (1 if e else 0)
        vals = []
        for x in items:
            t = c17.val_coq(x[2:]) if x.startswith("v:") else None
            if t is None:
                return None, "%s received %r, outside the model's vocabulary" % (k, x)
            vals.append(t)
        if not cn["ids"]:
            if vals:
                return None, "%s has no subscription but received %r" % (k, items)
            continue
        terms.append("{| f_key := %d; f_ids := [%s]; f_mode := %d; f_vals := [%s]; f_ended := %d |}" % (conn_key(k), "; ".join(str(i) for i in cn["ids"]), cn["mode"], "; ".join(vals), ended))
    return "  {| fc_id := %d; fc_fe := [%s];\n     fc_h := [%s]; fc_acks := [%s]; fc_status := %s;\n     fc_conns := [%s] |}" % (
        cid, "; ".join(fe_coq(e) for e in c["events"]), "; ".join(c17.ev_coq(e) for e in h), "; ".join(acks), status, ";\n       ".join(terms)), None


def evaluate(name, items):
    """items: [(cid, term)] -> {cid: code} via Coq"""
    if not items:
        return {}, None
    body = ["From Coq Require Import List ZArith.", "From Arrai Require Import Sys.Engine Sys.FrontEnd Proofs.EngineP Check.C17Check Check.C17FeCheck.",
            "Import ListNotations.", "Open Scope Z_scope.", "Definition cases : list fecase := [",
            ";\n".join(t for _, t in items), "].\nDefinition R := Eval vm_compute in fe_report cases.\nPrint R."]
    rc, so, se = coq_eval(name, "\n".join(body))
    rep = coq_report(so, "R")
    if rep is None:
        return None, se[-1500:]
    res = {cid: 0 for cid, _ in items}
    for cid, code in rep:
        res[cid] = code
    return res, None


def judge(cases, outs, resub_open, tag):
    """-> {id: (verdict, why)}; verdict in ok / known / stale / bad"""
    terms, verdicts = [], {}
    ALT = 100000
    for c in cases:
        o = outs.get(c["id"])
        if o is None or o.get("st") != "done":
            verdicts[c["id"]] = ("bad", "harness produced no result: %r" % (o,))
            continue
        has_resub = any(cn["resub"] for cn in fe_map(c["events"], True)[2].values())
        t, why = coq_case(c["id"], c, o, resub_open)
        t2, why2 = (coq_case(c["id"] + ALT, c, o, not resub_open) if has_resub else (None, None))
        c["_has_resub"] = has_resub
        c["_py"] = (why, why2)
        if t is not None:
            terms.append((c["id"], t))
        if t2 is not None:
            terms.append((c["id"] + ALT, t2))
    res, err = evaluate("c17fe_" + tag, terms)
    if res is None:
        return None, err
    for c in cases:
        if c["id"] in verdicts:
            continue
        why, why2 = c["_py"]
        main_ok = why is None and res.get(c["id"]) == 0
        alt_ok = c["_has_resub"] and why2 is None and res.get(c["id"] + ALT) == 0
        if main_ok:
            verdicts[c["id"]] = ("known", "") if (c["_has_resub"] and resub_open) else ("ok", "")
        elif alt_ok and resub_open:
            verdicts[c["id"]] = ("stale", "the connection survives a re-subscribe: the open finding %s no longer reproduces" % SIG_RESUB)
        else:
            verdicts[c["id"]] = ("bad", why or {1: "loop state or answers differ from the engine model on the mapped history",
                                                2: "some connection's log differs from the engine model on the mapped history",
                                                3: "gen/c17fe.py fe_map disagrees with the Gallina fe_map / fe_ids (Sys/FrontEnd.v) on this front-end history"}.get(res.get(c["id"]), "?"))
    return verdicts, None


def run_frontend(run, vh, rng, tier, replay_case=None):
    t0 = time.time()
    arrai = build_arrai()
    env = {"VERIF_ARRAI_BIN": arrai}
    quick = tier == "quick"
    resub_open = run.finding_for(SIG_RESUB) is not None
    seq, stress = [], []
    if replay_case is not None:
        (stress if replay_case.get("mode") == "stress" else seq).append(replay_case)
    else:
        for h in CORPUS:
            seq.append({"id": len(seq), "mode": "seq", "kind": "fe-corpus", "events": h})
        for _ in range(20 if quick else 160):
            seq.append({"id": len(seq), "mode": "seq", "kind": "fe-structured", "events": gen_seq(rng)})
        for i in range(1 if quick else 4):
            stress.append({"id": 50000 + i, "mode": "stress", "ws_observers": rng.choice([24, 30, 36]) if i else 30, "grpc_observers": 4, "churners": 3 + (i % 2), "hangers": 2,
                           "grpc_hangers": 1, "misbehavers": 1, "duration_ms": 8000 if quick else 20000, "wedge_ms": 20000, "probe_ms": 15000,
                           "max_updates": 6000 if quick else 20000, "pace_us": rng.choice([0, 300, 1000]) if i else 300, "seed": rng.randrange(1, 10 ** 6)})

    def hcase(c):
        return {"id": c["id"], "mode": "seq", "events": [fe_json(e) for e in c["events"]]} if c["mode"] == "seq" else {k: v for k, v in c.items() if not k.startswith("_")}

    def do(shard):
        return run_harness(vh, "c17fe", [hcase(c) for c in shard], timeout=1500, env=env, stall=150, confirm=False)[0] if shard else {}
    workers = 4
    shards = [stress] + [seq[i::workers] for i in range(workers)]
    outs = {}
    with concurrent.futures.ThreadPoolExecutor(max_workers=workers + 1) as ex:
        for o in ex.map(do, shards):
            outs.update(o)
    verdicts, err = judge(seq, outs, resub_open, "a")
    if verdicts is None:
        run.corr_breaks.append({"what": "model evaluation failed (Check/C17FeCheck.v)", "log": err})
        verdicts = {}
    # a mismatch is believed only if it repeats when the history runs alone (a loaded machine can delay a client's reader)
    again = [c for c in seq if verdicts.get(c["id"], ("ok",))[0] in ("bad", "stale")]
    if again:
        outs2 = do(again[:12])
        v2, err = judge(again[:12], outs2, resub_open, "b")
        for c in again[:12]:
            if v2 and v2.get(c["id"], ("bad",))[0] in ("ok", "known"):
                verdicts[c["id"]] = v2[c["id"]]
            elif v2:
                outs[c["id"]] = outs2.get(c["id"])
                verdicts[c["id"]] = v2[c["id"]]
    hist = {"ok": 0, "known": 0, "stale": 0, "bad": 0}
    ops = {}
    for c in seq:
        v, why = verdicts.get(c["id"], ("ok", ""))
        hist[v] += 1
        for e in c["events"]:
            key = e[0] + ("-garbage" if e[0] in ("update", "wssub", "gobs") and is_garbage(e[-1]) else "")
            ops[key] = ops.get(key, 0) + 1
        rec = {"case": {"stream": "front-end", "mode": "seq", "events": c["events"], "history": "; ".join(fe_text(e) for e in c["events"]),
                        "mapped_engine_history": "; ".join(__import__("c17").ev_text(e) for e in fe_map(c["events"], resub_open)[0])},
               "observed": outs.get(c["id"]), "oracle": why}
        if v == "known":
            run.classify_failure(SIG_RESUB, rec)
        elif v == "stale":
            run.corr_breaks.append({"what": why, **rec})
        elif v == "bad":
            run.classify_failure(None, rec)
    st_stats = []
    for c in stress:
        o = outs.get(c["id"]) or {}
        st_stats.append({"params": {k: v for k, v in c.items() if k not in ("id", "kind")}, "verdict": o.get("verdict", o.get("st")), "stats": o.get("stats")})
        if o.get("st") != "done":
            run.classify_failure(None, {"case": dict(c, stream="front-end"), "observed": o, "oracle": "the stress run produced no verdict (harness: %r)" % o.get("msg")})
        elif o.get("verdict") != "ok":
            run.classify_failure(None, {"case": dict(c, stream="front-end", schedule="%d websocket + %d gRPC observers of `$`; one gRPC updater issuing 1,2,3,...; %d websocket connections that subscribe, "
                                                     "re-subscribe (cancel + observe) and hang up in a loop; %d + %d connections that hang up / disconnect in a loop; %d misbehaving connection(s)" % (
                                                         c["ws_observers"], c["grpc_observers"], c["churners"], c["hangers"], c["grpc_hangers"], c["misbehavers"])),
                                        "observed": o, "oracle": "property text (every update answered; every live observer gets every installed state once, in order; other connections are irrelevant): " +
                                        "; ".join(o.get("violations") or [])[:1500]})
    run.cov["frontend"] = {"sequential_histories": len(seq), "sequential_verdicts": hist, "operation_histogram": ops, "stress_runs": st_stats,
                           "server": "binary built from %s/cmd/arrai, `arrai serve` child process per history" % REPO, "wall_s": round(time.time() - t0, 1)}
    log("C17 front-end: %d sequential histories %s, %d stress run(s) %s, %.1fs" % (len(seq), hist, len(stress), [s["verdict"] for s in st_stats], time.time() - t0))
