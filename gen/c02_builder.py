"""C02, builder part: constructions (trees of rel.NewNumber / rel.NewTuple / rel.NewSet calls) are built by the
implementation through the public API and by the transcribed builder (coq/Rep/Builder.v) inside Coq; Go type names,
Count(), members and Equal() are compared there (coq/Check/BuilderCheck.v), together with the property oracle
(the built value denotes exactly its members; Equal is equality of denotations)."""
import concurrent.futures
import itertools
from common import *

# ---------- trees ----------


def N(x):
    return ("n", x)


def T(*attrs):
    return ("t", list(attrs))


def S(*ms):
    return ("s", list(ms))


def pr(k, i, v):
    return T(("@", i if isinstance(i, tuple) else N(i)), (k, v))


def tj(t):
    if t[0] == "n":
        x = t[1]
        return {"n": str(int(x)) if x == int(x) else repr(float(x))}
    if t[0] == "t":
        return {"t": [[n, tj(v)] for n, v in t[1]]}
    return {"s": [tj(m) for m in t[1]]}


def tcoq(t):
    if t[0] == "n":
        return "(CNum %s)" % num_term(repr(float(t[1])))
    if t[0] == "t":
        return "(CTup [" + "; ".join("(%s, %s)" % (name_term(n), tcoq(v)) for n, v in t[1]) + "])"
    return "(CSet [" + "; ".join(tcoq(m) for m in t[1]) + "])"


def tsrc(t):
    """readable form for reports"""
    if t[0] == "n":
        return str(t[1])
    if t[0] == "t":
        return "(" + ", ".join("%r: %s" % (n, tsrc(v)) for n, v in t[1]) + ")"
    return "{" + ", ".join(tsrc(m) for m in t[1]) + "}"


TYPE_CODES = {"*rel.GenericTuple": 1, "rel.StringCharTuple": 2, "rel.BytesByteTuple": 3, "rel.ArrayItemTuple": 4,
              "rel.DictEntryTuple": 5, "rel.EmptySet": 10, "rel.TrueSet": 11, "rel.String": 12, "rel.Bytes": 13,
              "rel.Array": 14, "rel.Dict": 15, "rel.Relation": 16, "rel.GenericSet": 17, "rel.UnionSet": 18}
CODE_NAMES = {v: k for k, v in TYPE_CODES.items()}
CODE_NAMES.update({0: "rel.Number", -1: "(panic)", -2: "(not modelled)"})


def shape_term(s):
    if "n" in s:
        t = num_term(s["n"])
        return "OOther" if t is None else "(ONum %s)" % t
    if "a" in s:
        return "(OTup %d [%s])" % (TYPE_CODES.get(s.get("T"), 99),
                                   "; ".join("(%s, %s)" % (name_term(n), shape_term(v)) for n, v in s["a"]))
    if "m" in s:
        return "(OSet %d %d [%s])" % (TYPE_CODES.get(s.get("T"), 99), int(s.get("c", -1)), "; ".join(shape_term(m) for m in s["m"]))
    return "OOther"


def obs_term(o):
    if not o:
        return "ObsBad"
    if o.get("st") == "ok":
        return "(ObsOk %s)" % shape_term(o["shape"])
    if o.get("st") == "panic":
        return "ObsPanic"
    return "ObsBad"


def obool_term(x):
    return "OBTrue" if x is True else "OBFalse" if x is False else "OBNone"


# ---------- member kinds: three members of one bucket each ----------
def kinds():
    K = {}
    K["num"] = [N(1), N(2), N(2.5)]
    K["tup0"] = [T(), T(), T()]
    K["tup_a"] = [T(("a", N(1))), T(("a", N(2))), T(("a", S()))]
    K["tup_ab"] = [T(("a", N(1)), ("b", N(2))), T(("b", N(4)), ("a", N(3))), T(("a", N(1)), ("b", N(5)))]
    K["tup_at"] = [T(("@", N(1)), ("x", N(2))), T(("x", N(4)), ("@", N(3))), T(("@", N(1)), ("x", N(5)))]
    K["char"] = [pr("@char", 0, N(97)), pr("@char", 1, N(98)), pr("@char", 3, N(99))]
    K["byte"] = [pr("@byte", 0, N(7)), pr("@byte", 1, N(8)), pr("@byte", 2, N(0))]
    K["item"] = [pr("@item", 0, N(1)), pr("@item", 1, S(N(1))), pr("@item", 3, T(("a", N(1))))]
    K["entry"] = [pr("@value", 1, N(2)), pr("@value", 1, N(3)), pr("@value", S(), T())]
    K["empty"] = [S(), S(), S()]
    K["true"] = [S(T()), S(T()), S(T(), T())]
    K["str"] = [S(pr("@char", 0, N(97))), S(pr("@char", 1, N(97))), S(pr("@char", 0, N(97)), pr("@char", 2, N(99)))]
    K["bytes"] = [S(pr("@byte", 0, N(1))), S(pr("@byte", 1, N(1))), S(pr("@byte", 1, N(2)), pr("@byte", 0, N(1)))]
    K["arr"] = [S(pr("@item", 0, N(1))), S(pr("@item", 2, N(1))), S(pr("@item", 2, S()), pr("@item", 0, N(1)))]
    K["dict"] = [S(pr("@value", 1, N(2))), S(pr("@value", 1, N(2)), pr("@value", 1, N(3))), S(pr("@value", 2, N(2)), pr("@value", 1, N(3)))]
    K["rel"] = [S(T(("a", N(1)))), S(T(("a", N(1))), T(("a", N(2)))), S(T(("a", N(1)), ("b", N(2))))]
    K["gen"] = [S(N(1)), S(N(1), N(2)), S(N(1), S())]
    K["union"] = [S(N(1), T(("a", N(1)))), S(pr("@char", 0, N(97)), N(1)), S(pr("@item", 0, N(1)), pr("@char", 0, N(97)))]
    return K


def shuffled(rng, t):
    """the same construction with members and attributes in another order, at every level"""
    if t[0] == "n":
        return t
    if t[0] == "t":
        l = [(n, shuffled(rng, v)) for n, v in t[1]]
        rng.shuffle(l)
        return ("t", l)
    l = [shuffled(rng, m) for m in t[1]]
    rng.shuffle(l)
    if l and rng.random() < 0.3:
        l.append(rng.choice(l))       # a member given twice
    return ("s", l)


def core_cases():
    """every ordered pair of member kinds x {1,2,3 members} (same bucket when the kinds coincide), each against its
    reversal (equal), against the list without its last member and against a list with one member replaced"""
    K = kinds()
    names = sorted(K)
    out = []
    for k1 in names:
        for k2 in names:
            for n in (1, 2, 3):
                if n == 1 and k1 != k2:
                    continue
                ms = [K[k1][0], K[k2][1], K[k1][2]][:n]
                a = S(*ms)
                out.append(("core %s %s %d rev" % (k1, k2, n), a, S(*reversed(ms))))
                if n == 3:
                    out.append(("core %s %s %d drop" % (k1, k2, n), a, S(*ms[:-1])))
                if n == 2 and k1 <= k2:
                    out.append(("core %s %s %d repl" % (k1, k2, n), a, S(ms[0], K[k2][2])))
    return out


def region_cases():
    """inside the regions of the open findings, and hand-picked boundaries of the model"""
    out = []
    A = out.append
    # superimposed items (KF-C02-01)
    A(("region collision char", S(pr("@char", 0, N(97)), pr("@char", 0, N(98))), S(pr("@char", 0, N(98)), pr("@char", 0, N(97)))))
    A(("region collision item", S(pr("@item", 0, N(1)), pr("@item", 0, N(2))), S(pr("@item", 0, N(2)), pr("@item", 0, N(1)))))
    A(("region collision byte", S(pr("@byte", 0, N(1)), pr("@byte", 0, N(2))), S(pr("@byte", 0, N(2)))))
    # byte gaps (KF-C02-03)
    A(("region bytes gap", S(pr("@byte", 0, N(1)), pr("@byte", 2, N(3))), S(pr("@byte", 2, N(3)), pr("@byte", 0, N(1)))))
    # ill-typed sugar tuples (KF-C02-02)
    A(("region sugar half", pr("@item", 0.5, N(1)), pr("@item", 0, N(1))))
    A(("region sugar neg half", pr("@item", -0.5, N(1)), pr("@item", 0, N(1))))
    A(("region sugar at string", T(("@", S()), ("@char", N(1))), N(1)))
    A(("region sugar char tuple", T(("@", N(0)), ("@char", T())), N(1)))
    A(("region sugar negative char", S(pr("@char", 0, N(-1))), S()))
    A(("region sugar negative char 2", S(pr("@char", 0, N(-1)), pr("@char", 1, N(97))), S(pr("@char", 1, N(97)))))
    A(("region sugar char half", pr("@char", 0, N(97.5)), pr("@char", 0, N(97))))
    A(("region sugar byte half", pr("@byte", 0, N(7.5)), pr("@byte", 0, N(7))))
    # bucket keys printed alike (KF-C02-04): the witness and its relatives
    A(("region bucket names", S(T(("a, b", N(1))), T(("a", N(1)), ("b", N(2)))), S(T(("a", N(1)), ("b", N(2))), T(("a, b", N(1))))))
    A(("region bucket generic", S(N(1), T(("rel.generic", N(2)))), S(T(("rel.generic", N(2))), N(1))))
    A(("region bucket item", S(pr("@item", 0, N(1)), T(("rel.ArrayItemTuple", N(2)))), S(T(("rel.ArrayItemTuple", N(2))))))
    A(("region bucket char", S(pr("@char", 0, N(97)), T(("rel.StringCharTuple", N(2)))), S(pr("@char", 0, N(97)))))
    A(("region bucket entry", S(pr("@value", 0, N(97)), T(("rel.DictEntryTuple", N(2))), N(3)), S(N(3))))
    A(("region bucket byte", S(pr("@byte", 0, N(9)), T(("rel.BytesByteTuple", N(2))), N(3)), S(N(3))))
    # boundaries outside every region
    A(("edge names with comma alone", S(T(("a, b", N(1))), T(("a, b", N(2)))), S(T(("a, b", N(2))), T(("a, b", N(1))))))
    A(("edge @ second", T(("@char", N(97)), ("@", N(0))), pr("@char", 0, N(97))))
    A(("edge @ with other @name", T(("@", N(0)), ("@foo", N(1))), T(("@foo", N(1)), ("@", N(0)))))
    A(("edge three attrs", T(("@", N(0)), ("@char", N(97)), ("x", N(1))), T(("x", N(1)), ("@char", N(97)), ("@", N(0)))))
    A(("edge true in union", S(T(), pr("@char", 0, N(97))), S(pr("@char", 0, N(97)), T())))
    A(("edge true alone vs generic", S(T()), S(T(), N(1))))
    A(("edge entry dup", S(pr("@value", 1, N(2)), pr("@value", 1, N(2))), S(pr("@value", 1, N(2)))))
    A(("edge entry multi order", S(pr("@value", 1, N(2)), pr("@value", 1, N(3)), pr("@value", 1, N(2))), S(pr("@value", 1, N(3)), pr("@value", 1, N(2)))))
    A(("edge entry multi vs single", S(pr("@value", 1, N(2)), pr("@value", 1, N(3))), S(pr("@value", 1, N(2)))))
    A(("edge entry key sets", S(pr("@value", S(N(1), N(2)), N(2)), pr("@value", S(N(2), N(1)), N(3))), S(pr("@value", S(N(2), N(1)), N(3)), pr("@value", S(N(1), N(2)), N(2)))))
    A(("edge string hole", S(pr("@char", 0, N(97)), pr("@char", 2, N(99))), S(pr("@char", 2, N(99)), pr("@char", 0, N(97)))))
    A(("edge string offset", S(pr("@char", 5, N(97))), S(pr("@char", 4, N(97)))))
    A(("edge string negative offset", S(pr("@char", -2, N(97)), pr("@char", 0, N(98))), S(pr("@char", 0, N(98)), pr("@char", -2, N(97)))))
    A(("edge string nul", S(pr("@char", 0, N(0))), S(pr("@char", 0, N(0)), pr("@char", 0, N(0)))))
    A(("edge array of equal sets", S(pr("@item", 0, S(N(1), N(2))), pr("@item", 1, S(N(2), N(1)))), S(pr("@item", 1, S(N(1), N(2))), pr("@item", 0, S(N(2), N(1))))))
    A(("edge array item hole vs empty", S(pr("@item", 0, N(1)), pr("@item", 2, N(3))), S(pr("@item", 0, N(1)), pr("@item", 1, S()), pr("@item", 2, N(3)))))
    A(("edge rel row dup", S(T(("a", N(1)), ("b", N(2))), T(("b", N(2)), ("a", N(1)))), S(T(("a", N(1)), ("b", N(2))))))
    A(("edge rel nested equal", S(T(("a", S(N(1), N(2)))), T(("a", S(N(2), N(1))))), S(T(("a", S(N(1), N(2)))))))
    A(("edge rel vs rel other names", S(T(("a", N(1)))), S(T(("b", N(1))))))
    A(("edge generic nested dup", S(S(N(1), N(2)), S(N(2), N(1)), N(3)), S(N(3), S(N(1), N(2)))))
    A(("edge generic of string and seq", S(S(pr("@char", 0, N(97))), S(pr("@item", 0, N(97)))), S(S(pr("@item", 0, N(97))), S(pr("@char", 0, N(97))))))
    A(("edge union four buckets", S(N(1), pr("@char", 0, N(97)), pr("@item", 0, N(1)), T(("a", N(1))), pr("@value", 1, N(1))),
       S(pr("@value", 1, N(1)), T(("a", N(1))), pr("@item", 0, N(1)), pr("@char", 0, N(97)), N(1))))
    A(("edge union vs smaller union", S(N(1), pr("@char", 0, N(97)), T(("a", N(1)))), S(N(1), pr("@char", 0, N(97)))))
    A(("edge empty", S(), S(S())))
    A(("edge half", N(0.5), N(0.5)))
    return out


def rand_tree(rng, depth):
    """structured, mostly well-formed: members of a set tend to share a bucket"""
    r = rng.random()
    if depth <= 0 or r < 0.25:
        return N(rng.choice([0, 1, 2, 3, 0.5, -1, 97]))
    if r < 0.45:
        k = rng.choice(["plain", "plain", "sugar", "empty"])
        if k == "empty":
            return T()
        if k == "sugar":
            a = rng.choice(["@char", "@byte", "@item", "@value"])
            i = rng.randrange(-1, 4)
            if a == "@char":
                return pr(a, i, N(rng.choice([97, 98, 99, 0, 1114111])))
            if a == "@byte":
                return pr(a, i, N(rng.choice([0, 1, 255])))
            if a == "@item":
                return pr(a, i, rand_tree(rng, depth - 1))
            return pr(a, rand_tree(rng, depth - 1), rand_tree(rng, depth - 1))
        names = rng.sample(["a", "b", "c", "@", "@x", "a, b"], rng.randrange(1, 4))
        return T(*[(n, rand_tree(rng, depth - 1)) for n in names])
    # a set
    n = rng.choice([0, 1, 1, 2, 2, 3, 3, 4, 5])
    kind = rng.choice(["char", "byte", "item", "entry", "rel", "gen", "mixed", "mixed"])
    ms = []
    base = rng.randrange(-2, 3)
    idxs = list(range(base, base + 6))
    for j in range(n):
        k = kind if kind != "mixed" else rng.choice(["char", "byte", "item", "entry", "rel", "gen"])
        if k == "char":
            ms.append(pr("@char", rng.choice(idxs[:n + 1]) if rng.random() < 0.7 else idxs[j], N(rng.choice([97, 98, 99]))))
        elif k == "byte":
            ms.append(pr("@byte", idxs[j], N(rng.choice([0, 1, 2, 255]))))
        elif k == "item":
            ms.append(pr("@item", rng.choice(idxs) if rng.random() < 0.5 else idxs[j], rand_tree(rng, depth - 1)))
        elif k == "entry":
            ms.append(pr("@value", rng.choice([N(1), N(2), S(), T(), S(N(1), N(2))]), rand_tree(rng, depth - 1)))
        elif k == "rel":
            names = rng.choice([["a"], ["a", "b"], ["a", "b"], ["b", "c"], ["@", "x"]])
            at = [(nm, rng.choice([N(1), N(2), rand_tree(rng, depth - 1)])) for nm in names]
            rng.shuffle(at)
            ms.append(T(*at))
        else:
            ms.append(rng.choice([N(1), N(2), T(), S(), S(T()), rand_tree(rng, depth - 1)]))
    return S(*ms)


def mutate(rng, t):
    """a construction that differs from t in one place (often a different value)"""
    if t[0] == "n":
        return N(t[1] + 1)
    if t[0] == "t":
        if not t[1]:
            return T(("a", N(1)))
        l = list(t[1])
        i = rng.randrange(len(l))
        l[i] = (l[i][0], mutate(rng, l[i][1]))
        return ("t", l)
    l = list(t[1])
    if not l or rng.random() < 0.3:
        return ("s", l + [N(77)])
    i = rng.randrange(len(l))
    if rng.random() < 0.4:
        del l[i]
    else:
        l[i] = mutate(rng, l[i])
    return ("s", l)


def gen_cases(rng, tier):
    cs = [(lab, a, b) for lab, a, b in core_cases() + region_cases()]
    n = 400 if tier == "quick" else 4000
    for _ in range(n):
        a = rand_tree(rng, 3)
        r = rng.random()
        if r < 0.5:
            cs.append(("random shuffled", a, shuffled(rng, a)))
        elif r < 0.8:
            cs.append(("random mutated", a, shuffled(rng, mutate(rng, a))))
        else:
            cs.append(("random other", a, rand_tree(rng, 3)))
    return [{"id": i, "label": lab, "a": a, "b": b} for i, (lab, a, b) in enumerate(cs)]


REGION_SIGS = {1: "seq-collision", 2: "bytes-gap", 3: "sugar-tuple-ill-typed", 4: "bucket-key-collision"}
CODE_TEXT = {1: "a built set does not denote exactly the members it was given (a member dropped, altered, repeated, or Count() differs)",
             2: "Equal() differs from equality of the denotations",
             3: "the implementation panics while building a value",
             4: "Go type / Count() / members differ from the transcribed builder (Rep/Builder.v construct)",
             5: "panic on one side only (implementation vs Rep/Builder.v construct)",
             6: "Equal() differs from the transcribed Equal methods (Rep/Builder.v rep_equal)",
             7: "outside every finding region the transcribed Equal identifies two components of a built set that denote different values: the hypothesis equal_sound_on of C02_builder_denotes_members does not hold on this input"}


def run_part(run, vh, rng, tier, replay_case=None):
    if replay_case is not None:
        cases = [{"id": 0, "label": replay_case.get("label"), "a": replay_case["a_tree"], "b": replay_case["b_tree"]}]
        cases[0]["a"], cases[0]["b"] = untuple(cases[0]["a"]), untuple(cases[0]["b"])
    else:
        cases = gen_cases(rng, tier)
    reqs = [{"id": c["id"], "a": tj(c["a"]), "b": tj(c["b"])} for c in cases]
    outs, _, _ = run_harness(vh, "build", reqs)
    chunks = [cases[i:i + 250] for i in range(0, len(cases), 250)]
    codes, types = {}, []

    def do(ic):
        idx, chunk = ic
        body = ["From Arrai Require Import Base.Val Spec.SetAlg Rep.Builder Check.BuilderCheck.",
                "Definition cases : list bcase := ["]
        rows = []
        for c in chunk:
            o = outs.get(c["id"]) or {}
            rows.append("  {| b_id := %d; b_a := %s; b_b := %s; b_oa := %s; b_ob := %s; b_ab := %s; b_ba := %s |}" % (
                c["id"], tcoq(c["a"]), tcoq(c["b"]), obs_term(o.get("a")), obs_term(o.get("b")),
                obool_term(o.get("ab")), obool_term(o.get("ba"))))
        body.append(";\n".join(rows))
        body.append("].\nDefinition R := Eval vm_compute in reportB cases.\nPrint R.\nDefinition MT := Eval vm_compute in model_types cases.\nPrint MT.")
        rc2, so, se = coq_eval("c02b_cases_%d_%d" % (os.getpid(), idx), "\n".join(body))
        return coq_report(so, "R"), coq_report(so, "MT"), se

    with concurrent.futures.ThreadPoolExecutor(max_workers=8) as ex:
        for (rep, mt, se), chunk in zip(ex.map(do, enumerate(chunks)), chunks):
            if rep is None:
                run.corr_breaks.append({"what": "the builder model could not be evaluated (Check/BuilderCheck.v)", "log": se[-1500:]})
                continue
            types.extend(mt or [])
            for c in chunk:
                codes[c["id"]] = 0
            for cid, code in rep:
                codes[cid] = code
    hit4 = False
    for c in cases:
        code = codes.get(c["id"])
        if code in (None, 0):
            continue
        base, region = code % 100, code // 100
        sig = REGION_SIGS.get(region)
        o = outs.get(c["id"]) or {}
        rec = {"case": {"builder": True, "label": c["label"], "a": tsrc(c["a"]), "b": tsrc(c["b"]), "a_tree": c["a"], "b_tree": c["b"]},
               "observed": o, "oracle": "rel.NewSet / rel.NewTuple through the public API (Properties/C02.v C02_builder_denotes_members, "
               "C02_rep_equal_is_extensional): " + CODE_TEXT.get(base, str(base))}
        if base in (1, 2, 3):
            if region == 4:
                hit4 = True
            run.classify_failure(sig, rec)
        elif sig and run.finding_for(sig):
            # inside the region of an open finding only the defect itself is attributed; a model difference there is not judged
            continue
        else:
            run.corr_breaks.append({"what": "implementation and the transcribed builder disagree (Rep/Builder.v)", **rec})
    if replay_case is None and run.finding_for("bucket-key-collision") and not hit4:
        run.corr_breaks.append({"what": "open finding bucket-key-collision no longer reproduces on its witnesses"})
    hist, thist, lab = {}, {}, {}
    for c in cases:
        hist[str(codes.get(c["id"]))] = hist.get(str(codes.get(c["id"])), 0) + 1
        k = " ".join(c["label"].split(" ")[:2]) if not c["label"].startswith("core") else "core"
        lab[k] = lab.get(k, 0) + 1
    for t in types:
        thist[CODE_NAMES.get(t, str(t))] = thist.get(CODE_NAMES.get(t, str(t)), 0) + 1
    eqs = {"true": 0, "false": 0, "none": 0}
    for c in cases:
        o = outs.get(c["id"]) or {}
        eqs["true" if o.get("ab") is True else "false" if o.get("ab") is False else "none"] += 1
    return {"builder_cases": len(cases), "builder_verdict_codes": hist, "builder_streams": lab,
            "builder_model_representation_types": thist, "builder_equal_results": eqs}


def untuple(t):
    """trees read back from a replay file (lists instead of tuples)"""
    if t[0] == "n":
        return ("n", t[1])
    if t[0] == "t":
        return ("t", [(n, untuple(v)) for n, v in t[1]])
    return ("s", [untuple(m) for m in t[1]])
