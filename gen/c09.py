"""C09: pattern matching binds exactly what construction would produce."""
import random
from common import *
import expr as X
import evalcheck

PROP = "C09"
PROP_FILES = ["Properties/C09.v", "Check/EvalCheck.v"]
N = X.num


def rand_value(rng, depth=0):
    k = rng.random()
    if depth >= 2 or k < 0.3:
        return rng.choice([N(0), N(1), N(2), N(3), X.string("a"), X.string("1"), X.set_([]), X.true_()])
    if k < 0.6:
        return X.arr([rand_value(rng, depth + 1) for _ in range(rng.randrange(0, 4))])
    if k < 0.8:
        names = rng.sample(["a", "b", "c"], rng.randrange(0, 4))
        return X.tup([(n, rand_value(rng, depth + 1)) for n in names])
    if k < 0.9:
        ks = rng.sample([X.string("a"), X.string("b"), N(1), N(2)], rng.randrange(1, 3))
        return X.dict_([(kk, rand_value(rng, depth + 1)) for kk in ks])
    return X.set_([N(i) for i in rng.sample(range(4), rng.randrange(1, 4))])


class Names:
    def __init__(self, rng):
        self.rng, self.n, self.used = rng, 0, []

    def fresh(self):
        # sometimes reuse a name: repeated names must agree
        if self.used and self.rng.random() < 0.15:
            return self.rng.choice(self.used)
        self.n += 1
        x = "v%d" % self.n
        self.used.append(x)
        return x


def pattern_of(rng, v, names, depth=0):
    """a pattern derived from value v: components become names, _, literals, nested patterns, ...rest"""
    k = rng.random()
    if k < 0.22:
        return X.pvar(names.fresh())
    if k < 0.3:
        return X.pwild()
    if v[0] == "arr" and v[2] == 0 and all(x is not None for x in v[1]):
        items = [X.item(pattern_of(rng, x, names, depth + 1)) for x in v[1]]
        r = rng.random()
        if r < 0.3 and items:
            i = rng.randrange(len(items) + 1)
            j = rng.randrange(i, len(items) + 1)
            items = items[:i] + [X.extra(names.fresh() if rng.random() < 0.7 else None)] + items[j:]
        elif r < 0.4:
            items = items + [X.item(X.pvar(names.fresh()), N(9))]       # fallback for an absent trailing component
        return X.parr(items)
    if v[0] == "tup":
        attrs = [(n, X.item(pattern_of(rng, x, names, depth + 1))) for n, x in v[1]]
        r = rng.random()
        if r < 0.25 and attrs:
            keep = rng.sample(attrs, rng.randrange(0, len(attrs)))
            attrs = keep + [("", X.extra(names.fresh() if rng.random() < 0.7 else None))]
        elif r < 0.35:
            attrs = attrs + [("zz", X.item(X.pvar(names.fresh()), N(7)))]
        return X.ptup(attrs)
    if v[0] == "dict" and v[1]:
        ents = [(kk, X.item(pattern_of(rng, x, names, depth + 1))) for kk, x in v[1]]
        r = rng.random()
        if r < 0.3:
            keep = rng.sample(ents, rng.randrange(1, len(ents) + 1))      # at least one key: `{...x}` alone is a set pattern
            ents = keep + [(None, X.extra(names.fresh() if rng.random() < 0.7 else None))]
        return X.pdict(ents)
    if v[0] == "set" and v[1] and all(x[0] == "num" for x in v[1]):
        r = rng.random()
        if r < 0.4:       # some literals and ...rest
            lits = rng.sample(v[1], rng.randrange(0, len(v[1])))
            return X.pset([X.item(X.pexpr(x)) for x in lits] + [X.extra(names.fresh() if rng.random() < 0.8 else None)])
        if r < 0.7:       # all literals but one, and one name for the member left over
            lits = rng.sample(v[1], len(v[1]) - 1)
            items = [X.item(X.pexpr(x)) for x in lits] + [X.item(X.pvar(names.fresh()))]
            rng.shuffle(items)
            return X.pset(items)
        if r < 0.85 and len(v[1]) >= 2:      # one name but two or more members left over: must not match
            lits = rng.sample(v[1], rng.randrange(0, len(v[1]) - 1))
            items = [X.item(X.pexpr(x)) for x in lits] + [X.item(X.pvar(names.fresh()))]
            rng.shuffle(items)
            return X.pset(items)
        return X.pset([X.item(X.pexpr(x)) for x in v[1]])      # exactly these members
    return X.pexpr(v)


def perturb(rng, v):
    """near-miss: one extra / missing element, offset, hole, wrong kind"""
    k = rng.random()
    if v[0] == "arr":
        items = list(v[1])
        if k < 0.25:
            return X.arr(items + [N(5)], v[2])
        if k < 0.5 and items:
            del items[rng.randrange(len(items))]
            return X.arr(items, v[2])
        if k < 0.65 and items:
            return X.arr(items, 1)
        if k < 0.8 and len(items) >= 3:
            items[1] = None
            return X.arr(items, v[2])
        if items:
            i = rng.randrange(len(items))
            items[i] = perturb(rng, items[i]) if items[i] is not None else N(1)
            return X.arr(items, v[2])
    if v[0] == "tup":
        attrs = list(v[1])
        if k < 0.3:
            return X.tup(attrs + [("q", N(1))])
        if k < 0.6 and attrs:
            del attrs[rng.randrange(len(attrs))]
            return X.tup(attrs)
        if attrs:
            i = rng.randrange(len(attrs))
            attrs[i] = (attrs[i][0], perturb(rng, attrs[i][1]))
            return X.tup(attrs)
    if v[0] == "set" and v[1] and all(x[0] == "num" for x in v[1]):
        items = list(v[1])
        if k < 0.4:
            return X.set_(items + [N(50 + rng.randrange(3))])
        if k < 0.6:
            return X.set_(items + [N(50), N(51)])
        if k < 0.85 and len(items) > 1:
            del items[rng.randrange(len(items))]
            return X.set_(items)
    if v[0] == "num":
        return rng.choice([N(v[1] + 1), X.string(str(int(v[1]))) if v[1] == int(v[1]) else N(0)])
    if v[0] == "str":
        return rng.choice([X.string(v[1] + "x"), N(1)])
    return rng.choice([N(42), X.arr([N(1)]), X.tup([("a", N(1))]), X.set_([N(7)])])


def pat_names(p, acc):
    if p[0] == "pvar":
        acc.add(p[1])
    elif p[0] in ("parr", "pset"):
        for i in p[1]:
            item_names(i, acc)
    elif p[0] in ("ptup", "pdict"):
        for _, i in p[1]:
            item_names(i, acc)
    return acc


def item_names(i, acc):
    if i[0] == "extra":
        if i[1]:
            acc.add(i[1])
    else:
        pat_names(i[1], acc)


def has_nondet(p):
    """more than one of (...rest | fallback) in one array/tuple/dict pattern, or set patterns with several binders"""
    if p[0] in ("parr", "pset", "ptup", "pdict"):
        items = [i for i in p[1]] if p[0] in ("parr", "pset") else [i for _, i in p[1]]
        n = sum(1 for i in items if i[0] == "extra" or (i[0] == "item" and i[2] is not None))
        if n > 1:
            return True
        return any(has_nondet(i[1]) for i in items if i[0] == "item")
    return False


def gen_cases(rng, tier):
    out = []
    n = 700 if tier == "quick" else 6000
    for _ in range(n):
        v = rand_value(rng)
        if rng.random() < 0.1:      # set patterns get their own share
            v = X.set_([N(i) for i in rng.sample(range(5), rng.randrange(2, 5))])
        names = Names(rng)
        p = pattern_of(rng, v, names)
        while v[0] == "set" and v[1] and p[0] in ("pvar", "pwild") and rng.random() < 0.8:
            p = pattern_of(rng, v, names)
        if has_nondet(p):
            continue
        target = v if rng.random() < 0.55 else perturb(rng, v)
        bound = sorted(pat_names(p, set()))
        body = X.tup([(x, X.var(x)) for x in bound]) if bound else N(1)
        r = rng.random()
        if r < 0.5:
            out.append(("let", X.let(p, target, body)))
        elif r < 0.65:
            out.append(("call", X.call(X.fn(p, body), target)))
        else:
            v2 = rand_value(rng)
            n2 = Names(rng)
            n2.n = 50
            p2 = pattern_of(rng, v2, n2)
            if has_nondet(p2):
                continue
            b2 = sorted(pat_names(p2, set()))
            arms = [(p, X.tup([("arm", N(1))] + [(x, X.var(x)) for x in bound])),
                    (p2, X.tup([("arm", N(2))] + [(x, X.var(x)) for x in b2])),
                    (X.pwild(), N(0))]
            if rng.random() < 0.5:
                arms = [arms[1], arms[0], arms[2]]
            out.append(("cond", X.condpat(rng.choice([target, v2]), arms)))
    # enumerated core: [p1..pk, ...r, q1..qm] against arrays of every length around k+m (too short, exact, longer)
    for k in range(0, 3):
        for m in range(0, 3):
            for n in range(0, 5):
                if n < k + m - 2:
                    continue
                pre = [X.item(X.pvar("a%d" % i)) for i in range(k)]
                suf = [X.item(X.pvar("b%d" % i)) for i in range(m)]
                p = X.parr(pre + [X.extra("r")] + suf)
                names_ = ["a%d" % i for i in range(k)] + ["r"] + ["b%d" % i for i in range(m)]
                body = X.tup([(x, X.var(x)) for x in names_])
                target = X.arr([N(10 + i) for i in range(n)])
                if (k + m + n) % 2:
                    out.append(("rest core", X.let(p, target, body)))
                else:
                    out.append(("rest core", X.condpat(target, [(p, body), (X.pwild(), N(0))])))
    # enumerated core: a name repeated across nesting levels and as the ...rest of a tuple / array, agreeing and disagreeing
    V = X.var
    def it(p):
        return X.item(p)
    for x, y in (("x", "y"), ("a", "b"), ("n", "m"), ("v1", "k"), ("t", "u"), ("q", "p")):
        pats = [
            (X.parr([it(X.pvar(x)), it(X.parr([it(X.pvar(y)), it(X.pvar(x))]))]), [X.arr([N(1), X.arr([N(2), N(1)])]), X.arr([N(1), X.arr([N(2), N(3)])])]),
            (X.parr([it(X.parr([it(X.pvar(y)), it(X.pvar(x))])), it(X.pvar(x))]), [X.arr([X.arr([N(2), N(1)]), N(1)]), X.arr([X.arr([N(2), N(3)]), N(1)])]),
            (X.ptup([("a", it(X.pvar(x))), ("b", it(X.ptup([("c", it(X.pvar(y))), ("d", it(X.pvar(x)))])))]),
             [X.tup([("a", N(1)), ("b", X.tup([("c", N(2)), ("d", N(1))]))]), X.tup([("a", N(1)), ("b", X.tup([("c", N(2)), ("d", N(3))]))])]),
            (X.parr([it(X.pvar(x)), it(X.ptup([("p", it(X.pvar(y))), ("q", it(X.pvar(x)))]))]),
             [X.arr([N(1), X.tup([("p", N(2)), ("q", N(1))])]), X.arr([N(1), X.tup([("p", N(2)), ("q", N(0))])])]),
            (X.ptup([("a", it(X.pvar(x))), ("", X.extra(x))]), [X.tup([("a", X.tup([("b", N(2))])), ("b", N(2))]), X.tup([("a", N(1)), ("b", N(2))])]),
            (X.ptup([("a", it(X.pvar(y))), ("c", it(X.pvar(x))), ("", X.extra(x))]),
             [X.tup([("a", N(0)), ("c", X.tup([("b", N(2))])), ("b", N(2))]), X.tup([("a", N(0)), ("c", N(1)), ("b", N(2))])]),
            (X.parr([it(X.pvar(x)), X.extra(x)]), [X.arr([X.arr([N(2)]), N(2)]), X.arr([N(1), N(2)])]),
            (X.parr([it(X.pvar(x)), it(X.pvar(y)), it(X.parr([it(X.pvar(y)), it(X.parr([it(X.pvar(x))]))]))]),
             [X.arr([N(1), N(2), X.arr([N(2), X.arr([N(1)])])]), X.arr([N(1), N(2), X.arr([N(2), X.arr([N(5)])])]), X.arr([N(1), N(2), X.arr([N(7), X.arr([N(1)])])])]),
        ]
        for p, targets in pats:
            bound = sorted(pat_names(p, set()))
            body = X.tup([(z, V(z)) for z in bound])
            for tg in targets:
                out.append(("repeat core", X.let(p, tg, body)))
                out.append(("repeat core", X.condpat(tg, [(p, body), (X.pwild(), N(0))])))
                out.append(("repeat core", X.call(X.fn(p, body), tg)))
    # enumerated core: the _ arm first / in the middle of a cond (a later arm that also matches must not win), and
    # fallback items whose component is present with a falsy or a truthy value, or absent
    FALSY = [N(0), X.set_([]), X.arr([]), X.string(""), X.tup([]), N(5), X.set_([N(1)]), X.string("a")]
    for i, fv in enumerate(FALSY):
        tv = X.tup([("a", fv), ("b", N(1))])
        p1 = X.ptup([("a", X.item(X.pvar("x"), N(42))), ("b", X.item(X.pvar("y")))])
        p2 = X.ptup([("a", X.item(X.pexpr(N(7)), N(7))), ("b", X.item(X.pwild()))])
        p3 = X.ptup([("a", X.item(X.pvar("x"), N(1))), ("b", X.item(X.pvar("x")))])
        body = X.tup([("x", V("x")), ("y", V("y"))])
        out.append(("fallback core", X.let(p1, tv, body)))
        out.append(("fallback core", X.let(p1, X.tup([("b", N(1))]), body)))
        out.append(("fallback core", X.condpat(tv, [(p2, N(1)), (X.pwild(), N(2))])))
        out.append(("fallback core", X.condpat(tv, [(p3, V("x")), (X.pwild(), X.string("no"))])))
        out.append(("fallback core", X.call(X.fn(p1, body), tv)))
        out.append(("fallback core", X.let(X.parr([X.item(X.pvar("x")), X.item(X.pvar("y"), N(9))]), X.arr([N(1), fv]), body)))
        out.append(("fallback core", X.let(X.pdict([(X.string("a"), X.item(X.pvar("x"), N(42)))]), X.dict_([(X.string("a"), fv)]), V("x"))))
        out.append(("fallback core", X.let(X.parr([X.item(X.ptup([("a", X.item(X.pvar("x"), N(42)))]))]), X.arr([X.tup([("a", fv)])]), V("x"))))
        # cond with _ before other arms
        ctl = X.tup([("a", fv), ("b", N(2))])
        pa = X.ptup([("a", X.item(X.pvar("x"))), ("", X.extra(None))])
        out.append(("cond default core", X.condpat(ctl, [(X.pwild(), X.string("first")), (pa, V("x"))])))
        out.append(("cond default core", X.condpat(ctl, [(X.pexpr(N(99)), N(0)), (X.pwild(), X.string("mid")), (pa, V("x"))])))
        out.append(("cond default core", X.condpat(fv, [(X.pwild(), X.string("first")), (X.pexpr(fv), X.string("second"))])))
        out.append(("cond default core", X.condpat(fv, [(X.pvar("z"), X.tup([("z", V("z"))])), (X.pwild(), N(0)), (X.pexpr(fv), N(1))])))
    # committed probes
    out += [("probe", X.let(X.parr([X.item(X.pvar("x")), X.item(X.pvar("x"))]), X.arr([N(1), X.string("1")]), X.var("x"))),
            ("probe", X.let(X.parr([X.item(X.pvar("a")), X.item(X.pvar("b"))]), X.arr([N(1), N(2)], 1), X.var("a"))),
            ("probe", X.let(X.parr([X.item(X.pvar("a")), X.item(X.pvar("b"))]), X.arr([N(1), None, N(2)]), X.var("a"))),
            ("probe", X.let(X.parr([X.item(X.pvar("x")), X.extra("r"), X.item(X.pvar("x"))]), X.arr([N(1), N(2), N(3), N(1)]), X.tup([("x", X.var("x")), ("r", X.var("r"))])))]
    return [{"id": i, "label": l, "ast": e} for i, (l, e) in enumerate(out)]


def main(tier, seed, replay=None):
    run = Run(PROP, tier, seed)
    vh, proof = prepare(PROP_FILES, thorough=(tier == "thorough"))
    rng = random.Random(seed)
    cases = evalcheck.replay_cases(replay) if replay else gen_cases(rng, tier)
    outs, codes, fails = evalcheck.evaluate(vh, cases)
    # matching vs non-matching is the property: error/no-error disagreements count as failures
    evalcheck.judge(run, cases, outs, codes, fails,
                    "bindings / selected cond arm / match failure vs matching by reconstruction (Properties/C09.v, Eval/Interp.v bind_pat)",
                    value_codes=(1, 2, 3, 4, 5), corr_codes=(6,))
    kinds = {}
    nmatch = 0
    for c in cases:
        kinds[c.get("label")] = kinds.get(c.get("label"), 0) + 1
        if (outs.get(c["id"]) or {}).get("st") == "ok":
            nmatch += 1
    evalcheck.stats(run, cases, outs, codes,
                    "random nested values (arrays, tuples, dicts, sets, numbers, strings) and patterns derived from them (names incl. repeated ones, _, literal and (expr) patterns, nested array/tuple/dict/set patterns (set patterns: literals with ...rest, literals with one name and exactly one / two or more members left over, literals only), ...rest at any position, trailing fallbacks) enumerated cores of cond with the _ arm first or in the middle followed by arms that also match, of fallback items whose component is present with a falsy value / present with a truthy value / absent (tuple, array, dict, nested, parameter), of names repeated across nesting levels and as the ...rest of a tuple or array (agreeing and disagreeing values, six name pairs, let / cond / parameter), an enumerated core of [p1..pk, ...r, q1..qm] (k, m <= 2) against arrays of every length from two short to longer; matched against the value itself or a near-miss of it (one extra / missing element, offset, hole, one component changed, wrong kind) in `let P = V; (names)`, `(\\\\P body)(V)` and `cond V {P1:.., P2:.., _:0}`",
                    {"form_histogram": kinds, "programs_that_matched": nmatch, "exhaustive": False})
    run.assumptions = ["patterns with more than one of (...rest | fallback) per level are rejected by the implementation as 'non-deterministic' and are not generated"]
    return run.finish(proof)
