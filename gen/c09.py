"""C09: pattern matching binds exactly what construction would produce."""
import random
from common import *
import expr as X
import evalcheck

PROP = "C09"
PROP_FILES = ["Properties/C09.v", "Check/EvalCheck.v"]
N = X.num


def rand_value(rng, depth=0):
    k = rng.random()
    if depth >= 2 or k < 0.3:
        return rng.choice([N(0), N(1), N(2), N(3), X.string("a"), X.string("1"), X.set_([]), X.true_()])
    if k < 0.6:
        return X.arr([rand_value(rng, depth + 1) for _ in range(rng.randrange(0, 4))])
    if k < 0.8:
        names = rng.sample(["a", "b", "c"], rng.randrange(0, 4))
        return X.tup([(n, rand_value(rng, depth + 1)) for n in names])
    if k < 0.9:
        ks = rng.sample([X.string("a"), X.string("b"), N(1), N(2)], rng.randrange(1, 3))
        return X.dict_([(kk, rand_value(rng, depth + 1)) for kk in ks])
    return X.set_([N(i) for i in rng.sample(range(4), rng.randrange(1, 4))])


class Names:
    def __init__(self, rng):
        self.rng, self.n, self.used = rng, 0, []

    def fresh(self):
        # sometimes reuse a name: repeated names must agree
        if self.used and self.rng.random() < 0.15:
            return self.rng.choice(self.used)
        self.n += 1
        x = "v%d" % self.n
        self.used.append(x)
        return x


def pattern_of(rng, v, names, depth=0):
    """a pattern derived from value v: components become names, _, literals, nested patterns, ...rest"""
    k = rng.random()
    if k < 0.22:
        return X.pvar(names.fresh())
    if k < 0.3:
        return X.pwild()
    if v[0] == "arr" and v[2] == 0 and all(x is not None for x in v[1]):
        items = [X.item(pattern_of(rng, x, names, depth + 1)) for x in v[1]]
        r = rng.random()
        if r < 0.3 and items:
            i = rng.randrange(len(items) + 1)
            j = rng.randrange(i, len(items) + 1)
            items = items[:i] + [X.extra(names.fresh() if rng.random() < 0.7 else None)] + items[j:]
        elif r < 0.4:
            items = items + [X.item(X.pvar(names.fresh()), N(9))]       # fallback for an absent trailing component
        return X.parr(items)
    if v[0] == "tup":
        attrs = [(n, X.item(pattern_of(rng, x, names, depth + 1))) for n, x in v[1]]
        r = rng.random()
        if r < 0.25 and attrs:
            keep = rng.sample(attrs, rng.randrange(0, len(attrs)))
            attrs = keep + [("", X.extra(names.fresh() if rng.random() < 0.7 else None))]
        elif r < 0.35:
            attrs = attrs + [("zz", X.item(X.pvar(names.fresh()), N(7)))]
        return X.ptup(attrs)
    if v[0] == "dict" and v[1]:
        ents = [(kk, X.item(pattern_of(rng, x, names, depth + 1))) for kk, x in v[1]]
        r = rng.random()
        if r < 0.3:
            keep = rng.sample(ents, rng.randrange(1, len(ents) + 1))      # at least one key: `{...x}` alone is a set pattern
            ents = keep + [(None, X.extra(names.fresh() if rng.random() < 0.7 else None))]
        return X.pdict(ents)
    if v[0] == "set" and v[1] and all(x[0] == "num" for x in v[1]):
        r = rng.random()
        if r < 0.4:       # some literals and ...rest
            lits = rng.sample(v[1], rng.randrange(0, len(v[1])))
            return X.pset([X.item(X.pexpr(x)) for x in lits] + [X.extra(names.fresh() if rng.random() < 0.8 else None)])
        if r < 0.7:       # all literals but one, and one name for the member left over
            lits = rng.sample(v[1], len(v[1]) - 1)
            items = [X.item(X.pexpr(x)) for x in lits] + [X.item(X.pvar(names.fresh()))]
            rng.shuffle(items)
            return X.pset(items)
        if r < 0.85 and len(v[1]) >= 2:      # one name but two or more members left over: must not match
            lits = rng.sample(v[1], rng.randrange(0, len(v[1]) - 1))
            items = [X.item(X.pexpr(x)) for x in lits] + [X.item(X.pvar(names.fresh()))]
            rng.shuffle(items)
            return X.pset(items)
        return X.pset([X.item(X.pexpr(x)) for x in v[1]])      # exactly these members
    return X.pexpr(v)


def perturb(rng, v):
    """near-miss: one extra / missing element, offset, hole, wrong kind"""
    k = rng.random()
    if v[0] == "arr":
        items = list(v[1])
        if k < 0.25:
            return X.arr(items + [N(5)], v[2])
        if k < 0.5 and items:
            del items[rng.randrange(len(items))]
            return X.arr(items, v[2])
        if k < 0.65 and items:
            return X.arr(items, 1)
        if k < 0.8 and len(items) >= 3:
            items[1] = None
            return X.arr(items, v[2])
        if items:
            i = rng.randrange(len(items))
            items[i] = perturb(rng, items[i]) if items[i] is not None else N(1)
            return X.arr(items, v[2])
    if v[0] == "tup":
        attrs = list(v[1])
        if k < 0.3:
            return X.tup(attrs + [("q", N(1))])
        if k < 0.6 and attrs:
            del attrs[rng.randrange(len(attrs))]
            return X.tup(attrs)
        if attrs:
            i = rng.randrange(len(attrs))
            attrs[i] = (attrs[i][0], perturb(rng, attrs[i][1]))
            return X.tup(attrs)
    if v[0] == "set" and v[1] and all(x[0] == "num" for x in v[1]):
        items = list(v[1])
        if k < 0.4:
            return X.set_(items + [N(50 + rng.randrange(3))])
        if k < 0.6:
            return X.set_(items + [N(50), N(51)])
        if k < 0.85 and len(items) > 1:
            del items[rng.randrange(len(items))]
            return X.set_(items)
    if v[0] == "num":
        return rng.choice([N(v[1] + 1), X.string(str(int(v[1]))) if v[1] == int(v[1]) else N(0)])
    if v[0] == "str":
        return rng.choice([X.string(v[1] + "x"), N(1)])
    return rng.choice([N(42), X.arr([N(1)]), X.tup([("a", N(1))]), X.set_([N(7)])])


def pat_names(p, acc):
    if p[0] == "pvar":
        acc.add(p[1])
    elif p[0] in ("parr", "pset"):
        for i in p[1]:
            item_names(i, acc)
    elif p[0] in ("ptup", "pdict"):
        for _, i in p[1]:
            item_names(i, acc)
    return acc


def item_names(i, acc):
    if i[0] == "extra":
        if i[1]:
            acc.add(i[1])
    else:
        pat_names(i[1], acc)


def has_nondet(p):
    """more than one of (...rest | fallback) in one array/tuple/dict pattern, or set patterns with several binders"""
    if p[0] in ("parr", "pset", "ptup", "pdict"):
        items = [i for i in p[1]] if p[0] in ("parr", "pset") else [i for _, i in p[1]]
        n = sum(1 for i in items if i[0] == "extra" or (i[0] == "item" and i[2] is not None))
        if n > 1:
            return True
        return any(has_nondet(i[1]) for i in items if i[0] == "item")
    return False



# ---------- deeply nested patterns (depth 3-5) ----------

LEAVES = [N(0), N(1), N(2), N(3), X.string("a"), X.string("b"), X.set_([]), X.true_()]


def deep_value(rng, depth):
    """a value with a path `depth` containers deep, mixing array / tuple / dict / one-member set"""
    if depth <= 0:
        return rng.choice(LEAVES)
    deep = deep_value(rng, depth - 1)

    def side():
        return deep_value(rng, rng.randrange(0, max(1, depth - 1)))
    kind = rng.choice(["arr", "tup", "dict", "set1", "arr", "tup", "dict"])
    if kind == "arr":
        items = [side() for _ in range(rng.randrange(0, 3))]
        items.insert(rng.randrange(len(items) + 1), deep)
        return X.arr(items)
    if kind == "tup":
        names = rng.sample(["a", "b", "c", "d"], rng.randrange(1, 4))
        vals = [side() for _ in names]
        vals[rng.randrange(len(vals))] = deep
        return X.tup(list(zip(names, vals)))
    if kind == "dict":
        ks = rng.sample([X.string("k"), X.string("m"), N(1), N(2)], rng.randrange(1, 4))
        vals = [side() for _ in ks]
        vals[rng.randrange(len(vals))] = deep
        return X.dict_(list(zip(ks, vals)))
    return X.set_([deep])


class DeepCtx:
    """names bound so far (for repeated names across levels) and enclosing lets (for dynamic `(k)` patterns)"""
    def __init__(self, rng):
        self.rng, self.bound, self.n, self.outer, self.nexprs = rng, {}, 0, [], 0

    def name_for(self, v):
        same = [x for x, w in self.bound.items() if w == v]
        r = self.rng.random()
        if same and r < 0.4:
            return self.rng.choice(same)                      # repeated name that agrees
        if self.bound and r < 0.45:
            return self.rng.choice(sorted(self.bound))        # repeated name, most likely disagreeing
        self.n += 1
        x = "w%d" % self.n
        self.bound[x] = v
        return x

    def outer_for(self, v):
        k = "k%d" % len(self.outer)
        self.outer.append((k, v))
        return k


def is_nat(v):
    return v[0] == "num" and v[1] >= 0 and v[1] == int(v[1])


def is_container(v):
    return v[0] in ("arr", "tup", "dict") or (v[0] == "set" and len(v[1]) > 0)


def deep_leaf(rng, v, cx, in_set=False):
    r = rng.random()
    if r < 0.5:
        return X.pvar(cx.name_for(v))
    if r < 0.58:
        return X.pwild()
    if r < 0.76 and (not in_set or is_nat(v)):
        return X.pexpr(v)                                     # literal / parenthesised constant expression
    if r < 0.86 and not in_set:
        # (e1, e2, ..): any of the alternatives; the value itself sits at a random position, as a constant or as (k)
        alts = [rng.choice(LEAVES + [X.arr([N(1)]), X.tup([("a", N(1))])]) for _ in range(rng.randrange(1, 3))]
        me = v if rng.random() < 0.6 else X.var(cx.outer_for(v))
        alts.insert(rng.randrange(len(alts) + 1), me)
        cx.nexprs += 1
        return X.pexprs(alts)
    return X.pexpr(X.var(cx.outer_for(v)))                    # (k): the value of an enclosing let


def deep_pattern(rng, v, cx, in_set=False):
    """pattern derived from v, nested as deep as v: array-in-tuple-in-dict-in-set, ...rest at any level"""
    if not is_container(v) or rng.random() < 0.1:
        return deep_leaf(rng, v, cx, in_set)
    if v[0] == "arr":
        if v[2] != 0 or any(x is None for x in v[1]):
            return deep_leaf(rng, v, cx, in_set)
        items = [X.item(deep_pattern(rng, x, cx)) for x in v[1]]
        if rng.random() < 0.45:
            i = rng.randrange(len(items) + 1)
            j = rng.randrange(i, len(items) + 1)
            mid = X.arr(v[1][i:j])
            items = items[:i] + [X.extra(cx.name_for(mid) if rng.random() < 0.75 else None)] + items[j:]
        return X.parr(items)
    if v[0] == "tup":
        attrs = [(n, X.item(deep_pattern(rng, x, cx))) for n, x in v[1]]
        rng.shuffle(attrs)
        if rng.random() < 0.4:
            keep = rng.sample(attrs, rng.randrange(0, len(attrs) + 1))
            kept = set(n for n, _ in keep)
            rest = X.tup([(n, x) for n, x in v[1] if n not in kept])
            pos = rng.randrange(len(keep) + 1)
            attrs = keep[:pos] + [("", X.extra(cx.name_for(rest) if rng.random() < 0.75 else None))] + keep[pos:]
        return X.ptup(attrs)
    if v[0] == "dict":
        ents = [(kk, X.item(deep_pattern(rng, x, cx))) for kk, x in v[1]]
        rng.shuffle(ents)
        if rng.random() < 0.4:
            keep = rng.sample(ents, rng.randrange(1, len(ents) + 1))
            kept = [kk for kk, _ in keep]
            rest = X.dict_([(kk, x) for kk, x in v[1] if kk not in kept]) if len(kept) < len(v[1]) else X.set_([])
            pos = rng.randrange(1, len(keep) + 1)             # a key first: `{...x}` alone is a set pattern
            ents = keep[:pos] + [(None, X.extra(cx.name_for(rest) if rng.random() < 0.75 else None))] + keep[pos:]
        return X.pdict(ents)
    # a non-empty set
    ms = v[1]
    if len(ms) == 1:
        r = rng.random()
        if r < 0.7:
            return X.pset([X.item(deep_pattern(rng, ms[0], cx, in_set=True))])      # {P}: the single member
        if r < 0.85:
            return X.pset([X.extra(cx.name_for(v) if rng.random() < 0.75 else None)])
        return deep_leaf(rng, v, cx, in_set)
    return deep_leaf(rng, v, cx, in_set)


def perturb_deep(rng, v):
    """near-miss of one value: perturb() plus dict near-misses"""
    if v[0] == "dict" and v[1]:
        ents = list(v[1])
        k = rng.random()
        if k < 0.3:
            return X.dict_(ents + [(X.string("zz"), N(1))])
        if k < 0.55 and len(ents) > 1:
            del ents[rng.randrange(len(ents))]
            return X.dict_(ents)
        if k < 0.9:
            i = rng.randrange(len(ents))
            ents[i] = (ents[i][0], perturb_deep(rng, ents[i][1]))
            return X.dict_(ents)
        return X.arr([N(1)])
    if v[0] == "set" and len(v[1]) == 1 and v[1][0][0] != "num":
        k = rng.random()
        if k < 0.4:
            return X.set_([v[1][0], N(77)])
        if k < 0.6:
            return X.set_([])
        return X.set_([perturb_deep(rng, v[1][0])])
    return perturb(rng, v)


def perturb_at(rng, v, depth):
    """a near-miss `depth` levels down a random path of v (or as deep as the path goes)"""
    if depth <= 0:
        return perturb_deep(rng, v)
    if v[0] == "arr" and v[1] and v[2] == 0 and all(x is not None for x in v[1]):
        items = list(v[1])
        i = rng.randrange(len(items))
        items[i] = perturb_at(rng, items[i], depth - 1)
        return X.arr(items)
    if v[0] == "tup" and v[1]:
        attrs = list(v[1])
        i = rng.randrange(len(attrs))
        attrs[i] = (attrs[i][0], perturb_at(rng, attrs[i][1], depth - 1))
        return X.tup(attrs)
    if v[0] == "dict" and v[1]:
        ents = list(v[1])
        i = rng.randrange(len(ents))
        ents[i] = (ents[i][0], perturb_at(rng, ents[i][1], depth - 1))
        return X.dict_(ents)
    if v[0] == "set" and len(v[1]) == 1:
        return X.set_([perturb_at(rng, v[1][0], depth - 1)])
    return perturb_deep(rng, v)


def pat_depth(p):
    if p[0] in ("parr", "pset"):
        return 1 + max([pat_depth(i[1]) for i in p[1] if i[0] == "item"] + [0])
    if p[0] in ("ptup", "pdict"):
        return 1 + max([pat_depth(i[1]) for _, i in p[1] if i[0] == "item"] + [0])
    return 0


def count_rests(p):
    items = []
    if p[0] in ("parr", "pset"):
        items = p[1]
    elif p[0] in ("ptup", "pdict"):
        items = [i for _, i in p[1]]
    return sum(1 for i in items if i[0] == "extra") + sum(count_rests(i[1]) for i in items if i[0] == "item")


def with_outer(cx, e):
    for k, v in reversed(cx.outer):
        e = X.let(X.pvar(k), v, e)
    return e


def deep_cases(rng, n, stats):
    out = []
    tries = 0
    while len(out) < n and tries < 20 * n:
        tries += 1
        d = rng.choice([3, 3, 4, 4, 5])
        v = deep_value(rng, d)
        cx = DeepCtx(rng)
        p = deep_pattern(rng, v, cx)
        pd = pat_depth(p)
        if pd < 3:
            continue
        miss = rng.random() < 0.45
        md = rng.randrange(0, d + 1)
        target = perturb_at(rng, v, md) if miss else v
        bound = sorted(pat_names(p, set()))
        body = X.tup([(x, X.var(x)) for x in bound]) if bound else N(1)
        r = rng.random()
        if r < 0.45:
            e, form = X.let(p, target, body), "let"
        elif r < 0.65:
            e, form = X.call(X.fn(p, body), target), "call"
        else:
            arms = [(p, X.tup([("arm", N(1)), ("b", body)])), (X.pwild(), N(0))]
            if rng.random() < 0.3:
                arms = [(X.pexpr(N(99)), N(9))] + arms
            e, form = X.condpat(target, arms), "cond"
        out.append(("deep " + form + (" near-miss" if miss else ""), with_outer(cx, e)))
        stats["depth"][str(pd)] = stats["depth"].get(str(pd), 0) + 1
        stats["rests"][str(count_rests(p))] = stats["rests"].get(str(count_rests(p)), 0) + 1
        reps = len(pat_name_list(p, [])) - len(bound)
        stats["repeated_names"][str(min(reps, 3))] = stats["repeated_names"].get(str(min(reps, 3)), 0) + 1
        stats["dynamic_expr_patterns"] += len(cx.outer)
        stats["alternative_patterns"] = stats.get("alternative_patterns", 0) + cx.nexprs
        if miss:
            stats["near_miss_depth"][str(md)] = stats["near_miss_depth"].get(str(md), 0) + 1
    return out


def pat_name_list(p, acc):
    if p[0] == "pvar":
        acc.append(p[1])
    elif p[0] in ("parr", "pset"):
        for i in p[1]:
            if i[0] == "extra":
                if i[1]:
                    acc.append(i[1])
            else:
                pat_name_list(i[1], acc)
    elif p[0] in ("ptup", "pdict"):
        for _, i in p[1]:
            if i[0] == "extra":
                if i[1]:
                    acc.append(i[1])
            else:
                pat_name_list(i[1], acc)
    return acc


# ---------- region of the open finding: set patterns with an expression item that is not a number or an identifier ----------

SIG_SET_EXPR = "set-pattern-expr-item"


def pats_of(e, acc):
    """all patterns occurring in a program"""
    if isinstance(e, tuple):
        if e and isinstance(e[0], str) and e[0] in ("pvar", "pwild", "pexpr", "pexprs", "parr", "ptup", "pdict", "pset"):
            acc.append(e)
        for x in e:
            pats_of(x, acc)
    elif isinstance(e, list):
        for x in e:
            pats_of(x, acc)
    return acc


def in_set_expr_region(ast):
    for p in pats_of(ast, []):
        if p[0] == "pset":
            for i in p[1]:
                if i[0] == "item" and i[1][0] == "pexpr" and not is_nat(i[1][1]) and i[1][1][0] != "var":
                    return True
    return False


SIG_DICT_REST = "dict-pattern-rest-not-last"


def in_dict_rest_region(ast):
    """a dict pattern whose ...rest is followed by a keyed item"""
    for p in pats_of(ast, []):
        if p[0] == "pdict":
            seen = False
            for _, i in p[1]:
                if i[0] == "extra":
                    seen = True
                elif seen:
                    return True
    return False


WITNESS_AST = {      # the committed witnesses as abstract trees (the source text run is the one in known_findings.txt)
    SIG_SET_EXPR: X.let(X.pset([X.item(X.pexpr(X.string("a")))]), X.set_([X.string("b")]), N(1)),
    SIG_DICT_REST: X.let(X.pdict([(X.string("a"), X.item(X.pvar("x"))), (None, X.extra("r")), (X.string("b"), X.item(X.pvar("y")))]),
                         X.dict_([(X.string("a"), N(1)), (X.string("b"), N(2)), (X.string("c"), N(3))]), X.var("r")),
}


def exprs_core():
    """(e1, e2, ..) patterns: the value equal to the first / a later / no alternative, constants and (k) mixed, top level and nested"""
    out = []
    for tg in (N(1), N(2), N(3), X.string("a"), X.arr([N(1)])):
        for alts in ([N(1), N(2)], [N(2), N(1)], [X.var("k"), N(2)], [N(2), X.var("k")], [X.string("a"), X.arr([N(1)]), N(3)]):
            p = X.pexprs(alts)
            out.append(("exprs core", X.let(X.pvar("k"), N(1), X.condpat(tg, [(p, X.string("hit")), (X.pwild(), X.string("miss"))]))))
            out.append(("exprs core", X.let(X.pvar("k"), N(1), X.let(X.parr([X.item(X.pvar("x")), X.item(p)]), X.arr([N(7), tg]), X.var("x")))))
            out.append(("exprs core", X.let(X.pvar("k"), N(1), X.call(X.fn(X.ptup([("a", X.item(p)), ("", X.extra("r"))]), X.var("r")), X.tup([("a", tg), ("b", N(5))])))))
    return out


def dict_rest_core():
    """{k1: p, ...r, k2: q} with the rest first / in the middle / last, against dicts with and without further entries"""
    out = []
    A, B, C = X.string("a"), X.string("b"), X.string("c")
    ia, ib, ir = (A, X.item(X.pvar("x"))), (B, X.item(X.pvar("y"))), (None, X.extra("r"))
    for ents in ([ia, ir, ib], [ia, ib, ir], [ir, ia, ib], [ia, ir], [ir, ia]):
        if ents[0][0] is None:
            continue        # `{...r, ..}` is read as a set pattern by the parser
        for tg in (X.dict_([(A, N(1)), (B, N(2)), (C, N(3))]), X.dict_([(A, N(1)), (B, N(2))]), X.dict_([(A, N(1)), (C, N(3))])):
            body = X.tup([(z, X.var(z)) for z in sorted(pat_names(X.pdict(ents), set()))])
            out.append(("dict rest core", X.let(X.pdict(ents), tg, body)))
            out.append(("dict rest core", X.condpat(tg, [(X.pdict(ents), body), (X.pwild(), N(0))])))
    return out


def set_expr_core():
    """{item, ...t} / {item} / {item, x} with an item that is a string, a negative or fractional number or a parenthesised
    expression, against sets that do and do not contain its value"""
    out = []
    items = [(X.string("a"), X.string("b")), (N(-1), N(-2)), (N(1.5), N(2.5)), (X.binop("+", N(1), N(1)), N(3)),
             (X.arr([N(1)]), X.arr([N(2)])), (X.tup([("a", N(1))]), X.tup([("a", N(2))]))]
    for lit, other in items:
        for tg in (X.set_([lit, N(4)]), X.set_([other, N(4)])):
            out.append(("set expr item core", X.let(X.pset([X.item(X.pexpr(lit)), X.extra("t")]), tg, X.var("t"))))
            out.append(("set expr item core", X.condpat(tg, [(X.pset([X.item(X.pexpr(lit)), X.item(X.pvar("x"))]), X.var("x")), (X.pwild(), X.string("no"))])))
        for tg in (X.set_([lit]), X.set_([other])):
            out.append(("set expr item core", X.condpat(tg, [(X.pset([X.item(X.pexpr(lit))]), N(1)), (X.pwild(), N(0))])))
    return out


def gen_cases(rng, tier, dstats=None):
    out = []
    n = 450 if tier == "quick" else 6000
    for _ in range(n):
        v = rand_value(rng)
        if rng.random() < 0.1:      # set patterns get their own share
            v = X.set_([N(i) for i in rng.sample(range(5), rng.randrange(2, 5))])
        names = Names(rng)
        p = pattern_of(rng, v, names)
        while v[0] == "set" and v[1] and p[0] in ("pvar", "pwild") and rng.random() < 0.8:
            p = pattern_of(rng, v, names)
        if has_nondet(p):
            continue
        target = v if rng.random() < 0.55 else perturb(rng, v)
        bound = sorted(pat_names(p, set()))
        body = X.tup([(x, X.var(x)) for x in bound]) if bound else N(1)
        r = rng.random()
        if r < 0.5:
            out.append(("let", X.let(p, target, body)))
        elif r < 0.65:
            out.append(("call", X.call(X.fn(p, body), target)))
        else:
            v2 = rand_value(rng)
            n2 = Names(rng)
            n2.n = 50
            p2 = pattern_of(rng, v2, n2)
            if has_nondet(p2):
                continue
            b2 = sorted(pat_names(p2, set()))
            arms = [(p, X.tup([("arm", N(1))] + [(x, X.var(x)) for x in bound])),
                    (p2, X.tup([("arm", N(2))] + [(x, X.var(x)) for x in b2])),
                    (X.pwild(), N(0))]
            if rng.random() < 0.5:
                arms = [arms[1], arms[0], arms[2]]
            out.append(("cond", X.condpat(rng.choice([target, v2]), arms)))
    # enumerated core: [p1..pk, ...r, q1..qm] against arrays of every length around k+m (too short, exact, longer)
    for k in range(0, 3):
        for m in range(0, 3):
            for n in range(0, 5):
                if n < k + m - 2:
                    continue
                pre = [X.item(X.pvar("a%d" % i)) for i in range(k)]
                suf = [X.item(X.pvar("b%d" % i)) for i in range(m)]
                p = X.parr(pre + [X.extra("r")] + suf)
                names_ = ["a%d" % i for i in range(k)] + ["r"] + ["b%d" % i for i in range(m)]
                body = X.tup([(x, X.var(x)) for x in names_])
                target = X.arr([N(10 + i) for i in range(n)])
                if (k + m + n) % 2:
                    out.append(("rest core", X.let(p, target, body)))
                else:
                    out.append(("rest core", X.condpat(target, [(p, body), (X.pwild(), N(0))])))
    # enumerated core: a name repeated across nesting levels and as the ...rest of a tuple / array, agreeing and disagreeing
    V = X.var
    def it(p):
        return X.item(p)
    for x, y in (("x", "y"), ("a", "b"), ("n", "m"), ("v1", "k"), ("t", "u"), ("q", "p")):
        pats = [
            (X.parr([it(X.pvar(x)), it(X.parr([it(X.pvar(y)), it(X.pvar(x))]))]), [X.arr([N(1), X.arr([N(2), N(1)])]), X.arr([N(1), X.arr([N(2), N(3)])])]),
            (X.parr([it(X.parr([it(X.pvar(y)), it(X.pvar(x))])), it(X.pvar(x))]), [X.arr([X.arr([N(2), N(1)]), N(1)]), X.arr([X.arr([N(2), N(3)]), N(1)])]),
            (X.ptup([("a", it(X.pvar(x))), ("b", it(X.ptup([("c", it(X.pvar(y))), ("d", it(X.pvar(x)))])))]),
             [X.tup([("a", N(1)), ("b", X.tup([("c", N(2)), ("d", N(1))]))]), X.tup([("a", N(1)), ("b", X.tup([("c", N(2)), ("d", N(3))]))])]),
            (X.parr([it(X.pvar(x)), it(X.ptup([("p", it(X.pvar(y))), ("q", it(X.pvar(x)))]))]),
             [X.arr([N(1), X.tup([("p", N(2)), ("q", N(1))])]), X.arr([N(1), X.tup([("p", N(2)), ("q", N(0))])])]),
            (X.ptup([("a", it(X.pvar(x))), ("", X.extra(x))]), [X.tup([("a", X.tup([("b", N(2))])), ("b", N(2))]), X.tup([("a", N(1)), ("b", N(2))])]),
            (X.ptup([("a", it(X.pvar(y))), ("c", it(X.pvar(x))), ("", X.extra(x))]),
             [X.tup([("a", N(0)), ("c", X.tup([("b", N(2))])), ("b", N(2))]), X.tup([("a", N(0)), ("c", N(1)), ("b", N(2))])]),
            (X.parr([it(X.pvar(x)), X.extra(x)]), [X.arr([X.arr([N(2)]), N(2)]), X.arr([N(1), N(2)])]),
            (X.parr([it(X.pvar(x)), it(X.pvar(y)), it(X.parr([it(X.pvar(y)), it(X.parr([it(X.pvar(x))]))]))]),
             [X.arr([N(1), N(2), X.arr([N(2), X.arr([N(1)])])]), X.arr([N(1), N(2), X.arr([N(2), X.arr([N(5)])])]), X.arr([N(1), N(2), X.arr([N(7), X.arr([N(1)])])])]),
        ]
        for p, targets in pats:
            bound = sorted(pat_names(p, set()))
            body = X.tup([(z, V(z)) for z in bound])
            for tg in targets:
                out.append(("repeat core", X.let(p, tg, body)))
                out.append(("repeat core", X.condpat(tg, [(p, body), (X.pwild(), N(0))])))
                out.append(("repeat core", X.call(X.fn(p, body), tg)))
    # enumerated core: the _ arm first / in the middle of a cond (a later arm that also matches must not win), and
    # fallback items whose component is present with a falsy or a truthy value, or absent
    FALSY = [N(0), X.set_([]), X.arr([]), X.string(""), X.tup([]), N(5), X.set_([N(1)]), X.string("a")]
    for i, fv in enumerate(FALSY):
        tv = X.tup([("a", fv), ("b", N(1))])
        p1 = X.ptup([("a", X.item(X.pvar("x"), N(42))), ("b", X.item(X.pvar("y")))])
        p2 = X.ptup([("a", X.item(X.pexpr(N(7)), N(7))), ("b", X.item(X.pwild()))])
        p3 = X.ptup([("a", X.item(X.pvar("x"), N(1))), ("b", X.item(X.pvar("x")))])
        body = X.tup([("x", V("x")), ("y", V("y"))])
        out.append(("fallback core", X.let(p1, tv, body)))
        out.append(("fallback core", X.let(p1, X.tup([("b", N(1))]), body)))
        out.append(("fallback core", X.condpat(tv, [(p2, N(1)), (X.pwild(), N(2))])))
        out.append(("fallback core", X.condpat(tv, [(p3, V("x")), (X.pwild(), X.string("no"))])))
        out.append(("fallback core", X.call(X.fn(p1, body), tv)))
        out.append(("fallback core", X.let(X.parr([X.item(X.pvar("x")), X.item(X.pvar("y"), N(9))]), X.arr([N(1), fv]), body)))
        out.append(("fallback core", X.let(X.pdict([(X.string("a"), X.item(X.pvar("x"), N(42)))]), X.dict_([(X.string("a"), fv)]), V("x"))))
        out.append(("fallback core", X.let(X.parr([X.item(X.ptup([("a", X.item(X.pvar("x"), N(42)))]))]), X.arr([X.tup([("a", fv)])]), V("x"))))
        # cond with _ before other arms
        ctl = X.tup([("a", fv), ("b", N(2))])
        pa = X.ptup([("a", X.item(X.pvar("x"))), ("", X.extra(None))])
        out.append(("cond default core", X.condpat(ctl, [(X.pwild(), X.string("first")), (pa, V("x"))])))
        out.append(("cond default core", X.condpat(ctl, [(X.pexpr(N(99)), N(0)), (X.pwild(), X.string("mid")), (pa, V("x"))])))
        out.append(("cond default core", X.condpat(fv, [(X.pwild(), X.string("first")), (X.pexpr(fv), X.string("second"))])))
        out.append(("cond default core", X.condpat(fv, [(X.pvar("z"), X.tup([("z", V("z"))])), (X.pwild(), N(0)), (X.pexpr(fv), N(1))])))
    # deeply nested patterns: depth 3-5, ...rest at several levels, names repeated across levels, dynamic (k) patterns,
    # against the value itself or a near-miss at a random depth
    if dstats is None:
        dstats = {}
    dstats.update({"depth": {}, "rests": {}, "repeated_names": {}, "near_miss_depth": {}, "dynamic_expr_patterns": 0})
    out += deep_cases(rng, 420 if tier == "quick" else 5000, dstats)
    # the region of KF-C09-01 (and its committed witness)
    out += set_expr_core()
    out += dict_rest_core()
    out += exprs_core()
    # committed probes
    out += [("probe", X.let(X.parr([X.item(X.pvar("x")), X.item(X.pvar("x"))]), X.arr([N(1), X.string("1")]), X.var("x"))),
            ("probe", X.let(X.parr([X.item(X.pvar("a")), X.item(X.pvar("b"))]), X.arr([N(1), N(2)], 1), X.var("a"))),
            ("probe", X.let(X.parr([X.item(X.pvar("a")), X.item(X.pvar("b"))]), X.arr([N(1), None, N(2)]), X.var("a"))),
            ("probe", X.let(X.parr([X.item(X.pvar("x")), X.extra("r"), X.item(X.pvar("x"))]), X.arr([N(1), N(2), N(3), N(1)]), X.tup([("x", X.var("x")), ("r", X.var("r"))])))]
    return [{"id": i, "label": l, "ast": e} for i, (l, e) in enumerate(out)]


def main(tier, seed, replay=None):
    run = Run(PROP, tier, seed)
    vh, proof = prepare(PROP_FILES, thorough=(tier == "thorough"))
    rng = random.Random(seed)
    dstats = {}
    cases = evalcheck.replay_cases(replay) if replay else gen_cases(rng, tier, dstats)
    wits = []
    if not replay:
        for sig, wast in WITNESS_AST.items():
            f = run.finding_for(sig)
            if f and f.get("witness"):
                # the committed witness is run as the source text of known_findings.txt against the specification's answer
                w = {"id": len(cases), "label": "witness", "src": f["witness"], "coq": X.coq(wast), "ast": wast, "witness_of": f}
                cases.append(w)
                wits.append(w)
    outs, codes, fails = evalcheck.evaluate(vh, cases)
    for w in wits:
        if codes.get(w["id"]) in (0, 9):
            run.corr_breaks.append({"what": "open finding %s (%s) was not reproduced by its witness (fixed upstream? flip the entry)"
                                            % (w["witness_of"]["id"], w["witness_of"]["sig"]), "src": w["src"]})

    def sig_of(c):
        a = c.get("ast")
        if a is None:
            return None
        if in_set_expr_region(a):
            return SIG_SET_EXPR
        if in_dict_rest_region(a):
            return SIG_DICT_REST
        return None
    # matching vs non-matching is the property: error/no-error disagreements count as failures
    evalcheck.judge(run, cases, outs, codes, fails,
                    "bindings / selected cond arm / match failure vs matching by reconstruction (Properties/C09.v, Eval/Interp.v bind_pat)",
                    value_codes=(1, 2, 3, 4, 5), corr_codes=(6,), sig_of=sig_of)
    kinds = {}
    nmatch = 0
    for c in cases:
        kinds[c.get("label")] = kinds.get(c.get("label"), 0) + 1
        if (outs.get(c["id"]) or {}).get("st") == "ok":
            nmatch += 1
    evalcheck.stats(run, cases, outs, codes,
                    "random nested values (arrays, tuples, dicts, sets, numbers, strings) and patterns derived from them (names incl. repeated ones, _, literal and (expr) patterns, nested array/tuple/dict/set patterns (set patterns: literals with ...rest, literals with one name and exactly one / two or more members left over, literals only), ...rest at any position, trailing fallbacks) enumerated cores of cond with the _ arm first or in the middle followed by arms that also match, of fallback items whose component is present with a falsy value / present with a truthy value / absent (tuple, array, dict, nested, parameter), of names repeated across nesting levels and as the ...rest of a tuple or array (agreeing and disagreeing values, six name pairs, let / cond / parameter), an enumerated core of [p1..pk, ...r, q1..qm] (k, m <= 2) against arrays of every length from two short to longer; matched against the value itself or a near-miss of it (one extra / missing element, offset, hole, one component changed, wrong kind) in `let P = V; (names)`, `(\\\\P body)(V)` and `cond V {P1:.., P2:.., _:0}`",
                    {"form_histogram": kinds, "programs_that_matched": nmatch, "exhaustive": False,
                     "deep_stream": dstats})
    run.assumptions = ["patterns with more than one of (...rest | fallback) per level are rejected by the implementation as 'non-deterministic' and are not generated"]
    return run.finish(proof)
