"""C07: evaluation is deterministic across processes and hash seeds."""
import concurrent.futures
import random
from common import *
import expr as X
import evalcheck
from c12 import canon

PROP = "C07"
PROP_FILES = ["Properties/C07.v", "Check/EvalCheck.v"]
N = X.num


def big_set(rng, kind=None):
    """a collection of 9-24 members, so that the hashed trie (and the seeds) decide the enumeration order"""
    n = rng.randrange(9, 25)
    kind = kind or rng.choice(["nums", "tuples", "mixed", "strs", "dict", "rel", "nested"])
    if kind == "nums":
        return X.set_([N(i) for i in rng.sample(range(40), n)])
    if kind == "tuples":
        return X.set_([X.tup([("a", N(i)), ("b", N(i % 3))]) for i in rng.sample(range(40), n)])
    if kind == "mixed":
        return X.set_([N(i) if i % 3 else X.tup([("a", N(i))]) if i % 2 else X.set_([N(i)]) for i in rng.sample(range(60), n)])
    if kind == "strs":
        return X.set_([X.string("s%d" % i) for i in rng.sample(range(40), n)])
    if kind == "dict":
        return X.dict_([(N(i), N(i % 4)) for i in rng.sample(range(40), n)])
    if kind == "rel":
        return X.rel(["a", "b", "c"], [[N(i), N(i % 3), N(i % 2)] for i in rng.sample(range(40), n)])
    return X.set_([X.set_([N(i), N(i + 1)]) for i in rng.sample(range(40), n)])


def gen_cases(rng, tier):
    d = X.var(".")
    out = []
    n = 260 if tier == "quick" else 2500
    for _ in range(n):
        k = rng.random()
        if k < 0.12:
            out.append(("print", big_set(rng)))
        elif k < 0.24:
            s = big_set(rng, "nums")
            out.append(("map-collide", X.darrow(s, X.dotfn(X.binop("-", d, X.binop("*", N(3), X.cmpop("<:", d, X.set_([N(-1)]))) ) if False else
                                                            X.set_([X.cmpop(">", d, N(20))])))))
        elif k < 0.34:
            s = big_set(rng, "tuples")
            out.append(("nest", X.nest(["a"], "n", s)))
        elif k < 0.44:
            s = big_set(rng, "rel")
            out.append(("rank", X.rank(s, X.dotfn(X.tup([("r", X.dot(d, "a"))])))))
        elif k < 0.54:
            a, b = big_set(rng, "rel"), X.rel(["b", "z"], [[N(i), N(i + 10)] for i in range(3)])
            out.append(("join", X.join(rng.choice(["<&>", "<->", "-&-", "<--"]), a, b)))
        elif k < 0.62:
            s = big_set(rng, "tuples")
            out.append(("where", X.where(s, X.dotfn(X.cmpop("=", X.dot(d, "b"), N(1))))))
        elif k < 0.7:
            a, b = big_set(rng), big_set(rng)
            out.append(("setop", X.binop(rng.choice(["|", "&", "&~", "~~"]), a, b)))
        elif k < 0.78:
            s = big_set(rng, "nums")
            out.append(("orderby", ("orderby", s)))
        elif k < 0.86:
            s = big_set(rng, "dict")
            out.append(("dictmap", X.seqarrow(s, X.dotfn(X.binop("+", d, N(1))))))
        elif k < 0.93:
            ts = [X.tup([("k%d" % i, N(i)) for i in rng.sample(range(30), rng.randrange(9, 14))]) for _ in range(2)]
            out.append(("merge", X.binop("+>", ts[0], ts[1])))
        else:
            s = big_set(rng, "nums")
            out.append(("arrayify", X.darrow(s, X.dotfn(X.tup([("@", d), ("@item", X.set_([d]))])))))
    # multi-valued dicts and tuples ordered as wholes, several rank keys with ties, orderings with tied keys
    for _ in range(60 if tier == "quick" else 600):
        k = rng.random()
        s = big_set(rng, "nums")
        md = "(%s => (@: . %% 3, @value: .))" % X.src(s)
        if k < 0.2:
            out.append(("multidict", ("raw", md)))
        elif k < 0.35:
            out.append(("multidict|", ("raw", "(%s | {7})" % md)))
        elif k < 0.5:
            out.append(("multidict orderby", ("raw", "(%s orderby .)" % md)))
        elif k < 0.6:
            out.append(("orderby whole", ("orderby", big_set(rng, rng.choice(["tuples", "mixed", "strs", "nested", "dict", "rel"])))))
        else:      # (orderby / order with tied keys are exempt by the property's own text: not generated)
            r = big_set(rng, "rel")
            keys = [("r", X.dot(d, "b")), ("s", X.dot(d, "c"))] if rng.random() < 0.7 else [("r", X.dot(d, "b")), ("s", X.dot(d, "c")), ("t", X.dot(d, "a"))]
            out.append(("rank several keys", X.rank(r, X.dotfn(X.tup(keys)))))
    # set patterns against big sets (a surplus member must never be picked), unions holding a big dict, dicts of every size printed
    for _ in range(30 if tier == "quick" else 300):
        S = X.src(big_set(rng, "nums"))
        bigd = X.src(big_set(rng, "dict"))
        k = rng.random()
        if k < 0.25:
            out.append(("setpat name", ("raw", "(cond %s {{x_}: x_, {%s, x_}: x_, _: \"none\"})" % (S, rng.randrange(40)))))
        elif k < 0.4:
            out.append(("setpat rest", ("raw", "(cond %s {{%s, ...r_}: r_, {...r_}: r_})" % (S, rng.randrange(40)))))
        elif k < 0.55:
            out.append(("setpat let", ("raw", "(let {x_, ...} = %s; x_)" % S)))
        elif k < 0.75:
            out.append(("union with dict", ("raw", "(%s | {42})" % bigd)))
        elif k < 0.9:
            out.append(("union with dict text", ("raw", "$\"${%s with \"x\"}\"" % bigd)))
        else:
            out.append(("dict json", ("raw", "//encoding.json.encode(%s | {42})" % bigd)))
    # enumerated core: members that differ only in WHERE a hole / offset / empty item sits (near-miss pairs of every sequence kind),
    # inside a container of more than 8 members, printed, ordered and ranked: if the order does not separate two such members the
    # output follows the enumeration order
    NEAR = ["[1, , 2, 3]", "[1, 2, , 3]", "[1, , , 2]", "[1, , 2]", "[1, 2]", "(1\\[1, 2])", "[1, {}, 2]", "[{}, 1, 2]",
            '("abcd" without (@: 1, @char: 98))', '("abcd" without (@: 2, @char: 99))', '(1\\"abc")', '"abc"',
            "{1: [1, , 2]}", "{1: [1, 2, , 3], 2: 0}", "(a: [1, , 2, 3])", "(a: [1, 2, , 3])"]
    FILL = ", ".join("[%d]" % i for i in range(9))
    for i in range(len(NEAR)):
        for j in range(i + 1, len(NEAR)):
            if (i + j) % 3 and j != i + 1 and tier == "quick":
                continue
            S = "{%s, %s, %s}" % (NEAR[i], FILL, NEAR[j])
            out.append(("near-miss members", ("raw", "(p: %s, o: %s orderby ., r: (%s => (v: .)) rank (k: .v))" % (S, S, S))))
    # the committed witness of the open finding: superimposed array items keep "the last one written"
    out.append(("collide", X.darrow(X.set_([N(i) for i in range(1, 14)]), X.dotfn(X.tup([("@", N(0)), ("@item", X.var("."))])))))
    cases = []
    for i, (l, e) in enumerate(out):
        if isinstance(e, tuple) and e and e[0] == "orderby":
            cases.append({"id": i, "label": l, "src": "(%s orderby .)" % X.src(e[1]), "coq": None})
        elif isinstance(e, tuple) and e and e[0] == "raw":
            cases.append({"id": i, "label": l, "src": e[1], "coq": None})
        else:
            cases.append({"id": i, "label": l, "ast": e, "src": X.src(e), "coq": X.coq(e)})
    return cases


def main(tier, seed, replay=None):
    run = Run(PROP, tier, seed)
    vh, proof = prepare(PROP_FILES, thorough=(tier == "thorough"))
    rng = random.Random(seed)
    if replay:
        rp = json.load(open(replay))
        cases = [{"id": 0, "label": "replay", "src": rp["case"]["src"], "coq": rp["case"].get("coq")}]
    else:
        cases = gen_cases(rng, tier)
    K = 4 if tier == "quick" else 16
    seeds = [1000003 * (seed + 1) + 7919 * k for k in range(K)]
    reqs = [{"id": c["id"], "src": c["src"], "budget_ms": 8000} for c in cases]

    def one(s):
        return run_harness(vh, "eval", reqs, env={"VERIF_HASH_SEED": str(s)})[0]

    with concurrent.futures.ThreadPoolExecutor(max_workers=min(K, 8)) as ex:
        runs = list(ex.map(one, seeds))
    order_varies = 0
    for c in cases:
        obs = [r.get(c["id"]) or {"st": "missing"} for r in runs]
        sts = set(o.get("st") for o in obs)
        reprs = set(o.get("repr") for o in obs)
        rec = {"case": {"label": c["label"], "src": c["src"], "coq": c.get("coq"), "seeds": seeds},
               "observed": [{"seed": s, "st": o.get("st"), "repr": o.get("repr")} for s, o in zip(seeds, obs)][:6]}
        sig = "seq-collision" if c["label"] == "collide" else None
        if len(sts) > 1:
            rec["oracle"] = "the program succeeds under some hash seeds and fails under others"
            run.classify_failure(sig, rec)
            continue
        if sts == {"ok"}:
            if len(reprs) > 1:
                rec["oracle"] = "printed output differs between hash seeds"
                run.classify_failure(sig, rec)
                continue
            cans = set(json.dumps(canon(o["val"]), sort_keys=True) for o in obs)
            if len(cans) > 1:
                rec["oracle"] = "value differs between hash seeds"
                run.classify_failure(None, rec)
                continue
            if len(set(json.dumps(o["val"], sort_keys=True) for o in obs)) > 1:
                order_varies += 1       # the internal enumeration order really differed between the runs
    # the common value is also the one the reference semantics gives
    mcases = [c for c in cases if c.get("coq") and c["label"] != "collide"]
    first = runs[0]
    chunks = [mcases[i:i + 150] for i in range(0, len(mcases), 150)]
    codes = {}

    def do(ic):
        k, chunk = ic
        body = ["From Arrai Require Import Base.Val Spec.SetAlg Eval.Interp Check.EvalCheck.", "Definition cases : list ecase := ["]
        body.append(";\n".join("  {| e_id := %d; e_expr := %s; e_obs := %s |}" % (c["id"], c["coq"], evalcheck.obs_term(first.get(c["id"]))) for c in chunk))
        body.append("].\nDefinition R := Eval vm_compute in report cases.\nPrint R.")
        rc2, so, se = coq_eval("c07_cases_%d_%d" % (os.getpid(), k), "\n".join(body))
        return coq_report(so, "R"), se

    fails = []
    with concurrent.futures.ThreadPoolExecutor(max_workers=8) as ex:
        for (rep, se), chunk in zip(ex.map(do, enumerate(chunks)), chunks):
            if rep is None:
                fails.append(se[-1000:])
                continue
            for c in chunk:
                codes[c["id"]] = 0
            for cid, code in rep:
                codes[cid] = code
    evalcheck.judge(run, mcases, first, codes, fails, "value under hash seed %d vs the reference semantics" % seeds[0],
                    value_codes=(1, 2, 3), corr_codes=(4, 5, 6))
    labels = {}
    for c in cases:
        labels[c["label"]] = labels.get(c["label"], 0) + 1
    run.cov.update({"evaluations": len(cases) * K, "distinct_nontrivial": order_varies,
                    "rule": "programs of the data fragment each containing a set, dict, relation or tuple of 9-24 members (so that the hashed trie nodes and the seeds decide the enumeration order) feeding an order-sensitive consumer (printing of mixed-kind sets, => into colliding results, nest, rank, joins, where, set operators, orderby on distinct keys, >> over dicts, +> merges, array building); every program is evaluated in %d processes with %d different VERIF_HASH_SEED values and status, canonical value and printed bytes compared, plus the value against the reference interpreter; distinct non-trivial = programs whose raw enumeration order really differed between the seeds while value and output agreed" % (K, K),
                    "samples": [c["src"][:300] for c in cases[:4]], "seeds": seeds, "consumer_histogram": labels,
                    "programs": len(cases), "programs_with_observed_order_variation": order_varies, "exhaustive": False})
    run.assumptions = ["github.com/arr-ai/hash has no entropy other than its seeds (hook: internal/verifseed, build tag verif)",
                       "orderby/order with tied keys are exempt (the generator uses distinct keys)"]
    return run.finish(proof)
