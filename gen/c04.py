"""C04: join family, nest/unnest and rank obey their relational definitions."""
import concurrent.futures
import itertools
import random
from common import *
import expr as X
import evalcheck

PROP = "C04"
PROP_FILES = ["Properties/C04.v", "Check/EvalCheck.v", "Check/C04Check.v"]
N = X.num
JOINS = ["<&>", "<->", "-&-", "---", "-&>", "<&-", "-->", "<--"]
ALPHA = ["a", "b", "c", "@", "@item", "@char", "x"]


def rand_rel(rng, names, nrows, as_kind=None):
    rows = []
    for _ in range(nrows):
        rows.append([N(rng.randrange(3)) if n not in ("@char",) else N(97 + rng.randrange(3)) for n in names])
    kind = as_kind or rng.choice(["lit", "lit", "set", "setshuf", "darrow"])
    if kind == "lit" or not names:
        if not names:
            return X.true_()
        return X.rel(names, rows)
    if kind == "set":
        return X.set_([X.tup(list(zip(names, r))) for r in rows])
    if kind == "setshuf":
        sh = list(names)
        rng.shuffle(sh)
        return X.set_([X.tup([(n, r[names.index(n)]) for n in sh]) for r in rows])
    # computed: => over an index set
    d = X.var(".")
    return X.darrow(X.set_([N(i) for i in range(len(rows))]),
                    X.dotfn(X.call(X.arr([X.tup(list(zip(names, r))) for r in rows]), d)))


def keyed(rng):
    """arrays / strings / dicts used as binary relations"""
    return rng.choice([X.arr([N(rng.randrange(3)) for _ in range(rng.randrange(1, 4))], rng.choice([0, 0, 1])),
                       X.string("".join(rng.choice("abc") for _ in range(rng.randrange(1, 4)))),
                       X.dict_([(N(i), N(rng.randrange(3))) for i in range(rng.randrange(1, 3))]),
                       X.arr([N(1), None, N(2)])])


def join_built(rng, names):
    """a relation over names whose stored column order is a random permutation: a chain of <&> over
    one- or two-column literals (the product of 1-2 values a column)"""
    sh = list(names)
    rng.shuffle(sh)
    groups = []
    while sh:
        k = 1 if len(sh) == 1 or rng.random() < 0.7 else 2
        groups.append(sh[:k])
        sh = sh[k:]
    rels = [rand_rel(rng, g, rng.randrange(1, 3), "lit") for g in groups]
    e = rels[0]
    for r in rels[1:]:
        e = X.join("<&>", e, r)
    return e


def gen_cases(rng, tier):
    out = []
    n = 700 if tier == "quick" else 6000
    # enumerated core: a narrow relation over a, b, c stored in each of the six column orders (a chain of joins),
    # against a wide literal over a, b, c, d, under every operator and both operand orders
    for perm in itertools.permutations(["a", "b", "c"]):
        vals = {"a": [1, 2], "b": [2, 5], "c": [3]}
        narrow = X.rel([perm[0]], [[N(v)] for v in vals[perm[0]]])
        for nme in perm[1:]:
            narrow = X.join("<&>", narrow, X.rel([nme], [[N(v)] for v in vals[nme]]))
        wide = X.rel(["a", "b", "c", "d"], [[N(1), N(2), N(3), N(9)], [N(1), N(5), N(7), N(9)], [N(2), N(2), N(3), N(8)], [N(3), N(3), N(3), N(7)]])
        for op in JOINS:
            out.append(("core %s" % op, X.join(op, wide, narrow)))
            out.append(("core %s" % op, X.join(op, narrow, wide)))
    # enumerated core: several matching rows share one residue value (the result must still be a set), with the kept
    # attributes leading or trailing in the stored column order, under every operator and both operand orders
    for lcols, rcols in ((["a", "b"], ["b", "c"]), (["b", "a"], ["b", "c"]), (["a", "b"], ["c", "b"]), (["a", "x", "b"], ["b", "c"]), (["a", "b", "c"], ["b", "c", "d"])):
        lrows = {"a": [1, 1, 4], "b": [2, 3, 5], "x": [7, 7, 7], "c": [0, 0, 0]}
        rrows = {"b": [2, 3, 5], "c": [0, 0, 0], "d": [9, 9, 8]}
        L = X.rel(lcols, [[N(lrows[c][i]) for c in lcols] for i in range(3)])
        R = X.rel(rcols, [[N(rrows[c][i]) for c in rcols] for i in range(3)])
        for op in JOINS:
            out.append(("residue core %s" % op, X.join(op, L, R)))
            out.append(("residue core %s" % op, X.join(op, R, L)))
            out.append(("residue core count %s" % op, X.unop("count", X.join(op, L, R))))
    # wide x narrow with three or more common columns, either side join-built in any stored order
    WIDE = ["a", "b", "c", "d", "e"]
    for _ in range(120 if tier == "quick" else 1200):
        wn = rng.sample(WIDE, rng.randrange(3, 6))
        nn = rng.sample(wn, rng.randrange(3, len(wn) + 1)) if rng.random() < 0.8 else rng.sample(WIDE, 3)
        wide = rand_rel(rng, wn, rng.randrange(2, 5), rng.choice(["lit", "setshuf"])) if rng.random() < 0.6 else join_built(rng, wn)
        narrow = join_built(rng, nn) if rng.random() < 0.8 else rand_rel(rng, nn, rng.randrange(1, 4), "lit")
        op = rng.choice(JOINS + ["-&>", "<&-"])
        a, b = (wide, narrow) if rng.random() < 0.5 else (narrow, wide)
        out.append(("wide/narrow %s" % op, X.join(op, a, b)))
    if tier == "thorough":
        # exhaustive heading partitions over {a,b,c}: left-only x common x right-only, both stored orders
        for la in [(), ("a",), ("a", "b")]:
            for co in [(), ("c",), ("c", "x")]:
                for ra in [(), ("b",) if "b" not in la else ("@",), ("@", "@item")]:
                    ln, rn = list(la + co), list(co + ra)
                    for op in JOINS:
                        for rev in (False, True):
                            l2 = list(reversed(ln)) if rev else ln
                            out.append(("join %s" % op, X.join(op, rand_rel(rng, l2, 3, "lit"), rand_rel(rng, rn, 3, rng.choice(["lit", "set"])))))
    for _ in range(n):
        k = rng.random()
        if k < 0.62:
            names = rng.sample(ALPHA, rng.randrange(0, 4))
            others = rng.sample(ALPHA, rng.randrange(0, 4))
            a = rand_rel(rng, names, rng.randrange(1, 4))
            b = rand_rel(rng, others, rng.randrange(1, 4))
            r = rng.random()
            if r < 0.15:
                a = keyed(rng)
            elif r < 0.3:
                b = keyed(rng)
            elif r < 0.4:   # a join-built operand (stored heading order = left ++ right, not sorted)
                a = X.join("<&>", rand_rel(rng, ["c"], 2, "lit"), rand_rel(rng, ["a"], 2, "lit"))
                b = rand_rel(rng, rng.choice([["a", "c"], ["a"], ["c", "b"]]), 2)
            op = rng.choice(JOINS)
            e = X.join(op, a, b)
            if rng.random() < 0.15:
                e = X.join(rng.choice(JOINS), e, rand_rel(rng, rng.sample(ALPHA[:4], rng.randrange(1, 3)), 2))
            out.append(("join %s" % op, e))
        elif k < 0.8:
            names = rng.sample(["a", "b", "c", "@", "x"], rng.randrange(1, 4))
            a = rand_rel(rng, names, rng.randrange(1, 5))
            sub = rng.sample(names, rng.randrange(1, len(names) + (1 if rng.random() < 0.25 else 0)) if len(names) > 1 else 1)
            r = rng.random()
            if r < 0.6:
                out.append(("nest", X.nest(sub, "n", a, inv=rng.random() < 0.3)))
            else:
                out.append(("snest", X.single_nest(rng.choice(names), a)))
        elif k < 0.9:
            names = rng.sample(["a", "b", "c"], rng.randrange(1, 4))
            a = rand_rel(rng, names, rng.randrange(1, 5))
            d = X.var(".")
            key = X.tup([("r", X.dot(d, names[0]))] + ([("s", X.unop("-", X.dot(d, names[-1])))] if rng.random() < 0.4 else []))
            out.append(("rank", X.rank(a, X.dotfn(key))))
        else:   # join-built relations inside other contexts (equality, membership, set algebra)
            j = X.join("<&>", rand_rel(rng, ["b"], 2, "lit"), rand_rel(rng, ["a"], 2, "lit"))
            lit = rand_rel(rng, ["a", "b"], 3, "lit")
            ctx = rng.choice(["eq", "inter", "diff", "union", "member", "big"])
            if ctx == "eq":
                out.append(("ctx eq", X.cmpop("=", X.binop("&", j, lit), X.binop("&", lit, j))))
            elif ctx == "inter":
                out.append(("ctx &", X.binop("&", j, lit)))
            elif ctx == "diff":
                out.append(("ctx &~", X.binop("&~", lit, j)))
            elif ctx == "union":
                out.append(("ctx |", X.unop("count", X.binop("|", j, lit))))
            elif ctx == "member":
                out.append(("ctx <:", X.cmpop("<:", j, X.set_([X.join("<&>", rand_rel(rng, ["a"], 2, "lit"), rand_rel(rng, ["b"], 2, "lit")), N(1)]))))
            else:  # a set with more than 8 members so that hashing decides membership
                j1 = X.join("<&>", X.rel(["b"], [[N(1)]]), X.rel(["a"], [[N(2)]]))
                l1 = X.rel(["a", "b"], [[N(2), N(1)]])
                filler = [X.set_([N(100 + i)]) for i in range(12)]
                out.append(("ctx bigset", X.unop("count", X.set_(filler + [j1, l1]))))
                out.append(("ctx bigdict", X.safecall(X.dict_([(f, N(0)) for f in filler] + [(l1, N(1))]), j1, N(-1))))
    return [{"id": i, "label": l, "ast": e} for i, (l, e) in enumerate(out)]


# ---------- the positional join engine against its transcription (Rep/RelJoin.v) ----------

def stored(order, names, rows):
    """a relation over `names` with the given rows whose *stored* heading is `order`: a chain of <&> over one-column
    literals fixes the stored column order (each join appends the right operand's columns), `<&-` against the
    literal keeps that heading and selects the rows"""
    cols = {n: [] for n in names}
    for r in rows:
        for n, v in zip(names, r):
            if v not in cols[n]:
                cols[n].append(v)
    e = X.rel([order[0]], [[v] for v in cols[order[0]]])
    for n in order[1:]:
        e = X.join("<&>", e, X.rel([n], [[v] for v in cols[n]]))
    return X.join("<&-", e, X.rel(names, rows))


def reljoin_core():
    out = []
    L = [[N(1), N(2), N(3)], [N(1), N(5), N(3)], [N(2), N(2), N(3)], [N(4), N(4), N(4)]]
    rights = [
        ("a", X.rel(["a"], [[N(1)], [N(9)]])),
        ("ba", stored(["b", "a"], ["a", "b"], [[N(1), N(2)], [N(2), N(2)], [N(7), N(7)]])),
        ("ab", X.rel(["a", "b"], [[N(1), N(2)], [N(2), N(2)], [N(7), N(7)]])),
        ("cd", X.rel(["c", "d"], [[N(3), N(0)], [N(3), N(1)], [N(8), N(0)]])),
        ("d", X.rel(["d"], [[N(0)], [N(1)]])),
        ("cab", stored(["c", "a", "b"], ["a", "b", "c"], [[N(1), N(2), N(3)], [N(2), N(2), N(3)], [N(0), N(0), N(0)]])),
        ("dcba", stored(["d", "c", "b", "a"], ["a", "b", "c", "d"], [[N(1), N(2), N(3), N(0)], [N(1), N(5), N(3), N(1)], [N(9), N(9), N(9), N(9)]])),
        ("bd", stored(["d", "b"], ["b", "d"], [[N(2), N(0)], [N(2), N(1)], [N(6), N(0)]])),
    ]
    for perm in itertools.permutations(["a", "b", "c"]):
        left = stored(list(perm), ["a", "b", "c"], L)
        for rn, right in rights:
            for op in JOINS:
                out.append(("core %s x %s" % ("".join(perm), rn), op, left, right))
                out.append(("core %s x %s" % (rn, "".join(perm)), op, right, left))
    # results whose heading is (@, @item | @char | @byte | @value) in either stored order, and near misses
    for k, v in (("@item", 5), ("@char", 97), ("@byte", 65), ("@value", 5), ("x", 5)):
        at1 = X.rel(["@"], [[N(0)], [N(1)]])
        k1 = X.rel([k], [[N(v)], [N(v + 1)]] if k == "x" else [[N(v)]])
        atj = X.rel(["@", "j"], [[N(0), N(1)], [N(1), N(1)], [N(2), N(3)]])
        kj = X.rel(["j", k], [[N(1), N(v)], [N(3), N(v + 1)], [N(4), N(v)]])
        for op in ("<&>", "<->"):
            for a, b in ((at1, k1), (k1, at1), (atj, kj), (kj, atj)):
                out.append(("sugar core %s" % k, op, a, b))
        out.append(("sugar core3 %s" % k, "<&>", atj, kj))
        out.append(("sugar core3 %s" % k, "-&>", atj, stored([k, "@"], ["@", k], [[N(0), N(v)], [N(2), N(v)]])))
        out.append(("sugar core3 %s" % k, "<&-", stored([k, "@"], ["@", k], [[N(0), N(v)], [N(2), N(v)]]), atj))
    return out


def generic_core():
    """the generic engine: arrays, strings, dicts, byte arrays, offset / sparse arrays and Relations with an @ column against each
    other and against plain Relations, under every operator"""
    ops = [X.arr([N(5), N(6)]), X.arr([N(5), None, N(7)]), X.arr([N(1)], 2), X.string("ab"), X.dict_([(N(0), N(5)), (N(3), N(6))]),
           X.bytes_([65, 66]), X.rel(["@", "x"], [[N(0), N(5)], [N(1), N(9)]]), X.rel(["x"], [[N(5)], [N(6)]]),
           X.rel(["@item", "y"], [[N(5), N(1)], [N(7), N(2)]]), X.rel(["@"], [[N(0)], [N(3)]])]
    out = []
    for i, a in enumerate(ops):
        for j, b in enumerate(ops):
            if i >= 6 and j >= 6:
                continue          # Relation x Relation: the positional engine
            for op in JOINS:
                out.append(("generic core", op, a, b))
    return out


def reljoin_random(rng, n):
    out = []
    AL = ["a", "b", "c", "d", "@", "@item", "x"]

    def cell(nme):
        r = rng.random()
        if nme == "@":
            return N(rng.randrange(3))
        if r < 0.8:
            return N(rng.randrange(3))
        return rng.choice([X.set_([N(1)]), X.tup([("k", N(rng.randrange(2)))]), X.string("ab"), N(0.5), X.set_([])])

    def operand(names, like=None):
        """rows over names; when `like` (rows of the other operand, as dicts) is given most rows copy its values on the
        shared attributes, so that the operands really join"""
        names = sorted(names)
        rows = []
        for _ in range(rng.randrange(1, 5)):
            src = rng.choice(like) if like and rng.random() < 0.75 else {}
            rows.append([src[nm] if nm in src else cell(nm) for nm in names])
        dicts = [dict(zip(names, r)) for r in rows]
        r = rng.random()
        if r < 0.25 or len(names) == 0:
            return X.rel(names, rows), dicts
        order = list(names)
        rng.shuffle(order)
        return stored(order, names, rows), dicts

    for _ in range(n):
        ln = rng.sample(AL, rng.randrange(1, 5))
        r = rng.random()
        if r < 0.25:
            rn = rng.sample(ln, rng.randrange(1, len(ln) + 1))                      # right inside left
        elif r < 0.4:
            rn = list(set(ln + rng.sample(AL, rng.randrange(1, 3))))                 # left inside right
        elif r < 0.5:
            rn = list(ln)                                                            # same heading
        else:
            rn = rng.sample(AL, rng.randrange(1, 5))
        a, da = operand(ln)
        b, _ = operand(rn, like=da)
        if rng.random() < 0.2:      # an operand that is itself the result of another operator
            a = X.join(rng.choice(["<->", "<&>", "-->", "<--", "-&-"]), a, operand(rng.sample(AL, rng.randrange(1, 4)), like=da)[0])
        out.append(("random", rng.choice(JOINS), a, b))
    return out


def rel_term(o):
    rows = []
    for r in o["rows"]:
        cells = [val_term(c) for c in r]
        if any(c is None for c in cells):
            return None
        rows.append("[" + "; ".join(cells) + "]")
    return "{| r_attrs := [%s]; r_p := [%s]%%nat; r_rows := [%s] |}" % (
        "; ".join(name_term(a) for a in o["attrs"]), "; ".join(str(i) for i in o["p"]), "; ".join(rows))


RJ_TEXT = {2: "an operand breaks the representation invariant assumed by C04_positional_join_refines_spec (distinct names, projector a permutation, rows of the heading's width, no duplicate row, not empty)",
           3: "the transcription of Relation.Join (Rep/RelJoin.v) panics where the implementation answers",
           4: "the transcription's result differs from the implementation's",
           5: "the result's representation class (EmptySet / TrueSet / Relation / other) differs from the transcription's",
           6: "the stored heading or projector of the resulting Relation differs from the transcription's",
           7: "Count() of the result differs from the transcription's number of rows"}
MODE_NAMES = {0: "--- JoinIfCommonExist", 1: "joinOneSide(left) 1", 3: "joinOneSide(left) 3", 4: "joinOneSide(right) 4", 6: "joinOneSide(right) 6",
              2: "JoinCommonOnly", 5: "JoinKeepEverything 5", 7: "JoinKeepEverything 7", 9: "panic"}


def run_reljoin(run, vh, items, id0=0):
    """items: (label, op, a_ast | a_src, b_ast | b_src)"""
    reqs = []
    for i, (label, op, a, b) in enumerate(items):
        reqs.append({"id": id0 + i, "label": label, "op": op, "a": a if isinstance(a, str) else X.src(a), "b": b if isinstance(b, str) else X.src(b)})
    outs, rc, err = run_harness(vh, "reljoin", reqs)
    cases, skipped, hist, gcases, ghist = [], {}, {}, [], {}
    for q in reqs:
        o = outs.get(q["id"]) or {"st": "missing"}
        rec = {"case": {"label": q["label"], "reljoin": {"a": q["a"], "b": q["b"], "op": q["op"]}, "src": "(%s) %s (%s)" % (q["a"], q["op"], q["b"])}, "observed": o}
        st = o.get("st")
        if st == "skip":
            skipped[o.get("why", "?")[:60]] = skipped.get(o.get("why", "?")[:60], 0) + 1
            continue
        if o.get("generic"):
            # the generic engine: operands by their members; an error is an observable (not a relation)
            if st not in ("ok", "err"):
                rec["oracle"] = "a join is specified (Properties/C04.v) but the implementation does not answer (%s)" % st
                run.classify_failure("sugar-tuple-ill-typed" if o.get("site") == "rel:NewTuple" else None, rec)
                continue
            ga, gb = val_term(o["ga"]), val_term(o["gb"])
            gv = "None" if st == "err" else (val_term(o["res"]["val"]) if evalcheck.counts_ok(o["res"]["val"]) else None)
            if ga is None or gb is None or gv is None:
                skipped["value outside the model"] = skipped.get("value outside the model", 0) + 1
                continue
            gcases.append((q, rec, "{| g_id := %d; g_op := %s; g_a := %s; g_b := %s; g_obs := %s |}" % (
                q["id"], X.JOINOPS[q["op"]], ga, gb, gv if gv == "None" else "(Some %s)" % gv)))
            ghist[o["generic"]] = ghist.get(o["generic"], 0) + 1
            continue
        if st != "ok":
            rec["oracle"] = "a join of two relations is specified (Properties/C04.v) but the implementation does not answer (%s)" % st
            run.classify_failure(None, rec)
            continue
        ta, tb = (None if o["a"].get("bad") else rel_term(o["a"])), (None if o["b"].get("bad") else rel_term(o["b"]))
        res = o["res"]
        tv = val_term(res["val"]) if evalcheck.counts_ok(res["val"]) else None
        if o["a"].get("bad") or o["b"].get("bad") or res.get("bad"):
            run.corr_breaks.append({"what": "the stored layout of a Relation could not be read (harness/c04.go): %s" % (o["a"].get("bad") or o["b"].get("bad") or res.get("bad")), **rec})
            continue
        if ta is None or tb is None or tv is None:
            skipped["value outside the model"] = skipped.get("value outside the model", 0) + 1
            continue
        cases.append((q, rec, "{| j_id := %d; j_op := %s; j_a := %s; j_b := %s; j_cls := %d%%nat; j_attrs := [%s]; j_p := [%s]%%nat; j_count := %d%%nat; j_val := %s |}" % (
            q["id"], X.JOINOPS[q["op"]], ta, tb, res["cls"], "; ".join(name_term(a) for a in res.get("attrs", [])),
            "; ".join(str(i) for i in res.get("p", [])), res["val"].get("c", 0), tv)))
        key = "%s -> %s" % ("sorted" if o["a"]["attrs"] == sorted(o["a"]["attrs"]) and o["b"]["attrs"] == sorted(o["b"]["attrs"]) else "unsorted stored heading", res["type"])
        hist[key] = hist.get(key, 0) + 1
    chunks = [cases[i:i + 300] for i in range(0, len(cases), 300)]
    modes, agreed = {}, 0

    def do(ic):
        k, chunk = ic
        body = ["From Arrai Require Import Base.Val Spec.SetAlg Eval.Interp Rep.RelJoin Check.C04Check.",
                "Definition cases : list jcase := [", ";\n".join("  " + c[2] for c in chunk),
                "].\nDefinition R := Eval vm_compute in report04 cases.\nPrint R.\nDefinition M := Eval vm_compute in modes04 cases.\nPrint M."]
        rc2, so, se = coq_eval("c04_rj_%d_%d" % (os.getpid(), k), "\n".join(body))
        return coq_report(so, "R"), coq_report(so, "M"), se

    with concurrent.futures.ThreadPoolExecutor(max_workers=8) as ex:
        for (rep, md, se), chunk in zip(ex.map(do, enumerate(chunks)), chunks):
            if rep is None or md is None:
                run.corr_breaks.append({"what": "the transcription of the join engine could not be evaluated (Check/C04Check.v)", "log": se[-1500:]})
                continue
            byid = {c[0]["id"]: c for c in chunk}
            for cid, m in md:
                modes[MODE_NAMES.get(m, str(m))] = modes.get(MODE_NAMES.get(m, str(m)), 0) + 1
            agreed += len(chunk) - len(rep)
            for cid, code in rep:
                q, rec, _ = byid[cid]
                if code >= 100:
                    rec["oracle"] = "join result holding two items at one index of a sequence (code %d)" % (code - 100)
                    run.classify_failure("seq-collision", rec)
                elif code == 1:
                    rec["oracle"] = "the result of the join is not the set of combinations of agreeing rows of the operands as stored (join_data on abs A, abs B; Properties/C04.v)"
                    run.classify_failure(None, rec)
                else:
                    run.corr_breaks.append({"what": "C04_positional_join_refines_spec no longer describes the implementation: " + RJ_TEXT.get(code, str(code)), **rec})
    gagreed = 0

    def dog(ic):
        k, chunk = ic
        body = ["From Arrai Require Import Base.Val Spec.SetAlg Eval.Interp Rep.RelJoin Rep.GenJoin Check.C04Check.",
                "Definition cases : list gcase := [", ";\n".join("  " + c[2] for c in chunk),
                "].\nDefinition R := Eval vm_compute in reportG cases.\nPrint R."]
        rc2, so, se = coq_eval("c04_gj_%d_%d" % (os.getpid(), k), "\n".join(body))
        return coq_report(so, "R"), se

    gchunks = [gcases[i:i + 300] for i in range(0, len(gcases), 300)]
    with concurrent.futures.ThreadPoolExecutor(max_workers=8) as ex:
        for (rep, se), chunk in zip(ex.map(dog, enumerate(gchunks)), gchunks):
            if rep is None:
                run.corr_breaks.append({"what": "the transcription of GenericJoin could not be evaluated (Check/C04Check.v)", "log": se[-1500:]})
                continue
            byid = {c[0]["id"]: c for c in chunk}
            gagreed += len(chunk) - len(rep)
            for cid, code in rep:
                q, rec, _ = byid[cid]
                if code >= 100:
                    rec["oracle"] = "generic join over a sequence holding two items at one index (code %d)" % (code - 100)
                    run.classify_failure("seq-collision", rec)
                elif code == 1:
                    rec["oracle"] = "the result of the join (generic engine) is not the set of combinations of agreeing members of the operands (join_data; Properties/C04.v)"
                    run.classify_failure(None, rec)
                else:
                    run.corr_breaks.append({"what": "C04_generic_join_is_the_specification_join no longer describes the implementation: " + {3: "the transcription of GenericJoin (Rep/GenJoin.v) hands a nil tuple to the set builder", 4: "the transcription's result differs from the implementation's"}.get(code, str(code)), **rec})
    return {"generic_compared": len(gcases), "generic_agreed": gagreed, "generic_operand_histogram": ghist,
            "reljoin_cases": len(items), "reljoin_compared": len(cases), "reljoin_agreed": agreed, "reljoin_skipped": skipped,
            "reljoin_strategy_histogram": modes, "reljoin_layout_histogram": hist}


def main(tier, seed, replay=None):
    run = Run(PROP, tier, seed)
    vh, proof = prepare(PROP_FILES, thorough=(tier == "thorough"))
    rng = random.Random(seed)
    rj_items = None
    if replay:
        rc0 = (json.load(open(replay)).get("case") or {}).get("reljoin")
        if rc0:
            rj_items = [("replay", rc0["op"], rc0["a"], rc0["b"])]
    cases = ([] if rj_items else evalcheck.replay_cases(replay)) if replay else gen_cases(rng, tier)
    if not replay:
        rj_items = reljoin_core() + generic_core() + reljoin_random(random.Random(seed * 7919 + 4), 300 if tier == "quick" else 4000)
    rj_cov = run_reljoin(run, vh, rj_items) if rj_items else {}
    outs, codes, fails = evalcheck.evaluate(vh, cases)
    evalcheck.judge(run, cases, outs, codes, fails,
                    "join / nest / rank result vs the set-comprehension definition (Properties/C04.v, Eval/Interp.v)",
                    value_codes=(1, 2, 3), corr_codes=(4, 5, 6))
    ops = {}
    for c in cases:
        ops[c.get("label")] = ops.get(c.get("label"), 0) + 1
    evalcheck.stats(run, cases, outs, codes,
                    "pairs of relations over the attribute alphabet {a,b,c,x,@,@item,@char} (0-3 attributes a side, any overlap, 1-3 rows over 3 atoms) in the forms relation literal / set of tuples / tuples with shuffled attribute order / computed by => / join-built (stored heading not sorted) / arrays, strings and dicts used as binary relations, x the eight join operators, incl. joins of join results; an enumerated core (a relation over a, b, c stored in each of the six column orders x a wide literal x 8 operators x both operand orders); wide (3-5 columns over a..e) against narrow relations with three or more common columns, either side a chain of joins with any stored column order; nest |..|n, nest ~|..|n, single-attribute nest (relations of one to three attributes, nesting some or all of them); rank with one or two keys; join-built relations inside =, &, &~, |, <:, sets and dicts of more than 8 members"
                    + ("; thorough adds every heading partition (left-only x common x right-only, both stored orders) x 8 operators" if tier == "thorough" else ""),
                    {"operator_histogram": ops, "exhaustive": False})
    run.cov.update(rj_cov)
    run.cov["rule"] += "; positional engine stream: pairs of Relations (stored heading in any column order, obtained by chains of joins; heading pairs disjoint / overlapping / nested / equal; @-names incl. the re-sugared (@, @item|@char|@byte|@value) results) x 8 operators, the transcription Rep/RelJoin.v run in Coq on the stored layout read off the operands (AttrsName(), projector, rows) and compared with the implementation's result on denotation, Count(), representation class and stored heading; generic engine stream: arrays (dense, sparse, offset), strings, dicts, byte arrays and Relations with an @ column against each other and against plain Relations x 8 operators, the transcription Rep/GenJoin.v run in Coq on the members of both operands and compared with the implementation's value or error"
    run.assumptions = ["rank keys are numbers (other keys are ordered by the Go order, see C06)"]
    return run.finish(proof)
