"""C04: join family, nest/unnest and rank obey their relational definitions."""
import itertools
import random
from common import *
import expr as X
import evalcheck

PROP = "C04"
PROP_FILES = ["Properties/C04.v", "Check/EvalCheck.v"]
N = X.num
JOINS = ["<&>", "<->", "-&-", "---", "-&>", "<&-", "-->", "<--"]
ALPHA = ["a", "b", "c", "@", "@item", "@char", "x"]


def rand_rel(rng, names, nrows, as_kind=None):
    rows = []
    for _ in range(nrows):
        rows.append([N(rng.randrange(3)) if n not in ("@char",) else N(97 + rng.randrange(3)) for n in names])
    kind = as_kind or rng.choice(["lit", "lit", "set", "setshuf", "darrow"])
    if kind == "lit" or not names:
        if not names:
            return X.true_()
        return X.rel(names, rows)
    if kind == "set":
        return X.set_([X.tup(list(zip(names, r))) for r in rows])
    if kind == "setshuf":
        sh = list(names)
        rng.shuffle(sh)
        return X.set_([X.tup([(n, r[names.index(n)]) for n in sh]) for r in rows])
    # computed: => over an index set
    d = X.var(".")
    return X.darrow(X.set_([N(i) for i in range(len(rows))]),
                    X.dotfn(X.call(X.arr([X.tup(list(zip(names, r))) for r in rows]), d)))


def keyed(rng):
    """arrays / strings / dicts used as binary relations"""
    return rng.choice([X.arr([N(rng.randrange(3)) for _ in range(rng.randrange(1, 4))], rng.choice([0, 0, 1])),
                       X.string("".join(rng.choice("abc") for _ in range(rng.randrange(1, 4)))),
                       X.dict_([(N(i), N(rng.randrange(3))) for i in range(rng.randrange(1, 3))]),
                       X.arr([N(1), None, N(2)])])


def join_built(rng, names):
    """a relation over names whose stored column order is a random permutation: a chain of <&> over
    one- or two-column literals (the product of 1-2 values a column)"""
    sh = list(names)
    rng.shuffle(sh)
    groups = []
    while sh:
        k = 1 if len(sh) == 1 or rng.random() < 0.7 else 2
        groups.append(sh[:k])
        sh = sh[k:]
    rels = [rand_rel(rng, g, rng.randrange(1, 3), "lit") for g in groups]
    e = rels[0]
    for r in rels[1:]:
        e = X.join("<&>", e, r)
    return e


def gen_cases(rng, tier):
    out = []
    n = 700 if tier == "quick" else 6000
    # enumerated core: a narrow relation over a, b, c stored in each of the six column orders (a chain of joins),
    # against a wide literal over a, b, c, d, under every operator and both operand orders
    for perm in itertools.permutations(["a", "b", "c"]):
        vals = {"a": [1, 2], "b": [2, 5], "c": [3]}
        narrow = X.rel([perm[0]], [[N(v)] for v in vals[perm[0]]])
        for nme in perm[1:]:
            narrow = X.join("<&>", narrow, X.rel([nme], [[N(v)] for v in vals[nme]]))
        wide = X.rel(["a", "b", "c", "d"], [[N(1), N(2), N(3), N(9)], [N(1), N(5), N(7), N(9)], [N(2), N(2), N(3), N(8)], [N(3), N(3), N(3), N(7)]])
        for op in JOINS:
            out.append(("core %s" % op, X.join(op, wide, narrow)))
            out.append(("core %s" % op, X.join(op, narrow, wide)))
    # enumerated core: several matching rows share one residue value (the result must still be a set), with the kept
    # attributes leading or trailing in the stored column order, under every operator and both operand orders
    for lcols, rcols in ((["a", "b"], ["b", "c"]), (["b", "a"], ["b", "c"]), (["a", "b"], ["c", "b"]), (["a", "x", "b"], ["b", "c"]), (["a", "b", "c"], ["b", "c", "d"])):
        lrows = {"a": [1, 1, 4], "b": [2, 3, 5], "x": [7, 7, 7], "c": [0, 0, 0]}
        rrows = {"b": [2, 3, 5], "c": [0, 0, 0], "d": [9, 9, 8]}
        L = X.rel(lcols, [[N(lrows[c][i]) for c in lcols] for i in range(3)])
        R = X.rel(rcols, [[N(rrows[c][i]) for c in rcols] for i in range(3)])
        for op in JOINS:
            out.append(("residue core %s" % op, X.join(op, L, R)))
            out.append(("residue core %s" % op, X.join(op, R, L)))
            out.append(("residue core count %s" % op, X.unop("count", X.join(op, L, R))))
    # wide x narrow with three or more common columns, either side join-built in any stored order
    WIDE = ["a", "b", "c", "d", "e"]
    for _ in range(120 if tier == "quick" else 1200):
        wn = rng.sample(WIDE, rng.randrange(3, 6))
        nn = rng.sample(wn, rng.randrange(3, len(wn) + 1)) if rng.random() < 0.8 else rng.sample(WIDE, 3)
        wide = rand_rel(rng, wn, rng.randrange(2, 5), rng.choice(["lit", "setshuf"])) if rng.random() < 0.6 else join_built(rng, wn)
        narrow = join_built(rng, nn) if rng.random() < 0.8 else rand_rel(rng, nn, rng.randrange(1, 4), "lit")
        op = rng.choice(JOINS + ["-&>", "<&-"])
        a, b = (wide, narrow) if rng.random() < 0.5 else (narrow, wide)
        out.append(("wide/narrow %s" % op, X.join(op, a, b)))
    if tier == "thorough":
        # exhaustive heading partitions over {a,b,c}: left-only x common x right-only, both stored orders
        for la in [(), ("a",), ("a", "b")]:
            for co in [(), ("c",), ("c", "x")]:
                for ra in [(), ("b",) if "b" not in la else ("@",), ("@", "@item")]:
                    ln, rn = list(la + co), list(co + ra)
                    for op in JOINS:
                        for rev in (False, True):
                            l2 = list(reversed(ln)) if rev else ln
                            out.append(("join %s" % op, X.join(op, rand_rel(rng, l2, 3, "lit"), rand_rel(rng, rn, 3, rng.choice(["lit", "set"])))))
    for _ in range(n):
        k = rng.random()
        if k < 0.62:
            names = rng.sample(ALPHA, rng.randrange(0, 4))
            others = rng.sample(ALPHA, rng.randrange(0, 4))
            a = rand_rel(rng, names, rng.randrange(1, 4))
            b = rand_rel(rng, others, rng.randrange(1, 4))
            r = rng.random()
            if r < 0.15:
                a = keyed(rng)
            elif r < 0.3:
                b = keyed(rng)
            elif r < 0.4:   # a join-built operand (stored heading order = left ++ right, not sorted)
                a = X.join("<&>", rand_rel(rng, ["c"], 2, "lit"), rand_rel(rng, ["a"], 2, "lit"))
                b = rand_rel(rng, rng.choice([["a", "c"], ["a"], ["c", "b"]]), 2)
            op = rng.choice(JOINS)
            e = X.join(op, a, b)
            if rng.random() < 0.15:
                e = X.join(rng.choice(JOINS), e, rand_rel(rng, rng.sample(ALPHA[:4], rng.randrange(1, 3)), 2))
            out.append(("join %s" % op, e))
        elif k < 0.8:
            names = rng.sample(["a", "b", "c", "@", "x"], rng.randrange(1, 4))
            a = rand_rel(rng, names, rng.randrange(1, 5))
            sub = rng.sample(names, rng.randrange(1, len(names) + (1 if rng.random() < 0.25 else 0)) if len(names) > 1 else 1)
            r = rng.random()
            if r < 0.6:
                out.append(("nest", X.nest(sub, "n", a, inv=rng.random() < 0.3)))
            else:
                out.append(("snest", X.single_nest(rng.choice(names), a)))
        elif k < 0.9:
            names = rng.sample(["a", "b", "c"], rng.randrange(1, 4))
            a = rand_rel(rng, names, rng.randrange(1, 5))
            d = X.var(".")
            key = X.tup([("r", X.dot(d, names[0]))] + ([("s", X.unop("-", X.dot(d, names[-1])))] if rng.random() < 0.4 else []))
            out.append(("rank", X.rank(a, X.dotfn(key))))
        else:   # join-built relations inside other contexts (equality, membership, set algebra)
            j = X.join("<&>", rand_rel(rng, ["b"], 2, "lit"), rand_rel(rng, ["a"], 2, "lit"))
            lit = rand_rel(rng, ["a", "b"], 3, "lit")
            ctx = rng.choice(["eq", "inter", "diff", "union", "member", "big"])
            if ctx == "eq":
                out.append(("ctx eq", X.cmpop("=", X.binop("&", j, lit), X.binop("&", lit, j))))
            elif ctx == "inter":
                out.append(("ctx &", X.binop("&", j, lit)))
            elif ctx == "diff":
                out.append(("ctx &~", X.binop("&~", lit, j)))
            elif ctx == "union":
                out.append(("ctx |", X.unop("count", X.binop("|", j, lit))))
            elif ctx == "member":
                out.append(("ctx <:", X.cmpop("<:", j, X.set_([X.join("<&>", rand_rel(rng, ["a"], 2, "lit"), rand_rel(rng, ["b"], 2, "lit")), N(1)]))))
            else:  # a set with more than 8 members so that hashing decides membership
                j1 = X.join("<&>", X.rel(["b"], [[N(1)]]), X.rel(["a"], [[N(2)]]))
                l1 = X.rel(["a", "b"], [[N(2), N(1)]])
                filler = [X.set_([N(100 + i)]) for i in range(12)]
                out.append(("ctx bigset", X.unop("count", X.set_(filler + [j1, l1]))))
                out.append(("ctx bigdict", X.safecall(X.dict_([(f, N(0)) for f in filler] + [(l1, N(1))]), j1, N(-1))))
    return [{"id": i, "label": l, "ast": e} for i, (l, e) in enumerate(out)]


def main(tier, seed, replay=None):
    run = Run(PROP, tier, seed)
    vh, proof = prepare(PROP_FILES, thorough=(tier == "thorough"))
    rng = random.Random(seed)
    cases = evalcheck.replay_cases(replay) if replay else gen_cases(rng, tier)
    outs, codes, fails = evalcheck.evaluate(vh, cases)
    evalcheck.judge(run, cases, outs, codes, fails,
                    "join / nest / rank result vs the set-comprehension definition (Properties/C04.v, Eval/Interp.v)",
                    value_codes=(1, 2, 3), corr_codes=(4, 5, 6))
    ops = {}
    for c in cases:
        ops[c.get("label")] = ops.get(c.get("label"), 0) + 1
    evalcheck.stats(run, cases, outs, codes,
                    "pairs of relations over the attribute alphabet {a,b,c,x,@,@item,@char} (0-3 attributes a side, any overlap, 1-3 rows over 3 atoms) in the forms relation literal / set of tuples / tuples with shuffled attribute order / computed by => / join-built (stored heading not sorted) / arrays, strings and dicts used as binary relations, x the eight join operators, incl. joins of join results; an enumerated core (a relation over a, b, c stored in each of the six column orders x a wide literal x 8 operators x both operand orders); wide (3-5 columns over a..e) against narrow relations with three or more common columns, either side a chain of joins with any stored column order; nest |..|n, nest ~|..|n, single-attribute nest (relations of one to three attributes, nesting some or all of them); rank with one or two keys; join-built relations inside =, &, &~, |, <:, sets and dicts of more than 8 members"
                    + ("; thorough adds every heading partition (left-only x common x right-only, both stored orders) x 8 operators" if tier == "thorough" else ""),
                    {"operator_histogram": ops, "exhaustive": False})
    run.assumptions = ["rank keys are numbers (other keys are ordered by the Go order, see C06)"]
    return run.finish(proof)
