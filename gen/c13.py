"""C13: JSON/YAML translators, //bits, CSV and the server wire format vs the Coq models
(Sys/Json.v, Sys/Bits.v, Sys/Csv.v, Sys/Wire.v).  Cases are JSON-serialisable dicts."""
import concurrent.futures
import itertools
import json
import random

import yaml

from common import *

PROP = "C13"
PROP_FILES = ["Properties/C13.v", "Check/C13Check.v"]

# model codes (Check/C13Check.v classify) -> defect signature in known_findings.txt
SIGS = {11: "q_json_strict_set_to_object", 12: "q_json_offsets_holes_dropped", 13: "q_json_multi_dict_panic",
        14: "q_json_key_unchecked", 15: "q_json_b_unchecked", 16: "q_json_a_set_as_array",
        17: "q_json_nonstrict_collapse", 21: "q_bits_set_unimplemented", 22: "q_bits_mask_nonnatural",
        31: "q_wire_sets_become_arrays", 32: "q_wire_offsets_holes_lost", 33: "q_wire_null_panics",
        41: "q_csv_empty_record_lost", 44: "q_csv_empty_input_rejected", 42: "q_csv_ragged_rejected", 43: "q_csv_crlf_normalised"}

# ---------------------------------------------------------------- Coq terms

def cnum2(z2):
    """number given as twice its value"""
    return "(NInt (%d))" % (z2 // 2) if z2 % 2 == 0 else "(NHalf (%d))" % ((z2 - 1) // 2)


def cstr(s):
    return zl([ord(c) for c in s])


def pynum2(x):
    """python json number -> twice its value, or None when outside the model"""
    if isinstance(x, bool):
        return None
    if isinstance(x, int):
        return 2 * x if abs(x) < 2 ** 53 else None
    if isinstance(x, float):
        if x != x or x in (float("inf"), float("-inf")) or abs(x) >= 2 ** 53:
            return None
        d = x * 2
        return int(d) if d == int(d) else None
    return None


def cjson(d):
    """python document -> Coq json term (None when a number is outside the model)"""
    if d is None:
        return "JNull"
    if isinstance(d, bool):
        return "(JBool %s)" % cbool(d)
    if isinstance(d, (int, float)):
        z2 = pynum2(d)
        return None if z2 is None else "(JNum %s)" % cnum2(z2)
    if isinstance(d, str):
        if any(0xD800 <= ord(c) <= 0xDFFF for c in d):
            return None
        return "(JStr %s)" % cstr(d)
    if isinstance(d, list):
        parts = [cjson(x) for x in d]
        return None if any(p is None for p in parts) else "(JArr [" + "; ".join(parts) + "])"
    if isinstance(d, dict):
        parts = []
        for k in sorted(d):
            p = cjson(d[k])
            if p is None:
                return None
            parts.append("(%s, %s)" % (cstr(k), p))
        return "(JObj [" + "; ".join(parts) + "])"
    return None


def crv(r):
    k = r[0]
    if k == "num":
        return "(RNum %s)" % cnum2(r[1])
    if k == "tup":
        return "(RTup [" + "; ".join("(%s, %s)" % (cstr(n), crv(v)) for n, v in sorted(r[1], key=lambda p: p[0])) + "])"
    if k == "empty":
        return "REmpty"
    if k == "true":
        return "RTrue"
    if k == "str":
        return "(RStr (%d) %s)" % (r[1], zl(r[2]))
    if k == "bytes":
        return "(RBytes (%d) %s)" % (r[1], zl(r[2]))
    if k == "arr":
        return "(RArr (%d) [" % r[1] + "; ".join("None" if x is None else "(Some %s)" % crv(x) for x in r[2]) + "])"
    if k == "dict":
        es = r[2]
        if all(kk[0] in ("str", "empty") for kk, _ in es):      # the model lists string-keyed entries in key order
            es = sorted(es, key=lambda p: p[0][2] if p[0][0] == "str" else [])
        return "(RDict %s [" % cbool(r[1]) + "; ".join("(%s, %s)" % (crv(a), crv(b)) for a, b in es) + "])"
    if k == "set":
        return "(RSet %s [" % cbool(r[1]) + "; ".join(crv(x) for x in r[2]) + "])"
    if k == "fn":
        return "RFn"
    raise ValueError(k)


def cell(f):
    """a CSV cell is a string; older replay files hold lists of bytes"""
    return f if isinstance(f, str) else bytes(f).decode("utf-8", "replace")


def crecs(m):
    return "[" + "; ".join("[" + "; ".join(zl(list(cell(f).encode("utf-8"))) for f in r) + "]" for r in m) + "]"

# ---------------------------------------------------------------- arr.ai source


def src_str(cps):
    out = []
    for c in cps:
        ch = chr(c)
        if ch == '"':
            out.append('\\"')
        elif ch == "\\":
            out.append("\\\\")
        elif ch == "\n":
            out.append("\\n")
        elif ch == "\t":
            out.append("\\t")
        elif c < 32 or c == 127:
            out.append("\\x%02x" % c)
        else:
            out.append(ch)
    return '"' + "".join(out) + '"'


def src_num(z2):
    s = str(z2 // 2) if z2 % 2 == 0 else repr(z2 / 2)
    return "(%s)" % s if z2 < 0 else s


def src_name(n):
    return n if n.isascii() and n.isalnum() and n[0].isalpha() else "`%s`" % n


def src_rv(r):
    k = r[0]
    if k == "num":
        return src_num(r[1])
    if k == "tup":
        return "(" + ", ".join("%s: %s" % (src_name(n), src_rv(v)) for n, v in r[1]) + ")"
    if k == "empty":
        return "{}"
    if k == "true":
        return "true"
    if k == "str":
        if any(c < 0 for c in r[2]):
            return "{" + ", ".join("(@: %d, @char: %d)" % (r[1] + i, c) for i, c in enumerate(r[2]) if c >= 0) + "}"
        return ("%d\\" % r[1] if r[1] else "") + src_str(r[2])
    if k == "bytes":
        return "<<" + ", ".join(str(b) for b in r[2]) + ">>"
    if k == "arr":
        return ("%d\\" % r[1] if r[1] else "") + "[" + ", ".join("" if x is None else src_rv(x) for x in r[2]) + "]"
    if k == "dict":
        if r[1]:
            (k0, v0) = r[2][0]
            rest = [p for p in r[2][1:]]
            return "({" + ", ".join("%s: %s" % (src_rv(a), src_rv(b)) for a, b in rest) + "} | {%s: %s})" % (src_rv(k0), src_rv(v0))
        return "{" + ", ".join("%s: %s" % (src_rv(a), src_rv(b)) for a, b in r[2]) + "}"
    if k == "set":
        return "{" + ", ".join(src_rv(x) for x in r[2]) + "}"
    if k == "fn":
        return "(\\x x)"
    raise ValueError(k)


def src_bytes(bs):
    return "<<" + ", ".join(str(b) for b in bs) + ">>"


def src_matrix(m):
    return "[" + ", ".join("[" + ", ".join(src_str([ord(ch) for ch in cell(f)]) for f in r) + "]" for r in m) + "]"


CODEC = {
    ("json", True, "dec"): "//encoding.json.decode(%s)", ("json", False, "dec"): "//encoding.json.decoder((strict: false))(%s)",
    ("json", True, "enc"): "//encoding.json.encode(%s)", ("json", False, "enc"): "//encoding.json.encoder((strict: false))(%s)",
    ("yaml", True, "dec"): "//encoding.yaml.decode(%s)", ("yaml", False, "dec"): "//encoding.yaml.decoder((strict: false))(%s)",
    ("yaml", True, "enc"): "//encoding.yaml.encode(%s)", ("yaml", False, "enc"): "//encoding.yaml.encoder((strict: false))(%s)",
}


def doc_text(d):
    return json.dumps(d, ensure_ascii=False, separators=(",", ":"))

# ---------------------------------------------------------------- observations


def dump_bytes(d):
    """dump of a rel.Bytes (or the empty set) -> python bytes, else None"""
    if "s" not in d:
        return None
    items = []
    for m in d["s"]:
        t = m.get("t")
        if not t or len(t) != 2 or t[0][0] != "@" or t[1][0] != "@byte":
            return None
        items.append((int(float(t[0][1]["n"])), int(float(t[1][1]["n"]))))
    items.sort()
    if [i for i, _ in items] != list(range(len(items))):
        return None
    return bytes(b for _, b in items)


def val_term13(d):
    """harness dump -> Coq val term with attribute names as code points (the convention of Sys/Json.v)"""
    if "n" in d:
        t = num_term(d["n"])
        return None if t is None else "(VNum %s)" % t
    if "t" in d:
        parts = []
        for nm, v in d["t"]:
            t = val_term13(v)
            if t is None:
                return None
            parts.append("(%s, %s)" % (cstr(nm), t))
        return "(VTup [" + "; ".join(parts) + "])"
    if "s" in d:
        parts = [val_term13(v) for v in d["s"]]
        return None if any(p is None for p in parts) else "(VSet [" + "; ".join(parts) + "])"
    return None


def o_val(o):
    if o is None or o.get("st") == "timeout":
        return None
    if o["st"] == "err":
        return "OVErr"
    if o["st"] == "panic":
        return "OVPanic"
    t = val_term13(o["val"])
    return None if t is None else "(OV %s)" % t


def dense(d, attr):
    """members of a dense zero-based sequence dump in index order, or None"""
    if "s" not in d:
        return None
    items = []
    for m in d["s"]:
        t = m.get("t")
        if not t or len(t) != 2 or t[0][0] != "@" or t[1][0] != attr or "n" not in t[0][1]:
            return None
        items.append((int(float(t[0][1]["n"])), t[1][1]))
    items.sort(key=lambda p: p[0])
    if [i for i, _ in items] != list(range(len(items))):
        return None
    return [x for _, x in items]


def o_mat(o):
    """observation of csv.decode -> Coq omat term: cells as UTF-8 bytes (None = not a matrix of strings)"""
    if o is None or o.get("st") == "timeout":
        return None
    if o["st"] == "err":
        return "OMErr"
    if o["st"] == "panic":
        return "OMPanic"
    rows = dense(o["val"], "@item")
    if rows is None:
        return None
    out = []
    for r in rows:
        cells = dense(r, "@item")
        if cells is None:
            return None
        rec = []
        for c in cells:
            chars = dense(c, "@char")
            if chars is None or any("n" not in x for x in chars):
                return None
            try:
                rec.append(zl(list("".join(chr(int(float(x["n"]))) for x in chars).encode("utf-8"))))
            except Exception:
                return None
        out.append("[" + "; ".join(rec) + "]")
    return "(OM [" + "; ".join(out) + "])"


def o_json(o, codec):
    """observation of an encoder -> (Coq ojson term | None, parsed python document | None)"""
    if o is None or o.get("st") == "timeout":
        return None, None
    if o["st"] == "err":
        return "OJErr", None
    if o["st"] == "panic":
        return "OJPanic", None
    bs = dump_bytes(o["val"])
    if bs is None:
        return None, None
    try:
        text = bs.decode("utf-8")
        d = json.loads(text) if codec == "json" else yaml.safe_load(text)
    except Exception:
        return None, None
    t = cjson(d)
    return (None if t is None else "(OJ %s)" % t), d


def canon(d):
    """order-free form of a value dump, for implementation-side oracles"""
    if d is None:
        return None
    if "n" in d:
        return ("n", "0" if d["n"] == "-0" else d["n"])        # -0 = 0 in arr.ai
    if "t" in d:
        return ("t", tuple((n, canon(v)) for n, v in d["t"]))
    if "s" in d:
        return ("s", tuple(sorted((canon(x) for x in d["s"]), key=repr)))
    return ("x",)

# ---------------------------------------------------------------- generators

ALPHA = ["a", "b", "z", "0", " ", "é", "世", "😀", '"', "\\", "\n", "/", "<"]
KEYS = ["a", "b", "s", "k1", "é", "x y", "", "@", "{||}"]


# strings whose first/last character is invisible or special to a text layer, and strings that read as
# another YAML/JSON type when written without quotes
TRICKY = ["\ufeff", "\ufeffa", "a\ufeff", "\u200b", "\x00", "a\x00b", " a", "a ", " ", "  ", "\t", "a\tb", "true", "false", "null", "~",
          "yes", "no", "on", "off", "1", "1.5", "-0", "0x10", "1e3", ".5", "1_000", "0o7", "010", "+1", ".inf", ".nan", "2001-01-01",
          "-", "- a", "a: b", "a #b", "#a", ":", "?", "? a", "[", "]", "{", "}", "[a]", "{a: 1}", ",", "'", "''", '"', '""', "'a'",
          "*x", "&x", "!x", "!!str a", "|", ">", "|-", "%a", "@a", "`a", "\\", "\\n", "a\nb", "a\n", "\r", "a\rb", "\x7f", "\ufffd",
          "\ufffe", "\U0010ffff", "é", "e\u0301", "<<", "=", "---", "...", "--- a", "a\\", "{||}", "@", "@item", "\x1b"]


def gen_string(rng, maxlen=3, alpha=ALPHA, tricky=0.2):
    if rng.random() < tricky:
        return rng.choice(TRICKY)
    return "".join(rng.choice(alpha) for _ in range(rng.randrange(maxlen + 1)))


def gen_num2(rng):
    r = rng.random()
    if r < 0.6:
        return rng.randrange(-6, 20)                       # small ints and halves
    if r < 0.8:
        return 2 * rng.choice([0, 1, -1, 2 ** 31, 2 ** 31 - 1, -2 ** 31 - 1, 2 ** 32, 2 ** 32 + 1, 2 ** 52, 2 ** 53 - 1, 2 ** 53 - 2,
                               -(2 ** 53 - 1), 10 ** 6, 123456789012, 10 ** 15, 999999999999999])
    return rng.randrange(-2 ** 40, 2 ** 40)


def num_of2(z2):
    return z2 // 2 if z2 % 2 == 0 else z2 / 2


def gen_doc(rng, depth, empty_key_p=0.03, alpha=ALPHA):
    r = rng.random()
    if depth <= 0 or r < 0.45:
        k = rng.randrange(7)
        if k == 0:
            return None
        if k == 1:
            return rng.random() < 0.5
        if k in (2, 3):
            return -0.0 if rng.random() < 0.04 else num_of2(gen_num2(rng))
        if k == 4:
            return gen_string(rng, alpha=alpha)
        if k == 5:
            return [] if rng.random() < 0.5 else {}
        return ""
    if r < 0.72:
        return [gen_doc(rng, depth - 1, empty_key_p, alpha) for _ in range(rng.randrange(4))]
    d = {}
    for _ in range(rng.randrange(4)):
        k = "" if rng.random() < empty_key_p else (rng.choice(KEYS[:6]) if rng.random() < 0.7 else gen_string(rng, 3, alpha) or "k")
        d[k] = gen_doc(rng, depth - 1, empty_key_p, alpha)
    return d


def gen_float_doc(rng, depth):
    """documents with numbers outside the model (implementation-side oracle only)"""
    nums = [0.1, 1e21, 1e20, -2.5e-7, 1e-6, 1e-7, 2 ** 53 - 1, 2 ** 53, 2 ** 53 + 1, 2 ** 53 + 2, -(2 ** 53), 2 ** 63 - 1, 2 ** 63, 2 ** 64,
            -2 ** 63, 1.7976931348623157e308, 3.141592653589793, 1e-320, 5e-324, 123456789.125, -0.0, 1 / 3, 0.30000000000000004,
            4294967296.5, 1e15 + 0.5]
    r = rng.random()
    if depth <= 0 or r < 0.5:
        return rng.choice(nums) if rng.random() < 0.7 else gen_string(rng, 4, ALPHA + [" ", " ", "\x01", "\x7f"])
    if r < 0.75:
        return [gen_float_doc(rng, depth - 1) for _ in range(rng.randrange(1, 4))]
    return {(gen_string(rng, 2) or "k"): gen_float_doc(rng, depth - 1) for _ in range(rng.randrange(1, 3))}


def rv_of_doc(d, strict):
    """python mirror of to_arrai (used to build encoder inputs that are decoder images)"""
    def tagged(t, v):
        return ["tup", [[t, v]]] if strict else v
    if d is None:
        return ["tup", []]
    if isinstance(d, bool):
        return tagged("b", ["true"] if d else ["empty"])
    if isinstance(d, (int, float)):
        return ["num", pynum2(d)]
    if isinstance(d, str):
        return tagged("s", ["str", 0, [ord(c) for c in d]] if d else ["empty"])
    if isinstance(d, list):
        return tagged("a", ["arr", 0, [rv_of_doc(x, strict) for x in d]] if d else ["empty"])
    if not d:
        return ["empty"]
    return ["dict", False, [[(["str", 0, [ord(c) for c in k]] if k else ["empty"]), rv_of_doc(v, strict)] for k, v in sorted(d.items())]]


EK_KEYS = ["a", "b", "k1", "k2", "é", "x y", "z", "0", "s", "v", "k3", "k4", "k5", "k6", "k7", "k8", "k9", "@", "A", "~"]


def gen_empty_key_doc(rng):
    """an object holding the empty key next to 1-4 (sometimes 9-12) other keys, at top level, nested in an
    object, inside an array or inside another such object; each evaluation builds the dict anew, so the
    position of the empty key in the enumeration order varies from case to case"""
    leaf = lambda: rng.choice([1, 2.5, "x", True, None, [1], {"q": 1}, "", [], False])

    def obj():
        n = rng.randrange(9, 13) if rng.random() < 0.2 else rng.randrange(1, 5)
        items = [(k, leaf()) for k in rng.sample(EK_KEYS, n)] + [("", leaf())]
        rng.shuffle(items)
        return dict(items)
    o = obj()
    r = rng.random()
    if r < 0.4:
        return o
    if r < 0.6:
        return {"o": o, "p": 1}
    if r < 0.8:
        return [1, o, "t"]
    if r < 0.9:
        o[rng.choice(EK_KEYS)] = obj()
        return o
    return [[o], {"w": [o, obj()]}]


def shuffle_dicts(r, rng):
    """list the entries of every dict literal in a random order (a literal of <= 8 entries enumerates in that order)"""
    if not isinstance(r, list):
        return r
    if r[:1] == ["dict"]:
        es = [[shuffle_dicts(k, rng), shuffle_dicts(v, rng)] for k, v in r[2]]
        rng.shuffle(es)
        return ["dict", r[1], es]
    return [shuffle_dicts(x, rng) for x in r]


def gen_rv(rng, depth, wire=False):
    """arbitrary values: mostly decoder images with one mutation, some free-form"""
    r = rng.random()
    if depth <= 0 or r < 0.4:
        k = rng.randrange(12)
        if k < 3:
            return ["num", gen_num2(rng)]
        if k == 3:
            return ["empty"]
        if k == 4:
            return ["true"]
        if k in (5, 6):
            s = [ord(c) for c in gen_string(rng)] or [97]
            off = rng.choice([0, 0, 0, 1, 3])
            if rng.random() < 0.1 and len(s) >= 3:
                s[1] = -1
            return ["str", off, s]
        if k == 7:
            return ["bytes", 0, [rng.randrange(256) for _ in range(rng.randrange(1, 4))]]
        if k == 8:
            return ["set", True, [["num", 2 * z] for z in sorted(rng.sample(range(-3, 9), rng.randrange(1, 4)))]]
        if k == 9:
            return ["set", False, [["tup", [["a", ["num", 2 * rng.randrange(5)]]]]]]
        if k == 10:
            return ["tup", []]
        return ["fn"] if rng.random() < 0.3 else ["num", 2 * rng.randrange(10)]
    if r < 0.6:
        items = [gen_rv(rng, depth - 1, wire) for _ in range(rng.randrange(1, 4))]
        if rng.random() < 0.15 and len(items) >= 2:
            items.insert(1, None)
        return ["arr", rng.choice([0, 0, 0, 0, 2]), items]
    if r < 0.8:
        names = rng.sample(["a", "b", "s", "v", "x", "k1"] + (["{||}", "@"] if wire else []), rng.randrange(1, 3))
        if rng.random() < 0.5:
            names = [rng.choice(["a", "s", "b"])]
        return ["tup", [[n, gen_rv(rng, depth - 1, wire)] for n in sorted(names)]]
    keys = rng.sample(["a", "b", "k", "é"], rng.randrange(1, 3))
    es = [[["str", 0, [ord(c) for c in k]], gen_rv(rng, depth - 1, wire)] for k in sorted(keys)]
    x = rng.random()
    if x < 0.08:
        es[0][0] = ["num", 2]
    elif x < 0.14:
        es[0][0] = ["empty"]
    elif x < 0.18:
        es[0][0] = ["tup", [["s", es[0][0]]]]
    elif x < 0.24:
        return ["dict", True, [[es[0][0], ["num", 14]]] + es]
    return ["dict", False, es]


def gen_wire_safe(rng, depth):
    r = rng.random()
    if depth <= 0 or r < 0.4:
        k = rng.randrange(5)
        if k == 0:
            return ["num", gen_num2(rng)]
        if k == 1:
            return ["str", 0, [ord(c) for c in gen_string(rng)] or [120]]
        if k == 2:
            return ["empty"]
        if k == 3:
            return ["true"]
        return ["tup", []]
    if r < 0.7:
        return ["arr", 0, [gen_wire_safe(rng, depth - 1) for _ in range(rng.randrange(1, 4))]]
    names = rng.sample(["a", "b", "s", "x", "k1", "é", " a", "a ", "\ufeffa", "@x", "a.b", "\u200b"], rng.randrange(1, 4))
    return ["tup", [[n, gen_wire_safe(rng, depth - 1)] for n in sorted(names)]]


CSV_ALPHA = ["a", "b", '"', ",", "\n", "\r", " ", "\\", ".", "\t"]
# characters that are invisible, special to spreadsheets/parsers or special to encoding/csv when they
# come first (or last) in a cell; cell (0,0) is also the first thing in the document (byte order mark!)
CSV_SPECIAL = ["\ufeff", "\u200b", "\x00", "\u0085", "\u00a0", "\u2028", "\u3000", "\ufffd", "\ufffe", "\u0301", "😀", "\x7f",
               "#", ";", "'", "\t", "\v", "\f", " ", '"', "\\", ".", "=", "-", "+", "@", "\u200e", "\u2060", "\x1a", "\x1b"]


def gen_field(rng, maxlen=4):
    r = rng.random()
    plain = lambda n: "".join(rng.choice(CSV_ALPHA) for _ in range(rng.randrange(n + 1)))
    if r < 0.38:
        return plain(maxlen)
    if r < 0.60:                                  # special first character (possibly doubled)
        c = rng.choice(CSV_SPECIAL)
        return c * rng.choice([1, 1, 1, 2]) + plain(2)
    if r < 0.70:                                  # special last character
        return plain(2) + rng.choice(CSV_SPECIAL)
    if r < 0.78:                                  # quotes only
        return '"' * rng.randrange(1, 4)
    if r < 0.86:                                  # leading / trailing / only spaces
        return rng.choice([" ", "  ", " a", "a ", " a ", "\ta", "a\t", " \"", "\" "])
    if r < 0.91:
        return ""
    return "".join(rng.choice(CSV_SPECIAL + ["é", "世", "a", ","]) for _ in range(rng.randrange(1, 4)))


def gen_matrix(rng):
    r = rng.random()
    w = rng.randrange(1, 4)
    h = rng.randrange(0, 4)
    m = [[gen_field(rng) for _ in range(w)] for _ in range(h)]
    x = rng.random()
    if m and x < 0.35:                            # the first cell of the document begins with a special character
        first = ["\ufeff"] * 10 + ["\u200b", "\x00", " "] * 3 + ["\t", "\u00a0"] * 2 + CSV_SPECIAL
        m[0][0] = rng.choice(first) * rng.choice([1, 1, 2]) + rng.choice(["", "", "a", "id", ",", " "])
    elif m and x < 0.45 and w > 1:
        m[0][0] = ""                              # first cell empty
    if m and rng.random() < 0.15:                 # ... and the last cell of the document ends with one
        m[-1][-1] = rng.choice(["", "a", "a,"]) + rng.choice(["\ufeff", "\u200b", "\x00", " ", "\t", "\n", "\r", "\u00a0", "\x1a"] + CSV_SPECIAL[:12])
    if r < 0.08 and m:
        m.insert(rng.randrange(len(m) + 1), [])
    elif r < 0.16 and m:
        m[rng.randrange(len(m))] = [gen_field(rng) for _ in range(w + 1)]
    elif r < 0.2:
        m = [[""] for _ in range(rng.randrange(1, 3))]
    return m


def gen_csv_text(rng):
    """input for the decoder alone: mostly well-formed lines, with special first bytes"""
    pieces = CSV_ALPHA + CSV_SPECIAL[:8] + ["é", '""', '"a"', "\r\n"]
    t = "".join(rng.choice(pieces) for _ in range(rng.randrange(0, 9)))
    if rng.random() < 0.3:
        t = rng.choice(CSV_SPECIAL[:6]) + t
    return t



# ---------------------------------------------------------------- histories of ONE configured codec function
# Every function of syntax/std_encoding*.go (and stdlib-safe.arrai) that returns a function:
#   json.encoder json.decoder yaml.encoder yaml.decoder csv.encoder csv.decoder xml.decoder(cfg).decode
# (proto.decode(descriptor)(name) and xlsx.decodeToRelation(cfg) need binary fixtures and are not in the stream.)
# A history case obtains ONE function value and applies it to 2-4 documents; the oracle is the result of a fresh
# function value applied to each document alone, in a separate program (and the Coq model for JSON/YAML encoders).

def _jd(s):
    return "//encoding.json.decoder((strict: %s))" % ("true" if s else "false")


def _je(s):
    return "//encoding.json.encoder((strict: %s))" % ("true" if s else "false")


HIST_FNS = [dict(fn="json.encoder", cls="json", dir="enc", cfg=c, strict=st, again=(_jd(st) if ag else None)) for c, st, ag in (
    ("()", True, True), ("(strict: false)", False, True), ("(escapeHTML: false)", True, True), ("(escapeHTML: true)", True, True),
    ("(indent: ' ')", True, True), ("(prefix: '>', indent: '  ')", True, False), ("(strict: false, indent: '\\t')", False, True))] + \
    [dict(fn="json.decoder", cls="json", dir="dec", cfg=c, strict=st, again=_je(st)) for c, st in (
        ("()", True), ("(strict: false)", False), ("(strict: true)", True))] + \
    [dict(fn="yaml.encoder", cls="yaml", dir="enc", cfg=c, strict=st, again="//encoding.yaml.decoder((strict: %s))" % ("true" if st else "false"))
     for c, st in (("()", True), ("(strict: false)", False), ("(indent: 4)", True), ("(indent: 2, strict: false)", False))] + \
    [dict(fn="yaml.decoder", cls="yaml", dir="dec", cfg=c, strict=st, again="//encoding.yaml.encoder((strict: %s))" % ("true" if st else "false"))
     for c, st in (("()", True), ("(strict: false)", False))] + \
    [dict(fn="csv.encoder", cls="csv", dir="enc", cfg=c, strict=True, again=ag) for c, ag in (
        ("()", "//encoding.csv.decode"), ("(comma: 59)", "//encoding.csv.decoder((comma: 59))"), ("(crlf: true)", "//encoding.csv.decode"))] + \
    [dict(fn="csv.decoder", cls="csv", dir="dec", cfg=c, strict=True, again=ag) for c, ag in (
        ("()", "//encoding.csv.encode"), ("(comma: 59)", "//encoding.csv.encoder((comma: 59))"), ("(trimLeadingSpace: true)", "//encoding.csv.encode"),
        ("(lazyQuotes: true)", "//encoding.csv.encode"), ("(fieldsPerRecord: -1)", None), ("(comment: 35)", "//encoding.csv.encode"))] + \
    [dict(fn="xml.decoder", cls="xml", dir="dec", cfg=c, strict=True, again="//encoding.xml.encode") for c in (
        "()", "(trimSurroundingWhitespace: true)", "(trimSurroundingWhitespace: false)")]

HIST_SHAPES = ["let", "arr", "map", "dotmap", "nested", "reuse"]

_LONG1 = {"name": "first document", "n": [1, 2, 3], "pad": "x" * 70}
_LONG2 = {"name": "second document, longer than sixty-four bytes", "items": list(range(30)), "t": True}
# 2-4 documents: same length, shorter-then-longer, longer-then-shorter, >64 bytes and small, identical
HIST_JSON_SEQS = [
    [{"k": 1}, {"k": 2}], [{"k": 1}, {"k": 2}, {"k": 3}], [[1], _LONG1], [_LONG1, ["second", None, True]], [_LONG1, 7, _LONG2, "s"],
    [{"k": 1}, {"k": 1}, {"k": 1}], [_LONG2, _LONG2], ["ab", "cd", "ef", "gh"], [[1, 2, 3], {"a": "<&>"}, [3, 2, 1]],
    [{"a": {"b": [1.5, None]}}, _LONG1, {"a": {"b": [2.5, None]}}], [1, 2], [True, False, None],
    [{"v": 2 ** 63}, {"v": -2 ** 63}, [float(2 ** 63 + 2048)]], [9223372036854774784, {"k": [2 ** 53, 1]}]]
HIST_CSV_SEQS = [
    [[["a", "b"]], [["c", "d"]]], [[["a", "b"]], [["a", "b"], ["c", "d"], ["e", "f"]]], [[["x" * 40, "y" * 40], ["1", "2"]], [["p", "q"]]],
    [[["a", "b"]], [["a", "b"]], [["a", "b"]]], [[["k;1", 'q"r'], [" s", "#t"]], [["1", "2"], ["3", "4"]], [["u", "v"]]],
    [[["a"]], [["bb"]], [["a"], ["c"]], [["dddd"]]]]
HIST_XML_SEQS = [
    ['<a x="1"><b>t</b> </a>', '<c/>'], ['<c/>', '<a x="1"><b>t</b> </a>'], ['<r><i>1</i></r>', '<r><i>2</i></r>'],
    ['<?xml version="1.0"?><root><item id="%d">%s</item></root>' % (i, "v" * 30 * i) for i in (3, 1, 2)], ['<a> x </a>', '<a> x </a>', '<b>  </b>'],
    ['<doc>' + '<p>para</p>' * 12 + '</doc>', '<e/>', '<doc><p>q</p></doc>', '<e/>']]


def hist_doc_ok(d):
    """documents of histories stay away from the open findings of single calls (empty keys) so that every result is informative"""
    return not has_empty_key(d) and yaml_text_sig({"codec": "yaml", "doc": d}) is None


def gen_hist_docs(rng, cls):
    n = rng.randrange(2, 5)
    if cls in ("json", "yaml"):
        docs = []
        while len(docs) < n:
            r = rng.random()
            d = gen_doc(rng, rng.randrange(0, 4), empty_key_p=0, alpha=ALPHA[:8]) if r < 0.8 else rng.choice([_LONG1, _LONG2, {"k": rng.randrange(9)}])
            if hist_doc_ok(d):
                docs.append(d)
    elif cls == "csv":
        w = rng.randrange(2, 4)
        cell = lambda: rng.choice(["a", "b c", "1", "x;y", 'q"r', " l", "#c", "é", "w" * rng.randrange(1, 40), "z,z"])
        docs = [[[cell() for _ in range(w)] for _ in range(rng.randrange(1, 5))] for _ in range(n)]
    else:
        el = lambda k: "<%s%s>%s</%s>" % (k, rng.choice(["", ' id="%d"' % rng.randrange(99)]), rng.choice(["", "t", " t ", "<i/>", "x" * rng.randrange(80)]), k)
        docs = ["<r>%s</r>" % "".join(el(rng.choice("abc")) for _ in range(rng.randrange(0, 5))) for _ in range(n)]
    r = rng.random()
    if r < 0.2:
        docs.sort(key=lambda d: len(json.dumps(d)))
    elif r < 0.4:
        docs.sort(key=lambda d: -len(json.dumps(d)))
    elif r < 0.55:
        docs[-1] = docs[0]
    elif r < 0.65:
        docs = [docs[0]] * len(docs)
    return docs


def hist_core():
    out = []
    seqs = {"json": HIST_JSON_SEQS, "yaml": HIST_JSON_SEQS, "csv": HIST_CSV_SEQS, "xml": HIST_XML_SEQS}
    k = 0
    first = set()
    for f in HIST_FNS:                               # enumerated core, shapes in rotation: every function x every sequence under its
        ss = seqs[f["cls"]]                          # first configuration, four sequences (in rotation) under each other configuration
        if f["fn"] in first:
            ss = [ss[(k + j) % len(ss)] for j in range(4)]
        first.add(f["fn"])
        for docs in ss:
            if f["cls"] == "yaml" and not all(hist_doc_ok(d) for d in docs):
                docs = [d for d in docs if hist_doc_ok(d)] * 2
            out.append(dict(f, kind="hist", shape=HIST_SHAPES[k % len(HIST_SHAPES)], docs=docs))
            k += 1
    for docs in HIST_JSON_SEQS[:6]:                  # the configuration of the missed change, through every shape
        for sh in HIST_SHAPES:
            out.append(dict(HIST_FNS[2], kind="hist", shape=sh, docs=docs))
    return out


def hist_random(rng, n):
    out = []
    for _ in range(60 * n):
        f = rng.choice(HIST_FNS[:16] if rng.random() < 0.75 else HIST_FNS)
        out.append(dict(f, kind="hist", shape=rng.choice(HIST_SHAPES), docs=gen_hist_docs(rng, f["cls"])))
    return out


def hist_fn_src(c):
    if c["fn"] == "xml.decoder":
        return "//encoding.xml.decoder(%s).decode" % c["cfg"]
    return "//encoding.%s(%s)" % (c["fn"], c["cfg"])


def hist_in_model(c, d):
    return c["cls"] in ("json", "yaml") and cjson(d) is not None


def hist_input(c, d):
    """arr.ai source of the i-th document handed to the function value"""
    if c["cls"] in ("json", "yaml"):
        text = src_bytes(doc_text(d).encode("utf-8"))
        if c["dir"] == "dec":
            return text
        if hist_in_model(c, d):
            return src_rv(rv_of_doc(d, c["strict"]))
        return "%s(%s)" % (_jd(c["strict"]), text)        # numbers outside the model: the decoder's image of the text
    if c["cls"] == "csv":
        if c["dir"] == "enc":
            return src_matrix(d)
        comma = ";" if "59" in c["cfg"] else ","
        return src_bytes("".join(comma.join('"%s"' % f.replace('"', '""') if any(ch in f for ch in ',;"\n #') else f for f in r) + "\n" for r in d).encode("utf-8"))
    return src_bytes(d.encode("utf-8"))


def hist_src(c):
    """the history program: ONE function value f, applied to every document; all results (and each result passed
    through the opposite one-shot codec g) reported in one value"""
    xs = [hist_input(c, d) for d in c["docs"]]
    g, sh, n = c.get("again"), c["shape"], len(c["docs"])
    head = "let f = %s; " % hist_fn_src(c)
    if sh == "let":
        head += "".join("let r%d = f(%s); " % (i, x) for i, x in enumerate(xs))
        rs = ["r%d" % i for i in range(n)]
    elif sh == "reuse":                               # the first document once more at the end; its first result is reported
        head += "".join("let r%d = f(%s); " % (i, x) for i, x in enumerate(xs)) + "let again = f(%s); " % xs[0]
        rs = ["r%d" % i for i in range(n)]
    elif sh == "nested":                              # the function value is applied inside another function, called n times
        head += "let h = \\x (out: f(x), tag: 1); " + "".join("let a%d = h(%s); " % (i, x) for i, x in enumerate(xs))
        rs = ["a%d.out" % i for i in range(n)]
    else:
        if sh == "arr":
            head += "let rs = [%s]; " % ", ".join("f(%s)" % x for x in xs)
        elif sh == "map":
            head += "let rs = [%s] >> \\x f(x); " % ", ".join(xs)
        else:
            head += "let rs = [%s] >> f(.); " % ", ".join(xs)
        return head + ("(r: rs, d: rs >> \\y %s(y))" % g if g else "(r: rs)")
    body = "r: [%s]" % ", ".join(rs)
    if g:
        body += ", d: [%s]" % ", ".join("%s(%s)" % (g, r) for r in rs)
    return head + "(" + body + ")"


def hist_one_src(c, d):
    """the one-shot program for one document: a fresh function value, nothing else in the program"""
    x, g = hist_input(c, d), c.get("again")
    return ("let r = %s(%s); " % (hist_fn_src(c), x)) + ("(r: r, d: %s(r))" % g if g else "(r: r)")


def tup_get(d, name):
    for n, v in (d or {}).get("t", []):
        if n == name:
            return v
    return None


EMPTY_CANON = ("s", ())


def arr_items(d):
    """array dump -> {index: canon(item)} (an index that is missing holds the empty set)"""
    out = {}
    for m in (d or {}).get("s", []):
        t = dict((n, v) for n, v in m.get("t", []))
        if "@" in t and "@item" in t and "n" in t["@"]:
            out[int(float(t["@"]["n"]))] = canon(t["@item"])
    return out


def hist_oracle(run, c, obs):
    """every result of the history equals the result of a fresh function value on that document alone"""
    h = obs.get("h")
    ones = [obs.get("o%d" % i) for i in range(len(c["docs"]))]
    rec = {"case": {x: y for x, y in c.items() if x != "id"}, "program": hist_src(c),
           "one_shot_programs": [hist_one_src(c, d) for d in c["docs"]],
           "observed": {"history": {k: v for k, v in (h or {}).items() if k != "val"}, "history_repr": (h or {}).get("repr", "")[:1500],
                        "one_shot": [(o or {}).get("repr", (o or {}).get("st")) for o in ones]},
           "oracle": "each result of one configured codec function applied to several documents equals the result of a fresh function "
                     "value on that document alone (C13_codec_results_independent_of_history)"}
    if h is None or any(o is None for o in ones) or h.get("st") in ("timeout", "crash") or any(o.get("st") in ("timeout", "crash") for o in ones):
        return False
    if h["st"] != "ok" or any(o["st"] != "ok" for o in ones):
        if h["st"] == "ok" or not any(o["st"] == h["st"] for o in ones):
            rec["why"] = "the history %s but the one-shot calls %s" % (h["st"], [o["st"] for o in ones])
            run.classify_failure(None, rec)
        return True
    for fld in ("r", "d") if c.get("again") else ("r",):
        got = arr_items(tup_get(h["val"], fld))
        for i, o in enumerate(ones):
            want = canon(tup_get(o["val"], fld))
            if got.get(i, EMPTY_CANON) != want:
                rec["why"] = "result %d (%s) of the history differs from the one-shot result for document %d" % (i, fld, i)
                run.classify_failure(None, rec)
                return True
    return True


def hist_coq(c, obs):
    """Coq hcase body for a JSON/YAML encoder history whose documents are all inside the model, else None"""
    h = obs.get("h")
    if c["cls"] not in ("json", "yaml") or c["dir"] != "enc" or "prefix" in c["cfg"] or h is None or h.get("st") != "ok":
        return None
    if not all(hist_in_model(c, d) for d in c["docs"]):
        return None
    r = tup_get(h["val"], "r")
    items = {}
    for m in (r or {}).get("s", []):
        t = dict((n, v) for n, v in m.get("t", []))
        if "@" in t and "@item" in t:
            items[int(float(t["@"]["n"]))] = t["@item"]
    steps = []
    for i, d in enumerate(c["docs"]):
        if i not in items:
            return None
        o, _ = o_json({"st": "ok", "val": items[i]}, c["cls"])
        if o is None:
            return None                               # text the python parser cannot read: the one-shot comparison covers it
        steps.append("(%s, %s)" % (crv(rv_of_doc(d, c["strict"])), o))
    return "h_strict := %s; h_steps := [%s]" % (cbool(c["strict"]), "; ".join(steps))


# ---------------------------------------------------------------- numbers at the int64 boundary
B63 = 2 ** 63
BOUND_NUMS = [B63, float(B63), B63 - 1024, float(B63 + 2048), -B63, float(-B63), -B63 - 2048, -B63 + 1024, B63 - 1, 2 ** 64, float(B63 - 1024), -B63 - 1]
BOUND_POS = [lambda x: x, lambda x: [x], lambda x: {"k": x}, lambda x: {"o": {"v": x}}, lambda x: [[x], {"k": [x]}], lambda x: [1, x, "s"],
             lambda x: {"a": x, "b": [x, 0]}]


def src_lit(d):
    """arr.ai literal of the strict decoder image of a document whose numbers may lie outside the model (exact digits)"""
    if isinstance(d, bool) or d is None or isinstance(d, str):
        return src_rv(rv_of_doc(d, True))
    if isinstance(d, (int, float)):
        z = int(float(d))
        return "(%d)" % z if z < 0 else "%d" % z
    if isinstance(d, list):
        return "(a: [" + ", ".join(src_lit(x) for x in d) + "])" if d else "(a: {})"
    return "{" + ", ".join("%s: %s" % (src_str([ord(ch) for ch in k]), src_lit(v)) for k, v in sorted(d.items())) + "}"


def bound_src(c):
    e = "//encoding.%s" % c["codec"]
    return ("let dec = %s.decode; let enc = %s.encode; let v = dec(%s); let lit = %s; "
            "(same: v = lit, back: dec(enc(lit)) = lit, again: dec(enc(v)) = v)") % (e, e, src_bytes(doc_text(c["doc"]).encode("utf-8")), src_lit(c["doc"]))


def is_true_dump(d):
    return d is not None and len(d.get("s", [])) == 1 and d["s"][0].get("t") == []


def gen_cases(rng, tier):
    n = 1 if tier == "quick" else 8
    cases = []

    def add(c):
        c["id"] = len(cases)
        cases.append(c)
    # corpus: the witnesses of every finding and the probes of the property text, always first
    for codec in ("json", "yaml"):
        add({"kind": "round", "codec": codec, "strict": True, "doc": {"a": [1, "", [], {}, None, True, False, 1.5]}})
        add({"kind": "round", "codec": codec, "strict": True, "doc": {"": 1}})
        for d in ({"": 1, "k2": 2}, {"k1": 1, "": 2, "k3": [3]}, [{"a": 1, "": {"": 2, "b": 3}}], {"o": {"x": 1, "y": 2, "": 3, "z": 4}}):
            add({"kind": "round", "codec": codec, "strict": True, "doc": d})
            add({"kind": "round", "codec": codec, "strict": False, "doc": d})
        add({"kind": "round", "codec": codec, "strict": False, "doc": {"a": [], "b": ""}})
        for r in ([["set", True, [["num", 2], ["num", 4]]], ["arr", 0, [["num", 2], None, ["num", 6]]],
                   ["tup", [["s", ["str", 1, [98, 99]]]]], ["dict", True, [[["str", 0, [97]], ["num", 2]], [["str", 0, [97]], ["num", 4]]]],
                   ["dict", False, [[["num", 2], ["num", 4]]]], ["tup", [["b", ["num", 2]]]], ["tup", [["b", ["set", True, [["num", 2]]]]]],
                   ["tup", [["a", ["set", True, [["num", 2], ["num", 4]]]]]], ["true"], ["bytes", 0, [97]], ["fn"],
                   ["tup", [["a", ["num", 2]]]], ["tup", [["a", ["str", 0, [97]]]]], ["tup", [["s", ["num", 2]]]],
                   ["tup", [["a", ["num", 2]], ["b", ["num", 4]]]], ["tup", [["@", ["num", 2]], ["@item", ["num", 4]]]]]):
            add({"kind": "enc", "codec": codec, "strict": True, "rv": r})
    for z2 in (1, -1, 74, 0, 2 * (2 ** 53 - 1), -4, 3, 2 * 2 ** 31, 2 * (2 ** 31 - 1), 2 * 2 ** 32, 2 * (2 ** 32 + 1), 2 * 2 ** 52,
               2 * (2 ** 53 - 2), 2 * (2 ** 52 + 1), 2 * 2 ** 53):
        add({"kind": "bits_set", "n2": z2})
    for s in ([-2], [0, 10, 104], [0, 1, 2], [], [1], [-2, 0], [62, 64, 66], [0, 104], [102, 104], [2 * z for z in range(53)]):
        add({"kind": "bits_mask", "elems2": s})
    for z in (0, 1, 2 ** 31, 2 ** 32 - 1, 2 ** 32 + 1, 2 ** 52 + 1, 2 ** 53 - 1):
        add({"kind": "bits_rt", "n": z})
    for m in ([], [["a", "b"], [], ["c"]], [[""]], [["a\r\nb"]], [["a", "b"], ["c"]], [['a"b', " "]],
              [["\ufeffid", "name"], ["1", "x"]], [["\ufeff"]], [["\ufeff\ufeffa", ""], ["", "b"]], [["\x00", "\u200b"], [" a ", '"']],
              [["", "a"], ["b", ""]], [['""', "\u00a0x"], ["\\.", "#"]]):
        add({"kind": "csv", "m": m})
    for t in ("\ufeffa,b\n", "\ufeff\n", "a,\ufeffb\n\x00,c\n"):
        add({"kind": "csv_dec", "inp": t})
    for r in (["set", True, [["num", 2], ["num", 4]]], ["arr", 0, [["num", 2], None, ["num", 6]]], ["arr", 1, [["num", 2]]],
              ["str", 1, [98, 99]], ["dict", False, [[["str", 0, [97]], ["num", 2]]]], ["bytes", 0, [97, 98]],
              ["tup", [["{||}", ["num", 2]]]], ["tup", [["{||}", ["arr", 0, [["num", 2]]]]]], ["str", 0, [97, -1, 98]]):
        add({"kind": "wire", "rv": r})
    for d in (None, [None], {"{||}": 1}, {"{||}": [1], "a": 2}, [1, 2], {"a": {"{||}": []}}):
        add({"kind": "wire_dec", "doc": d})
    add({"kind": "impl", "what": "yaml_nonstring_key"})
    add({"kind": "impl", "what": "wire_nonfinite"})
    add({"kind": "impl", "what": "yaml_leading_newline"})
    add({"kind": "impl", "what": "yaml_uint64"})
    add({"kind": "impl", "what": "yaml_merge_key"})
    # the int64 boundary (2^63, its float64 neighbours, -2^63): top level, in arrays, nested, as object values; both codecs
    for codec in ("json", "yaml"):
        for x in BOUND_NUMS:
            for pos in BOUND_POS:
                add({"kind": "bound", "codec": codec, "doc": pos(x)})
                add({"kind": "float_round", "codec": codec, "doc": pos(x)})
    # histories of one configured codec function: the enumerated core (the random ones come last)
    for c in hist_core():
        add(c)

    # the empty key next to other keys: decode -> encode -> decode chains and encoder inputs, both codecs and modes
    for i in range(28 * n):
        d = gen_empty_key_doc(rng)
        codec, strict = ("json", "yaml")[i % 2], (True, True, False)[i % 3]
        if i % 4 == 3:
            add({"kind": "enc", "codec": codec, "strict": strict, "rv": shuffle_dicts(rv_of_doc(d, strict), rng)})
        else:
            add({"kind": "round", "codec": codec, "strict": strict, "doc": d})
    for _ in range(130 * n):
        codec = "json" if rng.random() < 0.7 else "yaml"
        strict = rng.random() < 0.7
        alpha = ALPHA if codec == "json" else ALPHA[:8]
        d = gen_doc(rng, rng.randrange(1, 4), alpha=alpha)
        k = rng.random()
        if k < 0.3:
            add({"kind": "dec", "codec": codec, "strict": strict, "doc": d})
        elif k < 0.65:
            add({"kind": "round", "codec": codec, "strict": strict, "doc": d})
        else:
            add({"kind": "enc", "codec": codec, "strict": strict, "rv": rv_of_doc(d, strict)})
    for _ in range(110 * n):
        codec = "json" if rng.random() < 0.75 else "yaml"
        add({"kind": "enc", "codec": codec, "strict": rng.random() < 0.75, "rv": gen_rv(rng, rng.randrange(1, 4))})
    for _ in range(40 * n):
        add({"kind": "float_round", "codec": rng.choice(["json", "json", "yaml"]), "doc": gen_float_doc(rng, 2)})
    for _ in range(60 * n):
        r = rng.random()
        if r < 0.45:
            z = rng.choice([rng.randrange(0, 64), rng.randrange(0, 2 ** 53), 2 ** rng.randrange(53), 2 ** 53 - 1 - rng.randrange(100)])
            add({"kind": "bits_set", "n2": 2 * z})
        elif r < 0.55:
            add({"kind": "bits_set", "n2": rng.choice([-2, -7, 1, 5, 2 ** 40 + 1, -1])})
        elif r < 0.9:
            add({"kind": "bits_mask", "elems2": [2 * z for z in sorted(rng.sample(range(53), rng.randrange(0, 7)))]})
        else:
            add({"kind": "bits_mask", "elems2": rng.choice([[-2, 4], [1], [2, -2], [3, 4]])})
        if r < 0.5:
            add({"kind": "bits_rt", "n": rng.randrange(0, 2 ** 53)})
    for _ in range(110 * n):
        add({"kind": "csv", "m": gen_matrix(rng)})
    for _ in range(40 * n):
        add({"kind": "csv_dec", "inp": gen_csv_text(rng)})
    for _ in range(70 * n):
        add({"kind": "wire", "rv": gen_wire_safe(rng, rng.randrange(1, 4))})
    for _ in range(45 * n):
        add({"kind": "wire", "rv": gen_rv(rng, rng.randrange(1, 3), wire=True)})
    for _ in range(40 * n):
        d = gen_doc(rng, 2, empty_key_p=0)
        if rng.random() < 0.4:
            d = {"{||}": d} if rng.random() < 0.6 else {"{||}": d, "a": 1}
        add({"kind": "wire_dec", "doc": d})
    for c in hist_random(rng, n):
        add(c)
    if tier == "thorough":
        # exhaustive small scope: every document of depth <= 2 over a small base, both modes
        atoms = [None, True, False, 0, 1.5, "", "a", [], {}]
        docs = list(atoms) + [[a] for a in atoms] + [{"k": a} for a in atoms] + [[a, b] for a in atoms for b in atoms] + \
            [{"k": a, "": b} for a in atoms[:5] for b in atoms[:3]] + [[[a]] for a in atoms] + [{"k": [a]} for a in atoms] + [[{"k": a}] for a in atoms]
        for d in docs:
            for strict in (True, False):
                add({"kind": "round", "codec": "json", "strict": strict, "doc": d})
                add({"kind": "enc", "codec": "json", "strict": strict, "rv": rv_of_doc(d, strict)})
        fields = ["", "a", '"', ",", "\n", "\r", " ", "\r\n", 'a"', "\ufeff", "\x00", "\u00a0"]
        for a in fields:
            for b in fields:
                add({"kind": "csv", "m": [[a, b]]})
                add({"kind": "csv", "m": [[a], [b]]})
        for z in range(0, 130):
            add({"kind": "bits_set", "n2": 2 * z})
    return cases

# ---------------------------------------------------------------- running


def sources(c):
    """arr.ai sources (or harness requests) a case needs: list of (slot, cmd, request)"""
    k = c["kind"]
    if k in ("dec", "round", "float_round"):
        strict = c.get("strict", True)
        b = src_bytes(doc_text(c["doc"]).encode("utf-8"))
        dec = CODEC[(c["codec"], strict, "dec")]
        enc = CODEC[(c["codec"], strict, "enc")]
        out = [("a", "eval", {"src": dec % b})]
        if k != "dec":
            out.append(("b", "eval", {"src": dec % (enc % (dec % b))}))
        return out
    if k == "enc":
        return [("a", "eval", {"src": CODEC[(c["codec"], c["strict"], "enc")] % src_rv(c["rv"])})]
    if k == "bits_set":
        return [("a", "eval", {"src": "//bits.set(%s)" % src_num(c["n2"])})]
    if k == "bits_mask":
        return [("a", "eval", {"src": "//bits.mask({%s})" % ", ".join(src_num(z) for z in c["elems2"])})]
    if k == "bits_rt":
        return [("a", "eval", {"src": "//bits.mask(//bits.set(%d))" % c["n"]})]
    if k == "csv":
        m = src_matrix(c["m"])
        return [("a", "eval", {"src": "//encoding.csv.encode(%s)" % m}),
                ("b", "eval", {"src": "//encoding.csv.decode(//encoding.csv.encode(%s))" % m})]
    if k == "csv_uni":
        m = "[" + ", ".join("[" + ", ".join(src_str([ord(ch) for ch in f]) for f in r) + "]" for r in c["m"]) + "]"
        return [("a", "eval", {"src": m}), ("b", "eval", {"src": "//encoding.csv.decode(//encoding.csv.encode(%s))" % m})]
    if k == "csv_dec":
        inp = c["inp"].encode("utf-8") if isinstance(c["inp"], str) else bytes(c["inp"])
        return [("a", "eval", {"src": "//encoding.csv.decode(%s)" % src_bytes(inp)})]
    if k == "wire":
        return [("a", "c13wire", {"src": src_rv(c["rv"])})]
    if k == "wire_dec":
        return [("a", "c13wiredec", {"doc": doc_text(c["doc"])})]
    if k == "hist":
        return [("h", "eval", {"src": hist_src(c)})] + [("o%d" % i, "eval", {"src": hist_one_src(c, d)}) for i, d in enumerate(c["docs"])]
    if k == "bound":
        return [("a", "eval", {"src": bound_src(c)})]
    if k == "impl":
        if c["what"] == "yaml_nonstring_key":
            return [("a", "eval", {"src": "//encoding.yaml.decode('1: a')"}), ("b", "eval", {"src": "//encoding.yaml.decode('\"1\": a')"})]
        if c["what"] == "yaml_uint64":
            return [("a", "eval", {"src": "//encoding.yaml.encode(//encoding.yaml.decode('9223372036854775808'))"})]
        if c["what"] == "yaml_merge_key":
            return [("a", "eval", {"src": "//encoding.yaml.decode(//encoding.yaml.encode({\"<<\": 1}))"})]
        if c["what"] == "yaml_leading_newline":
            return [("a", "eval", {"src": "//encoding.yaml.decode(//encoding.yaml.encode((s: \"\\nz\")))"})]
        return [("a", "c13wire", {"src": "1/0"})]
    raise ValueError(k)


def wire_obs(o):
    """c13wire / c13wiredec observation -> eval-style observation of the value read back"""
    if o is None:
        return None
    if o.get("st") == "ok":
        return {"st": "ok", "val": o["back"]}
    return {"st": o.get("st")}


def contains_fn(r):
    return isinstance(r, list) and (r[:1] == ["fn"] or any(contains_fn(x) for x in r))


def multi_dict_with_fn(r):
    """a multi-valued dict holding a function: whether the duplicate key or the function (not a data value,
    outside the model) is met first depends on the enumeration order"""
    if not isinstance(r, list):
        return False
    if r[:1] == ["dict"] and r[1] and contains_fn(r[2]):
        return True
    return any(multi_dict_with_fn(x) for x in r)


def coq_case(c, obs):
    """Coq case13 term, or None when the case is checked on the implementation side only"""
    k = c["kind"]
    a, b = obs.get("a"), obs.get("b")
    if k == "dec":
        j, o = cjson(c["doc"]), o_val(a)
        return None if j is None or o is None else "(KDec %s %s %s)" % (cbool(c["strict"]), j, o)
    if k == "round":
        j, o = cjson(c["doc"]), o_val(b)
        return None if j is None or o is None else "(KRound %s %s %s)" % (cbool(c["strict"]), j, o)
    if k == "enc":
        if multi_dict_with_fn(c["rv"]):
            return None
        o, _ = o_json(a, c["codec"])
        return None if o is None else "(KEnc %s %s %s)" % (cbool(c["strict"]), crv(c["rv"]), o)
    if k == "bits_set":
        o = o_val(a)
        return None if o is None else "(KBitsSet %s %s)" % (cnum2(c["n2"]), o)
    if k == "bits_mask":
        o = o_val(a)
        return None if o is None else "(KBitsMask (VSet [%s]) %s)" % ("; ".join("(VNum %s)" % cnum2(z) for z in c["elems2"]), o)
    if k == "wire":
        if a is None or str(a.get("st", "")).startswith("input-"):
            return None
        o = o_val(wire_obs(a))
        return None if o is None else "(KWire %s %s)" % (crv(c["rv"]), o)
    if k == "wire_dec":
        j, o = cjson(c["doc"]), o_val(wire_obs(a))
        return None if j is None or o is None else "(KWireDec %s %s)" % (j, o)
    if k == "csv":
        if a is None or b is None:
            return None
        if a["st"] == "ok":
            bs = dump_bytes(a["val"])
            if bs is None:
                return None
            enc = "(OB %s)" % zl(list(bs))
        else:
            enc = "OBErr" if a["st"] == "err" else "OBPanic"
        o = o_mat(b)
        return None if o is None else "(KCsv %s %s %s)" % (crecs(c["m"]), enc, o)
    if k == "csv_dec":
        o = o_mat(a)
        inp = c["inp"].encode("utf-8") if isinstance(c["inp"], str) else bytes(c["inp"])
        return None if o is None else "(KCsvDec %s %s)" % (zl(list(inp)), o)
    return None


def impl_oracle(run, c, obs):
    """implementation-side oracles for cases outside the model; returns (checked, nontrivial)"""
    k = c["kind"]
    a, b = obs.get("a"), obs.get("b")
    rec = {"case": c, "observed": {"a": a, "b": b}}
    if k == "float_round":
        if a is None or a.get("st") != "ok":
            return True, False                         # text the decoder rejects (e.g. a control character in YAML)
        good = b is not None and b.get("st") == "ok" and canon(b["val"]) == canon(a["val"])
        if not good:
            rec["oracle"] = "decode(encode(decode d)) = decode d on the implementation's own values"
            sig = "q_json_key_unchecked" if has_empty_key(c["doc"]) and run.finding_for("q_json_key_unchecked") else yaml_text_sig(c)
            run.classify_failure(sig, rec)
        return True, True
    if k == "bound":
        if a is None or a.get("st") in ("timeout", "crash"):
            return False, False
        good = a.get("st") == "ok" and all(is_true_dump(tup_get(a["val"], f)) for f in ("same", "back", "again"))
        if not good:
            rec["program"] = bound_src(c)
            rec["oracle"] = "decode(text) = the number written; decode(encode(v)) = v (numbers at the int64 boundary)"
            run.classify_failure(yaml_text_sig(c), rec)
        return True, True
    if k == "bits_rt":
        good = a is not None and a.get("st") == "ok" and a["val"].get("n") is not None and float(a["val"]["n"]) == float(c["n"])
        if not good:
            rec["oracle"] = "//bits.mask(//bits.set(n)) = n"
            run.classify_failure(None, rec)
        return True, c["n"] > 1
    if k == "csv_uni":
        good = a is not None and b is not None and a.get("st") == "ok" and b.get("st") == "ok" and canon(a["val"]) == canon(b["val"])
        if not good:
            rec["oracle"] = "csv decode(encode m) = m (Unicode fields, rectangular, no CR LF)"
            run.classify_failure(None, rec)
        return True, True
    if k == "impl":
        if c["what"] == "yaml_nonstring_key":
            if a and b and a.get("st") == "ok" and b.get("st") == "ok" and canon(a["val"]) == canon(b["val"]):
                rec["oracle"] = "the YAML documents {1: a} and {\"1\": a} are different but decode to the same value"
                run.classify_failure("q_yaml_nonstring_keys_stringified", rec)
            else:
                run.corr_breaks.append({"what": "known finding q_yaml_nonstring_keys_stringified no longer reproduces", **rec})
        elif c["what"] in ("yaml_uint64", "yaml_merge_key"):
            sig = {"yaml_uint64": "q_yaml_uint64_wrapped", "yaml_merge_key": "q_yaml_merge_key_unquoted"}[c["what"]]
            if a and a.get("st") == "err":
                rec["oracle"] = "yaml decode(encode(decode d)) = decode d / decode(encode v) = v"
                run.classify_failure(sig, rec)
            else:
                run.corr_breaks.append({"what": "known finding %s no longer reproduces" % sig, **rec})
        elif c["what"] == "yaml_leading_newline":
            want = {"t": [["s", {"s": [{"t": [["@", {"n": "0"}], ["@char", {"n": "10"}]]}, {"t": [["@", {"n": "1"}], ["@char", {"n": "122"}]]}], "c": 2}]]}
            if a and a.get("st") == "ok" and canon(a["val"]) != canon(want):
                rec["oracle"] = "yaml decode(encode((s: \"\\nz\"))) = (s: \"\\nz\")"
                run.classify_failure("q_yaml_leading_newline_lost", rec)
            else:
                run.corr_breaks.append({"what": "known finding q_yaml_leading_newline_lost no longer reproduces", **rec})
        else:
            if a and a.get("st") == "panic":
                rec["oracle"] = "rel.MarshalToJSON(1/0) panics instead of returning an error"
                run.classify_failure("q_wire_nonfinite_panics", rec)
            else:
                run.corr_breaks.append({"what": "known finding q_wire_nonfinite_panics no longer reproduces", **rec})
        return True, False
    return False, False


def csv_ok_py(m):
    """python twin of Sys/Csv.v csv_ok"""
    m = [[cell(f) for f in r] for r in m]
    if not m:
        return True
    w = len(m[0])
    return w > 0 and all(len(r) == w for r in m) and not any("\r\n" in f for r in m for f in r) and (w != 1 or all(r != [""] for r in m))


def has_empty_key(d):
    if isinstance(d, dict):
        return any(k == "" or has_empty_key(v) for k, v in d.items())
    if isinstance(d, list):
        return any(has_empty_key(x) for x in d)
    return False


def nontrivial(c):
    k = c["kind"]
    if k in ("dec", "round"):
        return isinstance(c["doc"], (list, dict)) and len(c["doc"]) > 0
    if k == "enc":
        return c["rv"][0] in ("tup", "arr", "dict", "set") and len(c["rv"][-1]) > 0
    if k in ("bits_set",):
        return c["n2"] > 2
    if k == "bits_mask":
        return len(c["elems2"]) > 1
    if k == "csv":
        return sum(len(r) for r in c["m"]) > 1
    if k == "csv_dec":
        return len(c["inp"]) > 2
    if k == "wire":
        return c["rv"][0] in ("tup", "arr", "dict", "set") and len(c["rv"][-1]) > 0
    if k == "wire_dec":
        return isinstance(c["doc"], (list, dict)) and len(c["doc"]) > 0
    return False


def cfg_term(run):
    """the committed quirk set: a flag is on iff its finding is open in known_findings.txt"""
    on = {f["sig"] for f in run.opened}
    b = lambda sig: cbool(sig in on)
    return ("{| c_j := {| q_json_strict_set_to_object := %s; q_json_offsets_holes_dropped := %s; q_json_multi_dict_panic := %s; "
            "q_json_key_unchecked := %s; q_json_b_unchecked := %s; q_json_a_set_as_array := %s |}; "
            "c_b := {| q_bits_set_unimplemented := %s; q_bits_mask_nonnatural := %s |}; "
            "c_w := {| q_wire_sets_become_arrays := %s; q_wire_offsets_holes_lost := %s; q_wire_null_panics := %s |}; "
            "c_csv_empty := %s |}") % tuple(b(x) for x in (
                "q_json_strict_set_to_object", "q_json_offsets_holes_dropped", "q_json_multi_dict_panic", "q_json_key_unchecked",
                "q_json_b_unchecked", "q_json_a_set_as_array", "q_bits_set_unimplemented", "q_bits_mask_nonnatural",
                "q_wire_sets_become_arrays", "q_wire_offsets_holes_lost", "q_wire_null_panics", "q_csv_empty_input_rejected"))


def leading_nl(x):
    """a string (value, key, attribute) that begins with a newline, at any depth"""
    if isinstance(x, str):
        return x.startswith("\n") or any(c in x for c in "\u0085\u2028\u2029")   # YAML line breaks: block-scalar emission
    if isinstance(x, dict):
        return any(leading_nl(k) or leading_nl(v) for k, v in x.items())
    if isinstance(x, list):
        if len(x) == 3 and x[0] == "str" and isinstance(x[2], list):
            return bool(x[2]) and (x[2][0] == 10 or any(c in (0x85, 0x2028, 0x2029) for c in x[2]))
        return any(leading_nl(y) for y in x)
    return False


def has_merge_key(x):
    """the string "<<" used as a mapping key, at any depth (document or value)"""
    if isinstance(x, dict):
        return any(k == "<<" or has_merge_key(v) for k, v in x.items())
    if isinstance(x, list):
        if len(x) == 3 and x[0] == "dict":
            return any((k[0] == "str" and k[2] == [60, 60]) or has_merge_key(v) for k, v in x[2])
        return any(has_merge_key(y) for y in x)
    return False


def has_uint64(x):
    """an integer that yaml.v3 can only hold as uint64"""
    if isinstance(x, bool):
        return False
    if isinstance(x, int):
        return 2 ** 63 <= x < 2 ** 64
    if isinstance(x, dict):
        return any(has_uint64(v) for v in x.values())
    if isinstance(x, list):
        return any(has_uint64(y) for y in x)
    return False


def yaml_text_sig(c):
    """known defects of the YAML text layer (outside the model) a yaml case can run into"""
    if c.get("codec") != "yaml":
        return None
    x = c.get("doc", c.get("rv"))
    if leading_nl(x):
        return "q_yaml_leading_newline_lost"
    if has_merge_key(x):
        return "q_yaml_merge_key_unquoted"
    if "doc" in c and has_uint64(c["doc"]):
        return "q_yaml_uint64_wrapped"
    return None


def run_cases(run, vh, cases, shard=120):
    reqs = {"eval": [], "c13wire": [], "c13wiredec": []}
    for c in cases:
        for slot, cmd, rq in sources(c):
            rq = dict(rq)
            rq["id"] = "%d.%s" % (c["id"], slot)
            reqs[cmd].append(rq)
    obs = {c["id"]: {} for c in cases}
    # the one-shot programs of histories repeat (same function, configuration and document): each distinct one runs once
    once, same = {}, {}
    for rq in reqs["eval"]:
        if rq["id"].split(".")[1].startswith("o"):
            if rq["src"] in once:
                same.setdefault(once[rq["src"]], []).append(rq["id"])
            else:
                once[rq["src"]] = rq["id"]
    dup = {x for ids in same.values() for x in ids}
    reqs["eval"] = [rq for rq in reqs["eval"] if rq["id"] not in dup]
    for cmd, rs in reqs.items():
        if not rs:
            continue
        outs, rc, err = run_harness(vh, cmd, rs)
        for rid, o in outs.items():
            for rid2 in [rid] + same.get(rid, []):
                cid, slot = rid2.split(".")
                obs[int(cid)][slot] = o
    terms = []
    for c in cases:
        t = coq_case(c, obs[c["id"]])
        if t is not None:
            terms.append((c["id"], t))
    chunks = [terms[i:i + shard] for i in range(0, len(terms), shard)]
    results = {}

    def do(idx_chunk):
        idx, chunk = idx_chunk
        body = ["From Coq Require Import NArith.", "From Arrai Require Import Base.Val Sys.Outcome Sys.Json Sys.Bits Sys.Wire Sys.Csv Check.C13Check.",
                "Definition cases : list kcase := ["]
        body.append(";\n".join("  {| k_id := %d; k_case := %s |}" % (cid, t) for cid, t in chunk))
        body.append("].\nDefinition G : cfg := %s.\nDefinition R := Eval vm_compute in report G cases.\nPrint R." % cfg_term(run))
        rc2, so, se = coq_eval("c13_cases_%d" % idx, "\n".join(body))
        return coq_report(so, "R"), se

    with concurrent.futures.ThreadPoolExecutor(max_workers=12) as ex:
        for (rep, se), chunk in zip(ex.map(do, enumerate(chunks)), chunks):
            if rep is None:
                run.corr_breaks.append({"what": "model evaluation failed (Check/C13Check.v)", "log": se[-1500:]})
                for cid, _ in chunk:
                    results[cid] = None
                continue
            for cid, _ in chunk:
                results[cid] = 0
            for cid, code in rep:
                results[cid] = code
    hterms = []
    for c in cases:
        if c["kind"] == "hist":
            t = hist_coq(c, obs[c["id"]])
            if t is not None:
                hterms.append((c["id"], t))
    hchunks = [hterms[i:i + 60] for i in range(0, len(hterms), 60)]

    def doh(idx_chunk):
        idx, chunk = idx_chunk
        body = ["From Coq Require Import NArith.", "From Arrai Require Import Base.Val Sys.Outcome Sys.Json Sys.Bits Sys.Wire Sys.Csv Sys.Codec Check.C13Check.",
                "Definition cases : list hcase := ["]
        body.append(";\n".join("  {| h_id := %d; %s |}" % (cid, t) for cid, t in chunk))
        body.append("].\nDefinition G : cfg := %s.\nDefinition R := Eval vm_compute in report_hist G cases.\nPrint R." % cfg_term(run))
        rc2, so, se = coq_eval("c13_hist_%d" % idx, "\n".join(body))
        return coq_report(so, "R"), se

    with concurrent.futures.ThreadPoolExecutor(max_workers=8) as ex:
        for (rep, se), chunk in zip(ex.map(doh, enumerate(hchunks)), hchunks):
            if rep is None:
                run.corr_breaks.append({"what": "model evaluation failed (Check/C13Check.v report_hist)", "log": se[-1500:]})
                continue
            for cid, _ in chunk:
                results[cid] = 0
            for cid, code in rep:
                results[cid] = code
    return obs, results


ORACLE = {
    "dec": "decoded value differs from the model's ToArrai (correspondence)",
    "enc": "encoder output differs from the model's FromArrai where no known-defective site is involved",
    "round": "decode(encode(decode d)) = decode d",
    "bits_set": "//bits.set differs from the model", "bits_mask": "//bits.mask differs from the model",
    "wire": "UnmarshalFromJSON(MarshalToJSON(v)) = v on wire-safe values",
    "wire_dec": "UnmarshalFromJSON differs from the model's jsonUnescape (correspondence)",
    "csv": "csv decode(encode m) = m for matrices satisfying csv_ok",
    "csv_dec": "csv decode differs from the model's reader (correspondence)",
}
CORR_ONLY = ("dec", "wire_dec", "csv_dec")


def main(tier, seed, replay=None):
    run = Run(PROP, tier, seed)
    vh, proof = prepare(PROP_FILES, thorough=False)
    if tier == "thorough" and proof.get("ok") and not replay:
        # coqchk needs the full logical name (common.prepare(thorough=True) passes "Properties.C13", which it cannot resolve)
        cmd = "timeout 2400 coqchk -silent -o -Q . Arrai Arrai.Properties.C13 Arrai.Check.C13Check"
        rc, so, se = sh(cmd, timeout=2500, cwd=COQ)
        proof["coqchk"] = (so + se)[-1500:]
        proof["checker_cmd"] += " ; " + cmd
        if rc != 0:
            proof["broken"].append({"what": "coqchk failed", "log": (so + se)[-1500:]})
            proof["ok"] = False
            proof["discharged"] = 0
    if replay:
        rp = json.load(open(replay))
        cases = [rp["case"]] if "case" in rp else []
        for i, c in enumerate(cases):
            c["id"] = i
    else:
        cases = []
        seeds = [seed] if tier == "quick" else [seed, seed + 1, seed + 2]
        for s in seeds:
            for c in gen_cases(random.Random(s), tier if s == seed else "quick"):
                c["id"] = len(cases)
                cases.append(c)
    obs, results = run_cases(run, vh, cases)
    hist, skipped, noted, dist, seen = {}, 0, 0, 0, set()
    hcov = {"by_function": {}, "by_shape": {}, "by_length": {}, "history_is_an_error": 0, "also_compared_with_the_model": 0}
    for c in cases:
        k = c["kind"]
        hist[k] = hist.get(k, 0) + 1
        key = json.dumps({x: y for x, y in c.items() if x != "id"}, sort_keys=True, ensure_ascii=False)
        if k == "hist":
            hk = "%s %s" % (c["fn"], c["cfg"])
            if not hist_oracle(run, c, obs[c["id"]]):
                skipped += 1
                continue
            hcov["by_function"][hk] = hcov["by_function"].get(hk, 0) + 1
            hcov["by_shape"][c["shape"]] = hcov["by_shape"].get(c["shape"], 0) + 1
            hcov["by_length"][str(len(c["docs"]))] = hcov["by_length"].get(str(len(c["docs"])), 0) + 1
            if (obs[c["id"]].get("h") or {}).get("st") != "ok":
                hcov["history_is_an_error"] += 1
            if key not in seen:
                seen.add(key)
                dist += 1
            code = results.get(c["id"])
            if code is not None:
                hcov["also_compared_with_the_model"] += 1
            if code in (None, 0, 3):
                continue
            rec = {"case": {x: y for x, y in c.items() if x != "id"}, "program": hist_src(c), "observed": obs[c["id"]].get("h"),
                   "oracle": "a result of the history differs from Codec.history json_encoder (Sys/Codec.v, Sys/Json.v)", "model_code": code}
            ysig = [yaml_text_sig({"codec": c["cls"], "doc": d}) for d in c["docs"]]
            if code in (1, 2) and any(ysig):
                run.classify_failure([y for y in ysig if y][0], rec)
            elif code == 1:
                run.classify_failure(None, rec)
            elif code == 2:
                noted += 1
            elif code in SIGS:
                run.classify_failure(SIGS[code], rec)
            else:
                run.classify_failure("unknown-code-%s" % code, rec)
            continue
        checked, nt = impl_oracle(run, c, obs[c["id"]])
        code = results.get(c["id"], "impl" if checked else "skip")
        if code == "skip" and k == "csv" and csv_ok_py(c["m"]) and c["m"] and obs[c["id"]].get("b") is not None:
            # the decoder's answer is not even a matrix of strings (or did not arrive) inside the guard
            run.classify_failure(None, {"case": {x: y for x, y in c.items() if x != "id"}, "observed": obs[c["id"]],
                                        "oracle": ORACLE["csv"] + " (result is not a matrix of strings)"})
            continue
        if code == "skip" or code is None or code == 3:
            skipped += 1
            continue
        if key not in seen:
            seen.add(key)
            if (nt if checked else nontrivial(c)):
                dist += 1
        if checked or code == 0:
            continue
        rec = {"case": {x: y for x, y in c.items() if x != "id"}, "observed": obs[c["id"]], "oracle": ORACLE.get(k, k), "model_code": code}
        if code in (1, 2) and yaml_text_sig(c):
            run.classify_failure(yaml_text_sig(c), rec)                    # text layer (yaml.v3), outside the model
        elif code == 1:
            if k in CORR_ONLY:
                run.corr_breaks.append({"what": "implementation differs from the model", **rec})
            else:
                run.classify_failure(None, rec)
        elif code == 2:
            noted += 1
        elif code in SIGS:
            run.classify_failure(SIGS[code], rec)
        else:
            run.classify_failure("unknown-code-%s" % code, rec)
    # an open finding whose committed witness no longer fails is a correspondence break (DESIGN 4, note 4)
    if not replay:
        for f in run.opened:
            if f["id"] not in run.known_hits:
                run.corr_breaks.append({"what": "open finding %s (%s) was not reproduced by its witness" % (f["id"], f["sig"])})
    if noted:
        run.notes.append("%d cases differ from the bug-compatible model inside a known-defective region (not alarmed, DESIGN 4)" % noted)
    run.cov.update({
        "evaluations": len(cases), "distinct_nontrivial": dist, "skipped_outside_model": skipped,
        "rule": "cases = generated documents (nested, empty containers, null, booleans, integers and halves up to 2^53, Unicode strings, empty keys) "
                "decoded / round-tripped / encoded through //encoding.json and //encoding.yaml in strict and non-strict mode; arbitrary values "
                "(decoder images with one mutation: offsets, holes, plain sets, multi-valued dicts, non-string keys, mis-tagged tuples) encoded; "
                "//bits.set and //bits.mask on integers below 2^53, halves, negatives; string matrices incl. ragged/empty/CRLF through //encoding.csv "
                "and random bytes through its decoder; values and foreign documents through rel.MarshalToJSON/UnmarshalFromJSON; every case is "
                "also evaluated by the Coq model (vm_compute) and classified there; floats outside the model, Unicode CSV and mask(set n) "
                "use an implementation-side round-trip oracle; distinct by case content; non-trivial = composite input with at least one member",
        "samples": [json.dumps({x: y for x, y in cases[i].items() if x != "id"}, ensure_ascii=False)[:200] for i in range(0, len(cases), max(1, len(cases) // 8))][:8],
        "kind_histogram": hist, "exhaustive": False, "histories": hcov,
    })
    run.assumptions = ["encoding/json, yaml.v3 and encoding/csv text layers: json/yaml are outside the model (documents are compared after parsing), "
                       "encoding/csv Writer/Reader are transcribed in Sys/Csv.v and exercised by this run",
                       "numbers are integers and half-integers below 2^53 in the model; other floats are checked on the implementation side only",
                       "rel.ValueLess order of generated sets is the ascending order of their (numeric) members"]
    return run.finish(proof)
