"""C10: every program ends in a value or an error, never a crash or a hang."""
import random
import re
from common import *
import expr as X
import pool
import evalcheck
import c10seq

PROP = "C10"
PROP_FILES = ["Properties/C10.v", "Check/C10Check.v"]
N = X.num

BIN = ["|", "&", "&~", "~~", "with", "without", "++", "+", "-", "*", "/", "%", "-%", "//", "^", "+>", "\\", "&&", "||",
       "<&>", "<->", "-&-", "---", "-&>", "<&-", "-->", "<--", "=>", ">>", ">>>", ":>", "where", "orderby", "order", "rank",
       "sum", "max", "mean", "median", "min", "->"]
CMP = ["<:", "!<:", "=", "!=", "<", ">", "<=", ">=", "(<)", "(>)", "(<=)", "(>=)", "(<>)", "(<>=)", "!(<)", "!(<>=)"]
UN = ["-", "+", "!", "^", "*"]
POST = ["count", "single"]


def operands():
    P = pool.base_pool()
    keep = ["n0", "n1", "n0.5", "n-1", "t0", "ta1", "tab", "tat", "tchar", "titem", "tentry", "empty", "true", "s1", "s12", "sE", "smix",
            "str_a", "str_abc", "str_off", "str_hole", "by_12", "by_off", "ar_12", "ar_hole", "ar_off", "ar_nest", "d12", "dab", "dmulti",
            "r_a", "r_ab", "r_atx", "u_str_num", "u_3", "rj_ba"]
    ops = {k: X.src(P[k]) for k in keep}
    ops["fn"] = "(\\x x)"
    ops["fn2"] = "(\\x \\y x)"
    ops["native"] = "//seq.concat"
    ops["std"] = "//math"
    ops["neg"] = "(-{1})"
    ops["negneg"] = "(@neg: (@neg: 1))"
    ops["big"] = "123456789012345678901234567890"
    ops["inf"] = "(1/0)"
    ops["nan"] = "(0/0)"
    return ops


TOKENS = ["(", ")", "{", "}", "[", "]", "<<", ">>", "|", ",", ":", ";", ".", "\\", "let", "cond", "=", "1", "0.5", "a", "x", "\"s\"", "'c'",
          "`r`", "$\"x${1}\"", "+", "-", "*", "/", "%", "^", "&", "~", "!", "<", ">", "->", "=>", ">>", "//", "@", "@item", "...", "_", "?",
          "where", "nest", "unnest", "rank", "orderby", "with", "without", "count", "true", "{:", ":}", "{|", "|}", "#c\n", " ", "\n", "\t",
          "%a", "\\x", "\\u12", "\"\\101\"", "\"\\q\"", "//{./x}", "//{/x}", "//os", "->*", "&&", "||", "if", "else", "rec"]


def gen_cases(rng, tier):
    ops = operands()
    names = sorted(ops)
    cases = []

    def add(stream, src):
        cases.append({"id": len(cases), "stream": stream, "src": src})
    # stream 1: well-formed, ill-typed: every operator x operand kinds
    n1 = 600 if tier == "quick" else 6000
    if tier == "thorough":
        for op in BIN + CMP:
            for a in names:
                for b in rng.sample(names, 6):
                    add("illtyped", "%s %s %s" % (ops[a], op, ops[b]))
    for _ in range(n1):
        a, b, c = (ops[rng.choice(names)] for _ in range(3))
        k = rng.random()
        if k < 0.5:
            add("illtyped", "%s %s %s" % (a, rng.choice(BIN + CMP), b))
        elif k < 0.58:
            add("illtyped", "%s%s" % (rng.choice(UN), a))
        elif k < 0.64:
            add("illtyped", "%s %s" % (a, rng.choice(POST)))
        elif k < 0.72:
            add("illtyped", "%s(%s)" % (a, b))
        elif k < 0.78:
            add("illtyped", "%s(%s)?:%s" % (a, b, c))
        elif k < 0.83:
            add("illtyped", "%s.%s" % (a, rng.choice(["a", "@", "@item", "zz"])))
        elif k < 0.88:
            add("illtyped", "%s nest %s" % (a, rng.choice(["|a|n", "|b,c|n", "~|a|n", "a", "|a|a", "||n"])))
        elif k < 0.92:
            add("illtyped", "let %s = %s; %s" % (rng.choice(["[x, y]", "(a: x)", "{\"a\": x}", "{x, ...}", "[x, ...r]", "x"]), a, rng.choice(["x", "1"])))
        elif k < 0.96:
            add("illtyped", "cond %s {%s: 1, _: 2}" % (a, rng.choice(["[x]", "(a: x)", "1", "{1, ...}", "{\"a\": x}"])))
        else:
            add("illtyped", "//%s(%s)" % (rng.choice(["seq.concat", "seq.join", "str.lower", "str.repr", "bits.set", "bits.mask", "math.sin", "rel.union",
                                                       "fn.fix", "tuple", "dict", "array", "bytes", "eval.value", "encoding.json.decode", "encoding.json.encode",
                                                       "seq.repeat", "str.expand", "test.suite", "re.compile", "encoding.csv.decode", "encoding.yaml.decode"]), a))
    # stream 1b: operations at the edges of a representation, and callbacks that fail part-way through a collection
    SEQS = [("\"abc\"", 0, 3, "@char", "98"), ("(3\\\"abc\")", 3, 3, "@char", "98"), ("<<1, 2>>", 0, 2, "@byte", "2"), ("(3\\<<1, 2>>)", 3, 2, "@byte", "2"),
            ("[1, 2, 3]", 0, 3, "@item", "2"), ("(2\\[1, 2])", 2, 2, "@item", "2"), ("[1, , 3]", 0, 3, "@item", "3"),
            ("(\"abc\" without (@: 1, @char: 98))", 0, 3, "@char", "99"), ("{1: 2, 2: 3}", 1, 2, "@value", "3")]
    COLLS = ["{(a: 1), (a: 2), (a: 3)}", "{|a, b| (1, 2), (2, 3), (3, 4), (4, 5)}", "[(a: 1), (a: 2), (a: 3), (a: 4)]", "{1, 2, 3, 4}",
             "{1: (a: 1), 2: (a: 2), 3: (a: 3)}", "\"abcd\"", "{(a: 1), (a: (b: 2)), (a: 3), (a: 4)}", "{|a| (1), ((b: 1)), (3)}"]
    FAILING = [".a.b", ".zz", ". + {}", ".a(1)", "//seq.concat(.)", ". < {}", "(.a.b: 1)", ".a -> .b", "cond . {(a: (b: x)): x}"]
    # the core is enumerated: both ends of every sequence, one step outside and inside, with / without, right and wrong member
    for sq, off, ln, attr, val in SEQS:
        for i in (off - 1, off, off + ln - 1, off + ln):
            for v in (val, "1"):
                m = "(@: %s, %s: %s)" % (i, attr, v)
                add("boundary", "%s with %s" % (sq, m))
                add("boundary", "%s without %s" % (sq, m))
                add("boundary", "%s &~ {%s}" % (sq, m))
    for _ in range(200 if tier == "quick" else 3000):
        k = rng.random()
        if k < 0.6:
            sq, off, ln, attr, val = rng.choice(SEQS)
            i = rng.choice([off - 2, off - 1, off, off + 1, off + ln - 1, off + ln, off + ln + 1, off + ln + 7, -1, 0, 1 << 16, 1 << 62, -(1 << 62), 0.5])
            at = rng.choice([attr, attr, attr, "@char", "@byte", "@item"])
            v = rng.choice([val, val, "1", "97", "256", "-1", "1114112", "{}", "0.5"])
            m = "(@: %s, %s: %s)" % (i, at, v)
            form = rng.choice(["%s with %s", "%s without %s", "%s &~ {%s}", "%s & {%s}", "%s | {%s}", "%s (-) {%s}", "%s <: %s", "{%s} (<=) %s", "%s ++ {%s}"])
            if form in ("%s <: %s", "{%s} (<=) %s"):
                add("boundary", form % (m, sq))
            else:
                add("boundary", form % (sq, m))
        elif k < 0.75:
            sq, off, ln, attr, val = rng.choice(SEQS)
            i = rng.choice([off - 1, off, off + ln - 1, off + ln, off + ln + 1, -1, 1 << 62, 0.5])
            add("boundary", rng.choice(["%s(%s)", "%s(%s)?:0", "%s\\%s", "%s >> \\x x", "//seq.sub(%s, %s, 1)"][:3]) % ((sq, i) if rng.random() < 0.8 else (i, sq)))
        else:
            c, f = rng.choice(COLLS), rng.choice(FAILING)
            add("boundary", rng.choice(["%s where %s", "%s => %s", "%s >> %s", "%s orderby %s", "%s rank (r: %s)", "%s :> %s"]) % (c, f))
    # stream 1c: values that have just changed representation (multi-valued -> single, sparse -> dense, hole filled, last item gone)
    # under every kind of consumer
    BUILT = ["(({'a': 1} with (@: 'a', @value: 2)) without (@: 'a', @value: 2))", "(({1: 1} | {1: 2}) &~ {(@: 1, @value: 2)})",
             "(({1: 1} | {1: 2} | {1: 3}) without (@: 1, @value: 3))", "([1, , 3] without (@: 2, @item: 3))",
             "([1, 2, 3] without (@: 1, @item: 2) without (@: 2, @item: 3))", "([1] with (@: 2, @item: 3) without (@: 2, @item: 3))",
             "(\"abc\" without (@: 1, @char: 98) without (@: 2, @char: 99))", "(\"abc\" without (@: 1, @char: 98) with (@: 1, @char: 98))",
             "(\"a\" with (@: 2, @char: 99) without (@: 2, @char: 99))", "(<<1, 2, 3>> without (@: 2, @byte: 3))", "(<<1, 2, 3>> without (@: 1, @byte: 2))",
             "({(a: 1), (a: 2)} without (a: 2))", "({1, 'a'} without 'a')", "({|a, b| (1, 2), (3, 4)} without (a: 3, b: 4))",
             "(([1, 2] | [3]) &~ [3])", "((2\\[1, , 3]) without (@: 4, @item: 3))"]
    USES = ["%s => .", "%s orderby .", "{'x': 1} +> %s", "%s +> {'x': 1}", "//tuple(%s)", "//seq.join(\",\", %s)", "%s count", "{%s, 1} count", "%s = %s",
            "%s >> \\x x", "%s where true", "%s ++ [1]", "%s(0)?:9", "%s | %s", "%s & %s", "//seq.concat([%s, %s])", "%s rank (r: .)", "{%s: 1}(%s)?:0", "%s < %s",
            "let [...r] = %s; r", "let {...r} = %s; r", "//encoding.json.encode(%s)"]
    for b in BUILT:
        for u in USES:
            add("transition", u.replace("%s", b))
    # stream 1d: literal shapes the compiler must reject politely, and library functions at the edges of their domain
    SHAPES = ["{|a, b| (1, 2), (3)}", "{|a, b| (1)}", "{|a, b| (1, 2, 3), (4, 5)}", "{|a, b| (1, 2), (3, 4, 5)}", "{|a| (1), ()}", "{|a, b| }", "{|| (1)}", "{|a, a| (1, 2)}",
              "{|a, b| (1, 2), (3), (4, 5)}", "{|@, @value| (1, 2), (1)}", "{|@, @item| (0, 1), (1)}", "{1: 2, 1: 3}", "{(a: 1): 2, (a: 1): 3}", "(a: 1, a: 2)", "[1, , ]", "[, ]", "<<>>", "<<256>>", "<<-1>>",
              "<<1.5>>", "<<\"a\", {}>>", "$\"${1:d}\"", "$\"${[1,2]::, }\"", "$\"${[1,2]:02d:,}\"", "$\"${1:q}\"", "$\"${}\"", "$\"${1::}\"", "$\"${{}::x:y}\"", "$\"${\"a\":5.5s}\"",
              "(1\\2\\[3])", "(0.5\\[1])", "(\"a\"\\[1])", "%1", "1 -> \\[x, x] x", "let [] = 1; 2", "let () = []; 2", "cond {}", "cond 1 {}", "\\x \\x x",
              "(\\x [x]) = (\\x [x])", "let f = \\x [x]; f = f", "({(\\x [x])} with (\\x [x])) count", "{(\\x [x]), (\\x [x, 1])} count", "(\\x {x: [x]}) = (\\x {x: [x]})"]
    for sh in SHAPES:
        add("shape", sh)
    NONASCII = ["\"\u00e9\u00e9b\"", "\"b\u00e9\"", "\"\U0001F600x\"", "\"\"", "\"abc\"", "(2\\\"ab\")", "(\"abc\" without (@: 1, @char: 98))"]
    LIBCALLS = ["//re.compile(\"b\").match(%s)", "//re.compile(\"(.)(.)\").match(%s)", "//re.compile(\".*\").match(%s)", "//re.compile(\"(\").match(%s)", "//re.compile(\"x*\").sub(\"y\", %s)",
                "//re.compile(\"\u00e9\").subf(\\m m, %s)", "//str.upper(%s)", "//str.lower(%s)", "//str.title(%s)", "//str.repr(%s)", "//seq.split(\"\", %s)", "//seq.split(%s, %s)",
                "//seq.sub(\"\", \"x\", %s)", "//seq.contains(%s, %s)", "//seq.has_suffix(\"\u00e9\", %s)", "//seq.trim_prefix(%s, %s)", "//seq.repeat(3, %s)", "//seq.join(%s, [%s, %s])",
                "//str.expand(\"\", %s, \"\", \"\")", "//encoding.json.decode(%s)", "//encoding.yaml.decode(%s)", "//encoding.csv.decode(%s)", "//encoding.json.encode(%s)", "//bits.mask({%s count})",
                "//fmt.pretty(%s)", "//eval.value(%s)", "//archive.tar.tar({%s: %s})", "//encoding.bytes(%s)", "//unicode.utf8.encode(%s)", "//seq.concat([%s, %s])", "%s orderby .", "//str.lower(%s) >> . + 1"]
    for call in LIBCALLS:
        for sarg in (NONASCII if tier != "quick" else rng.sample(NONASCII, 3)):
            add("libcall", call.replace("%s", sarg))
    # stream 1e (enumerated): every //seq function that takes a collection of sequences, on SPARSE arrays whose items before / after
    # the hole are falsy or truthy of every sequence kind (a hole is a nil slot of the Go slice: anything that touches every slot
    # must expect it), plus offset arrays
    FALSY_TRUTHY = ['""', '"a"', "[]", "[1]", "<<>>", "<<2>>", "{}", "0", "1", "false", "true", "(a: 1)"]
    SPARSE_SHAPES = ["[%s, , %s]", "[%s, , , %s]", "[%s, %s, , %s]", "(1\\[%s, , %s])", "([%s, %s, %s] without (@: 1, @item: %s))"]
    SEQ_USES = ['//seq.join(",", %s)', "//seq.join([0], %s)", "//seq.join(<<0>>, %s)", "//seq.concat(%s)", '//seq.join("", %s)', "//seq.concat([%s, %s])",
                '//seq.contains("a", %s)', "//seq.repeat(2, %s)", '//seq.split(",", %s)', "//str.join(%s, ',')" if False else '//seq.has_prefix("a", %s)',
                "%s >> . ++ .", "//rel.union(%s)", "%s orderby .", "//fmt.pretty(%s)", "//encoding.json.encode(%s)", "$`${%s::,}`"]
    _r = random.Random("sparse-seq")      # its own PRNG: the streams that follow keep their random choices
    for shape in SPARSE_SHAPES:
        n = shape.count("%s")
        for combo in ([(a,) * n for a in FALSY_TRUTHY] + [tuple(FALSY_TRUTHY[(i + 3 * j) % len(FALSY_TRUTHY)] for j in range(n)) for i in range(len(FALSY_TRUTHY))]):
            val = shape % combo
            for use in (SEQ_USES if tier != "quick" else SEQ_USES[:6] + _r.sample(SEQ_USES[6:], 2)):
                add("sparse-seq", use.replace("%s", val))
    # stream 2: malformed source text
    n2 = 100 if tier == "quick" else 700
    for _ in range(n2):
        k = rng.random()
        if k < 0.6:
            add("soup", "".join(rng.choice(TOKENS) + rng.choice(["", " "]) for _ in range(rng.randrange(1, 9))))
        elif k < 0.85:
            base = X.src(rng.choice(list(pool.base_pool().values())))
            if len(base) > 1:
                i = rng.randrange(len(base))
                mut = rng.random()
                s = base[:i] if mut < 0.4 else base[:i] + rng.choice(TOKENS) + base[i:] if mut < 0.8 else base[:i] + base[i + 1:]
                add("truncated", s)
        else:
            add("bytes", "".join(chr(rng.choice([0, 7, 27, 34, 39, 92, 96, 127, 0xe9, 0x2028, 0x1F600] + list(range(32, 127)))) for _ in range(rng.randrange(1, 8))))
    return cases


MULTI_VALUED = ["({1: 2} | {1: 3})", "(({1: 1} | {1: 2} | {1: 3}) without (@: 1, @value: 3))"]


def signature(c, o):
    st = o.get("st")
    if st == "timeout" and "budget exhausted" in (o.get("msg") or ""):
        return None           # not run: the harness ran out of its overall time, nothing was observed
    if o.get("slow_error_text"):
        return "hang:parse-error-text"
    if st == "panic" and o.get("site") == "rel:(*DictEnumerator).Current":
        # the open finding is about dicts that hold several values under one key at the point of use; the same
        # panic on a dict that is single-valued (again) is a different defect
        multi = c["stream"].startswith("witness:") or any(m in c["src"] for m in MULTI_VALUED)
        return "panic:rel:(*DictEnumerator).Current" if multi else "panic:rel:(*DictEnumerator).Current:single-valued-dict"
    if st == "panic" and o.get("site") == "rel.String:Without" and "index out of range" in (o.get("msg") or ""):
        # the open finding is about character tuples with a negative rune (the hole marker taken for a member)
        neg = c["stream"].startswith("witness:") or re.search(r"@char:\s*\(?-", c["src"])
        return "panic:rel.String:Without:negative-char" if neg else "panic:rel.String:Without"
    if st == "panic" and o.get("site") in ("rel:asArray", "rel:asString", "rel:asBytes") and "index out of range" in (o.get("msg") or ""):
        # the open finding is about offsets that move the index range across the int64 limit
        wraps = c["stream"].startswith("witness:") or re.search(r"\d{19}", c["src"])
        return "panic:rel:as-sequence:index-range-wraps" if wraps else "panic:" + o.get("site")
    if st == "panic":
        if "makeslice" in (o.get("msg") or ""):
            return "panic:makeslice"      # an allocation sized by an index span, wherever it is asked for
        return "panic:" + (o.get("site") or "unknown")
    if st == "crash":
        if "out of memory" in (o.get("msg") or ""):
            return "crash:out-of-memory"
        return "crash:" + (o.get("msg") or "")[:40]
    if st == "timeout":
        if o.get("stuck_in") == "parse-error-text":
            return "hang:parse-error-text"      # the stacks show wbnf's ParseError.Error / walkErrors at work
        return "hang:" + ("malformed-source" if c["stream"] != "illtyped" else "evaluation")
    return None


def main(tier, seed, replay=None):
    run = Run(PROP, tier, seed)
    vh, proof = prepare(PROP_FILES, thorough=(tier == "thorough"))
    rng = random.Random(seed)
    rp = json.load(open(replay)) if replay else None
    if rp and "seq" in rp["case"]:
        cases = []
    elif replay:
        cases = [{"id": 0, "stream": rp["case"].get("stream", "illtyped"), "src": rp["case"]["src"]}]
    else:
        cases = gen_cases(rng, tier)
        for f in run.opened:        # committed witnesses are always re-run
            if f.get("witness"):
                cases.append({"id": len(cases), "stream": "witness:" + f["sig"], "src": f["witness"]})
    outs, _, _ = run_harness(vh, "eval", [{"id": c["id"], "src": c["src"], "budget_ms": 4000} for c in cases], stall=8, timeout=2400, env={"VERIF_MEM_LIMIT_GB": "12"})
    hist, sigs = {}, {}
    for c in cases:
        o = outs.get(c["id"]) or {"st": "missing"}
        hist[o.get("st")] = hist.get(o.get("st"), 0) + 1
        sig = signature(c, o)
        if sig is None:
            if c["stream"].startswith("witness:") and run.finding_for(c["stream"][8:]):
                run.corr_breaks.append({"what": "the witness of open finding %s no longer crashes or hangs" % c["stream"][8:], "src": c["src"], "observed": o.get("st")})
            continue
        sigs[sig] = sigs.get(sig, 0) + 1
        run.classify_failure(sig, {"case": {"stream": c["stream"], "src": c["src"]}, "observed": o,
                                   "oracle": "compiling and evaluating the source does not end in a value or an ordinary error: %s" % sig})
    streams = {}
    for c in cases:
        streams[c["stream"].split(":")[0]] = streams.get(c["stream"].split(":")[0], 0) + 1
    nontriv = len(set(c["src"] for c in cases if (outs.get(c["id"]) or {}).get("st") in ("ok", "err")))
    step = max(1, len(cases) // 8)
    run.cov.update({"evaluations": len(cases), "distinct_nontrivial": nontriv,
                    "rule": "three streams through syntax.EvaluateExpr under recover() and a wall-clock watchdog (a wedged process is killed and restarted): (1) well-formed but ill-typed programs: every binary, comparison, unary and postfix operator, call, ?:, dot, nest, let/cond patterns and standard-library functions over operands of every kind and representation incl. functions, natives, @neg wrappers, huge/inf/nan numbers; (1b) well-typed operations at the edges of a representation (with/without/set operators/membership/calls at indices just outside, at and just inside both ends of strings, byte arrays, arrays and dicts with and without offsets and holes, huge and fractional indices, out-of-range characters and bytes) and callbacks that fail part-way through a collection (where, =>, >>, orderby, rank, :>, >>> over relations, sets, arrays, dicts and strings of 3-4 members); (1c) an enumerated product of 16 values that have just changed representation (multi-valued dict back to single-valued, sparse array back to dense, filled string hole, removed last item, ...) x 22 consumers (enumeration, ordering, merge, //tuple, join, count, hashing, equality, >>, where, ++, call, set operators, rank, patterns, JSON); (1d) 39 literal shapes the compiler must reject politely (relation literals with a narrow or wide row in any position, repeated headings and keys, odd byte-array items, string templates with odd format controls, odd offsets and patterns) and 32 library calls (//re, //str, //seq, //encoding, //bits, //fmt, //eval, //archive, //unicode) on non-ASCII, empty, offset and sparse strings; (2) malformed source: token soup over the grammar's terminals, truncated/garbled well-formed literals, raw bytes; (3) the committed witness of every open finding; a failure signature is the panic site (package:function of the first arr-ai/arrai frame), 'crash' or 'hang'; distinct non-trivial = distinct sources ending in a value or an ordinary error",
                    "samples": [cases[i]["src"][:120] for i in range(0, len(cases), step)][:8],
                    "status_histogram": hist, "stream_histogram": streams, "failure_signatures": sigs, "exhaustive": False})
    # the sequence stream: methods of the slice+offset+holes representations against the crash-aware model
    if not rp or "seq" in rp["case"]:
        run.cov.update(c10seq.run_stream(run, vh, random.Random(seed * 7919 + 10), tier, replay_case=(rp["case"] if rp else None)))
    run.assumptions = ["the host-level recover of CLI/shell/server is not exercised; the check calls syntax.EvaluateExpr directly"]
    return run.finish(proof)
