"""C20: `arrai test` (pkg/test) vs the Coq model Sys/TestRun.v.

Two kinds of cases, both generated from one random.Random(seed):
  expr  a result tree written as arr.ai source -> test.RunExpr (harness c20expr) vs run_expr / the leaf census
  run   a directory layout of generated files on an afero MemMapFs -> test.RunTests (harness c20run):
        returned error + parsed report vs run_tests / the specification of the run
The comparison and the classification happen inside Coq (Check/C20Check.v, vm_compute)."""
import concurrent.futures
import random
from common import *

PROP = "C20"
PROP_FILES = ["Properties/C20.v", "Check/C20Check.v"]

SIG_BIT = {"sparse-array-nil": 1, "offset-paths": 2, "hidden-root": 4}
SIG_DUP = "dup-index-collapse"

# ---------------------------------------------------------------- leaves
# (source, model leaf kind); every source is closed and evaluates quickly
TRUE_SRC = ["true", "{()}", "1 = 1", "1 < 2", "({(), [2]} &~ {[2]})", "({(a: 1), ()} where . = ())", "//test.assert.equal(1, 1)",
            "({(a: 1)} --> {(a: 1)})", "({(a: 1)} => ())"]
FALSE_SRC = ["false", "{}", "1 = 2", "[]", "([1] where false)", "({1: 2} &~ {1: 2})", "({(a: 1)} where .a = 2)", "(2 < 1)"]
OTHER_SRC = [("42", "LOther"), ("0", "LOther"), ("1", "LOther"), ("'s'", "LOther"), ("'true'", "LOther"), ("<<1>>", "LOther"),
             ("{(x: 1)}", "LOther"), ("{1, 'a'}", "LOther"), ("{(@: 0, @item: true), 5}", "LOther"), ("(\\x x)", "LOther"),
             ("//seq.join", "LOther"), ("{(@: 0, @item: true, x: 1)}", "LOther"), ("{(@: 0, @item: true), (@: 0, @value: true)}", "LOther"),
             ("{true}", "LGenSet"), ("{1, 2}", "LGenSet"), ("{(), 1}", "LGenSet"), ("{{()}}", "LGenSet"), ("{false}", "LGenSet")]

PLAIN_NAMES = ["a", "b", "c", "d", "test1", "x_y", "B2", "zz"]
ODD_NAMES = ["", ".y", "a.b", "a(0)", "a b", "é", "@x", "1", "..", "(k)"]

KEYS = [("1", False, "1"), ("2", False, "2"), ("0", False, "0"), ("-1", False, "-1"), ("1.5", False, "1.5"),
        ("'k'", True, "k"), ("'k0'", True, "k0"), ("'a b'", True, "a b"), ("(x: 1)", False, "(x: 1)"),
        ("[1]", False, "[1]"), ("{1}", False, "{1}"), ("true", False, "true")]   # (source, is rel.String, key.String())


def leaf(rng, bias):
    r = rng.random()
    if r < bias:
        return ("leaf", "LTrue", rng.choice(TRUE_SRC))
    if r < bias + (1 - bias) * 0.45:
        return ("leaf", "LFalse", rng.choice(FALSE_SRC))
    s, k = rng.choice(OTHER_SRC)
    return ("leaf", k, s)


def gen_tree(rng, depth, bias, odd=False, sparse=0.15, offs=0.15):
    """bias = probability of a literal-true leaf; odd = allow attribute names outside names_ok / colliding"""
    if depth <= 0 or rng.random() < 0.15:
        return leaf(rng, bias)
    k = rng.random()
    n = rng.choice([0, 1, 2, 2, 3, 3, 4])
    if k < 0.4:
        pool = PLAIN_NAMES + (ODD_NAMES if odd else [])
        names = rng.sample(pool, min(n, len(pool)))
        return ("tuple", [(nm, gen_tree(rng, depth - 1, bias, odd, sparse, offs)) for nm in names])
    if k < 0.75:
        if n == 0:
            return ("leaf", "LFalse", "[]")
        items = [gen_tree(rng, depth - 1, bias, odd, sparse, offs) for _ in range(n)]
        if rng.random() < sparse and n >= 2:
            pos = rng.randrange(1, n)
            for _ in range(rng.choice([1, 1, 2])):
                items.insert(pos, None)
        off = rng.choice([1, 2, 3, 7, -1, -3, 1000]) if rng.random() < offs else 0
        form = rng.choice(["lit", "lit", "setlit", "concat"])
        return ("array", off, items, form)
    if n == 0:
        return ("leaf", "LFalse", "{}")
    keys = rng.sample(KEYS, n)
    return ("dict", [(key, gen_tree(rng, depth - 1, bias, odd, sparse, offs)) for key in keys], rng.choice(["lit", "lit", "setlit", "union"]))


def qname(nm):
    if nm and all(c.isalnum() or c == "_" for c in nm) and not nm[0].isdigit() and nm.isascii():
        return nm
    return "'" + nm + "'"


def src_of(t):
    k = t[0]
    if k == "leaf":
        return t[2]
    if k == "tuple":
        return "(" + ", ".join("%s: %s" % (qname(nm), src_of(c)) for nm, c in t[1]) + ")"
    if k == "array":
        _, off, items, form = t
        dense = all(i is not None for i in items)
        if form == "concat" and dense and off == 0 and len(items) >= 2:
            return "([" + src_of(items[0]) + "] ++ [" + ", ".join(src_of(i) for i in items[1:]) + "])"
        if form == "setlit":
            return "{" + ", ".join("(@: %d, @item: %s)" % (off + i, src_of(c)) for i, c in enumerate(items) if c is not None) + "}"
        body = "[" + ", ".join("" if c is None else src_of(c) for c in items) + "]"
        if off == 0:
            return body
        return ("%d\\%s" % (off, body)) if off > 0 else ("(%d)\\%s" % (off, body))
    if k == "dict":
        _, ents, form = t
        if form == "setlit":
            return "{" + ", ".join("(@: %s, @value: %s)" % (key[0], src_of(c)) for key, c in ents) + "}"
        if form == "union" and len(ents) >= 2:
            return "({" + "%s: %s" % (ents[0][0][0], src_of(ents[0][1])) + "} | {" + ", ".join("%s: %s" % (key[0], src_of(c)) for key, c in ents[1:]) + "})"
        return "{" + ", ".join("%s: %s" % (key[0], src_of(c)) for key, c in ents) + "}"
    raise ValueError(k)


def bl(s):
    return zl(list(s.encode("utf-8")))


def coq_tree(t):
    k = t[0]
    if k == "leaf":
        return "(RLeaf %s)" % t[1]
    if k == "tuple":
        return "(RTuple [" + "; ".join("(%s, %s)" % (bl(nm), coq_tree(c)) for nm, c in t[1]) + "])"
    if k == "array":
        return "(RArray (%d) [" % t[1] + "; ".join("None" if c is None else "Some %s" % coq_tree(c) for c in t[2]) + "])"
    if k == "dict":
        return "(RDict [" + "; ".join("({| dk_str := %s; dk_text := %s |}, %s)" % (cbool(key[1]), bl(key[2]), coq_tree(c)) for key, c in t[1]) + "])"
    raise ValueError(k)


def tree_stats(t, acc=None):
    acc = acc if acc is not None else {"leaves": 0, "nontrue": 0, "containers": 0, "holes": 0, "offset": 0, "depth": 0, "odd": 0,
                                       "tuple": 0, "array": 0, "dict": 0}
    k = t[0]
    if k == "leaf":
        acc["leaves"] += 1
        acc["nontrue"] += t[1] != "LTrue"
        return acc
    acc["containers"] += 1
    acc[k] += 1
    if k == "tuple":
        for nm, c in t[1]:
            acc["odd"] += (nm == "" or nm.startswith(".") or any(ch in nm for ch in ".()' "))
            tree_stats(c, acc)
    elif k == "array":
        acc["offset"] += t[1] != 0
        for c in t[2]:
            if c is None:
                acc["holes"] += 1
            else:
                tree_stats(c, acc)
    else:
        for _, c in t[1]:
            tree_stats(c, acc)
    return acc


def plain(t):
    """attribute names that cannot collide after rendering (letters, digits, '_')"""
    k = t[0]
    if k == "leaf":
        return True
    if k == "tuple":
        return all(nm in PLAIN_NAMES and plain(c) for nm, c in t[1])
    if k == "array":
        return all(c is None or plain(c) for c in t[2])
    return all(plain(c) for _, c in t[1])


# ---------------------------------------------------------------- expr cases
CORPUS_EXPR = [
    # (tree, alt tree or None, tag, finding signature whose witness this is)
    (("array", 0, [("leaf", "LTrue", "true"), None, ("leaf", "LTrue", "true")], "lit"), None, "corpus", "sparse-array-nil"),
    (("tuple", [("a", ("array", 3, [("leaf", "LTrue", "true"), None, ("leaf", "LFalse", "false")], "setlit"))]), None, "corpus", "sparse-array-nil"),
    (("array", 3, [("leaf", "LTrue", "true"), ("leaf", "LTrue", "true")], "lit"), None, "corpus", "offset-paths"),
    (("tuple", [("a", ("array", -1, [("leaf", "LTrue", "true"), ("leaf", "LOther", "1")], "setlit"))]), None, "corpus", "offset-paths"),
    (("tuple", []), None, "corpus", None),
    (("leaf", "LTrue", "true"), None, "corpus", None),
    (("leaf", "LFalse", "[]"), None, "corpus", None),
    (("tuple", [("a", ("tuple", [])), ("b", ("leaf", "LTrue", "true"))]), None, "corpus", None),
    (("tuple", [("", ("tuple", [("x", ("leaf", "LTrue", "true"))])), ("x", ("leaf", "LFalse", "false")), (".y", ("tuple", [("z", ("leaf", "LTrue", "true"))]))]), None, "corpus", None),
    (("dict", [(("1", False, "1"), ("leaf", "LTrue", "true")), (("'k'", True, "k"), ("tuple", [("a", ("leaf", "LOther", "2"))]))], "setlit"), None, "corpus", None),
]


def dup_case(rng):
    """a set literal of two array-item tuples with the SAME index: mathematically a 2-element relation (a non-boolean
    leaf); rel.asArray keeps only the last one, so pkg/test sees a one-element array."""
    first, second = rng.sample(["true", "false", "1"], 2)
    kind = {"true": "LTrue", "false": "LFalse", "1": "LOther"}
    i = rng.choice([0, 0, 2])
    src = "{(@: %d, @item: %s), (@: %d, @item: %s)}" % (i, first, i, second)
    tree = ("leaf", "LOther", src)
    alt = ("array", i, [("leaf", kind[second], second)], "lit")
    if rng.random() < 0.5:
        return ("tuple", [("a", tree), ("b", ("leaf", "LTrue", "true"))]), ("tuple", [("a", alt), ("b", ("leaf", "LTrue", "true"))])
    return tree, alt


def gen_expr_cases(rng, tier):
    n = 450 if tier == "quick" else 3000
    cases = []
    for t, alt, tag, wit in CORPUS_EXPR:
        cases.append({"kind": "expr", "tree": t, "alt": alt, "tag": tag, "witness_of": wit})
    cases.append({"kind": "expr", "tree": ("leaf", "LOther", "{(@: 0, @item: false), (@: 0, @item: true)}"),
                  "alt": ("array", 0, [("leaf", "LTrue", "true")], "lit"), "tag": "dup", "witness_of": SIG_DUP})
    for i in range(n):
        r = rng.random()
        if r < 0.55:      # main stream: inside the guard (dense, zero-based), plain names, mostly true
            t = gen_tree(rng, rng.choice([1, 2, 3, 4]), rng.choice([0.5, 0.8, 0.95, 1.0]), odd=False, sparse=0, offs=0)
            tag = "guard"
        elif r < 0.75:    # sparse / offset arrays
            t = gen_tree(rng, rng.choice([1, 2, 3]), rng.choice([0.7, 1.0]), odd=False, sparse=0.35, offs=0.35)
            tag = "sparse-offset"
        elif r < 0.95:    # odd attribute names (path text only)
            t = gen_tree(rng, rng.choice([1, 2, 3]), rng.choice([0.6, 1.0]), odd=True, sparse=0, offs=0)
            tag = "odd-names"
        else:
            t, alt = dup_case(rng)
            cases.append({"kind": "expr", "tree": t, "alt": alt, "tag": "dup", "witness_of": None})
            continue
        cases.append({"kind": "expr", "tree": t, "alt": None, "tag": tag, "witness_of": None})
    if tier == "thorough":   # exhaustive small scope: every tree of depth <= 2 over one leaf of each kind and width <= 2
        L = [("leaf", "LTrue", "true"), ("leaf", "LFalse", "false"), ("leaf", "LOther", "1")]
        lvl1 = list(L)
        for a in L:
            lvl1 += [("tuple", [("a", a)]), ("array", 0, [a], "lit"), ("array", 2, [a], "setlit"), ("dict", [(KEYS[0], a)], "lit")]
            for b in L:
                lvl1 += [("tuple", [("a", a), ("b", b)]), ("array", 0, [a, b], "lit"), ("array", 0, [a, None, b], "lit"),
                         ("dict", [(KEYS[0], a), (KEYS[5], b)], "lit")]
        lvl1.append(("tuple", []))
        for a in lvl1:
            cases.append({"kind": "expr", "tree": a, "alt": None, "tag": "exhaustive", "witness_of": None})
            for b in lvl1[::3]:
                cases.append({"kind": "expr", "tree": ("tuple", [("a", a), ("b", b)]), "alt": None, "tag": "exhaustive", "witness_of": None})
                cases.append({"kind": "expr", "tree": ("array", 0, [a, b], "lit"), "alt": None, "tag": "exhaustive", "witness_of": None})
    return cases


# ---------------------------------------------------------------- run cases
ERR_SRC = [("(a: 1).b", "FEvalErr"), ("//test.assert.equal(1, 2)", "FEvalErr"), ("x", "FEvalErr"),
           ("(a: true, b: //test.assert.true(false))", "FEvalErr"), ("1 +", "FCompileErr"), ("1 2", "FCompileErr")]
TEST_FILE_NAMES = ["a_test.arrai", "b_test.arrai", "_test.arrai", ".h_test.arrai", "zz_test.arrai", "x.y_test.arrai"]
OTHER_FILE_NAMES = ["x.arrai", "test.arrai", "a_test.arrai.txt", "a_test_arrai", "README", "a_test.arra", "_test.arraI"]
DIR_NAMES = ["d", "e", "sub", "x.y", "a_test.arrai", "0"]
HIDDEN_DIR_NAMES = [".hid", ".git", ".", "..x"]


def gen_file(rng, name, bias, perr):
    """-> node ('file', name, content-source, model fileres term, tree or None)"""
    if rng.random() < perr:
        s, k = rng.choice(ERR_SRC)
        return ("file", name, s, k, None)
    r = rng.random()
    if r < 0.7:
        t = gen_tree(rng, rng.choice([1, 2, 3]), bias, odd=False, sparse=0, offs=0)
    elif r < 0.85:
        t = gen_tree(rng, rng.choice([1, 2]), bias, odd=False, sparse=0.3, offs=0.3)
    else:
        t = gen_tree(rng, rng.choice([1, 2]), bias, odd=True, sparse=0, offs=0)
    return ("file", name, src_of(t), "(FTree %s)" % coq_tree(t), t)


def gen_dir(rng, name, depth, bias, perr):
    kids, used = [], set()
    for _ in range(rng.choice([0, 1, 2, 2, 3, 4])):
        r = rng.random()
        if r < 0.45:
            nm = rng.choice(TEST_FILE_NAMES)
        elif r < 0.6:
            nm = rng.choice(OTHER_FILE_NAMES)
        elif r < 0.85:
            nm = rng.choice(DIR_NAMES)
        else:
            nm = rng.choice(HIDDEN_DIR_NAMES)
        if nm in used or nm == ".":
            continue
        used.add(nm)
        if r < 0.45:
            kids.append(gen_file(rng, nm, bias, perr))
        elif r < 0.6:
            # never compiled: content is arbitrary, even invalid
            kids.append(("file", nm, rng.choice(["false", "1 +", "(a: false)"]), "FCompileErr", None))
        elif depth > 0:
            kids.append(gen_dir(rng, nm, depth - 1, bias, perr))
    kids.sort(key=lambda k: k[1].encode("utf-8"))
    return ("dir", name, kids)


def layout(node, path, files, dirs):
    if node[0] == "file":
        files[path] = node[2]
    else:
        dirs.append(path)
        for k in node[2]:
            layout(k, path + "/" + k[1], files, dirs)


def coq_node(node):
    if node[0] == "file":
        return "(FFile %s %s)" % (bl(node[1]), node[3])
    return "(FDir %s [%s])" % (bl(node[1]), "; ".join(coq_node(k) for k in node[2]))


def node_trees(node, out):
    if node[0] == "file":
        if node[4] is not None:
            out.append(node[4])
    else:
        for k in node[2]:
            node_trees(k, out)
    return out


def mk_run(root, target, tag, witness_of=None, exists=True):
    files, dirs = {}, []
    if exists:
        layout(root, target, files, dirs)
    else:
        files["/other/a_test.arrai"] = "true"
    return {"kind": "run", "root": root, "target": target, "exists": exists, "files": files, "dirs": dirs, "tag": tag, "witness_of": witness_of}


def T(s="true"):
    return ("leaf", {"true": "LTrue", "false": "LFalse"}.get(s, "LOther"), s)


def fnode(name, tree):
    return ("file", name, src_of(tree), "(FTree %s)" % coq_tree(tree), tree)


def gen_run_cases(rng, tier):
    n = 160 if tier == "quick" else 800
    cases = []
    # corpus
    ok = ("tuple", [("test1", T()), ("b", ("array", 0, [T(), T()], "lit"))])
    cases.append(mk_run(("dir", ".t", [fnode("a_test.arrai", ok)]), "/.t", "corpus", "hidden-root"))
    cases.append(mk_run(("dir", ".t", [fnode("a_test.arrai", ok)]), "/w/.t", "corpus", "hidden-root"))
    cases.append(mk_run(("dir", "t", [fnode("a_test.arrai", ok), ("dir", ".h", [fnode("b_test.arrai", T("false"))]),
                                       ("dir", "d", [("dir", ".g", [("dir", "e", [fnode("c_test.arrai", T("false"))])]), fnode(".h_test.arrai", ok)]),
                                       ("file", "x.arrai", "false", "FCompileErr", None)]), "/t", "corpus"))
    cases.append(mk_run(("dir", "t", [fnode("a_test.arrai", ("array", 0, [T(), None, T()], "lit"))]), "/t", "corpus", "sparse-array-nil"))
    cases.append(mk_run(("dir", "t", [fnode("a_test.arrai", ("array", 5, [T(), T("false")], "lit"))]), "/t", "corpus", "offset-paths"))
    cases.append(mk_run(("dir", "t", [fnode("a_test.arrai", ok), ("file", "b_test.arrai", "(a: 1).b", "FEvalErr", None)]), "/t", "corpus"))
    cases.append(mk_run(("dir", "t", [("file", "a_test.arrai", "1 +", "FCompileErr", None), fnode("b_test.arrai", ok)]), "/t", "corpus"))
    cases.append(mk_run(("dir", "t", [("file", "x.arrai", "true", "FCompileErr", None)]), "/t", "corpus"))
    cases.append(mk_run(("dir", "t", []), "/t", "corpus"))
    cases.append(mk_run(("dir", "t", []), "/t", "corpus", exists=False))
    cases.append(mk_run(fnode("a_test.arrai", ok), "/t/a_test.arrai", "corpus"))
    cases.append(mk_run(fnode("x.arrai", ok), "/t/x.arrai", "corpus"))
    cases.append(mk_run(("dir", "t", [fnode("a_test.arrai", ("tuple", []))]), "/t", "corpus"))
    big = ("array", 0, [T()] * 1100, "lit")
    cases.append(mk_run(("dir", "t", [fnode("a_test.arrai", big)]), "/t", "corpus"))      # thousands separator in the summary
    for i in range(n):
        r = rng.random()
        bias = rng.choice([0.8, 0.95, 1.0, 1.0])
        perr = rng.choice([0, 0, 0, 0.15])
        if r < 0.8:
            target = rng.choice(["/t", "/t", "/w/t", "/w/x.y"])
            root = gen_dir(rng, target.rsplit("/", 1)[1], rng.choice([1, 2, 3]), bias, perr)
            cases.append(mk_run(root, target, "layout"))
        elif r < 0.87:
            target = rng.choice(["/.t", "/w/.hid"])
            root = gen_dir(rng, target.rsplit("/", 1)[1], 1, bias, perr)
            cases.append(mk_run(root, target, "hidden-root"))
        elif r < 0.95:
            nm = rng.choice(TEST_FILE_NAMES + OTHER_FILE_NAMES)
            cases.append(mk_run(gen_file(rng, nm, bias, perr), "/t/" + nm, "file-target"))
        else:
            cases.append(mk_run(("dir", "t", []), "/t", "missing", exists=False))
    return cases


# ---------------------------------------------------------------- observations -> Coq
OUT = {"passed": "Passed", "failed": "Failed", "invalid": "Invalid", "ignored": "Ignored"}


def coq_results(rs):
    return "[" + "; ".join("(%s, %s)" % (bl(nm), OUT[o]) for nm, o in rs) + "]"


def obs_expr(o):
    if o is None or o.get("st") == "timeout":
        return "EBad"
    if o["st"] in ("panic", "crash"):
        return "EPanic"
    if o["st"] == "err":
        return "EErr"
    return "(EOk %s)" % coq_results(o["results"])


def obs_run(o):
    if o is None or o.get("st") in ("timeout", "harness-error"):
        return "RBad"
    if o["st"] in ("panic", "crash"):
        return "RPanic"
    rep = o.get("report") or {}
    if rep.get("unparsed", 0):
        return "RBad"
    files, summ = rep.get("files") or [], rep.get("summary")
    if o["st"] == "err" and not files and summ is None:
        return "RErr"
    if summ is None or any(v < 0 for v in summ.values()):
        return "RBad"
    fs = "[" + "; ".join("(%s, %s)" % (bl("/" + f["path"]), coq_results(f["results"])) for f in files) + "]"
    s = "{| su_failed := %d; su_invalid := %d; su_ignored := %d; su_passed := %d; su_total := %d |}" % (
        summ["failed"], summ["invalid"], summ["ignored"], summ["passed"], summ["total"])
    return "(%s %s %s)" % ("ROk" if o["st"] == "ok" else "RFailed", fs, s)


def quirks_term(run):
    sigs = {f["sig"] for f in run.opened}
    return "{| q_test_sparse_array_nil := %s; q_test_offset_paths := %s; q_test_hidden_root := %s |}" % (
        cbool("sparse-array-nil" in sigs), cbool("offset-paths" in sigs), cbool("hidden-root" in sigs))


def run_cases(run, vh, cases, shard=300):
    ex = [c for c in cases if c["kind"] == "expr"]
    rn = [c for c in cases if c["kind"] == "run"]
    jobs = []
    ein = [{"id": c["id"], "src": c["src"]} for c in ex]
    rin = [{"id": c["id"], "files": c["files"], "dirs": c["dirs"], "target": c["target"]} for c in rn]
    for i in range(0, len(ein), 250):
        jobs.append(("c20expr", ein[i:i + 250]))
    for i in range(0, len(rin), 80):
        jobs.append(("c20run", rin[i:i + 80]))
    outs = {}
    with concurrent.futures.ThreadPoolExecutor(max_workers=8) as pool:
        for o, rc, err in pool.map(lambda j: run_harness(vh, j[0], j[1]), jobs):
            outs.update(o)
    qc = quirks_term(run)
    chunks = [("e", ex[i:i + shard]) for i in range(0, len(ex), shard)] + [("r", rn[i:i + shard // 3]) for i in range(0, len(rn), shard // 3)]

    def do(idx_chunk):
        idx, (kind, chunk) = idx_chunk
        body = ["From Arrai Require Import Base.Val Sys.TestRun Check.C20Check.", "Definition qc : Quirks := %s." % qc]
        if kind == "e":
            body.append("Definition cases : list ecase := [")
            body.append(";\n".join("  {| ce_id := %d; ce_tree := %s; ce_alt := %s; ce_obs := %s |}" % (
                c["id"], coq_tree(c["tree"]), ("Some %s" % coq_tree(c["alt"])) if c.get("alt") else "None", obs_expr(outs.get(c["id"]))) for c in chunk))
            body.append("].\nDefinition R := Eval vm_compute in report_e qc cases.\nPrint R.")
        else:
            body.append("Definition cases : list rcase := [")
            body.append(";\n".join("  {| cr_id := %d; cr_target := %s; cr_obs := %s |}" % (
                c["id"], ("Some (%s, %s)" % (bl(c["target"]), coq_node(c["root"]))) if c["exists"] else "None", obs_run(outs.get(c["id"]))) for c in chunk))
            body.append("].\nDefinition R := Eval vm_compute in report_r qc cases.\nPrint R.")
        rcq, so, se = coq_eval("c20_cases_%d" % idx, "\n".join(body))
        return coq_report(so, "R"), se

    results = {}
    with concurrent.futures.ThreadPoolExecutor(max_workers=12) as pool:
        for (rep, se), (kind, chunk) in zip(pool.map(do, enumerate(chunks)), chunks):
            if rep is None:
                run.corr_breaks.append({"what": "model evaluation failed (Check/C20Check.v)", "log": se[-1500:]})
                continue
            for c in chunk:
                results[c["id"]] = 0
            for cid, code in rep:
                results[cid] = code
    return outs, results


def case_record(c, o):
    if c["kind"] == "expr":
        return {"case": {"kind": "expr", "tree": c["tree"], "alt": c.get("alt"), "tag": c["tag"], "witness_of": c.get("witness_of"), "src": c["src"]}, "observed": o}
    o2 = dict(o or {})
    return {"case": {"kind": "run", "root": c["root"], "target": c["target"], "exists": c["exists"], "files": c["files"], "dirs": c["dirs"],
                     "tag": c["tag"], "witness_of": c.get("witness_of")}, "observed": o2}


def tuplify(x):
    """JSON round trip turns the tree tuples into lists; restore None/tuples shape used by the emitters"""
    if isinstance(x, list):
        return tuple(tuplify(i) for i in x) if (x and isinstance(x[0], str) and x[0] in ("leaf", "tuple", "array", "dict", "file", "dir")) else [tuplify(i) for i in x]
    return x


def main(tier, seed, replay=None):
    run = Run(PROP, tier, seed)
    vh, proof = prepare(PROP_FILES, thorough=(tier == "thorough"))
    rng = random.Random(seed)
    if replay:
        rp = json.load(open(replay))
        cases = []
        if "case" in rp:
            c = rp["case"]
            for k in ("tree", "alt", "root"):
                if c.get(k) is not None:
                    c[k] = tuplify(c[k])
            cases = [c]
    else:
        seeds = [seed] if tier == "quick" else [seed, seed + 1, seed + 2]
        cases = []
        for s in seeds:
            r = rng if s == seed else random.Random(s)
            cases += gen_expr_cases(r, tier if s == seed else "quick") + gen_run_cases(r, tier if s == seed else "quick")
    for i, c in enumerate(cases):
        c["id"] = i
        if c["kind"] == "expr":
            c["src"] = src_of(c["tree"])
    outs, results = run_cases(run, vh, cases)

    open_bits = {SIG_BIT[f["sig"]] for f in run.opened if f["sig"] in SIG_BIT}
    seen, dist = set(), 0
    hist = {"kind": {}, "tag": {}, "leaves": {}, "status": {}}
    tot = {"leaves": 0, "nontrue": 0, "holes": 0, "offset_arrays": 0, "odd_names": 0, "tuple": 0, "array": 0, "dict": 0}

    def bump(h, k):
        hist[h][k] = hist[h].get(k, 0) + 1
    for c in cases:
        o = outs.get(c["id"])
        bump("kind", c["kind"])
        bump("tag", c["tag"])
        bump("status", (o or {}).get("st", "none"))
        trees = [c["tree"]] if c["kind"] == "expr" else (node_trees(c["root"], []) if c["exists"] else [])
        st = {"leaves": 0, "containers": 0}
        for t in trees:
            s = tree_stats(t)
            st["leaves"] += s["leaves"]
            st["containers"] += s["containers"]
            tot["leaves"] += s["leaves"]; tot["nontrue"] += s["nontrue"]; tot["holes"] += s["holes"]
            tot["offset_arrays"] += s["offset"]; tot["odd_names"] += s["odd"]
            for k in ("tuple", "array", "dict"):
                tot[k] += s[k]
        bump("leaves", "0" if st["leaves"] == 0 else "1" if st["leaves"] == 1 else "2-5" if st["leaves"] <= 5 else "6-20" if st["leaves"] <= 20 else ">20")
        key = c["src"] if c["kind"] == "expr" else json.dumps([c["target"], c["files"], c["dirs"]], sort_keys=True)
        if key not in seen:
            seen.add(key)
            if st["leaves"] >= 2 and st["containers"] >= 1:
                dist += 1
        # "reported once under its path": with plain names the reported names of a file must be pairwise distinct
        if o and o.get("st") in ("ok", "err"):
            lists = []
            if c["kind"] == "expr" and o.get("results") is not None and plain(c["tree"]) and not c.get("alt"):
                lists = [[r[0] for r in o["results"]]]
            elif c["kind"] == "run" and o.get("report") and all(plain(t) for t in trees):
                lists = [[r[0] for r in f["results"]] for f in o["report"]["files"]]
            for names in lists:
                if len(set(names)) != len(names) and results.get(c["id"], 0) == 0:
                    rec = case_record(c, o)
                    rec["oracle"] = "two leaves of one file were reported under the same name although all attribute names are plain"
                    run.classify_failure(None, rec)

    for cid, code in sorted(results.items()):
        c = cases[cid]
        o = outs.get(cid)
        rec = case_record(c, o)
        wit = c.get("witness_of")
        if code == 0:
            if wit and wit in SIG_BIT and SIG_BIT[wit] in open_bits:
                run.corr_breaks.append({"what": "open finding %s no longer reproduces on its witness (flip it to fixed:)" % wit, **rec})
            if wit == SIG_DUP and run.finding_for(SIG_DUP):
                run.corr_breaks.append({"what": "open finding %s no longer reproduces on its witness (flip it to fixed:)" % wit, **rec})
            continue
        if code == 1:
            rec["oracle"] = "pkg/test differs from the specification of the run (Properties/C20.v): pass/fail, reported leaves+paths+outcomes, summary counts or selected files"
            run.classify_failure(None, rec)
        elif code == 2:
            run.corr_breaks.append({"what": "implementation differs from the model although the property's oracle holds", **rec})
        elif code == 4:
            msg = "implementation differs from the bug-compatible model inside a known-defect region (oracle holds)"
            if wit:
                run.corr_breaks.append({"what": "open finding %s no longer reproduces on its witness (flip it to fixed:)" % wit, **rec})
            else:
                run.notes.append("case %d: %s" % (cid, msg))
        elif code == 5:
            rec["oracle"] = "a relation with two items at one index is a non-boolean leaf; the evaluator collapsed it to a one-element array before pkg/test saw it"
            run.classify_failure(SIG_DUP, rec)
        elif code >= 100:
            mask = code - 100
            rec["oracle"] = "pkg/test differs from the specification of the run; the model attributes the difference to the quirk(s) in quirks_attributed"
            sigs = [s for s, b in SIG_BIT.items() if mask & b]
            rec["quirks_attributed"] = sigs
            for s in sigs:
                run.classify_failure(s, rec)
    run.notes = run.notes[:20] + (["... %d more" % (len(run.notes) - 20)] if len(run.notes) > 20 else [])

    samples = []
    for c in cases[::max(1, len(cases) // 8)][:8]:
        samples.append(c["src"] if c["kind"] == "expr" else {"target": c["target"], "files": c["files"] if c["exists"] else None})
    run.cov.update({
        "evaluations": len(cases), "distinct_nontrivial": dist,
        "rule": "expr cases: random result trees (tuples/arrays/dicts, holes, offsets, set-literal/concat/union constructions, leaves true/false/other in several "
                "spellings and representations, odd attribute names) written as arr.ai source and run through test.RunExpr; run cases: random directory layouts "
                "(nested, hidden directories, non-test files, file targets, hidden or missing targets, unevaluable files) of such sources on a MemMapFs run through "
                "test.RunTests with the report parsed back; both compared inside Coq with run_expr/run_tests under the committed quirk set and with the specification. "
                "distinct by source text / layout; non-trivial = at least one container and at least two leaves"
                + ("; thorough adds every tree of depth <= 2 over {true,false,1} with width <= 2 (exhaustive small scope) and two more seeds" if tier == "thorough" else ""),
        "samples": samples,
        "histograms": hist, "input_totals": tot,
        "exhaustive": False,
    })
    run.assumptions = ["the tree handed to pkg/test is the one the generator describes (evaluation of the source is outside the model; exercised by this run)",
                       "afero.Walk visits directory entries in byte order of their names; MemMapFs reports the base name of the target",
                       "dictionary key text (Value.String()) is supplied by the generator for the key shapes it uses"]
    return run.finish(proof)
