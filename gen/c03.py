"""C03: values are immutable: deriving new values never changes existing ones."""
import concurrent.futures
import random
from common import *
import expr as X
import evalcheck

PROP = "C03"
PROP_FILES = ["Properties/C03.v", "Check/C03Check.v", "Check/EvalCheck.v"]
N = X.num


def pr(k, i, v):
    return X.tup([("@", N(i)), (k, v)])


# ---------- stream 1: string histories, implementation vs the heap model ----------

def gen_string_history(rng, nops):
    """returns (ops for Coq, list of defining expressions referencing earlier values by index)"""
    ops, defs, sims = [], [], []           # sims: python-side (off, cells) to choose meaningful indices
    s = "".join(rng.choice("abc") for _ in range(rng.randrange(1, 5)))
    ops.append("(OLit %s 0)" % zl([ord(c) for c in s]))
    defs.append(("lit", s))
    sims.append((0, [ord(c) for c in s]))
    for _ in range(nops):
        p = rng.randrange(len(defs))
        off, cells = sims[p]
        k = rng.random()
        if k < 0.5:
            # with: mostly at the end / front / a hole, sometimes far away or already present
            r = rng.random()
            if not cells:
                at = rng.randrange(-2, 4)
            elif r < 0.45:
                at = off + len(cells)
            elif r < 0.6:
                at = off - 1
            elif r < 0.8:
                at = off + rng.randrange(len(cells))
            else:
                at = off + len(cells) + rng.randrange(1, 3)
            ch = rng.choice([100, 101, 97])
            i = at - off
            if cells and 0 <= i < len(cells) and cells[i] >= 0 and cells[i] != ch:
                ch = cells[i]        # a second character at an occupied index is the collision finding: avoid
            ops.append("(OWith %d (%d) %d)" % (p, at, ch))
            defs.append(("with", p, at, ch))
            if not cells:
                sims.append((at, [ch]))
            elif i < 0:
                sims.append((at, [ch] + [-1] * (-i - 1) + cells))
            elif i < len(cells):
                c2 = list(cells); c2[i] = ch
                sims.append((off, c2))
            else:
                sims.append((off, cells + [-1] * (i - len(cells)) + [ch]))
        elif k < 0.85:
            if cells and rng.random() < 0.85:
                i = rng.choice([0, len(cells) - 1, rng.randrange(len(cells))])
                at, ch = off + i, cells[i] if cells[i] >= 0 else 97
            else:
                at, ch = off + rng.randrange(-1, 5), rng.choice([97, 98])
                i = at - off
            ops.append("(OWithout %d (%d) %d)" % (p, at, ch))
            defs.append(("without", p, at, ch))
            c2, o2 = list(cells), off
            if 0 <= i < len(cells) and cells[i] == ch and ch >= 0:
                if i == 0:
                    c2 = c2[1:]; o2 += 1
                elif i == len(cells) - 1:
                    c2 = c2[:-1]
                else:
                    c2[i] = -1
                while c2 and c2[0] < 0:
                    c2 = c2[1:]; o2 += 1
                while c2 and c2[-1] < 0:
                    c2 = c2[:-1]
            sims.append((o2, c2))
        else:
            n = rng.choice([1, -1, 2, 5])
            ops.append("(OOffset %d (%d))" % (p, n))
            defs.append(("offset", p, n))
            sims.append((off + n, cells))
    return ops, defs


def history_source(defs, attr="@char"):
    """the history over a string (attr @char) or over an array of numbers with the same cells (attr @item)"""
    parts = []
    for i, d in enumerate(defs):
        if d[0] == "lit":
            e = X.src(X.string(d[1])) if attr == "@char" else X.src(X.arr([N(ord(c)) for c in d[1]]))
        elif d[0] == "with":
            e = "(v%d with (@: %s, %s: %d))" % (d[1], X.num_src(d[2]), attr, d[3])
        elif d[0] == "without":
            e = "(v%d without (@: %s, %s: %d))" % (d[1], X.num_src(d[2]), attr, d[3])
        else:
            e = "(%s \\ v%d)" % (X.num_src(d[2]), d[1])
        parts.append("let v%d = %s;" % (i, e))
    return " ".join(parts) + " [" + ", ".join("v%d" % i for i in range(len(defs))) + "]"


def decode_values(d, n, attr="@char"):
    """dump of [v0..vn-1] -> list of (off, cells) or None"""
    items = {}
    for m in d.get("s", []):
        t = dict(m["t"])
        items[int(t["@"]["n"])] = t["@item"]
    out = []
    for i in range(n):
        v = items.get(i)
        if v is None or "s" not in v:
            return None
        cs = {}
        for m in v["s"]:
            t = dict(m.get("t", []))
            if set(t) != {"@", attr} or "n" not in t[attr]:
                return None
            cs[int(t["@"]["n"])] = int(t[attr]["n"])
        if not cs:
            out.append((0, []))
        else:
            lo, hi = min(cs), max(cs)
            out.append((lo, [cs.get(j, -1) for j in range(lo, hi + 1)]))
    return out


# ---------- stream 2: general histories through the reference interpreter ----------

def gen_general_history(rng, nops):
    seeds = [X.string("abc"), X.arr([N(1), N(2), N(3)]), X.bytes_([1, 2, 3]), X.dict_([(N(1), N(2))]), X.set_([N(1), N(2)]),
             X.rel(["a", "b", "c"], [[N(1), N(2), N(3)], [N(2), N(2), N(4)]]), X.arr([N(1), None, N(3)]), X.string("ab", 2)]
    defs = [rng.choice(seeds)]
    kinds = ["seq" if defs[0][0] in ("str", "arr", "bytes") else "other"]
    kind_attr = {"str": "@char", "arr": "@item", "bytes": "@byte"}
    base = [defs[0][0]]
    d = X.var(".")
    for _ in range(nops):
        p = rng.randrange(len(defs))
        v = X.var("v%d" % p)
        b = base[p]
        k = rng.random()
        if b in kind_attr and k < 0.45:
            at = rng.choice([3, 3, 3, 4, 5, 6, -1, -2, 9])
            val = N(rng.choice([100, 101])) if b != "arr" else N(rng.choice([7, 8]))
            if b == "bytes":
                val = N(rng.choice([7, 8]))
            if rng.random() < 0.35:
                e = X.binop("without", v, pr(kind_attr[b], rng.choice([0, 1, 2, 3]), N(rng.choice([1, 2, 3, 97, 98, 99, 7, 100]))))
            else:
                e = X.binop("with", v, pr(kind_attr[b], at, val))
            nb = b
        elif b in kind_attr and k < 0.6:
            q = rng.randrange(len(defs))
            e = X.binop("++", v, X.var("v%d" % q)) if base[q] == b else X.binop("\\", N(rng.choice([1, 2, -1])), v)
            nb = b
        elif b in kind_attr and k < 0.7:
            e = X.seqarrow(v, X.dotfn(X.binop("+", d, N(1)))) if b != "arr" or True else v
            nb = b
        elif b in kind_attr and k < 0.8:
            e = X.binop("|", v, X.binop("\\", N(rng.choice([20, 30, 40])), X.var("v%d" % p)))
            nb = b
        elif b == "rel" and k < 0.6:
            e = X.binop("with", v, X.tup([("a", N(rng.randrange(9))), ("b", N(1)), ("c", N(1))]))
            nb = b
        elif b == "dict" and k < 0.6:
            e = X.binop(rng.choice(["with", "without"]), v, pr("@value", rng.randrange(3), N(rng.randrange(3))))
            nb = b
        else:
            e = X.binop(rng.choice(["with", "without"]), v, N(rng.randrange(4)))
            nb = "other" if b not in ("set",) else b
            if b in kind_attr:
                nb = "union"
        defs.append(e)
        base.append(nb)
    body = X.arr([X.var("v%d" % i) for i in range(len(defs))])
    e = body
    for i in range(len(defs) - 1, -1, -1):
        e = X.let(X.pvar("v%d" % i), defs[i], e)
    return e


def gen_comb_history(rng):
    """sibling combs: every level extends the same parent twice at the same (next) index with different items,
    through with / | offset-singleton / ++ singleton, then goes on from one of the siblings"""
    kind = rng.choice(["str", "arr", "bytes"])
    n0 = rng.randrange(1, 4)
    attr = {"str": "@char", "arr": "@item", "bytes": "@byte"}[kind]

    def single(x):
        return X.string(chr(x)) if kind == "str" else X.arr([N(x)]) if kind == "arr" else X.bytes_([x])

    def lit(xs):
        return X.string("".join(chr(x) for x in xs)) if kind == "str" else X.arr([N(x) for x in xs]) if kind == "arr" else X.bytes_(xs)
    defs = [lit([97 + i for i in range(n0)])]
    length = {0: n0}
    cur = 0
    for _ in range(rng.randrange(2, 6)):
        L = length[cur]
        how = rng.choice(["with", "with", "union", "concat"])
        sibs = []
        for x in rng.sample([100, 101, 102, 103], 2):
            v = X.var("v%d" % cur)
            if how == "with":
                e = X.binop("with", v, pr(attr, L, N(x)))
            elif how == "union":
                e = X.binop("|", v, X.binop("\\", N(L), single(x)))
            else:
                e = X.binop("++", v, single(x))
            defs.append(e)
            length[len(defs) - 1] = L + 1
            sibs.append(len(defs) - 1)
        cur = rng.choice(sibs)
    body = X.arr([X.var("v%d" % i) for i in range(len(defs))])
    e = body
    for i in range(len(defs) - 1, -1, -1):
        e = X.let(X.pvar("v%d" % i), defs[i], e)
    return e


def gen_rel_comb_history(rng):
    """relational sibling combs: a relation is widened by a join (the joined rows get spare capacity for some widths),
    then the result is joined twice more with different relations; all values are listed at the end"""
    base_cols = rng.choice([["a"], ["a", "b"], ["a", "b", "c"]])
    rows = [[N(1)] + [N(rng.randrange(3)) for _ in base_cols[1:]], [N(2)] + [N(rng.randrange(3)) for _ in base_cols[1:]]]
    defs = [X.rel(base_cols, rows)]
    cur = 0
    fresh = iter("k%d" % i for i in range(100))
    for _ in range(rng.randrange(2, 5)):
        sibs = []
        op = rng.choice(["<&>", "<&>", "<->"]) if len(defs) > 1 else "<&>"
        for _ in range(2):
            col = next(fresh)
            extra = [col] if rng.random() < 0.7 else [col, next(fresh)]
            r = X.rel(["a"] + extra, [[N(1)] + [N(rng.randrange(5, 9)) for _ in extra]] + ([[N(2)] + [N(rng.randrange(5, 9)) for _ in extra]] if rng.random() < 0.5 else []))
            defs.append(X.join("<&>" if op == "<->" and rng.random() < 0.5 else op if op != "<->" else "<&>", X.var("v%d" % cur), r))
            sibs.append(len(defs) - 1)
        cur = rng.choice(sibs)
    body = X.arr([X.var("v%d" % i) for i in range(len(defs))])
    e = body
    for i in range(len(defs) - 1, -1, -1):
        e = X.let(X.pvar("v%d" % i), defs[i], e)
    return e


# ---------- stream 3: histories through library functions (implementation only: prefix programs vs the whole program) ----------

def gen_lib_history(rng, nops):
    """definitions v0..vn over arrays of numbers ('a') and arrays of arrays ('aa'), derived with //seq functions, where,
    with / without, ++ and >>; every definition may use any earlier value"""
    defs, kinds = [], []
    start = rng.choice(["[1, 2, 0, 3, 4]", "[1, 2, 3]", "[0, 1, 0, 2, 0, 3]", "[5, 1, 2, 1, 3]"])
    defs.append(start); kinds.append("a")
    for _ in range(nops):
        arrs = [i for i, k in enumerate(kinds) if k == "a"]
        aas = [i for i, k in enumerate(kinds) if k == "aa"]
        p = rng.choice(arrs)
        q = rng.choice(arrs)
        r = rng.random()
        if aas and r < 0.2:
            w = rng.choice(aas)
            e, k = rng.choice([("//seq.join([9], v%d)" % w, "a"), ("v%d(0)" % w, "a"), ("//seq.join([], v%d)" % w, "a"), ("//seq.concat(v%d)" % w, "a")])
        elif r < 0.32:
            e, k = "//seq.split([%d], v%d)" % (rng.choice([0, 1, 2]), p), "aa"
        elif r < 0.42:
            e, k = "//seq.join([9], [v%d, [7]])" % p, "a"
        elif r < 0.5:
            e, k = "//seq.join([9, 9], [v%d, v%d])" % (p, q), "a"
        elif r < 0.58:
            e, k = "//seq.sub([%d], [7, 8], v%d)" % (rng.choice([0, 1, 2]), p), "a"
        elif r < 0.64:
            e, k = "//seq.concat([v%d, v%d])" % (p, q), "a"
        elif r < 0.72:
            e, k = "(v%d without (@: %d, @item: %d))" % (p, rng.randrange(0, 6), rng.randrange(0, 5)), "a"
        elif r < 0.78:
            e, k = "(v%d where .@ < %d)" % (p, rng.randrange(1, 4)), "a"
        elif r < 0.83:
            e, k = "(v%d where .@item != %d)" % (p, rng.randrange(0, 5)), "a"
        elif r < 0.88:
            e, k = rng.choice(["//seq.trim_prefix([1], v%d)" % p, "//seq.trim_suffix([4], v%d)" % p, "//seq.trim_prefix([0], v%d)" % p]), "a"
        elif r < 0.94:
            e, k = "(v%d ++ [%d])" % (p, rng.randrange(5, 9)), "a"
        else:
            e, k = "(v%d >> . + 1)" % p, "a"
        defs.append(e); kinds.append(k)
    return defs


def lib_program(defs, upto):
    return " ".join("let v%d = %s;" % (i, d) for i, d in enumerate(defs[:upto + 1])) + " [" + ", ".join("v%d" % i for i in range(upto + 1)) + "]"


def main(tier, seed, replay=None):
    run = Run(PROP, tier, seed)
    vh, proof = prepare(PROP_FILES, thorough=(tier == "thorough"))
    rng = random.Random(seed)
    nh = 120 if tier == "quick" else 3000
    hists = []
    if replay:
        rp = json.load(open(replay))
        if rp["case"].get("ops"):
            hists = [(rp["case"]["ops"], None, rp["case"]["src"], rp["case"].get("attr", "@char"))]
        nh = 0
    corpus = [(["(OLit [97; 98; 99] 0)", "(OWith 0 (3) 100)", "(OWith 0 (3) 101)"], [("lit", "abc"), ("with", 0, 3, 100), ("with", 0, 3, 101)]),
              (["(OLit [97; 98; 99] 0)", "(OWithout 0 (2) 99)", "(OWith 1 (2) 120)"], [("lit", "abc"), ("without", 0, 2, 99), ("with", 1, 2, 120)]),
              (["(OLit [97; 98] 0)", "(OWith 0 (2) 99)", "(OWith 1 (3) 100)", "(OWith 1 (3) 101)", "(OOffset 1 (2))", "(OWith 4 (5) 102)"],
               [("lit", "ab"), ("with", 0, 2, 99), ("with", 1, 3, 100), ("with", 1, 3, 101), ("offset", 1, 2), ("with", 4, 5, 102)])]
    if not replay:
        for ops, defs in corpus:
            hists.append((ops, defs, history_source(defs), "@char"))
            hists.append((ops, defs, history_source(defs, "@item"), "@item"))
    for _ in range(nh):
        ops, defs = gen_string_history(rng, rng.randrange(3, 14))
        # the same slice + offset + holes shape backs strings and arrays (rel/value_set_str.go, rel/value_set_array.go)
        attr = "@char" if rng.random() < 0.6 else "@item"
        hists.append((ops, defs, history_source(defs, attr), attr))
    outs, _, _ = run_harness(vh, "eval", [{"id": i, "src": h[2]} for i, h in enumerate(hists)])
    cases = []
    for i, (ops, defs, src, attr) in enumerate(hists):
        o = outs.get(i) or {"st": "missing"}
        n = len(ops)
        vals = decode_values(o["val"], n, attr) if o.get("st") == "ok" else None
        if vals is None:
            run.classify_failure(None, {"case": {"src": src, "ops": ops, "attr": attr}, "observed": o,
                                        "oracle": "a history of with/without/offset derivations over a string does not evaluate to a list of strings"})
            continue
        cases.append({"id": i, "ops": ops, "obs": vals, "src": src, "attr": attr})
    chunks = [cases[i:i + 300] for i in range(0, len(cases), 300)]

    def do(ic):
        k, chunk = ic
        body = ["From Arrai Require Import Base.Val Sys.Heap Check.C03Check.", "Definition cases : list case03 := ["]
        body.append(";\n".join("  {| h_id := %d; h_hist := [%s]; h_obs := [%s] |}" % (
            c["id"], "; ".join(c["ops"]), "; ".join("((%d), %s)" % (o, zl(cs)) for o, cs in c["obs"])) for c in chunk))
        body.append("].\nDefinition R := Eval vm_compute in report03 cases.\nPrint R.")
        rc2, so, se = coq_eval("c03_cases_%d_%d" % (os.getpid(), k), "\n".join(body))
        return coq_report(so, "R"), se

    byid = {c["id"]: c for c in cases}
    with concurrent.futures.ThreadPoolExecutor(max_workers=12) as ex:
        for (rep, se), chunk in zip(ex.map(do, enumerate(chunks)), chunks):
            if rep is None:
                run.corr_breaks.append({"what": "heap model could not be evaluated (Check/C03Check.v)", "log": se[-1200:]})
                continue
            for cid, code in rep:
                c = byid[cid]
                run.classify_failure(None, {"case": {"src": c["src"], "ops": c["ops"], "attr": c["attr"]}, "observed": c["obs"],
                                            "oracle": "some value of the history differs from what it was when created (heap model of Properties/C03.v: values never change)"})
    # stream 2
    gcases = []
    if not replay or not hists:
        if replay:
            gcases = [] if json.load(open(replay))["case"].get("lib_defs") else evalcheck.replay_cases(replay)
        else:
            for i in range(70 if tier == "quick" else 2500):
                gcases.append({"id": i, "label": "general", "ast": gen_general_history(rng, rng.randrange(3, 10))})
            for i in range(80 if tier == "quick" else 1500):
                gcases.append({"id": len(gcases), "label": "comb", "ast": gen_comb_history(rng)})
            for i in range(60 if tier == "quick" else 1000):
                gcases.append({"id": len(gcases), "label": "relcomb", "ast": gen_rel_comb_history(rng)})
    gouts, gcodes, gfails = evalcheck.evaluate(vh, gcases) if gcases else ({}, {}, [])
    evalcheck.judge(run, gcases, gouts, gcodes, gfails,
                    "the list of all values of a branching history vs each value's own definition (reference interpreter)",
                    value_codes=(1, 2, 3), corr_codes=(4, 5, 6))
    # stream 3
    lib_hists = []
    if replay:
        rp3 = json.load(open(replay))
        if rp3["case"].get("lib_defs"):
            lib_hists = [rp3["case"]["lib_defs"]]
    else:
        lib_hists = [["[1, 2, 0, 3, 4]", "//seq.split([0], v0)", "//seq.join([9], v1)"],
                     ["[1, 2, 3]", "(v0 without (@: 2, @item: 3))", "//seq.join([9], [v1, [7]])"],
                     ["[1, 2, 3, 4]", "(v0 where .@ < 2)", "//seq.join([9], [v1, [5]])", "//seq.join([8], [v1, [6]])"]]
        lib_hists += [gen_lib_history(rng, rng.randrange(2, 7)) for _ in range(60 if tier == "quick" else 1200)]
    lreqs, lidx = [], []
    for hi, defs in enumerate(lib_hists):
        for k in range(len(defs)):
            lidx.append((hi, k))
            lreqs.append({"id": len(lreqs), "src": lib_program(defs, k), "budget_ms": 4000})
    louts = run_harness(vh, "eval", lreqs)[0] if lreqs else {}
    lib_ok = 0
    by_hist = {}
    for rid, (hi, k) in enumerate(lidx):
        by_hist.setdefault(hi, {})[k] = louts.get(rid) or {"st": "missing"}
    for hi, defs in enumerate(lib_hists):
        full = by_hist[hi][len(defs) - 1]
        if full.get("st") != "ok":
            continue                      # an ill-typed history: nothing to compare
        items = {}
        for mm in full["val"].get("s", []):
            t = dict(mm["t"])
            items[int(t["@"]["n"])] = t["@item"]
        bad = None
        for k in range(len(defs) - 1):
            pk = by_hist[hi][k]
            if pk.get("st") != "ok":
                continue
            pit = {}
            for mm in pk["val"].get("s", []):
                t = dict(mm["t"])
                pit[int(t["@"]["n"])] = t["@item"]
            if json.dumps(pit.get(k), sort_keys=True) != json.dumps(items.get(k), sort_keys=True):
                bad = k
                break
        if bad is None:
            lib_ok += 1
        else:
            run.classify_failure(None, {"case": {"src": lib_program(defs, len(defs) - 1), "lib_defs": defs, "changed_value": "v%d" % bad},
                                        "observed": {"when_created": by_hist[hi][bad]["val"], "at_the_end": full["val"]},
                                        "oracle": "v%d evaluates to one value in the program that ends with its definition and to another once later values were derived (library-function histories)" % bad})
    lens = {}
    for ops, _, _, _ in hists:
        lens[len(ops)] = lens.get(len(ops), 0) + 1
    ok_general = sum(1 for c in gcases if gcodes.get(c["id"]) == 0)
    run.cov.update({"evaluations": len(hists) + len(gcases), "distinct_nontrivial": len(set(h[2] for h in hists)) + ok_general,
                    "rule": "stream 1: branching histories of 3-14 derivations (with at the end/front/a hole/far away, without at either end or inside, offsets) over one string or one array of numbers (the same slice + offset + holes shape), every operation choosing any earlier value as parent; the program `let v0 = ..; let v1 = f(v_p); .. [v0..vn]` is evaluated by syntax.EvaluateExpr and every vi compared with the heap model (Sys/Heap.v, vm_compute); stream 2: histories over strings, arrays, bytes, dicts, sets and relations (with, without, ++, offsets, >>, |) against the reference interpreter, incl. sibling combs (one parent extended twice at the same index) and relational combs (a relation widened by a join, then joined twice more); stream 3: histories derived with //seq.split / join / sub / concat / trim_*, where, with / without, ++ and >> over arrays (every definition using any earlier value), each value compared between the program that ends with its definition and the whole program; distinct by source; non-trivial = history evaluates and agrees",
                    "samples": [h[2] for h in hists[:3]] + [c["src"] for c in gcases[:3]],
                    "history_length_histogram": lens, "general_histories_agreeing": ok_general,
                    "library_histories": len(lib_hists), "library_histories_unchanged": lib_ok, "exhaustive": False})
    run.assumptions = ["github.com/arr-ai/frozen values are persistent (immutable)", "Go append/reslice semantics as modelled in Sys/Heap.v"]
    return run.finish(proof)
