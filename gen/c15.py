"""C15: a bundle evaluates exactly like its sources and reads nothing else.
Generated module layouts on an afero MemMapFs are evaluated from source, bundled, and the
bundle is run (harness/c15.go); the same layouts go through the Coq model (Sys/Bundle.v,
Check/C15Check.v, vm_compute).  Oracle = the property text on the implementation's own
outputs; the model supplies correspondence, the guard and the attribution to open findings."""
import concurrent.futures
import random
from common import *

PROP = "C15"
PROP_FILES = ["Properties/C15.v", "Check/C15Check.v"]

QUIRK_OF_SIG = {"unnamed-nested-sentinel": "q_unnamed_sentinel", "gomod-module-line": "q_modre_anchored",
                "config-goquote": "q_cfg_goquote"}
BIT_SIG = {64: "unnamed-nested-sentinel", 128: "gomod-module-line", 256: "config-goquote"}

DIRS = ["a", "b", "sub", "subx", "lib", "v1.2", "a.b", "my dir", 'q"t', "it's", "d-1", "x_y", "r", "r2",
        "module", "unnamed", ".cfg"]
LONG_DIR, LONG_SCRIPT = "L" * 150, "N" * 200 + ".arrai"      # used rarely: long names through zip headers
SCRIPTS = ["x.arrai", "y.arrai", "util.arrai", "main.arrai", "m.v2.arrai", "z z.arrai", "k.arrai", "w.arrai",
           ".hidden.arrai", "a.b.c.arrai", "config.arrai"]
DATA = ["d.json", "cfg.yaml", "n.yml", "raw.txt", "blob.bin", "v.1.json", "noext.d", "rows.csv", "e.mpty.txt"]
BYTES_EXT = (".txt", ".bin", ".d")      # no implicit decoder: imported as bytes
EMPTY_TAG, WS_TAG = 0, -1                # content identity of a zero-length file / of a file holding only "\n"


def data_variant(rng, nm):
    """content form of a data file: the archive must carry zero-length and whitespace-only files like any other
    (empty .arrai scripts are not generated: the parser does not terminate on them, a C10 matter)"""
    if nm.endswith(".csv"):
        return "empty"
    r = rng.random()
    if nm.endswith(BYTES_EXT):
        return "empty" if r < 0.22 else "ws" if r < 0.32 else "nl" if r < 0.45 else "pad" if r < 0.5 else "plain"
    return "nl" if r < 0.2 else "pad" if r < 0.27 else "plain"

MODNAMES = ["m", "github.com/x/y", "ex.com/a b", "n.io/p.q"]
GOMOD_FORMS = [("module %s\n", 60), ("module %s\n\ngo 1.20\n", 15), ("module %s\r\n", 6), ("module %s", 6),
               ("// c\nmodule %s\n", 6), ("module  %s\n", 3), ("module %s // c\n", 2), ("\nmodule %s\n", 2)]


def wchoice(rng, pairs):
    tot = sum(w for _, w in pairs)
    x = rng.uniform(0, tot)
    for v, w in pairs:
        x -= w
        if x <= 0:
            return v
    return pairs[-1][0]


def under(d, root):
    """d, root: tuples of segments"""
    return d[:len(root)] == root


class Layout:
    def __init__(self):
        self.files = {}      # abs path tuple -> dict(tag, imps|None, text, bytes)
        self.tag = 0

    def add(self, p, text=None, imps=None, raw=None, variant=None):
        self.tag += 1
        tag = self.tag
        if variant == "empty":
            tag, text = EMPTY_TAG, ""
        elif variant == "ws":
            tag, text = WS_TAG, "\n"
        self.files[tuple(p)] = {"tag": tag, "imps": imps, "raw": raw, "text": text, "variant": variant}
        return tag


def imp_text(i):
    dec = "[//encoding.json]" if i["dec"] else ""
    return "//%s{%s%s}" % (dec, "" if i["root"] else ".", i["path"])


def render(L):
    out = []
    for p, f in L.files.items():
        if f["raw"] is not None:
            content = f["raw"]
        elif f["text"] is not None:
            content = f["text"]
        elif f["imps"] == [] and not p[-1].endswith(".arrai"):
            # data file: valid JSON/YAML, and a valid script without imports
            content = str(f["tag"]) + {"nl": "\n", "pad": " " * 3000 + "\n"}.get(f.get("variant"), "")
        elif f["imps"] is None:
            content = "1 +"
        else:
            content = "(t: %d, i: [%s])" % (f["tag"], ", ".join(imp_text(i) for i in f["imps"]))
            content += {"script-nl": "\n", "script-comment": "\n# trailing comment\n"}.get(f.get("variant"), "")
        out.append(["/" + "/".join(p), content])
    return out


def noise(rng, segs):
    """spelling variants that Clean removes"""
    segs = list(segs)
    r = rng.random()
    if r < 0.12:
        k = rng.randrange(len(segs))
        segs[k:k] = ["."]
    elif r < 0.24:
        k = rng.randrange(len(segs))
        segs[k:k] = [rng.choice(DIRS[:6]), ".."]
    elif r < 0.30:
        k = rng.randrange(len(segs))
        segs[k:k] = [""]
    return segs


def gen_valid(rng, tier):
    L = Layout()
    depth = rng.choice([1, 1, 2, 2, 3])
    base = tuple(rng.choice(DIRS) for _ in range(depth))
    longnames = rng.random() < 0.06
    if longnames:
        base = base[:-1] + (LONG_DIR,)
    mode = rng.choice(["none", "none", "base", "base", "base", "base+nested", "nested-only", "above", "above+nested"])
    if mode.startswith("above") and len(base) < 2:
        mode = "base"
    # directories relative to base
    rels = [()]
    for _ in range(rng.randrange(1, 5)):
        parent = rng.choice(rels)
        if len(parent) < 3:
            d = parent + (rng.choice(DIRS),)
            if d not in rels:
                rels.append(d)
    if rng.random() < 0.3 and len(rels) > 1:      # sibling whose name extends another's (string-prefix hazard)
        d = rng.choice(rels[1:])
        e = d[:-1] + (d[-1] + "x",)
        if e not in rels:
            rels.append(e)
    roots = []
    top = base
    if mode in ("base", "base+nested"):
        roots.append(base)
    if mode in ("above", "above+nested"):
        top = base[:-1]
        roots.append(top)
    if mode in ("base+nested", "nested-only", "above+nested") and len(rels) > 1:
        roots.append(base + rng.choice(rels[1:]))
    main_rel = rng.choice(rels)
    modforms = {}
    main_root = None
    for r in roots:
        if under(base + main_rel, r) and (main_root is None or len(r) > len(main_root)):
            main_root = r
    for k, r in enumerate(roots):
        form = wchoice(rng, GOMOD_FORMS)
        name = rng.choice(MODNAMES) if k == 0 else rng.choice(["n", "ex.com/n"])
        x = rng.random()
        if r != main_root and x < 0.33:
            # a root marker made with `touch go.mod`: only the main script's own go.mod needs a module line
            form = "" if x < 0.25 else "\n"
            L.add(r + ("go.mod",), raw=form)
        else:
            L.add(r + ("go.mod",), raw=form % name)
        modforms[r] = form

    def root_of(d):
        best = None
        for r in roots:
            if under(d, r) and (best is None or len(r) > len(best)):
                best = r
        return best

    # files: index 0 is main
    nfiles = rng.randrange(1, 8 if tier == "quick" else 10)
    specs = []
    used = set()
    for k in range(nfiles):
        for _ in range(20):
            if k == 0:
                d = base + main_rel
                nm = rng.choice(["main.arrai", "m.arrai", "run", "main.v2.arrai", "my main.arrai"])
            else:
                # keep most files where main can reach them
                pool = [base + r for r in rels if under(base + r, base + main_rel)] if rng.random() < 0.6 else [base + r for r in rels]
                d = rng.choice(pool)
                nm = rng.choice(SCRIPTS) if rng.random() < 0.7 else rng.choice(DATA)
                kids = [r[-1] for r in rels if r and base + r[:-1] == d and "." not in r[-1]]
                if kids and rng.random() < 0.25:
                    nm = rng.choice(kids) + ".arrai"      # lib.arrai next to the directory lib/
                if longnames and rng.random() < 0.3:
                    nm = LONG_SCRIPT
            if d + (nm,) not in used:
                used.add(d + (nm,))
                specs.append((d, nm))
                break
    # a module nested below the main script's tree: make sure something inside it uses a /-rooted import,
    # which must resolve against the NESTED root in the source run and in the bundle run alike
    nested = [r for r in roots if len(r) > len(top)]
    forced = []
    if nested and rng.random() < 0.8:
        nr = nested[0]
        ia, ib = len(specs), len(specs) + 1
        if nr + ("na.arrai",) not in used and nr + ("deep", "nb.arrai") not in used:
            specs.append((nr, "na.arrai"))
            specs.append((nr + ("deep",), "nb.arrai"))
            forced = [(0, ia, None), (ia, ib, True), (ib, ia, None)]
    variant = {k: data_variant(rng, nm) for k, (d, nm) in enumerate(specs) if k and not nm.endswith(".arrai")}
    edges = {k: [] for k in range(len(specs))}
    forms_used = set()

    def forms(i, j):
        di, dj = specs[i][0], specs[j][0]
        out = []
        if under(dj, di):
            out.append((False, list(dj[len(di):])))
        r = root_of(di)
        if r is not None and under(dj, r):
            out.append((True, list(dj[len(r):])))
        return out

    order = list(range(len(specs)))
    for i in order:
        if not specs[i][1].endswith(".arrai") and i != 0:
            continue
        cands = [j for j in order if j > i and forms(i, j)]
        rng.shuffle(cands)
        for j in cands[:rng.choice([0, 1, 1, 2, 2, 3])]:
            fs = forms(i, j)
            picks = [rng.choice(fs)] if rng.random() < 0.8 else fs      # both spellings of the same file
            for root, segs in picks:
                nm = specs[j][1]
                isdata = not nm.endswith(".arrai")
                spelled = nm
                if nm.endswith(".arrai") and "." not in nm[:-6] and rng.random() < 0.5:
                    spelled = nm[:-6]
                s = noise(rng, segs + [spelled])
                if root and rng.random() < 0.05:
                    s = [".."] + s
                dec = isdata and variant.get(j) not in ("empty", "ws") and rng.random() < 0.35
                if variant.get(j) in ("empty", "ws"):
                    forms_used.add("zero-length" if variant[j] == "empty" else "whitespace-only")
                edges[i].append({"root": root, "path": "/" + "/".join(s), "dec": dec})
                forms_used.add(("root" if root else "rel") + ("-data" if isdata else "") + ("-dec" if dec else ""))
    for i, j, want_root in forced:
        if i == forced[-1][0] and j == forced[-1][1]:
            continue      # (placeholder edge kept out: the graph must stay acyclic)
        fs = [f for f in forms(i, j) if want_root is None or f[0] == want_root]
        if fs:
            root, segs = rng.choice(fs)
            edges[i].append({"root": root, "path": "/" + "/".join(segs + [specs[j][1][:-6]]), "dec": False})
            forms_used.add("nested-root" if root else "rel")
    if rng.random() < 0.08:
        i = rng.choice([k for k in order if specs[k][1].endswith(".arrai") or k == 0])
        edges[i].append({"root": False, "path": "/missing", "dec": False})
        forms_used.add("missing")
    for k, (d, nm) in enumerate(specs):
        if nm.endswith(".arrai") or k == 0:
            x = rng.random()
            L.add(d + (nm,), imps=edges[k], variant="script-nl" if x < 0.1 else "script-comment" if x < 0.15 else None)
        else:
            L.add(d + (nm,), imps=[], variant=variant[k])      # digits: valid as data and as a script without imports
    # same-named neighbours of a script x.arrai: a directory x/ and, elsewhere, an extension-less regular file x
    # (a wrapper, a built binary, notes): `//{./x}` must mean x.arrai for the bundler exactly as for the reader
    for k, (d, nm) in enumerate(list(specs)):
        stem = nm[:-6] if nm.endswith(".arrai") else None
        if not stem or "." in stem or k == 0:
            continue
        alldirs = {p[:i] for p in L.files for i in range(1, len(p))}
        twin = d + (stem,)
        if twin in alldirs:
            forms_used.add("dir-same-name")
        elif (twin[len(base):] in rels) and twin not in L.files:
            L.add(twin + ("inner.arrai",), imps=[])
            forms_used.add("dir-same-name")
        elif twin not in L.files and rng.random() < 0.4:
            L.add(twin, imps=[], variant=rng.choice([None, "nl", "empty"]))
            forms_used.add("extensionless-sibling")
    shape = {"mode": mode, "long_names": longnames, "main_depth": len(main_rel), "files": len(specs), "forms": sorted(forms_used),
             "gomod": sorted(set(modforms.values()))}
    return L, base + main_rel + (specs[0][1],), shape


MUTATIONS = ["imp:/", "imp:/..", "imp:/../X", "imp-root:/../X", "imp:/a../X", "imp:/..a/X",
             "rootmain", "rootgomod", "gomod-nomodule", "gomod-empty", "modname-dots", "garbage", "nbsp", "ctrl", "tab", "eacute",
             "imp-dirfile"]


def gen_malformed(rng, tier):
    L, main, shape = gen_valid(rng, tier)
    mut = rng.choice(MUTATIONS)
    shape = dict(shape)
    shape["mutation"] = mut
    scripts = [p for p, f in L.files.items() if f["imps"] is not None and f["raw"] is None and (p[-1].endswith(".arrai") or p == main)]
    mainf = L.files[main]
    if mut.startswith("imp"):
        kind, _, text = mut.partition(":")
        p = main if rng.random() < 0.6 else rng.choice(scripts)
        d = p[:-1]
        if "X" in text:
            # make the path exist below the importing directory so that only the spelling decides
            rel = text.strip().strip("/").split("/")
            tgt = [s for s in rel if s not in ("..",)]
            tgt[-1] = "mx.arrai"
            if tuple(d) + tuple(tgt) not in L.files:
                L.add(tuple(d) + tuple(tgt), imps=[])
            text = text.replace("X", "mx.arrai")
        if kind == "imp-dirfile":
            text = "/"
            sib = d[:-1] + (d[-1] + ".arrai",)
            if sib not in L.files and d[:-1] + (d[-1],) not in L.files:
                L.add(sib, imps=[])
            kind = "imp"
        L.files[p]["imps"] = list(L.files[p]["imps"]) + [{"root": kind == "imp-root", "path": text, "dec": False}]
    elif mut == "rootmain":
        L2 = Layout()
        L2.add(("main.arrai",), imps=[{"root": False, "path": "/x", "dec": False}])
        L2.add(("x.arrai",), imps=[])
        return L2, ("main.arrai",), shape
    elif mut == "rootgomod":
        L2 = Layout()
        L2.add(("go.mod",), raw="module m\n")
        L2.add(("p", "main.arrai"), imps=[{"root": True, "path": "/p/x", "dec": False}, {"root": False, "path": "/x", "dec": False}])
        L2.add(("p", "x.arrai"), imps=[])
        return L2, ("p", "main.arrai"), shape
    elif mut in ("gomod-nomodule", "gomod-empty", "modname-dots"):
        gms = [p for p in L.files if p[-1] == "go.mod"]
        if not gms:
            L.add(main[:-1] + ("go.mod",), raw="")
            gms = [main[:-1] + ("go.mod",)]
        for g in gms:
            L.files[g]["raw"] = {"gomod-nomodule": "go 1.20\n", "gomod-empty": "", "modname-dots": rng.choice(["module ../x\n", "module a/./b\n", "module ..\n", "module a//b\n"])}[mut]
    elif mut == "garbage":
        p = rng.choice(scripts)
        L.files[p]["imps"] = None
        L.files[p]["text"] = "1 +"
    elif mut in ("nbsp", "ctrl", "tab", "eacute"):
        ch = {"nbsp": "\u00a0", "ctrl": "\x01", "tab": "\t", "eacute": "\u00e9"}[mut]
        idx = len(main) - 1 if rng.random() < 0.5 else len(main) - 2
        old = main[:idx + 1]
        new = old[:-1] + (old[-1][:1] + ch + old[-1][1:],)
        L2 = Layout()
        L2.tag = L.tag
        for p, f in L.files.items():
            L2.files[(new + p[idx + 1:]) if p[:idx + 1] == old else p] = f
        return L2, new + main[idx + 1:], shape
    elif mut == "data-as-script":
        L.add(main[:-1] + ("notes.txt",), imps=None, text="not arrai +")
        mainf["imps"] = list(mainf["imps"]) + [{"root": False, "path": "/notes.txt", "dec": False}]
    return L, main, shape


CORPUS = [
    # (name, files, main) - witnesses of the open findings and past probes, always run first
    ("kf01-unnamed-nested-sentinel", {"/r/main.arrai": [{"root": False, "path": "/sub/x", "dec": False}], "/r/sub/go.mod": "module n\n",
                                      "/r/sub/x.arrai": [{"root": True, "path": "/y", "dec": False}], "/r/sub/y.arrai": []}, "/r/main.arrai"),
    ("kf02-gomod-no-newline", {"/r/go.mod": "module m", "/r/main.arrai": []}, "/r/main.arrai"),
    ("kf02-gomod-comment-first", {"/r/go.mod": "// c\nmodule m\n", "/r/main.arrai": []}, "/r/main.arrai"),
    ("kf03-config-goquote", {"/r/a\x01b.arrai": []}, "/r/a\x01b.arrai"),
    ("kf03-config-nbsp", {"/r/a b.arrai": []}, "/r/a b.arrai"),
    ("kf04-dot-import", {"/r/sub/main.arrai": [{"root": False, "path": "/", "dec": False}], "/r/sub.arrai": []}, "/r/sub/main.arrai"),
    ("module-basic", {"/r/go.mod": "module m.com/x\n", "/r/sub/main.arrai": [{"root": False, "path": "/a", "dec": False}, {"root": True, "path": "/b/c", "dec": False}, {"root": False, "path": "/d.json", "dec": False}],
                      "/r/sub/a.arrai": [], "/r/b/c.arrai": [{"root": True, "path": "/sub/a", "dec": False}], "/r/sub/d.json": []}, "/r/sub/main.arrai"),
    ("prefix-sibling", {"/a/b/go.mod": "module m\n", "/a/b/main.arrai": [{"root": True, "path": "/c/x", "dec": False}], "/a/b/c/x.arrai": [], "/a/bc/x.arrai": []}, "/a/b/main.arrai"),
    # module paths written as Go string literals (go.mod allows "..." and `...`): the text after `module ` is used as written
    ("quoted-module-path", {"/v/go.mod": 'module "ex.com/v"\n', "/v/cmd/main.arrai": [{"root": False, "path": "/lib", "dec": False}, {"root": True, "path": "/x", "dec": False}],
                            "/v/cmd/lib.arrai": [], "/v/x.arrai": []}, "/v/cmd/main.arrai"),
    ("backquoted-module-path", {"/v/go.mod": "module `ex.com/v`\n\ngo 1.20\n", "/v/main.arrai": [{"root": False, "path": "/a", "dec": False}], "/v/a.arrai": [{"root": True, "path": "/b", "dec": False}],
                                "/v/b.arrai": []}, "/v/main.arrai"),
    ("quoted-nested-module", {"/r/go.mod": "module m\n", "/r/main.arrai": [{"root": False, "path": "/n/x", "dec": False}], "/r/n/go.mod": 'module "n.io/q"\n',
                              "/r/n/x.arrai": [{"root": True, "path": "/y", "dec": False}], "/r/n/y.arrai": []}, "/r/main.arrai"),
    ("crlf", {"/r/go.mod": "module m\r\n", "/r/main.arrai": [{"root": True, "path": "/a", "dec": False}], "/r/a.arrai": []}, "/r/main.arrai"),
    ("kf06-modname-dotdot", {"/b/go.mod": "module ..\n", "/b/run.arrai": [{"root": False, "path": "/config", "dec": False}], "/b/config.arrai": []}, "/b/run.arrai"),
    ("extless-sibling-module", {"/p/go.mod": "module example.com/proj\n", "/p/main.arrai": [{"root": False, "path": "/build", "dec": False}, {"root": False, "path": "/build.arrai", "dec": False}],
                                "/p/build.arrai": [], "/p/build": "#!/bin/sh\n"}, "/p/main.arrai"),
    ("extless-sibling-root-import", {"/p/go.mod": "module example.com/proj\n", "/p/cmd/main.arrai": [{"root": True, "path": "/tools/gen", "dec": False}],
                                     "/p/tools/gen.arrai": [{"root": False, "path": "/lib", "dec": False}], "/p/tools/gen": "ELF", "/p/tools/lib.arrai": [], "/p/tools/lib/x.arrai": []}, "/p/cmd/main.arrai"),
    ("extless-sibling-unnamed", {"/w/main.arrai": [{"root": False, "path": "/lib/notes", "dec": False}], "/w/lib/notes.arrai": [], "/w/lib/notes": "EMPTY"}, "/w/main.arrai"),
    ("zero-length-data", {"/app/go.mod": "module example.com/app\n", "/app/main.arrai": [{"root": False, "path": "/data/notes.txt", "dec": False}, {"root": True, "path": "/data/rows.csv", "dec": False}, {"root": False, "path": "/data/n.json", "dec": False}],
                          "/app/data/notes.txt": "EMPTY", "/app/data/rows.csv": "EMPTY", "/app/data/n.json": []}, "/app/main.arrai"),
    ("zero-length-data-unnamed", {"/app/main.arrai": [{"root": False, "path": "/data/notes.txt", "dec": False}, {"root": False, "path": "/w.bin", "dec": False}],
                                  "/app/data/notes.txt": "EMPTY", "/app/w.bin": "WS"}, "/app/main.arrai"),
    ("zero-length-nested-sentinel", {"/app/go.mod": "module example.com/app\n", "/app/main.arrai": [{"root": False, "path": "/sub/x", "dec": False}, {"root": True, "path": "/util", "dec": False}],
                                     "/app/util.arrai": [], "/app/sub/go.mod": "", "/app/sub/x.arrai": [{"root": True, "path": "/util", "dec": False}], "/app/sub/util.arrai": []}, "/app/main.arrai"),
    # a nested module next to a sibling directory whose NAME merely starts with the module directory's name: a root import
    # from the sibling belongs to the outer module (containment is by path components, not by string prefix)
    ("nested-module-prefix-sibling", {"/t/go.mod": "module ex.com/t\n", "/t/main.arrai": [{"root": False, "path": "/lib/a", "dec": False}, {"root": False, "path": "/libs/b", "dec": False}],
                                      "/t/lib/go.mod": "module ex.com/t/lib\n", "/t/lib/a.arrai": [{"root": True, "path": "/x", "dec": False}], "/t/lib/x.arrai": [],
                                      "/t/libs/b.arrai": [{"root": True, "path": "/x", "dec": False}], "/t/x.arrai": []}, "/t/main.arrai"),
    ("nested-module-prefix-sibling-2", {"/t/go.mod": "module ex.com/t\n", "/t/main.arrai": [{"root": False, "path": "/v1/a", "dec": False}, {"root": False, "path": "/v10/b", "dec": False}],
                                        "/t/v1/go.mod": "module ex.com/t/v1\n", "/t/v1/a.arrai": [{"root": True, "path": "/y", "dec": False}], "/t/v1/y.arrai": [],
                                        "/t/v10/b.arrai": [{"root": True, "path": "/y", "dec": False}], "/t/y.arrai": []}, "/t/main.arrai"),
    ("nested-in-module", {"/r/go.mod": "module m\n", "/r/main.arrai": [{"root": False, "path": "/n/x", "dec": False}], "/r/n/go.mod": "module n\n",
                          "/r/n/x.arrai": [{"root": True, "path": "/y", "dec": False}], "/r/n/y.arrai": [], "/r/y.arrai": []}, "/r/main.arrai"),
]


def corpus_cases():
    out = []
    for name, files, main in CORPUS:
        L = Layout()
        for p, v in files.items():
            t = tuple(p[1:].split("/"))
            if v in ("EMPTY", "WS"):
                L.add(t, imps=[], variant={"EMPTY": "empty", "WS": "ws"}[v])
            elif isinstance(v, str):
                L.add(t, raw=v)
            else:
                L.add(t, imps=v)
        out.append((L, tuple(main[1:].split("/")), {"corpus": name}))
    return out


# ---------- Coq terms ----------

def seg_term(s):
    if s and all(32 <= ord(ch) < 127 for ch in s):
        return '(zs "%s")' % s.replace('"', '""')      # string literals elaborate much faster than lists of numerals
    return zl(list(s.encode("utf-8")))


def path_term(p):
    return "[" + "; ".join(seg_term(s) for s in p) + "]"


def imp_term(i):
    segs = i["path"][1:].split("/")
    return "{| i_root := %s; i_segs := %s; i_dec := %s |}" % (cbool(i["root"]), path_term(segs), cbool(i["dec"]))


def file_term(f):
    if f["raw"] is not None:
        imps = "Some []" if f["raw"].strip().isdigit() else "None"
        return "{| f_tag := (%d); f_imps := %s; f_bytes := %s |}" % (f["tag"], imps, seg_term(f["raw"]))
    imps = "None" if f["imps"] is None else "Some [" + "; ".join(imp_term(i) for i in f["imps"]) + "]"
    return "{| f_tag := (%d); f_imps := %s; f_bytes := [] |}" % (f["tag"], imps)


def layout_term(L):
    return "[" + ";\n     ".join("(%s, %s)" % (path_term(p), file_term(f)) for p, f in L.files.items()) + "]"


def parse_tree(d):
    """canonical dump of a value -> otree term, or None"""
    if "n" in d:
        try:
            return "(ONode (%d) [])" % int(d["n"])
        except ValueError:
            return None
    if "t" in d:
        a = dict((k, v) for k, v in d["t"])
        if set(a) != {"t", "i"} or "n" not in a["t"] or "s" not in a["i"]:
            return None
        items = []
        for m in a["i"]["s"]:
            mm = dict((k, v) for k, v in m.get("t", []))
            if set(mm) != {"@", "@item"}:
                return None
            items.append((float(mm["@"]["n"]), mm["@item"]))
        items.sort(key=lambda x: x[0])
        ch = [parse_tree(x) for _, x in items]
        if any(c is None for c in ch):
            return None
        return "(ONode (%d) [%s])" % (int(a["t"]["n"]), "; ".join(ch))
    if "s" in d:      # bytes holding the decimal tag; a zero-length file is {} and a newline-only file is <<10>>
        if d["s"] == [] and d.get("c") == 0:
            return "(ONode (%d) [])" % EMPTY_TAG
        bs = []
        for m in d["s"]:
            mm = dict((k, v) for k, v in m.get("t", []))
            if set(mm) != {"@", "@byte"}:
                return None
            bs.append((float(mm["@"]["n"]), int(mm["@byte"]["n"])))
        bs.sort()
        try:
            txt = bytes(b for _, b in bs).decode()
            return "(ONode (%d) [])" % (WS_TAG if txt.strip() == "" else int(txt.strip()))
        except Exception:
            return None
    return None


def ores_term(o):
    if o is None:
        return "OBad"
    st = o.get("st")
    if st == "ok":
        t = parse_tree(o["val"])
        return "OBad" if t is None else "(OOk %s)" % t
    return {"err": "OErr", "panic": "OPanic"}.get(st, "OBad")


# ---------- oracle on the implementation's own outputs ----------

def oracle(o):
    """returns None when the property holds on this observation, else the failed clause"""
    if o is None or "src" not in o:
        return "harness produced no observation: %s" % (o or {}).get("setup_err")
    src = o["src"]
    if src.get("st") == "timeout" or o.get("bst") == "timeout" or any(r.get("st") == "timeout" for r in o.get("runs", [])):
        return None      # wall-clock budget hit (loaded machine; non-termination is C10's/C16's subject): no verdict
    if o.get("zip_err"):
        return "the written archive is not a readable zip: %s" % o["zip_err"]
    if o.get("reads"):
        return "the bundle run touched the host file system: %s" % o["reads"][:4]
    runs = o.get("runs", [])
    if src["st"] == "ok":
        if o.get("bst") != "ok":
            return "the script evaluates from source but bundling fails (%s)" % o.get("bst")
        for r in runs:
            if r["st"] != "ok":
                return "the script evaluates from source but the bundle run fails (%s)" % r["st"]
            if r["val"] != src["val"]:
                return "the bundle run yields a different value than the source run"
        if len(runs) != 2:
            return "bundle was not run"
        return None
    if src["st"] == "err":
        if o.get("bst") == "err":
            return None
        if o.get("bst") == "ok" and runs and all(r["st"] == "err" for r in runs):
            return None
        return "evaluation from source fails but bundle/run gives bst=%s runs=%s" % (o.get("bst"), [r["st"] for r in runs])
    return None if (o.get("bst") != "ok" or all(r["st"] == src["st"] for r in runs)) else "source run %s, bundle run differs" % src["st"]


def nonprintable_in(s):
    return any((not ch.isprintable()) and ch not in "\a\b\t\n\v\f\r" for ch in s)


def pyrule_sig(case, o):
    """attribution for inputs outside the model's precondition"""
    L, main = case["L"], case["main"]
    for p, f in L.files.items():
        for i in (f["imps"] or []):
            if not i["root"]:
                segs, ok = [], True
                for s in i["path"][1:].split("/"):
                    if s in ("", "."):
                        continue
                    if s == "..":
                        if segs:
                            segs.pop()
                        else:
                            ok = False
                    else:
                        segs.append(s)
                if ok and not segs:
                    return "dot-import-dir-sibling"
    root = None
    for k in range(len(main) - 1, -1, -1):
        if main[:k] + ("go.mod",) in L.files:
            root = main[:k] + ("go.mod",)
            break
    if root is not None and not re.search(r"(?m)^module[ \t]+(\S+)", L.files[root]["raw"] or ""):
        return "gomod-no-module-line"
    if root is not None:
        m = re.search(r"(?m)^module[ \t]+(\S+)", L.files[root]["raw"] or "")
        if m and ".." in m.group(1).split("/"):
            return "modname-dotdot"
    cfgs = (o.get("config") or "").replace("\\\\", "")
    if o.get("bst") == "ok" and re.search(r"\\[xuU]", cfgs):
        return "config-goquote"
    return None


def q_term(run):
    on = {QUIRK_OF_SIG[f["sig"]] for f in run.opened if f["sig"] in QUIRK_OF_SIG}
    return "{| " + "; ".join("%s := %s" % (k, cbool(k in on)) for k in QUIRK_OF_SIG.values()) + " |}"


def run_cases(run, vh, cases, shard=None):
    t0 = time.time()
    outs, rc, err = run_harness(vh, "c15", [{"id": c["id"], "files": render(c["L"]), "main": "/" + "/".join(c["main"]), "budget_ms": 8000} for c in cases], stall=60)
    log("c15: harness %.1fs for %d cases" % (time.time() - t0, len(cases)))
    q = q_term(run)
    if shard is None:      # few coqc processes (start-up dominates on a loaded machine), at most ~170 cases each
        nsh = max(2, -(-len(cases) // 170))
        shard = -(-len(cases) // nsh)
    chunks = [cases[i:i + shard] for i in range(0, len(cases), shard)]

    def do(idx_chunk):
        idx, chunk = idx_chunk
        body = ["From Coq Require Import String.", "From Arrai Require Import Sys.BPath Sys.Bundle Check.C15Check.", "Open Scope list_scope. Open Scope Z_scope.", "Time Definition cases : list case15 := ["]
        items = []
        for c in chunk:
            o = outs.get(c["id"]) or {}
            bst = {"ok": 0, "err": 1, "panic": 2}.get(o.get("bst"), 3)
            listing = "[" + "; ".join(path_term(n.split("/")) for n in o.get("listing", [])) + "]"
            runs = o.get("runs") or [None]
            items.append("  {| c_id := %d; c_layout := %s;\n     c_main := %s; c_src := %s; c_bst := %d; c_listing := %s; c_run := %s |}" % (
                c["id"], layout_term(c["L"]), path_term(c["main"]), ores_term(o.get("src")), bst, listing, ores_term(runs[0])))
        body.append(";\n".join(items))
        body.append("].\nTime Definition R := Eval vm_compute in report %s cases.\nPrint R." % q)
        t1 = time.time()
        rc2, so, se = coq_eval("c15_cases_%d" % idx, "\n".join(body))
        if idx == 0:
            log("c15: first shard coqc %.1fs (%d bytes) %s" % (time.time() - t1, sum(len(b) for b in body), re.findall(r"Finished[^\n]*", so)))
        return coq_report(so, "R"), se

    results = {}
    with concurrent.futures.ThreadPoolExecutor(max_workers=12) as ex:
        for (rep, se), chunk in zip(ex.map(do, enumerate(chunks)), chunks):
            if rep is None:
                run.corr_breaks.append({"what": "model evaluation failed (Check/C15Check.v)", "log": se[-1500:]})
                continue
            for c in chunk:
                results[c["id"]] = 0
            for cid, code in rep:
                results[cid] = code
    return outs, results


def describe(c):
    return {"main": "/" + "/".join(c["main"]), "files": render(c["L"]), "shape": c["shape"]}


def main(tier, seed, replay=None):
    run = Run(PROP, tier, seed)
    vh, proof = prepare(PROP_FILES, thorough=(tier == "thorough"))
    cases = []
    if replay:
        rp = json.load(open(replay))
        if "case" in rp:
            L = Layout()
            for p, content in rp["case"]["files"]:
                L.add(tuple(p[1:].split("/")), raw=content)
            # a replay carries the rendered files; imports are re-read from the model section
            content = dict((p, c) for p, c in rp["case"]["files"])
            for p, f in rp["case"].get("model", {}).items():
                t = tuple(p[1:].split("/"))
                L.files[t].update({"imps": f["imps"], "raw": f["raw"], "text": content[p] if f["raw"] is None else None,
                                   "tag": f.get("tag", L.files[t]["tag"])})
            cases.append({"L": L, "main": tuple(rp["case"]["main"][1:].split("/")), "shape": rp["case"].get("shape", {}), "stream": "replay"})
    else:
        seeds = [seed] if tier == "quick" else [seed, seed + 1]
        for L, m, sh in corpus_cases():
            cases.append({"L": L, "main": m, "shape": sh, "stream": "corpus"})
        for s in seeds:
            rng = random.Random(s)
            n = 200 if tier == "quick" else 2500
            for _ in range(n):
                if rng.random() < 0.8:
                    L, m, sh = gen_valid(rng, tier)
                    cases.append({"L": L, "main": m, "shape": sh, "stream": "valid"})
                else:
                    L, m, sh = gen_malformed(rng, tier)
                    cases.append({"L": L, "main": m, "shape": sh, "stream": "malformed"})
    for k, c in enumerate(cases):
        c["id"] = k
    outs, results = run_cases(run, vh, cases)

    hist = {"stream": {}, "mode": {}, "long_names": {}, "main_depth": {}, "forms": {}, "gomod": {}, "mutation": {}, "outcome": {}, "files": {}}
    seen, dist, outside, guard_false, pre_mismatch = set(), 0, 0, 0, 0
    hit_sigs = set()
    for c in cases:
        o = outs.get(c["id"])
        code = results.get(c["id"])
        sh = c["shape"]
        hist["stream"][c["stream"]] = hist["stream"].get(c["stream"], 0) + 1
        for k in ("mode", "main_depth", "mutation", "files", "long_names"):
            if k in sh:
                hist[k][str(sh[k])] = hist[k].get(str(sh[k]), 0) + 1
        for k in ("forms", "gomod"):
            for v in sh.get(k, []):
                hist[k][repr(v)] = hist[k].get(repr(v), 0) + 1
        oc = "%s/%s/%s" % ((o or {}).get("src", {}).get("st"), (o or {}).get("bst"), ",".join(r["st"] for r in (o or {}).get("runs", [])))
        hist["outcome"][oc] = hist["outcome"].get(oc, 0) + 1
        key = json.dumps(render(c["L"]), sort_keys=True) + "|" + "/".join(c["main"])
        if key not in seen:
            seen.add(key)
            if o and o.get("src", {}).get("st") == "ok" and any(f["imps"] for f in c["L"].files.values()):
                dist += 1
        if code is None:
            continue
        fail = oracle(o)
        in_pre = not (code & 16)
        guard = not (code & 32)
        mism = code & 15
        ksigs = [BIT_SIG[b] for b in (64, 128, 256) if code & b]
        model = {p_: {"imps": f["imps"], "raw": f["raw"], "text": f["text"], "tag": f["tag"]} for p_, f in (("/" + "/".join(p), f) for p, f in c["L"].files.items())}
        rec = {"case": dict(describe(c), model=model), "observed": o, "model_code": code, "oracle": fail}
        if code & 512:
            run.notes.append("model out of fuel on case %d" % c["id"])
        if in_pre and (code & 1024):
            run.corr_breaks.append({"what": "repaired model violates the property inside pre (theorem C15_bundle_like_source contradicted?)", **rec})
        if not in_pre:
            outside += 1
        if not guard:
            guard_false += 1
        if fail:
            if in_pre and guard:
                run.classify_failure(None, rec)
            elif in_pre:
                sigs = ksigs or [None]
                if all(run.finding_for(s) for s in sigs):
                    for s in sigs:
                        run.classify_failure(s, rec)
                        hit_sigs.add(s)
                else:
                    run.classify_failure(next(s for s in sigs if not run.finding_for(s)), rec)
            else:
                s = (ksigs[0] if ksigs and run.finding_for(ksigs[0]) else None) or pyrule_sig(c, o or {})
                run.classify_failure(s, rec)
                hit_sigs.add(s)
        elif mism:
            if in_pre and guard:
                run.corr_breaks.append({"what": "implementation and model differ (bits %d: 1 src, 2 bundling, 4 listing, 8 run) although the property's oracle holds" % mism, **rec})
            else:
                pre_mismatch += 1
    # every open finding's witness must still fail
    if not replay:
        for f in run.opened:
            if f["sig"] not in hit_sigs:
                run.corr_breaks.append({"what": "open finding %s (%s) no longer reproduces on its witness" % (f["id"], f["sig"])})
    if os.environ.get("C15_DEBUG"):
        for b in run.corr_breaks[:6]:
            log(json.dumps(b, ensure_ascii=False, default=str)[:3000])
    run.cov.update({
        "evaluations": len(cases), "distinct_nontrivial": dist,
        "rule": "one case = file layout + main path; evaluated from source, bundled, bundle run from two working directories "
                "(harness c15) and through the Coq model; distinct by rendered files + main; non-trivial = evaluates from source to a value "
                "and at least one file has a local import",
        "samples": [describe(cases[i]) for i in range(0, len(cases), max(1, len(cases) // 5))][:5],
        "histograms": hist, "outside_precondition": outside, "guard_false": guard_false,
        "model_mismatch_outside_pre_or_guard": pre_mismatch, "exhaustive": False,
    })
    run.assumptions = ["afero MemMapFs / zipfs / archive/zip behave as a finite map from clean absolute paths to bytes",
                       "evaluation of a script is a function of its resolved import tree (contents + decoders)",
                       "imports are local (./ and /-rooted); module (go mod) and URL imports, Windows paths, import cycles are outside C15's model"]
    return run.finish(proof)
