"""C02: equality is extensional and equal values are interchangeable."""
import random
from common import *
import expr as X
import evalcheck
import dictrep
import c02_builder

PROP = "C02"
PROP_FILES = ["Properties/C02.v", "Check/EvalCheck.v", "Check/DictCheck.v", "Check/BuilderCheck.v"]
N = X.num


def pr(k, i, v):
    return X.tup([("@", N(i)), (k, v)])


def families():
    d = X.var(".")
    F = {}
    F["str_ab"] = [X.string("ab"), X.rel(["@", "@char"], [[N(0), N(97)], [N(1), N(98)]]),
                   X.set_([pr("@char", 1, N(98)), pr("@char", 0, N(97))]),
                   X.binop("with", X.string("a"), pr("@char", 1, N(98))),
                   X.binop("with", X.string("b", 1), pr("@char", 0, N(97))),
                   X.binop("without", X.string("abc"), pr("@char", 2, N(99))),
                   X.where(X.string("abc"), X.dotfn(X.cmpop("<", X.dot(d, "@"), N(2)))),
                   X.binop("++", X.string("a"), X.string("b")),
                   X.binop("\\", N(-1), X.string("ab", 1)),
                   X.seqarrow(X.string("ab"), X.dotfn(d)),
                   X.seqarrow(X.string("`a"), X.dotfn(X.binop("+", d, N(1)))),
                   X.set_([X.binop("+>", X.tup([("@", N(0))]), X.tup([("@char", N(97))])), pr("@char", 1, N(98))]),
                   X.binop("&", X.string("abc"), X.string("abd")),
                   X.binop("&~", X.string("abc"), X.string("c", 2)),
                   X.binop("|", X.string("a"), X.string("b", 1)),
                   X.darrow(X.string("ab", 1), X.dotfn(X.tup([("@", X.binop("-", X.dot(d, "@"), N(1))), ("@char", X.dot(d, "@char"))]))),
                   # a hole made and filled again (with, |, both operand orders)
                   X.binop("with", X.binop("without", X.string("ab"), pr("@char", 0, N(97))), pr("@char", 0, N(97))),
                   X.binop("without", X.binop("with", X.binop("without", X.string("abc"), pr("@char", 1, N(98))), pr("@char", 1, N(98))), pr("@char", 2, N(99))),
                   X.binop("without", X.binop("|", X.binop("without", X.string("abc"), pr("@char", 1, N(98))), X.string("b", 1)), pr("@char", 2, N(99))),
                   X.binop("without", X.binop("|", X.string("b", 1), X.binop("without", X.string("abc"), pr("@char", 1, N(98)))), pr("@char", 2, N(99))),
                   # joins whose result heading is {@, @char}, with @ from either operand
                   X.join("<->", X.rel(["k", "@"], [[N(7), N(0)], [N(8), N(1)]]), X.rel(["k", "@char"], [[N(7), N(97)], [N(8), N(98)]])),
                   X.join("<->", X.rel(["k", "@char"], [[N(7), N(97)], [N(8), N(98)]]), X.rel(["k", "@"], [[N(7), N(0)], [N(8), N(1)]]))]
    F["str_hole"] = [X.binop("without", X.string("abc"), pr("@char", 1, N(98))),
                     X.set_([pr("@char", 0, N(97)), pr("@char", 2, N(99))]),
                     X.binop("|", X.string("a"), X.string("c", 2)),
                     X.binop("with", X.string("a"), pr("@char", 2, N(99))),
                     X.where(X.string("abc"), X.dotfn(X.cmpop("!=", X.dot(d, "@"), N(1)))),
                     X.binop("~~", X.string("abc"), X.string("b", 1))]
    F["str_off"] = [X.string("c", 2), X.binop("without", X.binop("without", X.string("abc"), pr("@char", 1, N(98))), pr("@char", 0, N(97))),
                    X.binop("without", X.binop("without", X.string("abc"), pr("@char", 0, N(97))), pr("@char", 1, N(98))),
                    X.set_([pr("@char", 2, N(99))]), X.binop("&~", X.string("abc"), X.string("ab")), X.binop("\\", N(1), X.string("c", 1))]
    F["arr_12"] = [X.arr([N(1), N(2)]), X.set_([pr("@item", 0, N(1)), pr("@item", 1, N(2))]), X.binop("++", X.arr([N(1)]), X.arr([N(2)])),
                   X.binop("without", X.arr([N(1), N(2), N(3)]), pr("@item", 2, N(3))),
                   X.darrow(X.set_([N(0), N(1)]), X.dotfn(X.tup([("@", d), ("@item", X.binop("+", d, N(1)))]))),
                   X.seqarrow(X.arr([N(0), N(1)]), X.dotfn(X.binop("+", d, N(1)))),
                   X.rel(["@", "@item"], [[N(0), N(1)], [N(1), N(2)]]),
                   X.binop("with", X.arr([N(1)]), pr("@item", 1, N(2))),
                   X.binop("|", X.arr([N(1)]), X.arr([N(2)], 1)),
                   X.binop("&", X.arr([N(1), N(2), N(3)]), X.arr([N(1), N(2), N(4)])),
                   X.binop("\\", N(-2), X.arr([N(1), N(2)], 2)),
                   X.binop("with", X.binop("without", X.arr([N(1), N(2)]), pr("@item", 0, N(1))), pr("@item", 0, N(1))),
                   X.binop("without", X.binop("with", X.binop("without", X.arr([N(1), N(2), N(3)]), pr("@item", 1, N(2))), pr("@item", 1, N(2))), pr("@item", 2, N(3))),
                   X.join("<->", X.rel(["k", "@"], [[N(7), N(0)], [N(8), N(1)]]), X.rel(["k", "@item"], [[N(7), N(1)], [N(8), N(2)]])),
                   X.join("<->", X.rel(["k", "@item"], [[N(7), N(1)], [N(8), N(2)]]), X.rel(["k", "@"], [[N(7), N(0)], [N(8), N(1)]]))]
    F["arr_off"] = [X.arr([N(3)], 2), X.binop("without", X.arr([N(1), None, N(3)]), pr("@item", 0, N(1))), X.set_([pr("@item", 2, N(3))]),
                    X.binop("\\", N(1), X.arr([N(3)], 1)), X.binop("&~", X.arr([N(1), N(2), N(3)]), X.arr([N(1), N(2)])),
                    X.where(X.arr([N(1), N(2), N(3)]), X.dotfn(X.cmpop(">", X.dot(d, "@item"), N(2))))]
    F["arr_hole"] = [X.arr([N(1), None, N(3)]), X.binop("without", X.arr([N(1), N(2), N(3)]), pr("@item", 1, N(2))),
                     X.set_([pr("@item", 2, N(3)), pr("@item", 0, N(1))]), X.binop("with", X.arr([N(1)]), pr("@item", 2, N(3))),
                     X.binop("|", X.arr([N(1)]), X.arr([N(3)], 2))]
    F["bytes_12"] = [X.bytes_([1, 2]), X.set_([pr("@byte", 0, N(1)), pr("@byte", 1, N(2))]), X.binop("++", X.bytes_([1]), X.bytes_([2])),
                     X.binop("without", X.bytes_([1, 2, 3]), pr("@byte", 2, N(3))), X.rel(["@", "@byte"], [[N(0), N(1)], [N(1), N(2)]]),
                     X.binop("with", X.bytes_([1]), pr("@byte", 1, N(2))), X.seqarrow(X.bytes_([0, 1]), X.dotfn(X.binop("+", d, N(1)))),
                     X.binop("&~", X.bytes_([1, 2, 3]), X.bytes_([3], 2))]
    F["bytes_off"] = [X.bytes_([2], 1), X.binop("without", X.bytes_([1, 2]), pr("@byte", 0, N(1))), X.set_([pr("@byte", 1, N(2))]),
                      X.binop("&~", X.bytes_([1, 2]), X.bytes_([1]))]
    F["dict"] = [X.dict_([(N(1), N(2))]), X.set_([pr("@value", 1, N(2))]), X.rel(["@", "@value"], [[N(1), N(2)]]),
                 X.binop("without", X.dict_([(N(1), N(2)), (N(3), N(4))]), pr("@value", 3, N(4))),
                 X.binop("+>", X.dict_([(N(1), N(5))]), X.dict_([(N(1), N(2))])),
                 X.binop("&", X.dict_([(N(1), N(2)), (N(3), N(4))]), X.dict_([(N(1), N(2)), (N(3), N(5))])),
                 X.seqarrow(X.dict_([(N(1), N(1))]), X.dotfn(X.binop("+", d, N(1)))),
                 X.set_([X.binop("+>", X.tup([("@", N(1))]), X.tup([("@value", N(2))]))]),
                 X.binop("without", X.binop("|", X.dict_([(N(1), N(2))]), X.dict_([(N(1), N(3))])), pr("@value", 1, N(3))),
                 X.binop("&~", X.binop("|", X.dict_([(N(1), N(2))]), X.dict_([(N(1), N(3))])), X.dict_([(N(1), N(3))])),
                 X.where(X.binop("|", X.dict_([(N(1), N(2))]), X.dict_([(N(1), N(3))])), X.dotfn(X.cmpop("=", X.dot(d, "@value"), N(2))))]
    F["dict_multi"] = [X.binop("|", X.dict_([(N(1), N(2))]), X.dict_([(N(1), N(3))])), X.set_([pr("@value", 1, N(2)), pr("@value", 1, N(3))]),
                       X.rel(["@", "@value"], [[N(1), N(3)], [N(1), N(2)]]),
                       X.binop("with", X.dict_([(N(1), N(3))]), pr("@value", 1, N(2))),
                       X.binop("without", X.binop("|", X.dict_([(N(1), N(2)), (N(4), N(4))]), X.dict_([(N(1), N(3))])), pr("@value", 4, N(4)))]
    F["rel_ab"] = [X.rel(["a", "b"], [[N(1), N(2)], [N(3), N(4)]]), X.set_([X.tup([("a", N(1)), ("b", N(2))]), X.tup([("b", N(4)), ("a", N(3))])]),
                   X.rel(["b", "a"], [[N(2), N(1)], [N(4), N(3)]]),
                   X.darrow(X.set_([N(1), N(3)]), X.dotfn(X.tup([("a", d), ("b", X.binop("+", d, N(1)))]))),
                   X.binop("|", X.rel(["a", "b"], [[N(1), N(2)]]), X.set_([X.tup([("a", N(3)), ("b", N(4))])])),
                   X.binop("without", X.rel(["a", "b"], [[N(1), N(2)], [N(3), N(4)], [N(5), N(6)]]), X.tup([("a", N(5)), ("b", N(6))])),
                   X.where(X.rel(["a", "b"], [[N(1), N(2)], [N(3), N(4)], [N(5), N(6)]]), X.dotfn(X.cmpop("<", X.dot(d, "a"), N(5)))),
                   X.binop("|", X.join("<&>", X.rel(["b"], [[N(2)]]), X.rel(["a"], [[N(1)]])), X.join("<&>", X.rel(["b"], [[N(4)]]), X.rel(["a"], [[N(3)]]))),
                   X.join("-&>", X.rel(["b"], [[N(2)], [N(4)]]), X.join("<&>", X.rel(["b"], [[N(2)], [N(4)], [N(9)]]), X.rel(["a"], [[N(1)], [N(3)]])) ) if False else
                   X.binop("&", X.join("<&>", X.rel(["b"], [[N(2)], [N(4)]]), X.rel(["a"], [[N(1)], [N(3)]])), X.rel(["a", "b"], [[N(1), N(2)], [N(3), N(4)]]))]
    F["rel_one"] = [X.rel(["a", "b"], [[N(2), N(1)]]), X.join("<&>", X.rel(["b"], [[N(1)]]), X.rel(["a"], [[N(2)]])),
                    X.join("<&>", X.rel(["a"], [[N(2)]]), X.rel(["b"], [[N(1)]])), X.set_([X.tup([("b", N(1)), ("a", N(2))])]),
                    X.join("<&-", X.rel(["b", "a"], [[N(1), N(2)], [N(7), N(8)]]), X.rel(["a"], [[N(2)]]))]
    F["true"] = [X.true_(), X.set_([X.tup([])]), X.darrow(X.set_([N(1)]), X.dotfn(X.tup([]))), X.cmpop("=", N(1), N(1)), X.unop("!", X.set_([])),
                 X.binop("&", X.set_([X.tup([]), N(1)]), X.set_([X.tup([])]))]
    F["empty"] = [X.set_([]), X.string(""), X.arr([]), X.binop("&~", X.set_([N(1)]), X.set_([N(1)])),
                  X.binop("without", X.string("a"), pr("@char", 0, N(97))), X.cmpop("=", N(1), N(2)), X.dict_([]),
                  X.binop("without", X.arr([N(1)]), pr("@item", 0, N(1))), X.binop("&", X.string("a"), X.arr([N(1)])),
                  X.where(X.dict_([(N(1), N(2))]), X.dotfn(X.set_([]))), X.binop("without", X.bytes_([7]), pr("@byte", 0, N(7)))]
    F["tuple"] = [X.tup([("a", N(1)), ("b", N(2))]), X.tup([("b", N(2)), ("a", N(1))]), X.binop("+>", X.tup([("a", N(1))]), X.tup([("b", N(2))])),
                  X.binop("+>", X.tup([("a", N(1)), ("b", N(3))]), X.tup([("b", N(2))])), X.tup([("a", N(0)), ("b", N(2)), ("a", N(1))])]
    F["t_char"] = [pr("@char", 0, N(97)), X.binop("+>", X.tup([("@", N(0))]), X.tup([("@char", N(97))])), X.tup([("@char", N(97)), ("@", N(0))]),
                   X.binop("+>", X.tup([("@", N(5)), ("@char", N(97))]), X.tup([("@", N(0))]))]
    F["t_item"] = [pr("@item", 1, X.string("a")), X.binop("+>", X.tup([("@item", X.string("a"))]), X.tup([("@", N(1))])),
                   X.tup([("@item", X.set_([pr("@char", 0, N(97))])), ("@", N(1))])]
    F["t_entry"] = [pr("@value", 1, N(2)), X.binop("+>", X.tup([("@", N(1))]), X.tup([("@value", N(2))])), X.tup([("@value", N(2)), ("@", N(1))])]
    F["num"] = [N(1), X.binop("+", N(0), N(1)), X.binop("-", N(2), N(1)), X.unop("count", X.set_([N(5)])), X.call(X.arr([N(1)]), N(0))]
    F["union"] = [X.set_([N(1), X.string("a"), pr("@item", 0, N(1))]), X.binop("|", X.binop("|", X.set_([N(1)]), X.set_([X.string("a")])), X.arr([N(1)])),
                  X.binop("with", X.binop("with", X.arr([N(1)]), N(1)), X.string("a")),
                  X.binop("&~", X.set_([N(1), N(2), X.string("a"), pr("@item", 0, N(1))]), X.set_([N(2)]))]
    F["nested"] = [X.set_([X.string("ab"), X.arr([N(1)])]), X.set_([X.set_([pr("@char", 0, N(97)), pr("@char", 1, N(98))]), X.set_([pr("@item", 0, N(1))])]),
                   X.darrow(X.set_([N(0), N(1)]), X.dotfn(X.cond([(X.cmpop("=", d, N(0)), X.binop("++", X.string("a"), X.string("b")))], X.binop("without", X.arr([N(1), N(2)]), pr("@item", 1, N(2))))))]
    return F


CONTEXTS = ["eq", "ne", "setcount", "dictcall", "member", "unioncount", "le_ge", "bigset", "bigdict", "bigmember"]
FILLER = [X.set_([N(100 + i)]) for i in range(12)]


def gen_cases(rng, tier):
    F = families()
    names = sorted(F)
    others = [X.set_([N(9)]), X.string("zz"), X.arr([N(7)]), N(3), X.tup([("q", N(1))])]
    out = []

    def ctx(kind, a, b):
        if kind == "eq":
            return X.cmpop("=", a, b)
        if kind == "ne":
            return X.cmpop("!=", a, b)
        if kind == "setcount":
            return X.unop("count", X.set_([a, b]))
        if kind == "dictcall":
            return X.safecall(X.dict_([(a, N(1))]), b, N(0))
        if kind == "member":
            return X.cmpop("<:", a, X.set_([b, N(77)]))
        if kind == "unioncount":
            return X.unop("count", X.binop("|", X.set_([a]), X.set_([b, N(77)])))
        if kind == "bigset":      # more than 8 members: the hashed trie decides, not a linear scan
            return X.unop("count", X.set_(FILLER + [a, b]))
        if kind == "bigdict":
            return X.safecall(X.dict_([(f, N(0)) for f in FILLER] + [(a, N(1))]), b, N(-1))
        if kind == "bigmember":
            return X.cmpop("<:", a, X.set_(FILLER + [b]))
        if kind == "le_ge":
            return X.tup([("sub", X.cmpop("(<=)", X.set_([a]), X.set_([b]))), ("sup", X.cmpop("(>=)", X.set_([a]), X.set_([b])))])
        raise ValueError(kind)

    if tier == "thorough":
        for f in names:
            for i, a in enumerate(F[f]):
                for j, b in enumerate(F[f]):
                    for k in ("eq", "setcount", "dictcall", "bigset", "bigdict"):
                        out.append(("%s %s %d %d" % (k, f, i, j), ctx(k, a, b)))
    n = 900 if tier == "quick" else 5000
    for _ in range(n):
        r = rng.random()
        f = rng.choice(names)
        a = rng.choice(F[f])
        if r < 0.7:
            b = rng.choice(F[f])
            lab = f
        elif r < 0.9:
            g = rng.choice(names)
            b = rng.choice(F[g])
            lab = f + "/" + g
        else:
            b = rng.choice(others)
            lab = f + "/other"
        k = rng.choice(CONTEXTS)
        if rng.random() < 0.25:       # interchangeability under an operator
            c = rng.choice(F[rng.choice(names)])
            op = rng.choice(["|", "&", "&~", "~~"])
            if f in ("tuple", "t_char", "t_item", "t_entry", "num"):
                e = X.cmpop("=", X.set_([a, c]), X.set_([b, c]))
            else:
                e = X.cmpop("=", X.binop(op, a, c), X.binop(op, b, c)) if rng.random() < 0.5 else X.cmpop("=", X.binop(op, c, a), X.binop(op, c, b))
            out.append(("interchange %s" % lab, e))
        else:
            out.append(("%s %s" % (k, lab), ctx(k, a, b)))
    return [{"id": i, "label": l, "ast": e} for i, (l, e) in enumerate(out)]


# families written as source text (forms the AST emitter and the Coq model do not cover: computed negative zero,
# tuple projection, float arithmetic): every member of a family is the same value, so the answer of each context is known
RAW_FAMILIES = {
    "zero": ["0", "(0 * -1)", "(0 / -5)", "(1 - 1)", "(-1 * 0)", "({} count)"],
    "half": ["0.5", "(1 / 2)", "(1.5 - 1)", "(2 ^ -1)"],
    "neg1": ["(-1)", "(0 - 1)", "(1 * -1)", "(-(1))"],
    "entry_k": ['(@: "k", @value: 1)', '((@: "k", @value: 1, x: 2).~|x|)', '((@: "k", @value: 1, x: 2).|@, @value|)', '((@: "k") +> (@value: 1))'],
    "entry_1": ['(@: 1, @value: "v")', '((@: 1, @value: "v", x: 2).~|x|)', '((@value: "v") +> (@: 1))'],
    "item_k": ['(@: 1, @item: "a")', '((@: 1, @item: "a", x: 2).~|x|)', '((@: 1, @item: "a", x: 2).|@, @item|)'],
    "char_0": ["(@: 0, @char: 97)", "((@: 0, @char: 97, x: 2).~|x|)", "((@char: 97, @: 0, y: {}).~|y|)"],
    "byte_0": ["(@: 0, @byte: 7)", "((@: 0, @byte: 7, x: 2).~|x|)"],
    "dict_k": ['{"k": 1}', '{(@: "k", @value: 1)}', '{((@: "k", @value: 1, x: 2).~|x|)}', '{|@, @value| ("k", 1)}', '({"k": 1, "j": 2} where .@ = "k")'],
    "tuple_ab": ["(a: 1, b: 2)", "((a: 1, b: 2, c: 3).~|c|)", "((a: 1, b: 2, c: 3).|a, b|)", "((b: 2) +> (a: 1))"],
}
RAW_FILLER = ", ".join("{%d}" % (100 + i) for i in range(12))
RAW_CONTEXTS = [("eq", "(%(a)s = %(b)s)", True), ("ne", "(%(a)s != %(b)s)", False), ("setcount", "({%(a)s, %(b)s} count)", 1),
                ("dictcall", "({%(a)s: 1}(%(b)s)?:0)", 1), ("member", "(%(a)s <: {%(b)s, 77})", True),
                ("bigset", "({" + RAW_FILLER + ", %(a)s, %(b)s} count)", 13), ("bigmember", "(%(a)s <: {" + RAW_FILLER + ", %(b)s})", True),
                ("bigdict", "({" + ", ".join("{%d}: 0" % (100 + i) for i in range(12)) + ", %(a)s: 1}(%(b)s)?:99)", 1),
                ("bigwith", "(({" + RAW_FILLER + ", %(a)s} with %(b)s) count)", 13), ("bigwithout", "(({" + RAW_FILLER + ", %(a)s} without %(b)s) count)", 12)]


def raw_family_cases():
    cs = []
    for f, members in sorted(RAW_FAMILIES.items()):
        for a in members:
            for b in members:
                for k, tmpl, want in RAW_CONTEXTS:
                    cs.append({"id": len(cs), "family": f, "ctx": k, "src": tmpl % {"a": a, "b": b}, "want": want})
    return cs


def repr_cases(F):
    cs = []
    for f in sorted(F):
        for i, a in enumerate(F[f]):
            cs.append({"id": len(cs), "family": f, "idx": i, "src": X.src(a)})
    return cs


def main(tier, seed, replay=None):
    run = Run(PROP, tier, seed)
    vh, proof = prepare(PROP_FILES, thorough=(tier == "thorough"))
    rng = random.Random(seed)
    rcase = json.load(open(replay))["case"] if replay else None
    if rcase is not None and rcase.get("builder"):
        # replay of a builder case: only that part
        extra = c02_builder.run_part(run, vh, rng, tier, replay_case=rcase)
        run.cov.update(extra)
        return run.finish(proof)
    cases = evalcheck.replay_cases(replay) if replay else gen_cases(rng, tier)
    outs, codes, fails = evalcheck.evaluate(vh, cases)
    evalcheck.judge(run, cases, outs, codes, fails,
                    "a = b / {a,b} count / {a:1}(b) / operator results on construction paths of one denotation (Properties/C02.v, Eval/Interp.v)",
                    value_codes=(1, 2, 3), corr_codes=(4, 5, 6))
    # equal values print identically: implementation-side oracle over each family
    nrep = 0
    if not replay:
        F = families()
        rc = repr_cases(F)
        routs, _, _ = run_harness(vh, "eval", [{"id": c["id"], "src": c["src"]} for c in rc])
        byfam = {}
        for c in rc:
            o = routs.get(c["id"]) or {}
            byfam.setdefault(c["family"], []).append((c, o))
        for f, lst in byfam.items():
            reprs = {}
            for c, o in lst:
                nrep += 1
                if o.get("st") != "ok":
                    run.classify_failure(None, {"case": {"src": c["src"], "family": f}, "observed": o,
                                                "oracle": "a construction path of family %s does not evaluate" % f})
                    continue
                reprs.setdefault(o.get("repr"), []).append(c["src"])
            if len(reprs) > 1:
                run.classify_failure(None, {"case": {"family": f, "reprs": {k: v[:3] for k, v in reprs.items()}},
                                            "oracle": "equal values (family %s) print differently" % f})
    nraw = 0
    if not replay or json.load(open(replay))["case"].get("raw"):
        rawc = raw_family_cases() if not replay else [dict(json.load(open(replay))["case"], id=0)]
        wouts, _, _ = run_harness(vh, "eval", [{"id": c["id"], "src": c["src"]} for c in rawc])
        for c in rawc:
            o = wouts.get(c["id"]) or {"st": "missing"}
            nraw += 1
            want = c["want"]
            wantd = ({"s": [{"t": []}], "c": 1} if want is True else {"s": [], "c": 0} if want is False else {"n": str(want)})
            if o.get("st") != "ok" or o.get("val") != wantd:
                run.classify_failure(None, {"case": {"raw": True, "family": c["family"], "ctx": c["ctx"], "src": c["src"], "want": want}, "observed": o,
                                            "oracle": "two constructions of one value (family %s) are not interchangeable in context %s" % (c["family"], c["ctx"])})
    bextra = c02_builder.run_part(run, vh, random.Random(seed * 7919 + 13), tier) if not replay else {}
    fams = {}
    for c in cases:
        k = (c.get("label") or "").split(" ")[0]
        fams[k] = fams.get(k, 0) + 1
    evalcheck.stats(run, cases, outs, codes,
                    "%d families of construction paths (sugar literal, {|@,@char|..} relation literal, set of spelled tuples, with/without, where, =>, >>, ++, offsets, +>, &, &~, |) each reaching one denotation; contexts: =, !=, {a,b} count, {a:1}(b), <:, union count, subset tests, operator interchange a op c = b op c; pairs inside a family (70%%), across families and against unrelated values; plus %d printed forms compared inside each family; plus every ordered pair inside 10 families written as source text (computed negative zero, halves, tuple projection .~|x| / .|a,b| of dict-entry / item / char / byte tuples, dicts of such entries) in 10 contexts incl. containers of more than 8 members; plus constructions built through rel.NewSet / rel.NewTuple (every ordered pair of 18 member kinds x 1-3 members against reversal / one member fewer / one member replaced, boundaries and finding regions, random nested constructions against a reshuffled, mutated or unrelated one): Go types, Count(), members and Equal() against the transcribed builder (Rep/Builder.v) and against the denotation"
                    % (len(families()), nrep) + ("; thorough = every ordered pair inside every family x {=, set count, dict call}" if tier == "thorough" else ""),
                    {"context_histogram": fams, "repr_comparisons": nrep, "text_family_cases": nraw, "exhaustive": False, **bextra})
    run.assumptions = ["functions are outside the data fragment", "numbers integer/half-integer < 2^53"]
    if not replay or json.load(open(replay)).get("case", {}).get("stream") == "dictrep":
        only = [json.load(open(replay))["case"]["label"]] if replay else None
        run.cov["dictionary_representation_histories"] = dictrep.run_stream(run, vh, random.Random(seed * 7919 + 13), tier, only=only)
    return run.finish(proof)
