"""C08, streams tied to the congruence and substitution theorems (coq/Eval/Rewrite.v: plug, crel, subst):
(i)  a documented equivalence applied at a position 3-6 forms deep inside a larger program - the position is a
     one-hole context, emitted as a Coq `ctx` term, so the interpreter runs `plug C e` and `plug C e'` while the
     implementation runs the source text of the two whole programs;
(ii) `let x = v; body` against the body with the free occurrences of x replaced by v, with binders between the
     let and the occurrences that rebind x (the occurrences under them must stay)."""
import concurrent.futures
from common import *
import expr as X
from evalcheck import obs_term

N = X.num
C = X.coq
NM = X.cname


lit_val = X.lit_val


def lit(e):
    return ("lit", e)


# ---------- (i) contexts ----------
# a layer: (name, accepted hole types, fn(h_ast, h_ctx, typ, bindable, rng) -> (ast, ctx, typ')); types: N number, S set, R array
def _sib(rng):
    return N(rng.randrange(1, 5))


def layers():
    L = []

    def add(name, acc, f):
        L.append((name, acc, f))
    ANY = "NSR"
    add("XBinL", "N", lambda h, c, t, v, r: (lambda s: (X.binop("+", h, s), "(XBinL BAdd %s %s)" % (c, C(s)), "N"))(_sib(r)))
    add("XBinR", "N", lambda h, c, t, v, r: (lambda s: (X.binop("*", s, h), "(XBinR BMul %s %s)" % (C(s), c), "N"))(_sib(r)))
    add("XBinR-offset", "R", lambda h, c, t, v, r: (lambda s: (X.binop("\\", s, h), "(XBinR BOffset %s %s)" % (C(s), c), "R"))(_sib(r)))
    add("XBinL-union", "SR", lambda h, c, t, v, r: (lambda s: (X.binop("|", h, s), "(XBinL BUnion %s %s)" % (c, C(s)), "S"))(X.set_([_sib(r)])))
    add("XCmpL", "N", lambda h, c, t, v, r: (lambda s: (X.cmpop("<", h, s), "(XCmpL CLt %s %s)" % (c, C(s)), "S"))(_sib(r)))
    add("XCmpR", ANY, lambda h, c, t, v, r: (lambda s: (X.cmpop("=", s, h), "(XCmpR CEq %s %s)" % (C(s), c), "S"))(_sib(r)))
    add("XCmpR-mem", "SR", lambda h, c, t, v, r: (lambda s: (X.cmpop("<:", s, h), "(XCmpR CMem %s %s)" % (C(s), c), "S"))(_sib(r)))
    add("XUn-neg", "N", lambda h, c, t, v, r: (X.unop("-", h), "(XUn UNeg %s)" % c, "N"))
    add("XUn-count", "SR", lambda h, c, t, v, r: (X.unop("count", h), "(XUn UCount %s)" % c, "N"))
    add("XSetE", ANY, lambda h, c, t, v, r: (lambda a, b: (X.set_([a, h, b]), "(XSetE [%s] %s [%s])" % (C(a), c, C(b)), "S"))(_sib(r), _sib(r)))
    add("XDot-XTupE", ANY, lambda h, c, t, v, r: (lambda a: (X.dot(X.tup([("a", a), ("b", h)]), "b"),
                                                            "(XDot (XTupE [(%s, %s)] %s %s []) %s)" % (NM("a"), C(a), NM("b"), c, NM("b")), t))(_sib(r)))
    add("XArrE", ANY, lambda h, c, t, v, r: (lambda a: (X.arr([a, None, h]), "(XArrE [Some %s; None] %s [])" % (C(a), c), "R"))(_sib(r)))
    add("XDictV", ANY, lambda h, c, t, v, r: (lambda a: (X.dict_([(a, h)]), "(XDictV [] %s %s [])" % (C(a), c), "S"))(_sib(r)))
    add("XDictK", "N", lambda h, c, t, v, r: (lambda a: (X.dict_([(h, a)]), "(XDictK [] %s %s [])" % (c, C(a)), "S"))(_sib(r)))
    add("XWhereL", "SR", lambda h, c, t, v, r: (lambda f: (X.where(h, f), "(XWhereL %s %s)" % (c, C(f)), "S"))(X.fn(X.pvar("y_"), X.cmpop("=", X.var("y_"), X.var("y_")))))
    add("XWhereR-XFnBody", ANY, lambda h, c, t, v, r: (lambda a: (X.where(a, X.fn(X.pvar(v), X.cmpop("!=", h, N(77)))),
                                                                 "(XWhereR %s (XFnBody (PVar %s) (XCmpL CNe %s %s)))" % (C(a), NM(v), c, C(N(77))), "S"))(X.set_([N(1), N(2), N(3)])))
    add("XDArrowL", "SR", lambda h, c, t, v, r: (lambda f: (X.darrow(h, f), "(XDArrowL %s %s)" % (c, C(f)), "S"))(X.fn(X.pvar("y_"), X.set_([X.var("y_")]))))
    add("XDArrowR-XFnBody", ANY, lambda h, c, t, v, r: (lambda a: (X.darrow(a, X.fn(X.pvar(v), h)), "(XDArrowR %s (XFnBody (PVar %s) %s))" % (C(a), NM(v), c), "S"))(X.set_([N(1), N(2)])))
    add("XSeqArrowL", "R", lambda h, c, t, v, r: (lambda f: (X.seqarrow(h, f), "(XSeqArrowL false %s %s)" % (c, C(f)), "R"))(X.fn(X.pvar("y_"), X.set_([X.var("y_")]))))
    add("XSeqArrowR-XFnBody", ANY, lambda h, c, t, v, r: (lambda a: (X.seqarrow(a, X.fn(X.pvar(v), h)), "(XSeqArrowR false %s (XFnBody (PVar %s) %s))" % (C(a), NM(v), c), "R"))(X.arr([N(5), N(6)])))
    add("XSeqArrowR-at", ANY, lambda h, c, t, v, r: (lambda a: (X.seqarrow(a, X.fn(X.pvar("i_"), X.fn(X.pvar(v), h)), True),
                                                               "(XSeqArrowR true %s (XFnBody (PVar %s) (XFnBody (PVar %s) %s)))" % (C(a), NM("i_"), NM(v), c), "R"))(X.arr([N(5), N(6)])))
    add("XCallF-XFnBody", ANY, lambda h, c, t, v, r: (lambda a: (X.call(X.fn(X.pvar(v), h), a), "(XCallF (XFnBody (PVar %s) %s) %s)" % (NM(v), c, C(a)), t))(_sib(r)))
    add("XCallA", "N", lambda h, c, t, v, r: (lambda f: (X.call(f, h), "(XCallA %s %s)" % (C(f), c), "N"))(X.fn(X.pvar("y_"), X.binop("+", X.var("y_"), N(1)))))
    add("XSafeCallA", "N", lambda h, c, t, v, r: (lambda f: (X.safecall(f, h, N(0)), "(XSafeCallA %s %s %s)" % (C(f), c, C(N(0))), "N"))(X.dict_([(N(1), N(2)), (N(2), N(3))])))
    add("XSafeCallD", ANY, lambda h, c, t, v, r: (lambda f: (X.safecall(f, N(5), h), "(XSafeCallD %s %s %s)" % (C(f), C(N(5)), c), t))(X.dict_([(N(1), N(2))])))
    add("XSafeCallF", "R", lambda h, c, t, v, r: (X.safecall(h, N(0), N(9)), "(XSafeCallF %s %s %s)" % (c, C(N(0)), C(N(9))), "S"))
    add("XSafeDotD", ANY, lambda h, c, t, v, r: (lambda a: (X.safedot(a, "b", h), "(XSafeDotD %s %s %s)" % (C(a), NM("b"), c), t))(X.tup([("a", N(1))])))
    add("XSafeDotA-XTupE", ANY, lambda h, c, t, v, r: (X.safedot(X.tup([("a", h)]), "a", N(0)), "(XSafeDotA (XTupE [] %s %s []) %s %s)" % (NM("a"), c, NM("a"), C(N(0))), t))
    add("XLetBody", ANY, lambda h, c, t, v, r: (lambda a: (X.let(X.pvar(v), a, h), "(XLetBody (PVar %s) %s %s)" % (NM(v), C(a), c), t))(_sib(r)))
    add("XLetBound", ANY, lambda h, c, t, v, r: (X.let(X.pvar("y_"), h, X.var("y_")), "(XLetBound (PVar %s) %s (EVar %s))" % (NM("y_"), c, NM("y_")), t))
    add("XLetPat-YArr-ZItemD", ANY, lambda h, c, t, v, r: (X.let(X.parr([X.item(X.pvar("a_")), X.item(X.pvar("b_"), h)]), X.arr([N(1)]), X.var("b_")),
                                                          "(XLetPat (YArr [PItem (PVar %s) None] (ZItemD (PVar %s) %s) []) %s (EVar %s))" % (NM("a_"), NM("b_"), c, C(X.arr([N(1)])), NM("b_")), t))
    add("XArrowL", ANY, lambda h, c, t, v, r: (lambda f: (X.arrow(h, f), "(XArrowL %s %s)" % (c, C(f)), t))(X.fn(X.pvar("y_"), X.var("y_"))))
    add("XArrowR-XFnBody", ANY, lambda h, c, t, v, r: (lambda a: (X.arrow(a, X.fn(X.pvar(v), h)), "(XArrowR %s (XFnBody (PVar %s) %s))" % (C(a), NM(v), c), t))(_sib(r)))
    add("XAndR", ANY, lambda h, c, t, v, r: (lambda a: (X.and_(a, h), "(XAndR %s %s)" % (C(a), c), t))(_sib(r)))
    add("XAndL", "N", lambda h, c, t, v, r: (lambda a: (X.and_(h, a), "(XAndL %s %s)" % (c, C(a)), "N"))(_sib(r)))
    add("XOrR", ANY, lambda h, c, t, v, r: (X.or_(X.set_([]), h), "(XOrR %s %s)" % (C(X.set_([])), c), t))
    add("XOrL", "N", lambda h, c, t, v, r: (lambda a: (X.or_(h, a), "(XOrL %s %s)" % (c, C(a)), "N"))(_sib(r)))
    add("XCondC", ANY, lambda h, c, t, v, r: (X.cond([(h, N(1))], N(0)), "(XCondC [] %s %s [] (Some %s))" % (c, C(N(1)), C(N(0))), "N"))
    add("XCondV", ANY, lambda h, c, t, v, r: (lambda a: (X.cond([(X.set_([]), N(7)), (a, h)], N(0)), "(XCondV [(%s, %s)] %s %s [] (Some %s))" % (C(X.set_([])), C(N(7)), C(a), c, C(N(0))), t))(_sib(r)))
    add("XCondD", ANY, lambda h, c, t, v, r: (X.cond([(X.set_([]), N(1))], h), "(XCondD [(%s, %s)] %s)" % (C(X.set_([])), C(N(1)), c), t))
    add("XCondPatC", ANY, lambda h, c, t, v, r: (X.condpat(h, [(X.pvar("y_"), X.var("y_"))]), "(XCondPatC %s [(PVar %s, EVar %s)])" % (c, NM("y_"), NM("y_")), t))
    add("XCondPatB", ANY, lambda h, c, t, v, r: (lambda a: (X.condpat(a, [(X.pexpr(N(99)), N(0)), (X.pvar(v), h)]),
                                                           "(XCondPatB %s [(PExpr %s, %s)] (PVar %s) %s [])" % (C(a), C(N(99)), C(N(0)), NM(v), c), t))(_sib(r)))
    add("XCondPatP-YExpr", ANY, lambda h, c, t, v, r: (lambda a: (X.condpat(a, [(X.pexpr(h), N(1)), (X.pwild(), N(2))]),
                                                                 "(XCondPatP %s [] (YExpr %s) %s [(PWild, %s)])" % (C(a), c, C(N(1)), C(N(2))), "N"))(_sib(r)))
    add("XCondPatP-YExprs", ANY, lambda h, c, t, v, r: (lambda a: (X.condpat(a, [(X.pexprs([N(97), h, N(98)]), N(1)), (X.pwild(), N(2))]),
                                                                  "(XCondPatP %s [] (YExprs [%s] %s [%s]) %s [(PWild, %s)])" % (C(a), C(N(97)), c, C(N(98)), C(N(1)), C(N(2))), "N"))(_sib(r)))
    add("XCondPatP-YArr-ZItemP", ANY, lambda h, c, t, v, r: (lambda a: (X.condpat(a, [(X.parr([X.item(X.pvar("a_")), X.item(X.pexpr(h))]), X.var("a_")), (X.pwild(), N(0))]),
                                                                       "(XCondPatP %s [] (YArr [PItem (PVar %s) None] (ZItemP (YExpr %s) None) []) (EVar %s) [(PWild, %s)])" % (C(a), NM("a_"), c, NM("a_"), C(N(0))), "N"))(X.arr([N(1), N(2)])))
    add("XCondPatP-YTup", ANY, lambda h, c, t, v, r: (lambda a: (X.condpat(a, [(X.ptup([("a", X.item(X.pexpr(h)))]), N(1)), (X.pwild(), N(0))]),
                                                                "(XCondPatP %s [] (YTup [] %s (ZItemP (YExpr %s) None) []) %s [(PWild, %s)])" % (C(a), NM("a"), c, C(N(1)), C(N(0))), "N"))(X.tup([("a", N(2))])))
    add("XCondPatP-YDictK", "N", lambda h, c, t, v, r: (lambda a: (X.condpat(a, [(X.pdict([(h, X.item(X.pvar("d_")))]), X.var("d_")), (X.pwild(), N(0))]),
                                                                  "(XCondPatP %s [] (YDictK [] %s (PItem (PVar %s) None) []) (EVar %s) [(PWild, %s)])" % (C(a), c, NM("d_"), NM("d_"), C(N(0))), "N"))(X.dict_([(N(3), N(4))])))
    add("XCondPatP-YSet", ANY, lambda h, c, t, v, r: (lambda a: (X.condpat(a, [(X.pset([X.item(X.pexpr(h)), X.extra("r_")]), X.var("r_")), (X.pwild(), X.set_([]))]),
                                                                "(XCondPatP %s [] (YSet [] (ZItemP (YExpr %s) None) [PExtra (Some %s)]) (EVar %s) [(PWild, %s)])" % (C(a), c, NM("r_"), NM("r_"), C(X.set_([]))), "S"))(X.set_([N(1), N(2)])))
    add("XJoinL-XSetE-XTupE", "N", lambda h, c, t, v, r: (lambda b: (X.join("<&>", X.set_([X.tup([("a", h)])]), b),
                                                                    "(XJoinL JJoin (XSetE [] (XTupE [] %s %s []) []) %s)" % (NM("a"), c, C(b)), "S"))(X.set_([X.tup([("a", N(1)), ("b", N(2))]), X.tup([("a", N(2)), ("b", N(3))])])))
    add("XJoinR", "N", lambda h, c, t, v, r: (lambda a: (X.join("-&>", a, X.set_([X.tup([("a", h), ("c", N(1))])])),
                                                       "(XJoinR JRightMatch %s (XSetE [] (XTupE [] %s %s [(%s, %s)]) []))" % (C(a), NM("a"), c, NM("c"), C(N(1))), "S"))(X.set_([X.tup([("a", N(1))]), X.tup([("a", N(2))])])))
    add("XNest", "N", lambda h, c, t, v, r: (X.nest(["b"], "c", X.set_([X.tup([("a", h), ("b", N(1))])])),
                                            "(XNest false [%s] %s (XSetE [] (XTupE [] %s %s [(%s, %s)]) []))" % (NM("b"), NM("c"), NM("a"), c, NM("b"), C(N(1))), "S"))
    add("XSingleNest", "N", lambda h, c, t, v, r: (X.single_nest("b", X.set_([X.tup([("a", h), ("b", N(1))])])),
                                                  "(XSingleNest %s (XSetE [] (XTupE [] %s %s [(%s, %s)]) []))" % (NM("b"), NM("a"), c, NM("b"), C(N(1))), "S"))
    add("XRankR-XFnBody", "N", lambda h, c, t, v, r: (lambda a: (X.rank(a, X.fn(X.pvar("k_"), X.tup([("r", h)]))),
                                                                "(XRankR %s (XFnBody (PVar %s) (XTupE [] %s %s [])))" % (C(a), NM("k_"), NM("r"), c), "S"))(X.set_([X.tup([("a", N(1))]), X.tup([("a", N(2))])])))
    return L


LAYERS = layers()
BINDERS = {"XWhereR-XFnBody", "XDArrowR-XFnBody", "XSeqArrowR-XFnBody", "XSeqArrowR-at", "XCallF-XFnBody", "XLetBody", "XArrowR-XFnBody", "XCondPatB"}


def redexes(rng, which=None):
    """(kind, e, e', type, free numeric names)"""
    u = X.var("u_") if rng.random() < 0.6 else N(rng.randrange(1, 4))
    free = {"u_"} if u[0] == "var" else set()
    a = X.binop("+", u, N(rng.randrange(1, 4)))
    body = X.binop("*", X.var("t_"), X.binop("+", X.var("t_"), N(1)))
    kinds = ["let->arrow", "let->call", "arrow->call", "arrow->let", "array-sugar", "array-sugar-back", "dict-sugar", "lazy-and", "lazy-or", "lazy-cond", "lazy-and-back"]
    k = which or rng.choice(kinds)
    bad = X.dot(N(1), "nope")
    if k == "let->arrow":
        return k, X.let(X.pvar("t_"), a, body), X.arrow(a, X.fn(X.pvar("t_"), body)), "N", free
    if k == "let->call":
        return k, X.let(X.pvar("t_"), a, body), X.call(X.fn(X.pvar("t_"), body), a), "N", free
    if k == "arrow->call":
        return k, X.arrow(a, X.fn(X.pvar("t_"), body)), X.call(X.fn(X.pvar("t_"), body), a), "N", free
    if k == "arrow->let":
        return k, X.arrow(a, X.fn(X.pvar("t_"), body)), X.let(X.pvar("t_"), a, body), "N", free
    if k in ("array-sugar", "array-sugar-back"):
        cells = [a, None, N(rng.randrange(5)), u][:rng.randrange(2, 5)]
        if cells[-1] is None:
            cells.append(N(2))
        sugar = X.arr(cells)
        sp = X.set_([X.tup([("@", N(i)), ("@item", x)]) for i, x in enumerate(cells) if x is not None])
        return (k, sugar, sp, "R", free) if k == "array-sugar" else (k, sp, sugar, "R", free)
    if k == "dict-sugar":
        ents = [(N(1), a), (N(2), u)][:rng.randrange(1, 3)]
        return k, X.dict_(ents), X.set_([X.tup([("@", kk), ("@value", vv)]) for kk, vv in ents]), "S", free
    base, t = (a, "N") if rng.random() < 0.6 else (X.set_([u, N(7)]), "S")
    if k == "lazy-and":
        return k, base, X.or_(X.and_(X.set_([]), bad), base), t, free
    if k == "lazy-and-back":
        return k, X.or_(X.and_(X.set_([]), bad), base), base, t, free
    if k == "lazy-or":
        return k, base, X.and_(X.or_(X.true_(), bad), base), t, free
    return k, base, X.cond([(X.set_([]), bad), (X.true_(), base)], bad), t, free


def build_position_case(rng, depth, redex=None, forced=None):
    """forced: list of layer names to use (innermost first) before random ones"""
    kind, e, e2, typ, free = redex or redexes(rng)
    a1, a2, ctx = e, e2, "XHole"
    free = set(free)
    used = []
    forced = list(forced or [])
    for _ in range(depth):
        cands = [l for l in LAYERS if typ in l[1]]
        if forced:
            nm = forced.pop(0)
            pick = [l for l in cands if l[0] == nm]
            if not pick:
                continue
            lay = pick[0]
        else:
            if free and rng.random() < 0.5:
                cands = [l for l in cands if l[0] in BINDERS] or cands
            lay = rng.choice(cands)
        v = "k_"
        if lay[0] in BINDERS and free:
            v = sorted(free)[0]
            free.discard(v)
        state = rng.getstate()
        a1, c1, t1 = lay[2](a1, ctx, typ, v, rng)
        rng.setstate(state)                       # the same siblings around the rewritten hole
        a2, _, _ = lay[2](a2, ctx, typ, v, rng)
        ctx, typ = c1, t1
        used.append(lay[0])
    for v in sorted(free):
        k = N(rng.randrange(1, 4))
        a1, a2 = X.let(X.pvar(v), k, a1), X.let(X.pvar(v), k, a2)
        ctx = "(XLetBody (PVar %s) %s %s)" % (NM(v), C(k), ctx)
        used.append("XLetBody")
    return {"stream": "position", "kind": kind, "layers": used, "ast1": a1, "ast2": a2, "src1": X.src(a1), "src2": X.src(a2),
            "coq1": "(plug %s %s)" % (ctx, C(e)), "coq2": "(plug %s %s)" % (ctx, C(e2)), "alt": None}


def position_cases(rng, n):
    out = []
    # enumerated core, independent of the random stream: every layer innermost and outermost of a fixed sandwich, under every rewrite kind it accepts
    core_rng = __import__("random").Random(8)
    for kind in ["let->arrow", "arrow->call", "array-sugar", "dict-sugar", "lazy-and", "lazy-or", "lazy-cond"]:
        for lay in LAYERS:
            rd = redexes(core_rng, kind)
            if rd[3] not in lay[1]:
                continue
            out.append(build_position_case(core_rng, 3, rd, [lay[0], "XDArrowR-XFnBody", "XLetBody"]))
    for lay in LAYERS:
        rd = redexes(core_rng, "let->call")
        out.append(build_position_case(core_rng, 4, rd, ["XCallF-XFnBody", "XSetE", lay[0]]))
    for _ in range(n):
        out.append(build_position_case(rng, rng.randrange(3, 7)))
    return out


# ---------- (ii) substitution ----------
def pat_names(p):
    k = p[0]
    if k == "pvar":
        return [p[1]]
    if k in ("pwild", "pexpr", "pexprs"):
        return []
    if k in ("parr", "pset"):
        return [n for i in p[1] for n in item_names(i)]
    if k in ("ptup", "pdict"):
        return [n for _, i in p[1] for n in item_names(i)]
    raise ValueError(k)


def item_names(i):
    if i[0] == "extra":
        return [i[1]] if i[1] else []
    return pat_names(i[1])


def subst(e, x, v):
    """free occurrences of x replaced by the literal node v; binders whose pattern binds x stop it in their body"""
    s = lambda a: subst(a, x, v)
    under = lambda p, b: b if x in pat_names(p) else s(b)
    k = e[0]
    if k in ("num", "str", "bytes", "true", "lit"):
        return e
    if k == "var":
        return v if e[1] == x else e
    if k == "set":
        return ("set", [s(a) for a in e[1]])
    if k == "tup":
        return ("tup", [(n, s(a)) for n, a in e[1]])
    if k == "arr":
        return ("arr", [None if a is None else s(a) for a in e[1]], e[2])
    if k == "dict":
        return ("dict", [(s(a), s(b)) for a, b in e[1]])
    if k == "rel":
        return ("rel", e[1], [[s(a) for a in r] for r in e[2]])
    if k in ("bin", "cmp", "join"):
        return (k, e[1], s(e[2]), s(e[3]))
    if k == "un":
        return (k, e[1], s(e[2]))
    if k in ("where", "darrow", "call", "arrow", "and", "or", "rank"):
        return (k, s(e[1]), s(e[2]))
    if k == "seqarrow":
        return (k, e[1], s(e[2]), s(e[3]))
    if k == "fn":
        return (k, subst_pat(e[1], x, v), under(e[1], e[2]))
    if k == "dotfn":
        return e if x == "." else (k, s(e[1]))
    if k == "safecall":
        return (k, s(e[1]), s(e[2]), s(e[3]))
    if k == "dot":
        return (k, s(e[1]), e[2])
    if k == "safedot":
        return (k, s(e[1]), e[2], s(e[3]))
    if k == "let":
        return (k, subst_pat(e[1], x, v), s(e[2]), under(e[1], e[3]))
    if k == "cond":
        return (k, [(s(a), s(b)) for a, b in e[1]], None if e[2] is None else s(e[2]))
    if k == "condpat":
        return (k, s(e[1]), [(subst_pat(p, x, v), under(p, b)) for p, b in e[2]])
    if k == "nest":
        return (k, e[1], e[2], e[3], s(e[4]))
    if k == "snest":
        return (k, e[1], s(e[2]))
    raise ValueError(k)


def subst_pat(p, x, v):
    k = p[0]
    si = lambda i: i if i[0] == "extra" else ("item", subst_pat(i[1], x, v), None if i[2] is None else subst(i[2], x, v))
    if k in ("pvar", "pwild"):
        return p
    if k == "pexpr":
        return (k, subst(p[1], x, v))
    if k == "pexprs":
        return (k, [subst(a, x, v) for a in p[1]])
    if k in ("parr", "pset"):
        return (k, [si(i) for i in p[1]])
    if k == "ptup":
        return (k, [(n, si(i)) for n, i in p[1]])
    if k == "pdict":
        return (k, [(subst(a, x, v), si(i)) for a, i in p[1]])
    raise ValueError(k)


def gen_body(rng, d, x, numeric, others=()):
    """an expression mentioning x free, and under binders that rebind x"""
    V = X.var
    leaf = lambda: V(x) if rng.random() < 0.55 else (V(rng.choice(others)) if others and rng.random() < 0.4 else N(rng.randrange(1, 5)))
    if d <= 0:
        return leaf()
    g = lambda oth=others: gen_body(rng, d - 1, x, numeric, oth)
    forms = ["let-shadow", "let-other", "fn-shadow", "arrow-shadow", "darrow-shadow", "darrow-other", "condpat-shadow", "condpat-lit",
             "arrpat-shadow", "tuppat-shadow", "fallback", "condpat-alts", "cond", "arr", "dictkey", "tupdot", "setpat", "seq-shadow", "where-other", "and-or"]
    if numeric:
        forms += ["bin", "bin", "cmp-cond"]
    f = rng.choice(forms)
    if f == "bin":
        return X.binop(rng.choice(["+", "*", "-"]), g(), g())
    if f == "let-shadow":                       # let x = (uses outer x); (uses inner x)
        return X.let(X.pvar(x), g(), g())
    if f == "let-other":
        return X.let(X.pvar("p_"), g(), g(tuple(others) + ("p_",)))
    if f == "fn-shadow":
        return X.call(X.fn(X.pvar(x), g()), g())
    if f == "arrow-shadow":
        return X.arrow(g(), X.fn(X.pvar(x), g()))
    if f == "darrow-shadow":
        return X.darrow(X.set_([g(), N(9)]), X.fn(X.pvar(x), X.set_([V(x), N(0)])))
    if f == "darrow-other":
        return X.darrow(X.set_([N(1), N(2)]), X.fn(X.pvar("q_"), X.arr([V("q_"), g()])))
    if f == "condpat-shadow":
        return X.condpat(g(), [(X.pexpr(N(98)), N(0)), (X.pvar(x), g())])
    if f == "condpat-lit":                      # the pattern literal (x) reads the outer x
        return X.condpat(g(), [(X.pexpr(V(x)), N(1)), (X.pwild(), g())])
    if f == "condpat-alts":                     # the alternatives (x, 7) read the outer x; the arm that rebinds x does not
        return X.condpat(g(), [(X.pexprs([N(96), V(x)]), g()), (X.pvar(x), V(x))])
    if f == "arrpat-shadow":
        return X.let(X.parr([X.item(X.pvar(x)), X.item(X.pvar("p_"))]), X.arr([g(), N(2)]), X.arr([V(x), V("p_")]))
    if f == "tuppat-shadow":
        return X.let(X.ptup([("a", X.item(X.pvar(x)))]), X.tup([("a", g())]), g())
    if f == "fallback":                         # the fallback reads the outer x even though the pattern binds x
        return X.let(X.parr([X.item(X.pvar("p_")), X.item(X.pvar(x), V(x))]), X.arr([N(1)]), X.arr([V("p_"), V(x)]))
    if f == "cond":
        return X.cond([(X.cmpop("=", g(), g()), g())], g())
    if f == "cmp-cond":
        return X.cond([(X.cmpop("<", g(), N(3)), g())], g())
    if f == "arr":
        return X.arr([g(), None, V(x)])
    if f == "dictkey":
        return X.safecall(X.dict_([(V(x), N(1))]), g(), N(0))
    if f == "tupdot":
        return X.dot(X.tup([("a", g()), ("b", V(x))]), rng.choice(["a", "b"]))
    if f == "setpat":
        return X.condpat(X.set_([V(x), N(50)]), [(X.pset([X.item(X.pexpr(V(x))), X.extra(x)]), V(x)), (X.pwild(), N(0))])
    if f == "seq-shadow":
        return X.seqarrow(X.arr([g(), N(6)]), X.fn(X.pvar(x), X.set_([V(x)])))
    if f == "where-other":
        return X.unop("count", X.where(X.set_([N(1), N(2), V(x)]), X.fn(X.pvar("q_"), X.cmpop("!=", V("q_"), V(x)))))
    return X.or_(X.and_(g(), g()), g())


LITS = [N(2), N(3), N(0), X.string("ab"), X.set_([N(1), N(2)]), X.tup([("a", N(1))]), X.arr([N(4), N(5)]), X.set_([]), X.dict_([(N(1), N(2))])]


def build_subst_case(rng, depth, form=None):
    x = rng.choice(["x_", "v_"])
    litast = rng.choice(LITS[:3]) if rng.random() < 0.6 else rng.choice(LITS)
    numeric = litast[0] == "num"
    body = gen_body(rng, depth, x, numeric) if form is None else form(x)
    v = lit(litast)
    orig = X.let(X.pvar(x), v, body)
    rew = subst(body, x, v)
    return {"stream": "substitution", "kind": "let-bound-name-replaced", "layers": [], "ast1": orig, "ast2": rew, "src1": X.src(orig), "src2": X.src(rew),
            "coq1": C(orig), "coq2": C(rew), "alt": "(subst %s %s %s)" % (NM(x), lit_val(litast), C(body))}


def subst_cases(rng, n):
    V = X.var
    core = [  # enumerated: one shadowing binder of every kind between the let and an occurrence
        lambda x: X.binop("+", V(x), X.let(X.pvar(x), X.binop("+", V(x), N(1)), X.binop("*", V(x), N(10)))),
        lambda x: X.arr([V(x), X.call(X.fn(X.pvar(x), X.arr([V(x)])), N(7)), V(x)]),
        lambda x: X.arr([V(x), X.arrow(N(7), X.fn(X.pvar(x), X.arr([V(x)])))]),
        lambda x: X.arr([V(x), X.darrow(X.set_([N(7), N(8)]), X.fn(X.pvar(x), X.arr([V(x)])))]),
        lambda x: X.arr([V(x), X.condpat(N(7), [(X.pvar(x), X.arr([V(x)]))])]),
        lambda x: X.arr([V(x), X.condpat(V(x), [(X.pexpr(V(x)), N(1)), (X.pwild(), N(2))])]),
        lambda x: X.arr([V(x), X.condpat(V(x), [(X.pexprs([N(96), V(x)]), N(1)), (X.pwild(), N(2))]), X.condpat(N(95), [(X.pexprs([N(96), V(x)]), N(1)), (X.pvar(x), V(x))])]),
        lambda x: X.arr([V(x), X.let(X.parr([X.item(X.pvar(x)), X.extra("r_")]), X.arr([N(7), N(8)]), X.arr([V(x), V("r_")]))]),
        lambda x: X.arr([V(x), X.let(X.ptup([("a", X.item(X.pvar(x)))]), X.tup([("a", N(7))]), V(x))]),
        lambda x: X.arr([V(x), X.let(X.parr([X.item(X.pvar("p_")), X.item(X.pvar(x), V(x))]), X.arr([N(1)]), X.arr([V("p_"), V(x)]))]),
        lambda x: X.arr([V(x), X.let(X.pdict([(V(x), X.item(X.pvar("d_")))]), X.dict_([(V(x), N(5))]), V("d_"))]),
        lambda x: X.arr([V(x), X.condpat(X.set_([V(x), N(50)]), [(X.pset([X.item(X.pexpr(V(x))), X.extra(x)]), V(x)), (X.pwild(), N(0))])]),
        lambda x: X.arr([V(x), X.seqarrow(X.arr([N(7)]), X.fn(X.pvar(x), V(x)))]),
        lambda x: X.arr([V(x), X.where(X.set_([N(1), N(2), N(3)]), X.fn(X.pvar(x), X.cmpop("!=", V(x), N(2))))]),
        lambda x: X.arr([V(x), X.let(X.pvar("f_"), X.fn(X.pvar("y_"), X.arr([V("y_"), V(x)])), X.let(X.pvar(x), N(77), X.call(V("f_"), V(x))))]),
        lambda x: X.arr([V(x), X.let(X.pvar("f_"), X.fn(X.pvar(x), X.arr([V(x)])), X.call(V("f_"), X.arr([V(x), V(x)])))]),
    ]
    crng = __import__("random").Random(9)
    out = [build_subst_case(crng, 0, f) for f in core for _ in range(3)]
    for _ in range(n):
        out.append(build_subst_case(rng, rng.randrange(2, 5)))
    return out


# ---------- running ----------
def evaluate(vh, cases, shard=80):
    """-> (observations by request id, code by case id, coq failures); request ids 2i / 2i+1"""
    reqs = []
    for i, c in enumerate(cases):
        c["id"] = i
        reqs.append({"id": 2 * i, "src": c["src1"], "budget_ms": 6000})
        reqs.append({"id": 2 * i + 1, "src": c["src2"], "budget_ms": 6000})
    outs, _, _ = run_harness(vh, "eval", reqs, stall=12)
    # a request that got no answer (timeout / crash of the process on a loaded machine) is run once more, with a larger budget
    again = [dict(r, budget_ms=20000) for r in reqs if (outs.get(r["id"]) or {}).get("st") in (None, "timeout", "crash", "missing")]
    if again:
        outs2, _, _ = run_harness(vh, "eval", again, stall=40)
        outs.update({k: o for k, o in outs2.items() if o})
    chunks = [cases[i:i + shard] for i in range(0, len(cases), shard)]
    codes, fails = {}, []

    def do(ic):
        idx, chunk = ic
        body = ["From Arrai Require Import Base.Val Spec.SetAlg Eval.Interp Eval.Rewrite Check.EvalCheck Check.C08Check.",
                "Definition cases : list rcase := ["]
        body.append(";\n".join("  {| r_id := %d; r_orig := %s; r_rew := %s; r_alt := %s; r_obs1 := %s; r_obs2 := %s |}" % (
            c["id"], c["coq1"], c["coq2"], "None" if c["alt"] is None else "(Some %s)" % c["alt"],
            obs_term(outs.get(2 * c["id"])), obs_term(outs.get(2 * c["id"] + 1))) for c in chunk))
        body.append("].\nDefinition R := Eval vm_compute in rreport cases.\nPrint R.")
        rc2, so, se = coq_eval("c08_cases_%d_%d" % (os.getpid(), idx), "\n".join(body))
        return coq_report(so, "R"), se

    with concurrent.futures.ThreadPoolExecutor(max_workers=8) as ex:
        for (rep, se), chunk in zip(ex.map(do, enumerate(chunks)), chunks):
            if rep is None:
                fails.append(se[-1500:])
                continue
            for cid, code in rep:
                codes[cid] = code
    return outs, codes, fails


def split_code(code):
    return code % 1000, (code // 1000) % 1000, (code // 1000000) % 10, (code // 10000000) % 10


# ---------- signatures of the open findings (computed on the programs of a failing case) ----------
def _walk(e):
    if isinstance(e, (tuple, list)):
        yield e
        for x in e:
            yield from _walk(x)


def signature(case):
    """set-pattern-expr-ignored: a set pattern with a parenthesised expression that is not a bare name;
    dict-pattern-computed-key: a dict pattern whose key is not a literal"""
    sig = None
    for a in (case.get("ast1"), case.get("ast2")):
        for n in _walk(a):
            if isinstance(n, tuple) and n and n[0] == "pset":
                if any(i[0] == "item" and i[1][0] == "pexpr" and i[1][1][0] != "var" for i in n[1]):
                    return "set-pattern-expr-ignored"
            if isinstance(n, tuple) and n and n[0] == "pdict":
                if any(i[0] == "item" and ke[0] not in ("num", "str", "lit") for ke, i in n[1]):
                    sig = sig or "dict-pattern-computed-key"
    return sig


WITNESSES = {   # committed witnesses of the open findings: (original, rewritten)
    "set-pattern-expr-ignored": ("(let x = 3; (cond ({x, 50}) {{(x), ...r}: r, _: 0}))", "(cond ({3, 50}) {{(3), ...r}: r, _: 0})"),
    "dict-pattern-computed-key": ("(let x = 3; (let {(x): d} = {3: 5}; d))", "(let {3: d} = {3: 5}; d)"),
}
