"""C18: sandboxed evaluation (//eval.eval, //eval.evaluator, //eval.value, import syntax, macros)
vs the Coq model Sys/Sandbox.v.  Programs are abstract trees rendered both as arr.ai source
(run by the harness with a recording file system / refusing transport) and as Coq terms
(run by vm_compute through Check/C18Check.v)."""
import random
from common import *

PROP = "C18"
PROP_FILES = ["Properties/C18.v", "Check/C18Check.v", "Check/C18HistCheck.v"]

# quirk signature -> (bit in the Coq classification, field of the quirks record)
QUIRKS = [("evalvalue-full-scope", 8, "q_evalvalue_full_scope"),
          ("sandbox-local-import", 16, "q_sandbox_local_import"),
          ("sandbox-remote-import", 32, "q_sandbox_remote_import"),
          ("macro-full-scope", 64, "q_macro_full_scope")]

# must equal known_exceptions of coq/Sys/SandboxGen.v
KNOWN_EXCEPTIONS = {"deprecated.exec": "safe-has-exec", "os.exists": "safe-has-ambient", "os.tree": "safe-has-ambient",
                    "os.get_env": "safe-has-ambient", "os.&args": "safe-has-ambient", "os.&stdin": "safe-has-ambient"}
FORBIDDEN = {"file", "net", "exec", "unclassified"}
AMBIENT = {"fsmeta", "env", "stdin"}

CLS = {"file": "CFile", "fsmeta": "CFsMeta", "net": "CNet", "exec": "CExec", "env": "CEnv", "stdin": "CStdin"}

# ---------------------------------------------------------------- trees
# ("data",) ("var",x) ("std",[a,b..]) ("dot",e,a) ("tup",[(a,e)..]) ("fn",x,b) ("app",f,a)
# ("let",x,e,b) ("quote",e) ("imp",name) ("rimp",) ("macro",e)


def T(x):
    """json lists -> tuples"""
    if isinstance(x, list):
        return tuple(T(y) for y in x)
    return x


REPS = ["RString", "RBytes", "ROffsetString", "RCharArray", "REmptyString", "REmptyBytes"]
ACCEPTED = {"RString": "string", "ROffsetString": "string", "RBytes": "bytes"}


def qparts(e):
    """("quote", rep, body); old replay files have ("quote", body)"""
    if len(e) == 2:
        return "RString", e[1]
    return e[1], e[2]


def Q(e, rep="RString"):
    return ("quote", rep, e)


def pick_rep(rng):
    r = rng.random()
    if r < 0.5:
        return "RString"
    if r < 0.78:
        return "RBytes"
    if r < 0.9:
        return "ROffsetString"
    return rng.choice(["RCharArray", "REmptyString", "REmptyBytes"])


def arrai(e):
    k = e[0]
    if k == "data":
        return "'data.txt'"
    if k == "var":
        return e[1]
    if k == "std":
        return "//" + ".".join(e[1])
    if k == "dot":
        return "(%s).%s" % (arrai(e[1]), e[2])
    if k == "tup":
        return "(" + ", ".join("%s: %s" % (a, arrai(x)) for a, x in e[1]) + ")"
    if k == "fn":
        return "(\\%s %s)" % (e[1], arrai(e[2]))
    if k == "app":
        return "(%s)(%s)" % (arrai(e[1]), arrai(e[2]))
    if k == "let":
        return "(let %s = %s; %s)" % (e[1], arrai(e[2]), arrai(e[3]))
    if k == "quote":
        rep, body = qparts(e)
        text = arrai(body)
        lit = '"' + text.replace("\\", "\\\\").replace('"', '\\"') + '"'
        if rep == "RString":
            return lit
        if rep == "RBytes":
            return "<<" + lit + ">>"
        if rep == "ROffsetString":
            return "1\\" + lit
        if rep == "RCharArray":
            return "[" + ", ".join(str(ord(ch)) for ch in text) + "]"
        if rep == "REmptyString":
            return '""'
        if rep == "REmptyBytes":
            return "<<>>"
        raise ValueError(rep)
    if k == "imp":
        return "//{./%s}" % e[1]
    if k == "rimp":
        return "//{https://sandbox.invalid/x}"
    if k == "macro":
        return "{:(@grammar: {://grammar.lang.wbnf: x -> 'a';:}, @transform: (x: \\ast %s)):a:}" % arrai(e[1])
    raise ValueError(e)


def cstr(s):
    return '"' + s.replace('"', '""') + '"'


def coq(e):
    k = e[0]
    if k == "data":
        return "EData"
    if k == "var":
        return "(EVar %s)" % cstr(e[1])
    if k == "std":
        t = "EPkg"
        for a in e[1]:
            t = "(EDot %s %s)" % (t, cstr(a))
        return t
    if k == "dot":
        return "(EDot %s %s)" % (coq(e[1]), cstr(e[2]))
    if k == "tup":
        t = "ETupNil"
        for a, x in reversed(e[1]):
            t = "(ETupCons %s %s %s)" % (cstr(a), coq(x), t)
        return t
    if k == "fn":
        return "(EFn %s %s)" % (cstr(e[1]), coq(e[2]))
    if k == "app":
        return "(EApp %s %s)" % (coq(e[1]), coq(e[2]))
    if k == "let":
        return "(ELet %s %s %s)" % (cstr(e[1]), coq(e[2]), coq(e[3]))
    if k == "quote":
        rep, body = qparts(e)
        return "(EQuote %s %s)" % (rep, coq(body))
    if k == "imp":
        return "(EImport (TLocal %s))" % cstr(e[1])
    if k == "rimp":
        return "(EImport TRemote)"
    if k == "macro":
        return "(EMacro %s)" % coq(e[1])
    raise ValueError(e)


def size(e):
    return 1 + sum(size(x) for x in e[1:] if isinstance(x, tuple) and x and isinstance(x[0], str)) + \
        (sum(size(x) for _, x in e[1]) if e[0] == "tup" else 0)


def std(*p):
    return ("std", tuple(p))


DATA = ("data",)
EV_EVAL = std("eval", "eval")
EV_VALUE = std("eval", "value")


def evaluator(cfg):
    return ("dot", ("app", std("eval", "evaluator"), cfg), "eval")


def tup(*fs):
    return ("tup", tuple(fs))


# ---------------------------------------------------------------- generator
TARGETS = [std("os", "file"), std("os", "file"), std("net", "http", "get"), std("net"), std("net", "http"),
           std("deprecated", "exec"), std("os", "tree"), std("os"), std("os", "exists"), std("os", "get_env"),
           std("std", "safe", "os"), std("std", "safe", "deprecated", "exec"), std("std", "safe", "os", "file"),
           std("str", "lower"), std("str"), std("eval", "value"), std("eval"), std("nosuch"), std("os", "nosuch"),
           std("math", "pi"), std("deprecated"), std("std", "safe", "eval", "value"), DATA,
           ("imp", "lib"), ("imp", "secret"), ("imp", "pure"), ("imp", "data.txt"), ("imp", "missing"), ("rimp",)]

SUBLIBS = [tup(), tup(("os", std("os"))), tup(("os", tup(("file", std("os", "file"))))), tup(("eval", std("eval"))),
           tup(("eval", std("eval")), ("str", std("str"))), tup(("std", std("std"))), std("std", "safe"),
           tup(("net", std("net"))), tup(("deprecated", std("deprecated"))), tup(("os", std("os")), ("eval", std("eval")))]

SCOPES = [tup(), tup(("f", std("os", "file"))), tup(("g", ("fn", "x", ("var", "x")))),
          tup(("h", ("fn", "x", std("os", "file")))), tup(("ev", std("eval", "eval"))), tup(("v", DATA)),
          tup(("f", std("net", "http", "get")), ("g", ("fn", "x", ("var", "x")))), tup(("x", std("str")))]


def gen_cfg(rng):
    """a configuration expression, evaluated at top level (or inside another sandbox)"""
    r = rng.random()
    fs = []
    if r < 0.25:
        return tup()
    if rng.random() < 0.8:
        fs.append(("stdlib", rng.choice(SUBLIBS)))
    if rng.random() < 0.6:
        fs.append(("scope", rng.choice(SCOPES)))
    return tup(*fs)


def scope_names(cfg):
    if cfg and cfg[0] == "tup":
        for a, x in cfg[1]:
            if a == "scope" and x[0] == "tup":
                return [n for n, _ in x[1]]
    return []


def wrap(rng, e, depth, closed):
    """one semantics-preserving or sandbox-entering step around e"""
    r = rng.randrange(15)
    if r == 0:
        return ("app", EV_EVAL, Q(e, pick_rep(rng)))
    if r == 1:
        return ("app", EV_VALUE, Q(e, pick_rep(rng)))
    if r == 2:
        return ("app", evaluator(gen_cfg(rng)), Q(e, pick_rep(rng)))
    if r == 3:
        return ("app", evaluator(tup()), Q(e, pick_rep(rng)))
    if r == 4 and closed:
        return ("macro", e)
    if r == 5:
        return ("app", ("fn", "y", e), DATA)
    if r == 6:
        return ("app", ("fn", "y", ("var", "y")), e)
    if r == 7:
        return ("let", "z", e, ("var", "z"))
    if r == 8:
        return ("dot", tup(("a", e)), "a")
    if r == 9:
        return ("fn", "y", e)
    if r == 10:
        return tup(("a", e), ("b", rng.choice(TARGETS)))
    if r == 11:
        return ("app", std("std", "safe", "eval", "eval"), Q(e, pick_rep(rng)))
    if r == 12:
        return ("let", "z", rng.choice(TARGETS), e)
    if r == 13:
        return tup(("k", ("fn", "y", e)))
    return e


def gen_structured(rng, names):
    t = rng.choice(TARGETS + [("var", n) for n in names] * 3)
    closed = t[0] != "var"
    e = t
    if rng.random() < 0.35:
        e = ("app", e, DATA)          # use it: //os.file('data.txt')
    for _ in range(rng.choice([0, 1, 1, 2, 2, 3])):
        e = wrap(rng, e, 0, closed)
    return e


ATTRS = ["a", "b", "file", "os", "eval", "value", "http", "get", "k", "safe", "std", "exec", "deprecated"]
VARS = ["x", "y", "z", "f", "g"]


def gen_random(rng, d, names):
    """malformed / ill-typed stream: arbitrary trees"""
    if d <= 0 or rng.random() < 0.2:
        r = rng.random()
        if r < 0.25:
            return DATA
        if r < 0.5:
            return ("var", rng.choice(VARS + names))
        if r < 0.9:
            return rng.choice(TARGETS)
        return tup()
    r = rng.randrange(11)
    sub = lambda: gen_random(rng, d - 1, names)
    if r == 0:
        return ("dot", sub(), rng.choice(ATTRS))
    if r == 1:
        n = rng.randrange(1, 3)
        return tup(*[(a, sub()) for a in rng.sample(ATTRS, n)])
    if r == 2:
        return ("fn", rng.choice(VARS), sub())
    if r in (3, 4):
        return ("app", sub(), sub())
    if r == 5:
        return ("let", rng.choice(VARS), sub(), sub())
    if r == 6:
        return ("app", rng.choice([EV_EVAL, EV_VALUE, evaluator(gen_cfg(rng)), sub()]), Q(sub(), pick_rep(rng)))
    if r == 7:
        return ("macro", gen_random(rng, d - 1, []))
    if r == 8:
        return Q(sub(), pick_rep(rng))
    if r == 9:
        return ("app", ("fn", rng.choice(VARS), sub()), sub())
    return sub()


def free_ok_for_macro(e, bound=()):
    """macro bodies are evaluated at parse time: they must not mention variables at all
    (the parse-time scope knows let-bound names the model does not track)"""
    k = e[0]
    if k == "var":
        return False
    if k == "quote":
        return True
    if k == "tup":
        return all(free_ok_for_macro(x) for _, x in e[1])
    return all(free_ok_for_macro(x) for x in e[1:] if isinstance(x, tuple) and x and isinstance(x[0], str))


def macros_closed(e):
    k = e[0]
    if k == "macro":
        return free_ok_for_macro(e[1]) and macros_closed(e[1])
    if k == "tup":
        return all(macros_closed(x) for _, x in e[1])
    return all(macros_closed(x) for x in e[1:] if isinstance(x, tuple) and x and isinstance(x[0], str))


def corpus():
    osf = std("os", "file")
    c = []
    # the committed witnesses of the open findings (always run, first)
    c.append(("safe", tup(), ("app", EV_VALUE, ("quote", osf)), "evalvalue-full-scope"))
    c.append(("top", tup(("stdlib", tup())), ("imp", "secret"), "sandbox-local-import"))
    c.append(("top", tup(("stdlib", tup())), ("rimp",), "sandbox-remote-import"))
    c.append(("top", tup(("stdlib", tup())), ("macro", osf), "macro-full-scope"))
    # source handed over as a byte array / offset string (a seeded defect split evalExpr's case arm)
    c.append(("safe", tup(), ("app", EV_VALUE, Q(osf, "RBytes")), None))
    c.append(("safe", tup(), ("app", EV_EVAL, Q(("app", EV_VALUE, Q(osf, "RBytes")))), None))
    c.append(("top", tup(("stdlib", tup(("eval", std("eval"))))), ("app", EV_VALUE, Q(std("net", "http", "get"), "RBytes")), None))
    c.append(("safe", tup(), ("app", EV_EVAL, Q(osf, "RBytes")), None))
    c.append(("safe", tup(), ("app", EV_VALUE, Q(osf, "ROffsetString")), None))
    # further minimised routes
    c.append(("top", tup(), ("app", EV_VALUE, ("quote", osf)), None))
    c.append(("safe", tup(), ("imp", "lib"), None))
    c.append(("safe", tup(), ("app", ("imp", "lib"), DATA), None))
    c.append(("safe", tup(), ("macro", ("app", osf, DATA)), None))
    c.append(("safe", tup(), ("fn", "y", ("app", EV_VALUE, ("quote", osf))), None))
    c.append(("safe", tup(), osf, None))
    c.append(("safe", tup(), std("net"), None))
    c.append(("safe", tup(), std("std", "safe", "os", "file"), None))
    c.append(("safe", tup(), ("app", EV_EVAL, ("quote", osf)), None))
    c.append(("safe", tup(), ("app", EV_EVAL, ("quote", ("app", EV_EVAL, ("quote", std("net", "http", "get"))))), None))
    c.append(("top", tup(("stdlib", tup(("os", tup(("file", osf)))))), ("app", osf, DATA), None))
    c.append(("top", tup(("stdlib", tup(("eval", std("eval"))))), ("app", EV_EVAL, ("quote", std("os", "tree"))), None))
    c.append(("top", tup(("stdlib", tup(("str", std("str"))))), std("os"), None))
    c.append(("top", tup(("scope", tup(("h", ("fn", "x", osf))))), ("app", ("var", "h"), DATA), None))
    c.append(("top", tup(("scope", tup(("f", osf)))), ("app", ("var", "f"), DATA), None))
    c.append(("top", tup(("stdlib", tup()), ("scope", tup(("g", ("fn", "x", ("var", "x")))))), ("app", ("var", "g"), std("os")), None))
    # needs two defective sites together (macro scope + import): attributed to both
    c.append(("top", tup(("stdlib", tup(("os", tup(("file", osf)))))),
              ("macro", ("app", std("std", "safe", "eval", "eval"), ("quote", ("imp", "pure")))), None))
    c.append(("top", tup(("stdlib", tup())), ("macro", ("app", EV_VALUE, ("quote", ("app", ("imp", "lib"), DATA)))), None))
    c.append(("safe", tup(), std("deprecated", "exec"), None))
    c.append(("safe", tup(), std("os"), None))
    c.append(("safe", tup(), ("app", evaluator(tup(("stdlib", tup()))), ("quote", std("str"))), None))
    return c


# ---- the `case` arms of the sandbox entry points, enumerated (quick tier included) ----
# evalExpr / contextualEval: type switch on the source argument  -> REPS
# parseEvalConfig / contextualEval: config is / is not a tuple; stdlib absent / () / a tuple / not a tuple;
#                                   scope absent / () / a tuple / not a tuple
CFG_ARMS = [
    ("cfg=()", tup()),
    ("stdlib=()", tup(("stdlib", tup()))),
    ("stdlib=tuple", tup(("stdlib", tup(("eval", std("eval")), ("str", std("str")))))),
    ("stdlib=not-a-tuple", tup(("stdlib", DATA))),
    ("scope=()", tup(("scope", tup()))),
    ("scope=tuple", tup(("scope", tup(("f", std("str", "lower")), ("g", ("fn", "x", ("var", "x"))))))),
    ("scope=not-a-tuple", tup(("scope", DATA))),
    ("stdlib+scope", tup(("stdlib", tup(("eval", std("eval")))), ("scope", tup(("v", DATA))))),
    ("stdlib=()+scope", tup(("stdlib", tup()), ("scope", tup(("ev", std("eval", "eval")), ("evv", std("eval", "value")))))),
    ("cfg=not-a-tuple", DATA),
]
ARM_TARGETS = [std("os", "file"), std("net", "http", "get"), std("str", "lower"), ("app", std("os", "file"), DATA)]


def arm_cases():
    out = []
    entries = [("eval.value", lambda q: ("app", EV_VALUE, q)), ("eval.eval", lambda q: ("app", EV_EVAL, q)),
               ("std.safe.eval.value", lambda q: ("app", std("std", "safe", "eval", "value"), q))]
    for name, cfg in CFG_ARMS:
        entries.append(("evaluator[%s]" % name, (lambda cfg: lambda q: ("app", evaluator(cfg), q))(cfg)))
    for ename, entry in entries:
        for rep in REPS:
            for t in ARM_TARGETS:
                inner = entry(Q(t, rep))
                # reached directly from the safe scope, and from inside a string handed to //eval.eval
                out.append({"mode": "safe", "cfg": tup(), "src": inner, "stream": "arms"})
                out.append({"mode": "safe", "cfg": tup(), "src": ("app", EV_EVAL, Q(inner)), "stream": "arms"})
    # the same arms for the top-level entry (mode top): configuration arm x representation of the main source
    for name, cfg in CFG_ARMS:
        for rep in REPS:
            for t in ARM_TARGETS[:3] + [("app", std("eval", "value"), Q(std("os", "file"), "RBytes")), ("var", "ev"), ("app", ("var", "evv"), Q(std("net"), "RBytes"))]:
                out.append({"mode": "top", "cfg": cfg, "src": t, "rep": rep, "stream": "arms"})
    return out


def arms_of(c):
    """the (entry point, representation) and configuration arms a case exercises"""
    hit = set()

    def cfg_arm(cfg):
        if cfg[0] != "tup":
            return ["cfg:not-a-tuple"]
        d = dict(cfg[1])
        a = []
        for k in ("stdlib", "scope"):
            if k not in d:
                a.append(k + ":absent")
            elif d[k][0] == "tup":
                a.append(k + (":()" if not d[k][1] else ":tuple"))
            elif d[k][0] == "std":
                a.append(k + ":tuple")
            else:
                a.append(k + ":not-a-tuple")
        return a

    def walk(e):
        if not isinstance(e, tuple) or not e or not isinstance(e[0], str):
            return
        if e[0] == "app" and isinstance(e[2], tuple) and e[2] and e[2][0] == "quote":
            f = e[1]
            rep = qparts(e[2])[0]
            if f[0] == "std" and f[1][-2:] == ("eval", "value"):
                hit.add("evalExpr:" + rep)
            elif f[0] == "std" and f[1][-2:] == ("eval", "eval"):
                hit.add("contextualEval:" + rep)
            elif f[0] == "dot" and f[2] == "eval" and f[1][0] == "app":
                hit.add("contextualEval:" + rep)
                for a in cfg_arm(f[1][2]):
                    hit.add(a)
        if e[0] == "tup":
            for _, x in e[1]:
                walk(x)
        else:
            for x in e[1:]:
                walk(x)
    walk(c["src"])
    if c["mode"] == "top":
        hit.add("contextualEval:" + c.get("rep", "RString"))
        for a in cfg_arm(c["cfg"]):
            hit.add(a)
    return hit


REQUIRED_ARMS = ["evalExpr:" + r for r in REPS] + ["contextualEval:" + r for r in REPS] + \
    ["cfg:not-a-tuple"] + [k + a for k in ("stdlib", "scope") for a in (":absent", ":()", ":tuple", ":not-a-tuple")]


def gen_cases(rng, tier):
    cases = []
    for mode, cfg, src, sig in corpus():
        cases.append({"mode": mode, "cfg": cfg, "src": src, "stream": "corpus", "witness_of": sig})
    cases.extend(arm_cases())
    n_struct, n_rand = (700, 300) if tier == "quick" else (7000, 3000)
    for i in range(n_struct):
        mode = "safe" if rng.random() < 0.5 else "top"
        cfg = tup() if mode == "safe" else gen_cfg(rng)
        src = gen_structured(rng, scope_names(cfg))
        cases.append({"mode": mode, "cfg": cfg, "src": src, "rep": pick_rep(rng), "stream": "structured"})
    for i in range(n_rand):
        mode = "safe" if rng.random() < 0.5 else "top"
        cfg = tup() if mode == "safe" else gen_cfg(rng)
        src = gen_random(rng, rng.choice([2, 3, 3, 4]), scope_names(cfg))
        cases.append({"mode": mode, "cfg": cfg, "src": src, "rep": pick_rep(rng), "stream": "random"})
    if tier == "thorough":
        # exhaustive small scope: every target x every pair of wrappers from a fixed list, both modes
        W = [lambda e: e, lambda e: ("app", EV_EVAL, Q(e)), lambda e: ("app", EV_VALUE, Q(e)),
             lambda e: ("app", EV_EVAL, Q(e, "RBytes")), lambda e: ("app", EV_VALUE, Q(e, "RBytes")),
             lambda e: ("app", evaluator(tup(("stdlib", tup()))), Q(e)), lambda e: ("macro", e),
             lambda e: ("fn", "y", e), lambda e: ("app", e, DATA), lambda e: ("dot", tup(("a", e)), "a"),
             lambda e: ("app", evaluator(tup(("stdlib", tup(("eval", std("eval")), ("os", std("os")))))), Q(e, "RBytes"))]
        seen = set()
        for t in TARGETS:
            for w1 in W:
                for w2 in W:
                    src = w2(w1(t))
                    for mode, cfg in (("safe", tup()), ("top", tup(("stdlib", tup()))), ("top", tup(("stdlib", tup(("os", tup(("file", std("os", "file"))))))))):
                        key = (mode, cfg, src)
                        if key in seen:
                            continue
                        seen.add(key)
                        cases.append({"mode": mode, "cfg": cfg, "src": src, "stream": "exhaustive"})
    out = []
    for c in cases:
        if not macros_closed(c["src"]):
            continue
        c["id"] = len(out)
        out.append(c)
    return out


def source_text(c):
    if c["mode"] == "safe":
        return arrai(c["src"])
    return "(%s)(%s)" % (arrai(evaluator(c["cfg"])), arrai(Q(c["src"], c.get("rep") or "RString")))


# ---------------------------------------------------------------- observation -> Coq
def obs_terms(o):
    """harness observation -> (st, classes term, effects term, classes list, effects list)"""
    st = {"ok": 0, "err": 1, "panic": 1}.get(o.get("st") if o else None, 3)
    cls = []
    if st == 0:
        for c in o.get("classes", []):
            cls.append(CLS.get(c, "CUnclassified"))
    effs = []
    for e in (o or {}).get("effects", []):
        parts = e.split(":", 2)
        if parts[0] == "net":
            effs.append("ONet")
        elif parts[1] == "open":
            base = parts[2].rsplit("/", 1)[-1]
            if parts[0] == "run":
                effs.append("OCallFile")
            else:
                if base.endswith(".arrai"):
                    base = base[:-6]
                effs.append("(OImp %s)" % cstr(base))
    cls = sorted(set(cls))
    effs = sorted(set(effs))
    return st, "[" + "; ".join(cls) + "]", "[" + "; ".join(effs) + "]", cls, effs


def qcur_term(run):
    open_sigs = {f["sig"] for f in run.opened}
    fields = ["%s := %s" % (fld, cbool(sig in open_sigs)) for sig, _, fld in QUIRKS]
    return "{| " + "; ".join(fields) + " |}"


def run_cases(run, vh, cases, shard=250):
    outs, rc, err = run_harness(vh, "c18", [{"id": c["id"], "mode": c["mode"], "src": source_text(c)} for c in cases],
                                timeout=1500)
    import concurrent.futures
    chunks = [cases[i:i + shard] for i in range(0, len(cases), shard)]
    qc = qcur_term(run)

    def do(idx_chunk):
        idx, chunk = idx_chunk
        body = ["From Coq Require Import List String ZArith.",
                "From Arrai Require Import Sys.Sandbox Sys.SandboxGen Check.C18Check.",
                "Import ListNotations. Open Scope string_scope. Open Scope list_scope.",
                "Definition qcur : quirks := %s." % qc,
                "Definition cases : list case18 := ["]
        rows = []
        for c in chunk:
            st, ct, et, _, _ = obs_terms(outs.get(c["id"]))
            rows.append("  {| c_id := %d; c_safe := %s; c_cfg := %s; c_src := %s; c_rep := %s; c_st := %d; c_cls := %s; c_eff := %s |}" % (
                c["id"], cbool(c["mode"] == "safe"), coq(c["cfg"]), coq(c["src"]), c.get("rep") or "RString", st, ct, et))
        body.append(";\n".join(rows))
        body.append("].\nDefinition R := Eval vm_compute in report qcur cases.\nPrint R.")
        rc2, so, se = coq_eval("c18_cases_%d" % idx, "\n".join(body))
        return coq_report(so, "R"), se

    results = {}
    with concurrent.futures.ThreadPoolExecutor(max_workers=12) as ex:
        for (rep, se), chunk in zip(ex.map(do, enumerate(chunks)), chunks):
            if rep is None:
                run.corr_breaks.append({"what": "model evaluation failed (Check/C18Check.v)", "log": se[-1500:]})
                continue
            for c in chunk:
                results[c["id"]] = 0
            for cid, code in rep:
                results[cid] = code
    return outs, results


def table_rows(vh):
    outs, rc, err = run_harness(vh, "c18table", [{"id": 0}])
    return (outs.get(0) or {}).get("safe", [])


def main(tier, seed, replay=None):
    run = Run(PROP, tier, seed)
    vh, proof = prepare(PROP_FILES, thorough=(tier == "thorough"))
    import c18_hist
    hists = []
    if replay:
        rp = json.load(open(replay))
        tcases = []
        cases = []
        if isinstance(rp.get("case"), dict) and rp["case"].get("stream") == "history":
            hists = [c18_hist.from_replay(rp["case"])]
            rp = {}
        else:
            for ent in rp.get("no_longer_checks", []):
                if isinstance(ent.get("case"), dict) and ent["case"].get("stream") == "history":
                    hists = [c18_hist.from_replay(ent["case"])]
                    rp = {}
                    break
        if "case" not in rp:
            # a correspondence replay (no-failing-input-found): re-run its first recorded case
            for ent in rp.get("no_longer_checks", []):
                if isinstance(ent.get("case"), dict) and "src" in ent["case"]:
                    rp["case"] = ent["case"]
                    break
        if "case" in rp:
            c = rp["case"]
            cases = [{"id": 0, "mode": c["mode"], "cfg": T(c["cfg"]), "src": T(c["src"]), "rep": c.get("rep"), "stream": "replay",
                      "table_path": c.get("table_path")}]
    else:
        cases = []
        seeds = [seed] if tier == "quick" else [seed, seed + 1, seed + 2]
        for s in seeds:
            cs = gen_cases(random.Random(s), tier if s == seed else "quick")
            for c in cs:
                if s != seed and c["stream"] in ("arms", "corpus"):
                    continue          # enumerated streams do not depend on the seed
                c["id"] = len(cases)
                cases.append(c)
        # histories of evaluators (several sandboxes created and used in one run): own PRNG derived from the seed
        hists = c18_hist.gen_histories(random.Random("c18-hist-%d" % seed), tier)
    # the history stream runs beside the single-sandbox streams (separate harness processes and coqc runs)
    import concurrent.futures
    t_h = time.time()

    def hist_job():
        r = c18_hist.run_histories(run, vh, hists) if hists else ({}, {})
        return r, round(time.time() - t_h, 1)
    with concurrent.futures.ThreadPoolExecutor(max_workers=1) as hex_:
        hfut = hex_.submit(hist_job)
        outs, results = run_cases(run, vh, cases)
        t_c = round(time.time() - t_h, 1)
        (houts, hresults), t_hist = hfut.result()
    hist_cov = c18_hist.judge(run, hists, houts, hresults)
    hist_cov["wall_s"] = t_hist
    hist_cov["wall_s_single_sandbox_streams_alongside"] = t_c
    # pattern fallbacks inside a sandbox (raw source: the sandbox model's source language has no pattern fallbacks): a default of
    # a pattern item is evaluated in the scope of the sandboxed source, so a default that names //os.file or //net.http.get must
    # fail like the bare name does.  Oracle = the property text: no file / network function in the result, no effect.
    pat_cov = {}
    if not replay or (isinstance(rp.get("case"), dict) and rp["case"].get("stream") == "pattern-fallback"):
        PT = ["let (a?: (b?: f: %s): ()) = (); f", "let (a?: f: %s) = (); f", "(\\(a?: (b?: f: %s): ()) f)(())", "cond () {(a?: (b?: f: %s): ()): f}",
              "let {\"k\"?: f: %s} = {}; f", "let {\"k\"?: (b?: f: %s): ()} = {}; f", "let (a?: (b?: f: %s): ()) = (); f(\"data.txt\")",
              "let (a?: (b?: (c?: f: %s): ()): ()) = (); f", "let (a?: {\"k\"?: f: %s}: {}) = (); f", "let [(a?: (b?: f: %s): ())] = [()]; f",
              "let (a: (b?: (c?: f: %s): ())) = (a: ()); f", "() -> \\(a?: (b?: f: %s): ()) f", "{()} => \\(a?: (b?: f: %s): ()) f",
              "let (a?: (b?: f: %s): ()) = (a: ()); f", "let (a?: (b?: f: %s): (b: 1)) = (); f", "(a: 1) -> \\(a: x, c?: (d?: f: %s): ()) f"]
        WR = [("safe", "%s"), ("top", "//eval.eval(`%s`)"), ("top", "//eval.evaluator((stdlib: ())).eval(`%s`)"),
              ("top", "//eval.evaluator((stdlib: (str: //str))).eval(`%s`)"), ("top", "//eval.eval(\"//eval.eval(`%s`)\")"),
              ("safe", "//eval.eval(`%s`)")]
        preqs = []
        for t in PT:
            for target in ("//os.file", "//net.http.get", "//os"):
                for mode, wrap_ in WR:
                    inner = t % target
                    if "\"" in inner and "\"//eval" in wrap_:
                        continue
                    preqs.append({"id": len(preqs), "mode": mode, "src": wrap_ % inner})
        if replay:
            preqs = [{"id": 0, "mode": rp["case"]["mode"], "src": rp["case"]["text"]}]
        pouts, _, _ = run_harness(vh, "c18", preqs)
        pat_cov = {"programs": len(preqs), "status": {}, "failing": 0}
        for q in preqs:
            o = pouts.get(q["id"]) or {"st": "missing"}
            pat_cov["status"][o.get("st")] = pat_cov["status"].get(o.get("st"), 0) + 1
            bad = [c for c in (o.get("classes") or []) if c in ("file", "net")]
            if bad or (o.get("effects") or []):
                pat_cov["failing"] += 1
                run.classify_failure(None, {"case": {"stream": "pattern-fallback", "mode": q["mode"], "text": q["src"]}, "observed": o,
                                            "oracle": "sandboxed source obtained a %s function (or caused an effect) through the default of a pattern item" % "/".join(bad or ["?"])})
    open_sigs = {f["sig"] for f in run.opened}
    hist = {"stream": {}, "mode": {}, "status": {}, "classes_observed": {}, "effects_observed": {}, "quirk_dependent": {}}
    seen, dist, guard_false, incomparable, noted = set(), 0, 0, 0, 0

    def bump(h, k):
        hist[h][k] = hist[h].get(k, 0) + 1

    arms_hit = {}
    for c in cases:
        o = outs.get(c["id"])
        code = results.get(c["id"])
        if code is None:
            continue
        for a in arms_of(c):
            arms_hit[a] = arms_hit.get(a, 0) + 1
        st, _, _, cls, effs = obs_terms(o)
        txt = source_text(c)
        bump("stream", c["stream"]); bump("mode", c["mode"]); bump("status", (o or {}).get("st", "none"))
        for x in cls:
            bump("classes_observed", x)
        for x in effs:
            bump("effects_observed", x.split(" ")[0].strip("("))
        if txt not in seen:
            seen.add(txt)
            if st == 0 and (cls or effs or (o or {}).get("shape") in ("closure", "tuple", "native")):
                dist += 1
        rec = {"case": {"mode": c["mode"], "cfg": c["cfg"], "src": c["src"], "rep": c.get("rep"), "text": txt, "table_path": c.get("table_path")},
               "observed": o, "code": code}
        if code & 128:
            run.notes.append("model out of fuel on case %s" % txt[:200])
            continue
        corr, gfalse, ofail = code & 1, code & 2, code & 4
        if code & 256 and corr and not ofail:
            # status differs only because the model applied a library function the harness cannot observe
            incomparable += 1
            continue
        K = [sig for sig, bit, _ in QUIRKS if code & bit]
        for k in K:
            bump("quirk_dependent", k)
        if gfalse:
            guard_false += 1
        if ofail:
            rec["oracle"] = ("the sandboxed evaluation obtained a function, read a file or contacted the network outside "
                             "the authority of config.stdlib/config.scope (Check/C18Check.v: oracle)")
            if not gfalse or not K or any(k not in open_sigs for k in K):
                run.classify_failure(None, rec)
            else:
                rec["quirks_attributed"] = K
                rec["reproduced_exactly"] = not corr
                for k in K:
                    run.classify_failure(k, rec)
        elif corr:
            if not gfalse:
                run.corr_breaks.append({"what": "implementation differs from the model (status / observable classes / effects) "
                                                "on a case that depends on no known-defective site", **rec})
            else:
                noted += 1
    # every witness of an open finding must still fail
    for c in cases:
        sig = c.get("witness_of")
        if sig and sig in open_sigs and c["stream"] == "corpus" and c["id"] < 30:
            code = results.get(c["id"], 0)
            if not code & 4:
                run.corr_breaks.append({"what": "witness of open finding %s no longer violates the property (fixed upstream? flip the entry)" % sig,
                                        "case": {"text": source_text(c)}, "observed": outs.get(c["id"])})
    # the inventory of the safe library (same rows as coq/Gen/Stdlib.v): every forbidden / ambient member is
    # either a listed exception (open finding) or a violation whose failing input is the program `//path`
    rows = table_rows(vh)
    tcases = []
    for r in rows:
        cl = r["class"]
        if cl in FORBIDDEN or cl in AMBIENT:
            p = r["path"]
            if any(not a.replace("_", "").isalnum() for a in p):
                src = None   # not expressible as //a.b (e.g. &stdin): looked up through the parent tuple
                par = std(*p[:-1])
                tcases.append((r, {"id": len(tcases), "mode": "safe", "src": arrai(par)}, par))
            else:
                tcases.append((r, {"id": len(tcases), "mode": "safe", "src": arrai(std(*p))}, std(*p)))
    if tcases and not replay:
        touts, _, _ = run_harness(vh, "c18", [t[1] for t in tcases])
        for r, hc, tree in tcases:
            o = touts.get(hc["id"]) or {}
            p = r["path"]
            key = ".".join(p[2:] if p[:2] == ["std", "safe"] else p)
            got = o.get("st") == "ok" and r["class"] in [x if not x.startswith("unknown") else "unclassified" for x in o.get("classes", [])]
            rec = {"case": {"mode": "safe", "cfg": tup(), "src": tree, "text": hc["src"], "table_path": ".".join(p)}, "observed": o,
                   "oracle": "the safe library hands out a function of class %s at //%s" % (r["class"], ".".join(p))}
            if not got:
                run.corr_breaks.append({"what": "inventory row not confirmed by evaluation", **rec})
                continue
            run.classify_failure(KNOWN_EXCEPTIONS.get(key), rec)
    elif replay and cases and cases[0].get("table_path"):
        o = outs.get(0) or {}
        if o.get("st") == "ok" and set(o.get("classes", [])) & (FORBIDDEN | AMBIENT | {x for x in o.get("classes", []) if x.startswith("unknown")}):
            p = cases[0]["table_path"].split(".")
            key = ".".join(p[2:] if p[:2] == ["std", "safe"] else p)
            run.classify_failure(KNOWN_EXCEPTIONS.get(key), {"case": cases[0], "observed": o})
    run.cov.update({
        "evaluations": len(cases) + len(tcases) + len(hists), "distinct_nontrivial": dist,
        "pattern_fallback_stream": pat_cov,
        "evaluator_histories": dict(hist_cov, count=len(hists),
                                    rule="history = let-bound factories / configs / evaluators + an ordered list of uses (evaluator, source, "
                                         "representation); run driven (the harness applies X.eval per use) or inline (one arr.ai program); per use: "
                                         "status, marker names, runtime-fs read; compared with hist_run no_memo (= each use alone) in Coq"),
        "rule": "case = (mode, configuration tree, sandboxed source tree); rendered to arr.ai and run through syntax.EvalWithScope(SafeStdScope) "
                "(mode safe) or through a top-level //eval.evaluator(cfg).eval(src) (mode top) with a recording in-memory fs and a refusing "
                "transport; the same trees run through the Coq model by vm_compute; distinct by source text; non-trivial = evaluates to a value "
                "that is a function/tuple or shows a class or an effect"
                + ("; thorough adds every target x every ordered pair of 9 wrappers x 3 configurations (exhaustive small scope) and 3 seeds" if tier == "thorough" else ""),
        "samples": [source_text(cases[i]) for i in range(0, len(cases), max(1, len(cases) // 8))][:8],
        "histograms": hist,
        "case_arms_hit": arms_hit,
        "case_arms_missed": [a for a in REQUIRED_ARMS if not arms_hit.get(a)],
        "guard_false_cases": guard_false, "status_incomparable_cases": incomparable,
        "quirk_overapproximation_notes": noted,
        "inventory_rows_checked": len(tcases),
        "exhaustive": False,
    })
    if not replay and run.cov["case_arms_missed"]:
        run.notes.append("generator gap: case arms not exercised: %s" % run.cov["case_arms_missed"])
    run.assumptions = [
        "values are abstracted to data / source text / library function (capability class) / tuple / closure; sets, arrays, numbers and operators are outside the model",
        "the capability class of each library function comes from the committed name table in harness/c18.go (reviewed by reading the Go bodies); the walk cannot see what a function does",
        "closures are observed by applying them to () up to 3 times (their captured scope is not part of the public API)",
        "command execution and environment reads are not intercepted: such functions are detected by identity in the result, never called",
        "the macro route is modelled for closed macro bodies only; remote imports are modelled as 'attempted, fails' (offline)",
    ]
    return run.finish(proof)
