"""C18, histories of evaluators: programs that create SEVERAL evaluators from related configurations
(equal up to what their closures capture, equal scope names with different values, one config object
used twice, privileged / unprivileged, differing only in stdlib members) and use them in every order.
Each sandboxed source probes a capability name; capabilities are closures returning a marker tuple
(capA: 'data.txt') / (denied: 'data.txt'), or //os.file (observed through the recording runtime fs).
The model side is Sys/SandboxHist.v (hist_run no_memo), the comparison Check/C18HistCheck.v."""
from common import *
from c18 import arrai, coq, cstr, std, tup, Q, DATA, EV_EVAL, EV_VALUE, T, REPS, pick_rep, qcur_term

OSF = std("os", "file")


def mark(m):
    return tup((m, DATA))


def capfn(m):
    return ("fn", "u", mark(m))


def mkev(cfg):
    """the evaluator tuple (eval: \\expr ...)"""
    return ("app", std("eval", "evaluator"), cfg)


def call(f, a=DATA):
    return ("app", f, a)


def V(x):
    return ("var", x)


READ = call(V("read"))
FWD = ("fn", "p", call(V("r"), V("p")))        # \p r(p): the closure whose captured r is the capability


# ---------------------------------------------------------------- families
# family = (name, bindings [(x, expr)], evaluators [(name, allowed markers, may read files)], probes [expr])
def families():
    fams = []
    nest_pass = call(("dot", mkev(tup(("scope", tup(("read", V("read")))))), "eval"), Q(READ))   # hands its own read on
    nest_safe = call(EV_EVAL, Q(READ))                                                            # a fresh default sandbox: no read
    fams.append(("factory-scope",
                 [("mk", ("fn", "r", mkev(tup(("scope", tup(("read", FWD))))))),
                  ("A", call(V("mk"), capfn("capA"))), ("B", call(V("mk"), capfn("denied"))), ("P", call(V("mk"), OSF))],
                 [("A", ["capA"], False), ("B", ["denied"], False), ("P", [], True)],
                 [READ, call(OSF), V("read"), nest_pass, nest_safe]))
    fams.append(("factory-stdlib",
                 [("mk", ("fn", "r", mkev(tup(("stdlib", tup(("io", tup(("read", FWD))))))))),
                  ("A", call(V("mk"), capfn("capA"))), ("B", call(V("mk"), capfn("denied"))), ("P", call(V("mk"), OSF))],
                 [("A", ["capA"], False), ("B", ["denied"], False), ("P", [], True)],
                 [call(std("io", "read")), call(OSF), std("io"), READ]))
    fams.append(("same-names-different-values",
                 [("A", mkev(tup(("scope", tup(("read", capfn("capA"))))))),
                  ("B", mkev(tup(("scope", tup(("read", capfn("denied"))))))),
                  ("P", mkev(tup(("scope", tup(("read", OSF))))))],
                 [("A", ["capA"], False), ("B", ["denied"], False), ("P", [], True)],
                 [READ, V("read"), nest_pass, call(OSF)]))
    fams.append(("same-config-object-twice",
                 [("c", tup(("scope", tup(("read", capfn("capA")))))),
                  ("A", mkev(V("c"))), ("B", mkev(V("c"))),
                  ("C", mkev(tup(("scope", tup(("read", capfn("denied")))))))],
                 [("A", ["capA"], False), ("B", ["capA"], False), ("C", ["denied"], False)],
                 [READ, V("read"), nest_safe]))
    fams.append(("stdlib-members-differ",
                 [("A", mkev(tup(("stdlib", tup(("os", tup(("file", OSF)))))))),
                  ("B", mkev(tup(("stdlib", tup(("os", tup())))))),
                  ("C", mkev(tup())),
                  ("D", mkev(tup(("stdlib", tup())))),
                  ("F", mkev(tup(("stdlib", tup(("os", tup(("file", capfn("denied")))))))))],
                 [("A", [], True), ("B", [], False), ("C", [], False), ("D", [], False), ("F", ["denied"], False)],
                 [call(OSF), OSF, std("str", "lower")]))
    fams.append(("factory-data-capture",
                 [("mk", ("fn", "v", mkev(tup(("scope", tup(("cap", V("v")))))))),
                  ("A", call(V("mk"), mark("capA"))), ("B", call(V("mk"), mark("denied")))],
                 [("A", ["capA"], False), ("B", ["denied"], False)],
                 [V("cap"), ("dot", V("cap"), "capA")]))
    fams.append(("factory-nested-tuple",
                 [("mk", ("fn", "r", mkev(tup(("scope", tup(("k", tup(("read", FWD))))))))),
                  ("A", call(V("mk"), capfn("capA"))), ("B", call(V("mk"), capfn("denied"))), ("P", call(V("mk"), OSF))],
                 [("A", ["capA"], False), ("B", ["denied"], False), ("P", [], True)],
                 [call(("dot", V("k"), "read")), V("k")]))
    fams.append(("factory-scope-and-stdlib",
                 [("mk", ("fn", "r", ("fn", "s", mkev(tup(("stdlib", tup(("io", tup(("read", ("fn", "p", call(V("s"), V("p")))))))),
                                                          ("scope", tup(("read", FWD)))))))),
                  ("A", call(call(V("mk"), capfn("capA")), capfn("capB"))),
                  ("B", call(call(V("mk"), capfn("denied")), capfn("capB"))),
                  ("C", call(call(V("mk"), capfn("capA")), capfn("denied")))],
                 [("A", ["capA", "capB"], False), ("B", ["denied", "capB"], False), ("C", ["capA", "denied"], False)],
                 [READ, call(std("io", "read"))]))
    fams.append(("eval-entry-points",
                 [("mk", ("fn", "r", mkev(tup(("scope", tup(("read", FWD))))))),
                  ("A", call(V("mk"), capfn("capA"))), ("B", call(V("mk"), capfn("denied"))),
                  ("E", tup(("eval", EV_EVAL))), ("W", tup(("eval", EV_VALUE))),
                  ("G", tup(("eval", ("fn", "s", call(("dot", call(V("mk"), capfn("capB")), "eval"), V("s"))))))],
                 [("A", ["capA"], False), ("B", ["denied"], False), ("E", [], False), ("W", [], False), ("G", ["capB"], False)],
                 [READ, std("str", "lower"), nest_safe]))
    return fams


CAPS = ["capA", "capB", "denied"]
ORDERS2 = [(0, 1), (1, 0), (0, 1, 0), (0, 0, 1), (1, 1, 0), (1, 0, 1)]


def mk_hist(fam, uses, inline, stream):
    """uses: [(evaluator name, probe expr, rep)]"""
    name, binds, evs, _ = fam
    info = {e[0]: e for e in evs}
    us = []
    for i, (ev, src, rep) in enumerate(uses):
        us.append({"name": "u%d" % i, "ev": ev, "src": src, "rep": rep,
                   "allowed": info[ev][1], "may_file": info[ev][2]})
    return {"family": name, "binds": binds, "evs": [e[0] for e in evs], "uses": us, "inline": inline, "stream": stream}


def gen_histories(rng, tier):
    fams = families()
    out = []
    k = 0
    # enumerated core (does not use the random stream): every family x every unordered pair of its
    # evaluators x every order x every probe; driven / inline alternate
    for fam in fams:
        evs = [e[0] for e in fam[2]]
        for i in range(len(evs)):
            for j in range(i + 1, len(evs)):
                pair = (evs[i], evs[j])
                for oi, order in enumerate(ORDERS2):
                    # the first probe of a family is the call of the capability: full product with the orders;
                    # the other probes rotate over the orders
                    probes = [fam[3][0]]
                    if len(fam[3]) > 1 and oi < 4:
                        probes.append(fam[3][1 + k % (len(fam[3]) - 1)])
                    for probe in probes:
                        uses = [(pair[o], probe, "RString") for o in order]
                        out.append(mk_hist(fam, uses, k % 2 == 1, "hist-core"))
                        k += 1
    n_rand = 110 if tier == "quick" else 1500
    for _ in range(n_rand):
        fam = rng.choice(fams)
        evs = [e[0] for e in fam[2]]
        n = rng.choice([2, 3, 3, 4, 5])
        uses = []
        for _ in range(n):
            rep = "RString"
            r = rng.random()
            if r < 0.3:
                rep = rng.choice(["RBytes", "ROffsetString"])
            elif r < 0.36:
                rep = rng.choice(["RCharArray", "REmptyString", "REmptyBytes"])
            uses.append((rng.choice(evs), rng.choice(fam[3]), rep))
        out.append(mk_hist(fam, uses, rng.random() < 0.5, "hist-random"))
    for i, h in enumerate(out):
        h["id"] = i
    return out


# ---------------------------------------------------------------- rendering
def lets_text(binds, body):
    return "".join("let %s = %s; " % (x, arrai(e)) for x, e in binds) + body


def setup_text(h):
    return lets_text(h["binds"], "(" + ", ".join("%s: %s" % (n, n) for n in h["evs"]) + ")")


def use_text(u):
    return "(%s).eval(%s)" % (u["ev"], arrai(Q(u["src"], u["rep"])))


def inline_text(h):
    return lets_text(list(h["binds"]), "".join("let %s = %s; " % (u["name"], use_text(u)) for u in h["uses"]) +
                     "(" + ", ".join("%s: %s" % (u["name"], u["name"]) for u in h["uses"]) + ")")


def program_text(h):
    """the replayable program: the inline form is a complete arr.ai program either way"""
    return inline_text(h)


def harness_case(h):
    return {"id": h["id"], "setup": setup_text(h), "evs": h["evs"], "inline": inline_text(h) if h["inline"] else "",
            "uses": [{"name": u["name"], "ev": u["ev"], "lit": arrai(Q(u["src"], u["rep"]))} for u in h["uses"]]}


def strs(xs):
    return "[" + "; ".join(cstr(x) for x in xs) + "]"


ST = {"ok": 0, "err": 1, "panic": 1}


def coq_case(h, o):
    o = o or {}
    obs = {u.get("name"): u for u in o.get("uses", [])}
    rows = []
    for u in h["uses"]:
        ou = obs.get(u["name"]) or {}
        rows.append("{| hu_name := %s; hu_ev := %s; hu_rep := %s; hu_src := %s; hu_allowed := %s; hu_may_file := %s; "
                    "hu_st := %d; hu_marks := %s; hu_file := %s |}" % (
                        cstr(u["name"]), cstr(u["ev"]), u["rep"], coq(u["src"]), strs(u["allowed"]), cbool(u["may_file"]),
                        ST.get(ou.get("st"), 3), strs(ou.get("marks") or []), cbool(bool(ou.get("file")))))
    binds = "[" + "; ".join("(%s, %s)" % (cstr(x), coq(e)) for x, e in h["binds"]) + "]"
    return ("  {| h_id := %d; h_binds := %s; h_evs := %s; h_caps := %s; h_inline := %s;\n     h_uses := [%s];\n     h_st := %d; h_file := %s |}" % (
        h["id"], binds, strs(h["evs"]), strs(CAPS), cbool(h["inline"]), ";\n       ".join(rows),
        ST.get(o.get("st"), 3), cbool(bool(o.get("file")))))


def run_histories(run, vh, hists, shards=4):
    """harness + model, `shards` pipelines side by side (every history is a self-contained program)"""
    import concurrent.futures
    qc = qcur_term(run)
    n = max(1, (len(hists) + shards - 1) // shards)
    chunks = [hists[i:i + n] for i in range(0, len(hists), n)]

    def do(idx_chunk):
        idx, chunk = idx_chunk
        outs, rc, err = run_harness(vh, "c18h", [harness_case(h) for h in chunk], timeout=600)
        body = ["From Coq Require Import List String ZArith.",
                "From Arrai Require Import Sys.Sandbox Sys.SandboxGen Sys.SandboxHist Check.C18HistCheck.",
                "Import ListNotations. Open Scope string_scope. Open Scope list_scope.",
                "Definition qcur : quirks := %s." % qc,
                "Definition cases : list hcase := [",
                ";\n".join(coq_case(h, outs.get(h["id"])) for h in chunk),
                "].\nDefinition R := Eval vm_compute in report qcur cases.\nPrint R."]
        rc2, so, se = coq_eval("c18_hist_%d" % idx, "\n".join(body))
        return outs, coq_report(so, "R"), se

    all_outs, results = {}, {}
    with concurrent.futures.ThreadPoolExecutor(max_workers=shards) as ex:
        for (outs, rep, se), chunk in zip(ex.map(do, enumerate(chunks)), chunks):
            all_outs.update(outs)
            if rep is None:
                run.corr_breaks.append({"what": "model evaluation failed (Check/C18HistCheck.v)", "log": se[-1500:]})
                continue
            for h in chunk:
                results[h["id"]] = 0
            for hid, code in rep:
                results[hid] = code
    return all_outs, results


def judge(run, hists, outs, results):
    """verdicts (DESIGN §4) + coverage histograms of the history streams"""
    hist = {"stream": {}, "family": {}, "mode": {}, "length": {}, "order": {}, "use_status": {}, "marks_observed": {},
            "file_reads": 0, "reps": {}}

    def bump(hh, k):
        hist[hh][k] = hist[hh].get(k, 0) + 1

    for h in hists:
        o = outs.get(h["id"]) or {}
        code = results.get(h["id"])
        if code is None:
            continue
        bump("stream", h["stream"]); bump("family", h["family"]); bump("mode", "inline" if h["inline"] else "driven")
        bump("length", str(len(h["uses"])))
        names = []
        for u in h["uses"]:
            if u["ev"] not in names:
                names.append(u["ev"])
            bump("reps", u["rep"])
        bump("order", "".join("XYZWV"[min(names.index(u["ev"]), 4)] for u in h["uses"]))
        for ou in o.get("uses", []):
            bump("use_status", ou.get("st", "none"))
            for m in ou.get("marks") or []:
                bump("marks_observed", m)
            if ou.get("file"):
                hist["file_reads"] += 1
        rec = {"case": {"stream": "history", "hist": {k: h[k] for k in ("family", "binds", "evs", "uses", "inline")},
                        "text": program_text(h), "mode": "top"},
               "observed": o, "code": code}
        if code & 128:
            run.notes.append("model out of fuel on history %s" % program_text(h)[:200])
            continue
        if code & 4:
            rec["oracle"] = ("a sandboxed source obtained a capability marker or read a file that the configuration of ITS OWN "
                             "evaluator does not hand over (another evaluator of the same run does): Check/C18HistCheck.v: oracle")
            run.classify_failure(None, rec)
        elif code & 2:
            run.corr_breaks.append({"what": "the model of the inline program differs from the model of its uses "
                                            "(Sys/SandboxHist.v vs Sys/Sandbox.v: eval of let-bound uses)", **rec})
        elif code & 1:
            if code & 64:
                run.notes.append("history depends on a known-defective site; difference not judged: %s" % program_text(h)[:200])
            else:
                run.corr_breaks.append({"what": "a use of an evaluator does not give what the same (config, source) gives alone "
                                                "(theorem C18_evaluator_uses_are_independent; hist_run no_memo of Sys/SandboxHist.v): "
                                                "status / markers / file read differ", **rec})
    return hist


def from_replay(case):
    h = case["hist"]
    binds = [(x, T(e)) for x, e in h["binds"]]
    uses = [dict(u, src=T(u["src"])) for u in h["uses"]]
    return {"id": 0, "family": h.get("family", "replay"), "binds": binds, "evs": h["evs"], "uses": uses,
            "inline": bool(h.get("inline")), "stream": "replay"}
