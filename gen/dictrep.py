"""Correspondence of the transcribed dictionary representation (coq/Rep/DictRep.v, theorems in Proofs/DictRepP.v)
with rel/value_set_dict.go: API histories (NewDict / With / Without / Where / Has / Count / CallAll / Equal) run on
the implementation through `vharness dictrep` and replayed on the model inside Coq (Check/DictCheck.v).
Used by the checks of C01 and C02."""
import itertools
from common import *

# operand values: (source text, Coq val term); pairwise different denotations
VALS = [("1", "(vint 1)"), ("2", "(vint 2)"), ("3", "(vint 3)"), ("0", "(vint 0)"), ("-1", "(vint (-1))"),
        ("1.5", "(VNum (NHalf 1))"), ("'a'", "(vstr [97])"), ("'ab'", "(vstr [97;98])"), ("{}", "(VSet [])"),
        ("true", "vtrue"), ("()", "(VTup [])"), ("(a: 1)", "(VTup [([97], vint 1)])"), ("(a: 2)", "(VTup [([97], vint 2)])"),
        ("{1, 2}", "(VSet [vint 1; vint 2])"), ("[1, 2]", "(varr [vint 1; vint 2])"), ("[1]", "(varr [vint 1])"),
        ("{1: 2}", "(VSet [ventry (vint 1) (vint 2)])"), ("{(@: 1, @value: 2), (@: 1, @value: 3)}", "(VSet [ventry (vint 1) (vint 2); ventry (vint 1) (vint 3)])"),
        ("(@: 1, @value: 2)", "(ventry (vint 1) (vint 2))"), ("(@: 1, @item: 2)", "(vitem 1 (vint 2))")]
NV = len(VALS)


def entry_src(k, v):
    return "(@: %s, @value: %s)" % (VALS[k][0], VALS[v][0])


def entry_coq(k, v):
    return "(ventry %s %s)" % (VALS[k][1], VALS[v][1])


class Hist:
    """a history under construction; tracks the mathematical content of every register (a set of (k, v) index pairs,
    None = not a dictionary-shaped set / error / query result)"""

    def __init__(self, label):
        self.label, self.ops, self.coq, self.sets = label, [], [], []

    def new(self, allow, entries):
        self.ops.append({"op": "new", "allow": allow, "entries": [[VALS[k][0], VALS[v][0]] for k, v in entries]})
        self.coq.append("HNew %s [%s]" % (cbool(allow), "; ".join("(%s, %s)" % (VALS[k][1], VALS[v][1]) for k, v in entries)))
        keys = [k for k, _ in entries]
        self.sets.append(None if (not allow and len(set(keys)) != len(keys)) else set(entries))
        return len(self.sets) - 1

    def with_(self, r, k, v):
        self.ops.append({"op": "with", "d": r, "v": entry_src(k, v)})
        self.coq.append("HWith %d %s" % (r, entry_coq(k, v)))
        self.sets.append(None if not self.sets[r] else self.sets[r] | {(k, v)})
        return len(self.sets) - 1

    def with_raw(self, r, i):
        self.ops.append({"op": "with", "d": r, "v": VALS[i][0]})
        self.coq.append("HWith %d %s" % (r, VALS[i][1]))
        self.sets.append(None)
        return len(self.sets) - 1

    def without(self, r, k, v):
        self.ops.append({"op": "without", "d": r, "v": entry_src(k, v)})
        self.coq.append("HWithout %d %s" % (r, entry_coq(k, v)))
        self.sets.append(None if not self.sets[r] else self.sets[r] - {(k, v)})
        return len(self.sets) - 1

    def without_raw(self, r, i):
        self.ops.append({"op": "without", "d": r, "v": VALS[i][0]})
        self.coq.append("HWithout %d %s" % (r, VALS[i][1]))
        self.sets.append(self.sets[r] if self.sets[r] else None)
        return len(self.sets) - 1

    def where(self, r, pred, c=None):
        o = {"op": "where", "d": r, "pred": pred}
        if c is not None:
            o["c"] = VALS[c][0]
        self.ops.append(o)
        ct = {"all": "PAll", "none": "PNone", "keyne": "(PKeyNe %s)", "valne": "(PValNe %s)", "valeq": "(PValEq %s)"}[pred]
        self.coq.append("HWhere %d %s" % (r, ct % VALS[c][1] if c is not None else ct))
        s = self.sets[r]
        if s:
            s = {(k, v) for k, v in s if {"all": True, "none": False, "keyne": k != c, "valne": v != c, "valeq": v == c}[pred]}
        self.sets.append(s if s else None)
        return len(self.sets) - 1

    def query(self, op, **kw):
        self.ops.append(dict(op=op, **kw))
        self.sets.append(None)

    def has(self, r, k, v):
        self.query("has", d=r, v=entry_src(k, v))
        self.coq.append("HHas %d %s" % (r, entry_coq(k, v)))

    def has_raw(self, r, i):
        self.query("has", d=r, v=VALS[i][0])
        self.coq.append("HHas %d %s" % (r, VALS[i][1]))

    def count(self, r):
        self.query("count", d=r)
        self.coq.append("HCount %d" % r)

    def call(self, r, k):
        self.query("call", d=r, k=VALS[k][0])
        self.coq.append("HCall %d %s" % (r, VALS[k][1]))

    def equal(self, a, b):
        self.query("equal", a=a, b=b)
        self.coq.append("HEqual %d %d" % (a, b))

    def probe(self, r, rng=None):
        """inspect register r in every way: count, has of members and non-members, calls, and equality with the same
        members built directly (in another order) and with near misses"""
        s = self.sets[r]
        self.count(r)
        if not s:
            return
        ms = sorted(s)
        if rng:
            rng.shuffle(ms)
        for k, v in ms[:3]:
            self.has(r, k, v)
            self.has(r, k, (v + 1) % NV)
        for k in sorted({k for k, _ in ms})[:2]:
            self.call(r, k)
        self.call(r, (ms[0][0] + 7) % NV)
        fresh = self.new(True, list(reversed(ms)))
        self.equal(r, fresh)
        self.equal(fresh, r)
        if len(ms) > 1:
            near = self.new(True, ms[1:])
            self.equal(r, near)
        k, v = ms[0]
        near2 = self.new(True, ms + [(k, (v + 1) % NV)])
        self.equal(r, near2)


def core(tier="thorough"):
    """enumerated, independent of the random stream: every word of length <= 3 over with/without of three entries on two
    keys, from a one-entry and from a multi-valued start, every result inspected; plus boundary histories"""
    hs = []
    letters = [("w", 0, 0), ("w", 0, 1), ("w", 1, 0), ("x", 0, 0), ("x", 0, 1), ("x", 1, 0), ("w", 0, 2), ("x", 0, 2)]
    starts = [[(0, 0)], [(0, 0), (0, 1)], [(0, 0), (0, 1), (0, 2), (1, 0)]]
    for si, st in enumerate(starts):
        for n in ((1, 2, 3) if tier == "thorough" else (1, 2)):
            for word in itertools.product(letters if n < 3 else letters[:6], repeat=n):
                h = Hist("core:%d:%s" % (si, "".join("%s%d%d" % w for w in word)))
                r = h.new(True, st)
                for kind, k, v in word:
                    r = h.with_(r, k, v) if kind == "w" else h.without(r, k, v)
                h.probe(r)
                hs.append(h)
    # NewDict with and without duplicate keys allowed, repeated entries, the empty list
    for allow in (True, False):
        for es in ([], [(0, 0)], [(0, 0), (0, 0)], [(0, 0), (0, 1)], [(0, 0), (1, 0), (0, 1), (0, 0), (0, 2)], [(8, 8), (8, 0)]):
            h = Hist("core:new:%s:%d" % (allow, len(es)))
            r = h.new(allow, es)
            h.probe(r)
            hs.append(h)
    # Where with every predicate on single- and multi-valued dictionaries; values leaving the representation
    for st in ([(0, 0), (1, 1)], [(0, 0), (0, 1), (1, 0)], [(0, 0), (0, 1), (0, 2)]):
        for pred, c in (("all", None), ("none", None), ("keyne", 0), ("valne", 0), ("valne", 1), ("valeq", 0), ("valeq", 2)):
            h = Hist("core:where:%s" % pred)
            r = h.new(True, st)
            r2 = h.where(r, pred, c)
            h.probe(r2)
            h.probe(r)
            hs.append(h)
        for i in (0, 11, 15, 19):
            h = Hist("core:raw:%d" % i)
            r = h.new(True, st)
            h.has_raw(r, i)
            r2 = h.without_raw(r, i)
            h.probe(r2)
            h.with_raw(r, i)
            h.probe(r)
            hs.append(h)
    return hs


def random_hist(rng, n):
    h = Hist("random:%d" % n)
    nk = rng.choice([2, 3, 3, 5, NV])
    nv = rng.choice([2, 3, 4, NV])
    keys = rng.sample(range(NV), nk)
    vals = rng.sample(range(NV), nv)
    ent = lambda: (rng.choice(keys), rng.choice(vals))
    live = [h.new(rng.random() < 0.85, [ent() for _ in range(rng.choice([0, 1, 1, 2, 3, 4, 6]))])]
    for _ in range(rng.randint(3, 9)):
        r = rng.choice(live[-3:])
        s = h.sets[r]
        x = rng.random()
        if x < 0.40:
            live.append(h.with_(r, *ent()))
        elif x < 0.70:
            live.append(h.without(r, *(rng.choice(sorted(s)) if s and rng.random() < 0.75 else ent())))
        elif x < 0.80:
            pred = rng.choice(["all", "none", "keyne", "valne", "valeq"])
            live.append(h.where(r, pred, None if pred in ("all", "none") else rng.choice(keys if pred == "keyne" else vals)))
        elif x < 0.84:
            h.with_raw(r, rng.randrange(NV))
        elif x < 0.88:
            live.append(h.without_raw(r, rng.randrange(NV)))
        elif x < 0.94 and len(live) > 1:
            h.equal(r, rng.choice(live))
        else:
            h.probe(r, rng)
    h.probe(live[-1], rng)
    if len(live) > 2:
        h.probe(rng.choice(live[:-1]), rng)
    return h


def obs_term(st):
    ty = st.get("ty")

    def vs(ds):
        ts = [val_term(d) for d in ds]
        return None if any(t is None for t in ts) else "[" + "; ".join(ts) + "]"
    if ty in ("dict", "other", "empty"):
        m = st["members"]
        ms = vs(m["s"])
        if ms is None:
            return None
        if ty == "empty":
            return "OEmpty" if not m["s"] and m["c"] == 0 else "(OOther %s %d)" % (ms, m["c"])
        if ty == "other":
            return "(OOther %s %d)" % (ms, m["c"])
        lay = []
        for e in st["layout"]:
            k, v = val_term(e["k"]), vs(e["v"])
            if k is None or v is None:
                return None
            lay.append("(%s, %s, %s)" % (k, cbool(e["m"]), v))
        return "(ODict [%s] %s %d)" % ("; ".join(lay), ms, m["c"])
    if ty == "err":
        return "OErrV"
    if ty == "bool":
        return "(OBool %s)" % cbool(st["b"])
    if ty == "num":
        return "(ONum %d)" % st["n"]
    if ty == "vals":
        t = vs(st["vs"])
        return None if t is None else "(OVals %s)" % t
    if ty == "skip":
        return "OSkip"
    return None


def run_stream(run, vh, rng, tier, only=None):
    """runs the histories; records violations / correspondence breaks in `run`; returns coverage numbers"""
    hs = core(tier)
    nrand = 1500 if tier == "thorough" else 90
    hs += [random_hist(rng, i) for i in range(nrand)]
    if only is not None:
        hs = [h for h in hs if h.label in only]
    reqs = [{"id": i, "ops": h.ops} for i, h in enumerate(hs)]
    t0 = time.time()
    outs, rc, err = run_harness(vh, "dictrep", reqs)
    log("dictrep: harness %.1fs for %d histories" % (time.time() - t0, len(reqs)))
    cases, bad_sym = [], 0
    kinds = {}
    for i, h in enumerate(hs):
        o = outs.get(i) or {"st": "crash", "steps": []}
        rec = {"case": {"stream": "dictrep", "label": h.label, "ops": h.ops, "coq": h.coq}, "observed": o}
        if o.get("st") != "ok":
            rec["oracle"] = "rel.Dict history: the implementation panicked / died at step %s (%s)" % (o.get("at_step"), o.get("site"))
            if str(o.get("msg", "")).startswith("harness:"):
                run.corr_breaks.append({"what": "dictrep harness could not run the history", **rec})
            else:
                run.classify_failure(None, rec)
            continue
        steps = o.get("steps") or []
        terms = [obs_term(s) for s in steps]
        if len(terms) != len(h.coq) or any(t is None for t in terms):
            run.corr_breaks.append({"what": "dictrep observation outside the model's value universe", **rec})
            continue
        for s in steps:
            kinds[s.get("ty")] = kinds.get(s.get("ty"), 0) + 1
            if s.get("ty") == "bool" and "b2" in s and s["b"] != s["b2"]:
                bad_sym += 1
                rec2 = dict(rec)
                rec2["oracle"] = "Dict.Equal is not symmetric (a.Equal(b) != b.Equal(a))"
                run.classify_failure(None, rec2)
        cases.append((i, h, terms, rec))
    shard = 40
    nviol = ncorr = 0
    layouts = {"multi": 0, "single_only": 0}
    for st in (s for o in outs.values() for s in (o.get("steps") or []) if s.get("ty") == "dict"):
        layouts["multi" if any(e["m"] for e in st["layout"]) else "single_only"] += 1
    import concurrent.futures

    def do(j):
        chunk = cases[j:j + shard]
        body = ["From Arrai Require Import Base.Val Spec.SetAlg Eval.Interp Rep.DictRep Check.DictCheck.",
                "Definition cases : list hcase := ["]
        body.append(";\n".join("  {| h_id := %d; h_hist := [%s] |}" % (i, "; ".join("(%s, %s)" % (op, t) for op, t in zip(h.coq, terms)))
                               for i, h, terms, rec in chunk))
        body.append("].\nDefinition R := Eval vm_compute in hreport cases.\nPrint R.")
        rc2, so, se = coq_eval("dictrep_%d_%d" % (os.getpid(), j), "\n".join(body))
        return chunk, coq_report(so, "R"), (so + se)[-1500:]

    with concurrent.futures.ThreadPoolExecutor(max_workers=12) as ex:
        results = list(ex.map(do, range(0, len(cases), shard)))
    for chunk, rep, lg in results:
        if rep is None:
            run.corr_breaks.append({"what": "dictionary model could not be evaluated (Check/DictCheck.v)", "log": lg})
            continue
        byid = {i: rec for i, h, terms, rec in chunk}
        for cid, code in rep:
            rec = dict(byid[cid])
            if code == 999:
                rec["oracle"] = "a dictionary built by the MODEL violates the representation invariant (contradicts Proofs/DictRepP.v: model or theorem broken)"
                run.corr_breaks.append({"what": "dictrep invariant", **rec})
                ncorr += 1
            elif code // 100 == 1:
                rec["oracle"] = ("rel.Dict history step %d: the implementation's result is not the mathematical one "
                                 "(members / Count / Has / CallAll / Equal vs the set of entries; Properties/C01.v C01_dict_*, C02_dict_*)" % (code % 100))
                run.classify_failure(None, rec)
                nviol += 1
            else:
                rec["oracle"] = ("rel.Dict history step %d: the implementation's representation (one value / several values per key, "
                                 "result kind) differs from the transcribed model Rep/DictRep.v although the denoted set agrees" % (code % 100))
                run.corr_breaks.append({"what": "dictrep correspondence", **rec})
                ncorr += 1
    return {"histories": len(hs), "compared": len(cases), "steps": sum(len(h.coq) for h in hs), "step_kind_histogram": kinds,
            "dict_layouts_observed": layouts, "failing": nviol, "representation_only_differences": ncorr,
            "rule": "API histories over rel.Dict: NewDict(allowDupKeys) / With / Without / Where(5 predicates) / Has / Count / CallAll / Equal over %d operand values "
                    "(numbers, strings, tuples, sets, arrays, dicts, entry-shaped and item-shaped tuples); enumerated core = every word of length <= 3 over with/without of "
                    "4 entries on 2 keys from 3 starts, NewDict boundary cases, every Where predicate, values leaving the representation; every result inspected by Count, "
                    "Has of members and non-members, CallAll, Equal with the same members rebuilt in another order and with near misses; each step compared in Coq with "
                    "Rep/DictRep.v (layout per key, members, count, answers)" % NV}
