"""C08: documented source-level equivalences preserve meaning (metamorphic run + reference semantics)."""
import random
from common import *
import expr as X
import evalcheck
import c01, c05, c09, c04
from c12 import canon

PROP = "C08"
PROP_FILES = ["Properties/C08.v", "Check/EvalCheck.v"]
N = X.num

KIDS = {  # positions of sub-expressions per node kind
    "bin": [2, 3], "cmp": [2, 3], "un": [2], "where": [1, 2], "darrow": [1, 2], "seqarrow": [2, 3], "call": [1, 2],
    "safecall": [1, 2, 3], "dot": [1], "safedot": [1, 3], "and": [1, 2], "or": [1, 2], "join": [2, 3], "nest": [4],
    "snest": [2], "rank": [1, 2], "arrow": [1, 2], "dotfn": [1],
}


def closed_data(e):
    """sub-expressions that are closed and first-order enough to be let-bound (no free `.`)"""
    return not mentions_var(e)


def mentions_var(e):
    if isinstance(e, tuple):
        if e and e[0] in ("var", "dotfn", "fn", "let", "condpat"):
            return True
        return any(mentions_var(x) for x in e[1:])
    if isinstance(e, list):
        return any(mentions_var(x) for x in e)
    return False


def positions(e, path=()):
    """all (path, node) of expression nodes reachable through KIDS and container literals"""
    out = [(path, e)]
    k = e[0]
    for i in KIDS.get(k, []):
        out += positions(e[i], path + (i,))
    if k in ("set",):
        for j, x in enumerate(e[1]):
            out += positions(x, path + (1, j))
    if k == "arr":
        for j, x in enumerate(e[1]):
            if x is not None:
                out += positions(x, path + (1, j))
    if k == "tup":
        for j, (n, x) in enumerate(e[1]):
            out += positions(x, path + (1, j, 1))
    return out


def replace(e, path, new):
    if not path:
        return new
    i = path[0]
    if isinstance(e, tuple):
        l = list(e)
        l[i] = replace(l[i], path[1:], new)
        return tuple(l)
    l = list(e)
    l[i] = replace(l[i], path[1:], new)
    return l


def spelled(e):
    """the spelled-out set of tuples of a sugar literal, or None"""
    k = e[0]
    if k == "str" and e[1]:
        return X.set_([X.tup([("@", N(e[2] + i)), ("@char", N(ord(c)))]) for i, c in enumerate(e[1])])
    if k == "bytes" and e[1]:
        return X.set_([X.tup([("@", N(e[2] + i)), ("@byte", N(b))]) for i, b in enumerate(e[1])])
    if k == "arr" and any(x is not None for x in e[1]):
        return X.set_([X.tup([("@", N(e[2] + i)), ("@item", x)]) for i, x in enumerate(e[1]) if x is not None])
    if k == "dict" and e[1]:
        return X.set_([X.tup([("@", a), ("@value", b)]) for a, b in e[1]])
    if k == "rel" and e[2]:
        return X.set_([X.tup(list(zip(e[1], r))) for r in e[2]])
    if k == "true":
        return X.set_([X.tup([])])
    return None


def rewrite(rng, e):
    """returns (kind, rewritten source, rewritten ast or None)"""
    pos = positions(e)
    kind = rng.choice(["let", "arrow", "call", "parens", "comment", "spell", "dotbinder", "lazy_and", "lazy_or", "lazy_cond", "letvalue"])
    if kind in ("let", "arrow", "call", "letvalue"):
        cands = [(p, n) for p, n in pos if p and closed_data(n) and n[0] not in ("num",)]
        if not cands:
            kind = "parens"
        else:
            p, n = rng.choice(cands)
            body = replace(e, p, X.var("t_"))
            if mentions_bound_dot(e, p):
                kind = "parens"
            elif kind in ("let", "letvalue"):
                r = X.let(X.pvar("t_"), n, body)
                return "let-introduction", X.src(r), r
            elif kind == "arrow":
                r = X.arrow(n, X.fn(X.pvar("t_"), body))
                return "arrow-form", X.src(r), r
            else:
                r = X.call(X.fn(X.pvar("t_"), body), n)
                return "call-form", X.src(r), r
    if kind == "spell":
        cands = [(p, n) for p, n in pos if spelled(n) is not None]
        if cands:
            p, n = rng.choice(cands)
            r = replace(e, p, spelled(n))
            return "sugar-spelled-out", X.src(r), r
        kind = "parens"
    if kind == "dotbinder":
        cands = [(p, n) for p, n in pos if n[0] == "dotfn" and not has_inner_dotfn(n[1])]
        if cands:
            p, n = rng.choice(cands)
            r = replace(e, p, X.fn(X.pvar("z_"), subst_var(n[1], ".", "z_")))
            return "explicit-binder", X.src(r), r
        kind = "parens"
    if kind.startswith("lazy"):
        bad = X.dot(N(1), "nope")                      # fails when evaluated
        if kind == "lazy_and":
            r = X.or_(X.and_(X.set_([]), bad), e)      # ({} && fail) || e  ==  e
        elif kind == "lazy_or":
            r = X.and_(X.or_(N(1), bad), e)            # (1 || fail) && e  ==  e
        else:
            r = X.cond([(X.set_([]), bad), (N(1), e)], bad)
        return kind, X.src(r), r
    if kind == "comment":
        s = X.src(e)
        # comments and blank space where the grammar takes them: before, after, and after an opening parenthesis
        if s.startswith("("):
            s = "(  # a comment, then a new line\n\t " + s[1:]
        return "comment-whitespace", "# leading comment\n\t " + s + "  # trailing\n", None
    # redundant parentheses around a random sub-expression (source level)
    p, n = rng.choice(pos)
    marker = X.var("PARENS_")
    s = X.src(replace(e, p, marker))
    return "redundant-parentheses", s.replace("PARENS_", "((" + X.src(n) + "))"), None


def mentions_bound_dot(e, path):
    """is the position under a dotfn binder (then the sub-term may not be closed even if it has no var)?"""
    node = e
    for i in path:
        if isinstance(node, tuple) and node and node[0] in ("dotfn", "fn"):
            return True
        node = node[i]
    return False


def has_inner_dotfn(e):
    if isinstance(e, tuple):
        if e and e[0] in ("dotfn", "fn", "let"):
            return True
        return any(has_inner_dotfn(x) for x in e[1:])
    if isinstance(e, list):
        return any(has_inner_dotfn(x) for x in e)
    return False


def subst_var(e, old, new):
    if isinstance(e, tuple):
        if e and e[0] == "var":
            return ("var", new) if e[1] == old else e
        return tuple(subst_var(x, old, new) for x in e)
    if isinstance(e, list):
        return [subst_var(x, old, new) for x in e]
    return e


def base_programs(rng, tier):
    progs = []
    for mod in (c01, c05, c04, c09):
        cs = mod.gen_cases(random.Random(rng.randrange(1 << 30)), "quick")
        rng.shuffle(cs)
        progs += [c["ast"] for c in cs[:(90 if tier == "quick" else 900)]]
    return progs


def main(tier, seed, replay=None):
    run = Run(PROP, tier, seed)
    vh, proof = prepare(PROP_FILES, thorough=(tier == "thorough"))
    rng = random.Random(seed)
    pairs = []
    if replay:
        rp = json.load(open(replay))
        pairs = [(rp["case"]["kind"], rp["case"]["original"], rp["case"]["rewritten"], None, None)]
    else:
        for e in base_programs(rng, tier):
            for _ in range(2):
                try:
                    kind, s2, ast2 = rewrite(rng, e)
                except Exception:
                    continue
                pairs.append((kind, X.src(e), s2, e, ast2))
    reqs = []
    for i, (kind, s1, s2, _, _) in enumerate(pairs):
        reqs.append({"id": 2 * i, "src": s1, "budget_ms": 6000})
        reqs.append({"id": 2 * i + 1, "src": s2, "budget_ms": 6000})
    outs, _, _ = run_harness(vh, "eval", reqs, stall=12)
    kinds, agree_val = {}, 0
    for i, (kind, s1, s2, _, _) in enumerate(pairs):
        a, b = outs.get(2 * i) or {"st": "missing"}, outs.get(2 * i + 1) or {"st": "missing"}
        kinds[kind] = kinds.get(kind, 0) + 1
        rec = {"case": {"kind": kind, "original": s1, "rewritten": s2},
               "observed": {"original": {k: a.get(k) for k in ("st", "repr", "msg", "site")}, "rewritten": {k: b.get(k) for k in ("st", "repr", "msg", "site")}}}
        fa, fb = a.get("st") != "ok", b.get("st") != "ok"
        if fa != fb:
            rec["oracle"] = "the rewrite (%s) changes whether the program fails" % kind
            run.classify_failure(None, rec)
        elif not fa:
            if "f" in a["val"] or "f" in b["val"]:
                continue
            if canon(a["val"]) != canon(b["val"]):
                rec["oracle"] = "the rewrite (%s) changes the value" % kind
                run.classify_failure(None, rec)
            else:
                agree_val += 1
    # the rewritten programs (where an AST exists) also agree with the reference semantics
    mcases = [{"id": i, "label": p[0], "ast": p[4]} for i, p in enumerate(pairs) if p[4] is not None][:(250 if tier == "quick" else 3000)]
    mouts, mcodes, mfails = evalcheck.evaluate(vh, mcases) if mcases else ({}, {}, [])
    evalcheck.judge(run, mcases, mouts, mcodes, mfails, "rewritten program vs the reference semantics", value_codes=(1, 2, 3), corr_codes=(4, 5, 6), skip_regions=True)
    step = max(1, len(pairs) // 6)
    run.cov.update({"evaluations": len(reqs) + len(mcases), "distinct_nontrivial": agree_val,
                    "rule": "programs from the C01/C04/C05/C09 generators, each rewritten at a random position by one documented equivalence: let-introduction of a closed sub-expression (`let t = s; e[t/s]`), the same as `s -> \\\\t e` and `(\\\\t e)(s)`, sugar literal -> spelled-out set of tuples, implicit \\\\. binder -> explicit \\\\z, a failing operand hidden behind &&, || or cond, redundant parentheses, comments and whitespace; original and rewritten source both evaluated by syntax.EvaluateExpr: equal canonical values or both fail; non-trivial = pairs where both evaluate to equal values",
                    "samples": [{"kind": p[0], "original": p[1][:160], "rewritten": p[2][:220]} for p in pairs[::step]][:6],
                    "rewrite_histogram": kinds, "pairs": len(pairs), "exhaustive": False})
    run.assumptions = ["the wbnf parser and syntax/compile.go are exercised, not modelled"]
    return run.finish(proof)
