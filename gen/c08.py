"""C08: documented source-level equivalences preserve meaning (metamorphic run + reference semantics)."""
import random
from common import *
import expr as X
import evalcheck
import c01, c05, c09, c04
import c08pos
from c12 import canon

PROP = "C08"
PROP_FILES = ["Properties/C08.v", "Check/EvalCheck.v", "Check/C08Check.v"]
N = X.num

KIDS = {  # positions of sub-expressions per node kind
    "bin": [2, 3], "cmp": [2, 3], "un": [2], "where": [1, 2], "darrow": [1, 2], "seqarrow": [2, 3], "call": [1, 2],
    "safecall": [1, 2, 3], "dot": [1], "safedot": [1, 3], "and": [1, 2], "or": [1, 2], "join": [2, 3], "nest": [4],
    "snest": [2], "rank": [1, 2], "arrow": [1, 2], "dotfn": [1],
}


def closed_data(e):
    """sub-expressions that are closed and first-order enough to be let-bound (no free `.`)"""
    return not mentions_var(e)


def mentions_var(e):
    if isinstance(e, tuple):
        if e and e[0] in ("var", "dotfn", "fn", "let", "condpat"):
            return True
        return any(mentions_var(x) for x in e[1:])
    if isinstance(e, list):
        return any(mentions_var(x) for x in e)
    return False


def positions(e, path=()):
    """all (path, node) of expression nodes reachable through KIDS and container literals"""
    out = [(path, e)]
    k = e[0]
    for i in KIDS.get(k, []):
        out += positions(e[i], path + (i,))
    if k in ("set",):
        for j, x in enumerate(e[1]):
            out += positions(x, path + (1, j))
    if k == "arr":
        for j, x in enumerate(e[1]):
            if x is not None:
                out += positions(x, path + (1, j))
    if k == "tup":
        for j, (n, x) in enumerate(e[1]):
            out += positions(x, path + (1, j, 1))
    return out


def replace(e, path, new):
    if not path:
        return new
    i = path[0]
    if isinstance(e, tuple):
        l = list(e)
        l[i] = replace(l[i], path[1:], new)
        return tuple(l)
    l = list(e)
    l[i] = replace(l[i], path[1:], new)
    return l


def spelled(e):
    """the spelled-out set of tuples of a sugar literal, or None"""
    k = e[0]
    if k == "str" and e[1]:
        return X.set_([X.tup([("@", N(e[2] + i)), ("@char", N(ord(c)))]) for i, c in enumerate(e[1])])
    if k == "bytes" and e[1]:
        return X.set_([X.tup([("@", N(e[2] + i)), ("@byte", N(b))]) for i, b in enumerate(e[1])])
    if k == "arr" and any(x is not None for x in e[1]):
        return X.set_([X.tup([("@", N(e[2] + i)), ("@item", x)]) for i, x in enumerate(e[1]) if x is not None])
    if k == "dict" and e[1]:
        return X.set_([X.tup([("@", a), ("@value", b)]) for a, b in e[1]])
    if k == "rel" and e[2]:
        return X.set_([X.tup(list(zip(e[1], r))) for r in e[2]])
    if k == "true":
        return X.set_([X.tup([])])
    return None


def rewrite(rng, e):
    """returns (kind, rewritten source, rewritten ast or None)"""
    pos = positions(e)
    kind = rng.choice(["let", "arrow", "call", "parens", "comment", "spell", "dotbinder", "lazy_and", "lazy_or", "lazy_cond", "letvalue"])
    if kind in ("let", "arrow", "call", "letvalue"):
        cands = [(p, n) for p, n in pos if p and closed_data(n) and n[0] not in ("num",)]
        if not cands:
            kind = "parens"
        else:
            p, n = rng.choice(cands)
            body = replace(e, p, X.var("t_"))
            if mentions_bound_dot(e, p):
                kind = "parens"
            elif kind in ("let", "letvalue"):
                r = X.let(X.pvar("t_"), n, body)
                return "let-introduction", X.src(r), r
            elif kind == "arrow":
                r = X.arrow(n, X.fn(X.pvar("t_"), body))
                return "arrow-form", X.src(r), r
            else:
                r = X.call(X.fn(X.pvar("t_"), body), n)
                return "call-form", X.src(r), r
    if kind == "spell":
        cands = [(p, n) for p, n in pos if spelled(n) is not None]
        if cands:
            p, n = rng.choice(cands)
            r = replace(e, p, spelled(n))
            return "sugar-spelled-out", X.src(r), r
        kind = "parens"
    if kind == "dotbinder":
        cands = [(p, n) for p, n in pos if n[0] == "dotfn" and not has_inner_dotfn(n[1])]
        if cands:
            p, n = rng.choice(cands)
            r = replace(e, p, X.fn(X.pvar("z_"), subst_var(n[1], ".", "z_")))
            return "explicit-binder", X.src(r), r
        kind = "parens"
    if kind.startswith("lazy"):
        bad = X.dot(N(1), "nope")                      # fails when evaluated
        if kind == "lazy_and":
            r = X.or_(X.and_(X.set_([]), bad), e)      # ({} && fail) || e  ==  e
        elif kind == "lazy_or":
            r = X.and_(X.or_(N(1), bad), e)            # (1 || fail) && e  ==  e
        else:
            r = X.cond([(X.set_([]), bad), (N(1), e)], bad)
        return kind, X.src(r), r
    if kind == "comment":
        s = X.src(e)
        # comments and blank space where the grammar takes them: before, after, and after an opening parenthesis
        if s.startswith("("):
            s = "(  # a comment, then a new line\n\t " + s[1:]
        return "comment-whitespace", "# leading comment\n\t " + s + "  # trailing\n", None
    # redundant parentheses around a random sub-expression (source level)
    p, n = rng.choice(pos)
    marker = X.var("PARENS_")
    s = X.src(replace(e, p, marker))
    return "redundant-parentheses", s.replace("PARENS_", "((" + X.src(n) + "))"), None


def mentions_bound_dot(e, path):
    """is the position under a dotfn binder (then the sub-term may not be closed even if it has no var)?"""
    node = e
    for i in path:
        if isinstance(node, tuple) and node and node[0] in ("dotfn", "fn"):
            return True
        node = node[i]
    return False


def has_inner_dotfn(e):
    if isinstance(e, tuple):
        if e and e[0] in ("dotfn", "fn", "let"):
            return True
        return any(has_inner_dotfn(x) for x in e[1:])
    if isinstance(e, list):
        return any(has_inner_dotfn(x) for x in e)
    return False


def subst_var(e, old, new):
    if isinstance(e, tuple):
        if e and e[0] == "var":
            return ("var", new) if e[1] == old else e
        return tuple(subst_var(x, old, new) for x in e)
    if isinstance(e, list):
        return [subst_var(x, old, new) for x in e]
    return e


def rand_literal(rng, depth=0):
    """a sugar literal whose cells are number literals (the compiler folds it to a constant)"""
    k = rng.random()
    n = lambda: N(rng.randrange(4))
    if k < 0.2:
        return X.set_([n() for _ in range(rng.randrange(1, 4))])
    if k < 0.35:
        return X.arr([n() if rng.random() < 0.85 else None for _ in range(rng.randrange(1, 4))] + [n()], rng.choice([0, 0, 2]))
    if k < 0.5:
        return X.dict_([(N(i), n()) for i in rng.sample(range(4), rng.randrange(1, 3))])
    if k < 0.62:
        return X.tup([(a, n()) for a in rng.sample(["a", "b", "c"], rng.randrange(1, 3))])
    if k < 0.9 or depth:
        names = rng.choice([["a", "b"], ["@", "@value"], ["@", "@item"], ["@", "x"], ["x", "@"], ["b", "a", "c"], ["@value", "@"]])
        return X.rel(names, [[N(rng.randrange(3)) for _ in names] for _ in range(rng.randrange(1, 4))])
    return X.set_([rand_literal(rng, 1) for _ in range(rng.randrange(1, 3))])


def cell_paths(e, path=()):
    """paths of the number cells of a literal"""
    k = e[0]
    if k == "num":
        return [path]
    out = []
    if k == "set":
        for j, x in enumerate(e[1]):
            out += cell_paths(x, path + (1, j))
    elif k == "arr":
        for j, x in enumerate(e[1]):
            if x is not None:
                out += cell_paths(x, path + (1, j))
    elif k == "tup":
        for j, (_, x) in enumerate(e[1]):
            out += cell_paths(x, path + (1, j, 1))
    elif k == "dict":
        for j, (a, b) in enumerate(e[1]):
            out += cell_paths(a, path + (1, j, 0)) + cell_paths(b, path + (1, j, 1))
    elif k == "rel":
        for r, row in enumerate(e[2]):
            for c, x in enumerate(row):
                out += cell_paths(x, path + (2, r, c))
    return out


def node_at(e, path):
    for i in path:
        e = e[i]
    return e


def fold_pair(rng):
    """a literal with constant cells vs the same literal whose cells are let-bound names (folded vs unfolded construction)"""
    lit = rand_literal(rng)
    cells = cell_paths(lit)
    chosen = rng.sample(cells, min(len(cells), rng.randrange(1, 3)))
    body, binds = lit, []
    for i, pth in enumerate(chosen):
        binds.append(("c%d_" % i, node_at(lit, pth)))
        body = replace(body, pth, X.var("c%d_" % i))
    form = rng.choice(["let", "let", "arrow", "call"])
    r = body
    for name, val in reversed(binds):
        r = X.let(X.pvar(name), val, r) if form == "let" else X.arrow(val, X.fn(X.pvar(name), r)) if form == "arrow" else X.call(X.fn(X.pvar(name), r), val)
    return "let-bound-cells-in-literal", lit, r


ARITH = {"^": (3, "R"), "*": (2, "L"), "/": (2, "L"), "%": (2, "L"), "+": (1, "L"), "-": (1, "L")}


def prec_pair(rng):
    """an unparenthesised arithmetic chain vs the grouping the documented precedence and associativity imply"""
    n = rng.randrange(3, 6)
    names = ["p_", "q_"]
    atoms = [rng.choice(["1", "2", "3", "2", "3", "4"] + names) for _ in range(n)]
    ops = [rng.choice(["+", "-", "*", "/", "%", "^", "^", "*", "-"]) for _ in range(n - 1)]
    while ops.count("^") > 2:
        ops[ops.index("^")] = "-"
    flat = " ".join(a + (" " + o if o else "") for a, o in zip(atoms, ops + [""]))

    def climb(lo, hi):          # atoms[lo..hi], ops[lo..hi-1]: split at the loosest operator (rightmost for L, leftmost for R)
        if lo == hi:
            return atoms[lo]
        lvl = min(ARITH[ops[i]][0] for i in range(lo, hi))
        idx = [i for i in range(lo, hi) if ARITH[ops[i]][0] == lvl]
        i = idx[0] if ARITH[ops[idx[0]]][1] == "R" else idx[-1]
        return "(%s %s %s)" % (climb(lo, i), ops[i], climb(i + 1, hi))
    wrap = lambda body: "(let p_ = 2; let q_ = 3; %s)" % body
    return "implied-parentheses", wrap(flat), wrap(climb(0, n - 1))


RAW_TEMPLATES = ["<<%s>>", "<<1, %s>>", "<<%s, 2>>", "[%s, 2]", "{%s: 1}", "{1: %s}", "{%s}", "(a: %s)", "{|a, b| (%s, 2)}", "{|@, @value| (1, 2), (1, %s)}",
                 "{|@, @item| (0, %s)}", "$\"a${%s}b\"", "[1, , %s]", "(2\\[%s])", "{%s: 1, 2: 3}", "%s ++ \"x\"", "<<%s>> ++ <<1>>",
                 # spelled-out members with @ written second (folded at compile time when every cell is a literal)
                 "{(@char: %s, @: 0)}", "{(@: 0, @char: %s)}", "{(@item: %s, @: 1)}", "{(@value: %s, @: 1)}", "(@char: %s, @: 0)", "(@item: %s, @: 0)",
                 "{(@char: 65, @: %s)}", "{(@item: 7, @: %s)}", "{(@value: 2, @: %s)}", "{(@byte: %s, @: 0)}", "{(@byte: 7, @: %s)}"]
RAW_CELLS = ["1", "255", "256", "0", "-1", "0.5", "\"a\"", "\"\u00e9\"", "\"\u00ff\"", "\"\u0080\"", "\"\u20ac\"", "\"\"", "\"ab\"", "(b: 1)", "[1]", "<<1>>", "'x'"]


def raw_fold_pair(rng):
    """a literal form with a constant cell vs the same form with the cell bound by let / -> / call (text level: forms and cells the AST does not cover)"""
    t, c = rng.choice(RAW_TEMPLATES), rng.choice(RAW_CELLS)
    form = rng.choice(["let c_ = %s; %s", "%s -> \\c_ %s", "(\\c_ %s)(%s)"])
    body = t % "c_"
    rewritten = form % ((body, c) if form.startswith("(") else (c, body))
    return "let-bound-cell-in-literal-text", "(%s)" % (t % c), "(%s)" % rewritten


def logic_literal_pair(rng):
    """&& / || with a literal operand against the same operand parenthesised or let-bound (literal folding must not change which operand is returned, nor whether the other one is evaluated)"""
    lefts = ["0", "()", "{}", "\"\"", "1", "(a: 1)", "{1}", "(1).nope", "[]", "false", "true"]
    lits = ["false", "0", "{}", "()", "true", "1", "\"\"", "[]", "{1}"]
    l, f = rng.choice(lefts), rng.choice(lits)
    op = rng.choice(["&&", "||"])
    side = rng.random() < 0.7
    orig = "(%s %s %s)" % ((l, op, f) if side else (f, op, l))
    k = rng.randrange(3)
    if k == 0:
        rew = "(%s %s (%s))" % (l, op, f) if side else "((%s) %s %s)" % (f, op, l)
    elif k == 1:
        rew = "(let f_ = %s; %s)" % (f, "(%s %s f_)" % (l, op) if side else "(f_ %s %s)" % (op, l))
    else:
        rew = "(%s -> \\f_ %s)" % (f, "(%s %s f_)" % (l, op) if side else "(f_ %s %s)" % (op, l))
    return "logic-literal-operand", orig, rew


def cond_default_pair(rng, e):
    """&& / || with a literal operand against the parenthesised or let-bound operand, cond with the default arm first or in the middle: arms after it are never evaluated"""
    bad = "(1).nope"
    src = X.src(e)
    k = rng.randrange(3)
    if k == 0:
        return "cond-default-first", src, "(cond {_: %s, %s: 0})" % (src, bad)
    if k == 1:
        return "cond-default-first", src, "(cond {_: %s, 1: 0})" % src
    return "cond-default-middle", src, "(cond {{}: 0, _: %s, %s: 1, 1: 2})" % (src, bad)


def base_programs(rng, tier):
    progs = []
    for mod in (c01, c05, c04, c09):
        cs = mod.gen_cases(random.Random(rng.randrange(1 << 30)), "quick")
        rng.shuffle(cs)
        progs += [c["ast"] for c in cs[:(90 if tier == "quick" else 900)]]
    return progs


def main(tier, seed, replay=None):
    run = Run(PROP, tier, seed)
    vh, proof = prepare(PROP_FILES, thorough=(tier == "thorough"))
    rng = random.Random(seed)
    pairs = []
    if replay:
        rp = json.load(open(replay))
        pairs = [] if rp["case"].get("stream") in ("position", "substitution") else [(rp["case"]["kind"], rp["case"]["original"], rp["case"]["rewritten"], None, None)]
    else:
        for e in base_programs(rng, tier):
            for _ in range(2):
                try:
                    kind, s2, ast2 = rewrite(rng, e)
                except Exception:
                    continue
                pairs.append((kind, X.src(e), s2, e, ast2))
        for _ in range(120 if tier == "quick" else 1500):
            kind, lit, r = fold_pair(rng)
            pairs.append((kind, X.src(lit), X.src(r), lit, r))
        for _ in range(80 if tier == "quick" else 1000):
            kind, s1, s2 = prec_pair(rng)
            pairs.append((kind, s1, s2, None, None))
        for _ in range(120 if tier == "quick" else 1500):
            kind, s1, s2 = raw_fold_pair(rng)
            pairs.append((kind, s1, s2, None, None))
        for _ in range(100 if tier == "quick" else 1200):
            kind, s1, s2 = logic_literal_pair(rng)
            pairs.append((kind, s1, s2, None, None))
        progs = [p for p in pairs if p[3] is not None]
        for _ in range(40 if tier == "quick" else 400):
            kind, s1, s2 = cond_default_pair(rng, rng.choice(progs)[3])
            pairs.append((kind, s1, s2, None, None))
    reqs = []
    for i, (kind, s1, s2, _, _) in enumerate(pairs):
        reqs.append({"id": 2 * i, "src": s1, "budget_ms": 6000})
        reqs.append({"id": 2 * i + 1, "src": s2, "budget_ms": 6000})
    outs, _, _ = run_harness(vh, "eval", reqs, stall=12)
    kinds, agree_val = {}, 0
    for i, (kind, s1, s2, _, _) in enumerate(pairs):
        a, b = outs.get(2 * i) or {"st": "missing"}, outs.get(2 * i + 1) or {"st": "missing"}
        kinds[kind] = kinds.get(kind, 0) + 1
        rec = {"case": {"kind": kind, "original": s1, "rewritten": s2},
               "observed": {"original": {k: a.get(k) for k in ("st", "repr", "msg", "site")}, "rewritten": {k: b.get(k) for k in ("st", "repr", "msg", "site")}}}
        fa, fb = a.get("st") != "ok", b.get("st") != "ok"
        if fa != fb:
            rec["oracle"] = "the rewrite (%s) changes whether the program fails" % kind
            run.classify_failure(None, rec)
        elif not fa:
            if "f" in a["val"] or "f" in b["val"]:
                continue
            if canon(a["val"]) != canon(b["val"]):
                rec["oracle"] = "the rewrite (%s) changes the value" % kind
                run.classify_failure(None, rec)
            else:
                agree_val += 1
    # the rewritten programs (where an AST exists) also agree with the reference semantics
    mcases = [{"id": i, "label": p[0], "ast": p[4]} for i, p in enumerate(pairs) if p[4] is not None][:(250 if tier == "quick" else 3000)]
    mouts, mcodes, mfails = evalcheck.evaluate(vh, mcases) if mcases else ({}, {}, [])
    evalcheck.judge(run, mcases, mouts, mcodes, mfails, "rewritten program vs the reference semantics", value_codes=(1, 2, 3), corr_codes=(4, 5, 6), skip_regions=True)
    # ---- rewriting at a position inside a larger program, and substitution of a let-bound name (gen/c08pos.py) ----
    pcases = []
    if not replay:
        prng = random.Random(rng.randrange(1 << 30))
        pcases = c08pos.position_cases(prng, 100 if tier == "quick" else 2500) + c08pos.subst_cases(prng, 100 if tier == "quick" else 2500)
    elif rp["case"].get("stream") in ("position", "substitution"):
        pcases = [dict(rp["case"])]
    pouts, pcodes, pfails = c08pos.evaluate(vh, pcases) if pcases else ({}, {}, [])
    for f in pfails:
        run.corr_breaks.append({"what": "reference interpreter could not be evaluated (Check/C08Check.v)", "log": f})
    phist, lhist, khist, reproduced, p_agree = {}, {}, {}, set(), 0
    for c in pcases:
        a, b = pouts.get(2 * c["id"]) or {"st": "missing"}, pouts.get(2 * c["id"] + 1) or {"st": "missing"}
        code = pcodes.get(c["id"])
        phist[str(code)] = phist.get(str(code), 0) + 1
        khist[c["stream"] + ":" + c["kind"]] = khist.get(c["stream"] + ":" + c["kind"], 0) + 1
        for l in c["layers"]:
            lhist[l] = lhist.get(l, 0) + 1
        sig = c08pos.signature(c)
        rec = {"case": {k: c.get(k) for k in ("stream", "kind", "layers", "src1", "src2", "coq1", "coq2", "alt", "ast1", "ast2")},
               "observed": {"original": {k: a.get(k) for k in ("st", "repr", "msg", "site")}, "rewritten": {k: b.get(k) for k in ("st", "repr", "msg", "site")}}}
        fa, fb = a.get("st") != "ok", b.get("st") != "ok"
        failed = False
        if fa != fb:
            rec["oracle"] = "the rewrite (%s, %s) changes whether the program fails" % (c["stream"], c["kind"])
            failed = True
        elif not fa and "f" not in a["val"] and "f" not in b["val"] and canon(a["val"]) != canon(b["val"]):
            rec["oracle"] = "the rewrite (%s, %s) changes the value" % (c["stream"], c["kind"])
            failed = True
        if failed:
            if sig and run.finding_for(sig):
                reproduced.add(sig)
            run.classify_failure(sig, rec)
            continue
        if not fa:
            p_agree += 1
        if code is None:
            continue
        c1, c2, m1, m2 = c08pos.split_code(code)
        if m1 == 1:
            run.corr_breaks.append({"what": "the reference interpreter gives the original and the rewritten program different answers (theorems C08_rewrites_apply_at_every_position / the model of subst, or the generator's rewriting)", **rec})
        if m2 == 1:
            run.corr_breaks.append({"what": "the generator's substitution and Eval/Rewrite.v subst give programs with different answers", **rec})
        for side, cc in (("original", c1), ("rewritten", c2)):
            base, region = cc % 100, cc // 100
            if base in (0, 9) or region:
                continue
            if sig and run.finding_for(sig):
                reproduced.add(sig)
                run.known_hits.setdefault(run.finding_for(sig)["id"], rec)
            else:
                r2 = dict(rec)
                r2["oracle"] = "%s program vs the reference semantics: %s" % (side, evalcheck.CODE_TEXT.get(base, str(base)))
                if base in (1, 2, 3):
                    run.classify_failure(sig, r2)
                else:
                    run.corr_breaks.append({"what": "implementation and reference interpreter disagree outside the property's own oracle", **r2})
    if not replay:
        # the committed witnesses of the open findings must still fail
        wreqs, wsigs = [], sorted(c08pos.WITNESSES)
        for i, sg in enumerate(wsigs):
            wreqs += [{"id": 2 * i, "src": c08pos.WITNESSES[sg][0], "budget_ms": 6000}, {"id": 2 * i + 1, "src": c08pos.WITNESSES[sg][1], "budget_ms": 6000}]
        wouts, _, _ = run_harness(vh, "eval", wreqs, stall=12)
        for i, sg in enumerate(wsigs):
            a, b = wouts.get(2 * i) or {"st": "missing"}, wouts.get(2 * i + 1) or {"st": "missing"}
            differs = (a.get("st") != "ok") != (b.get("st") != "ok") or (a.get("st") == "ok" and canon(a["val"]) != canon(b["val"]))
            rec = {"case": {"stream": "witness", "kind": sg, "original": c08pos.WITNESSES[sg][0], "rewritten": c08pos.WITNESSES[sg][1]},
                   "observed": {"original": {k: a.get(k) for k in ("st", "repr", "msg", "site")}, "rewritten": {k: b.get(k) for k in ("st", "repr", "msg", "site")}},
                   "oracle": "replacing the let-bound name by its value changes the result"}
            if differs:
                run.classify_failure(sg, rec)
            elif run.finding_for(sg):
                run.corr_breaks.append({"what": "open finding %s (%s) no longer reproduces on its witness" % (run.finding_for(sg)["id"], sg), **rec})
    step = max(1, len(pairs) // 6)
    pstep = max(1, len(pcases) // 6)
    run.cov.update({"position_and_substitution": {
        "cases": len(pcases), "both_sides_agree_on_the_implementation": p_agree, "verdict_code_histogram": phist,
        "rewrite_histogram": khist, "context_layer_histogram": lhist,
        "layers_between_root_and_rewrite_histogram": {str(k): sum(1 for c in pcases if c["stream"] == "position" and len(c["layers"]) == k) for k in sorted({len(c["layers"]) for c in pcases if c["stream"] == "position"})},
        "rule": "(i) a documented equivalence (let/->/call forms, array and dict sugar vs spelled-out set, an operand hidden behind && / || / cond, each in both directions) applied 3-6 forms deep inside a larger program built from 50 context layers (every operand position of the operators, literals, calls, ?:, dot, let, ->, &&, ||, cond arms and defaults, where / => / >> / >>> / rank function bodies, let and function binders that bind names the redex uses, and the (expr) literals, fallbacks and dict keys inside array / tuple / dict / set patterns); the position is emitted as a one-hole context of Eval/Rewrite.v and the reference interpreter runs `plug C e` and `plug C e'`; an enumerated core puts every layer innermost and outermost under every rewrite kind. (ii) `let x = v; body` against body with the free x replaced by v, where body rebinds x by let, \\x, ->, =>, >>, where, cond patterns, array / tuple / dict / set patterns and reads the outer x in pattern literals, fallbacks and dict keys (15 enumerated shapes x 3 + random bodies); the interpreter also runs its own `subst x v body`. Compared: implementation(original) = implementation(rewritten) (the property), each against the interpreter, and interpreter(original) = interpreter(rewritten) = interpreter(subst)",
        "samples": [{"kind": c["stream"] + ":" + c["kind"], "original": c["src1"][:200], "rewritten": c["src2"][:240]} for c in pcases[::pstep]][:6]}})
    run.cov.update({"evaluations": len(reqs) + len(mcases) + 2 * len(pcases), "distinct_nontrivial": agree_val + p_agree,
                    "rule": "programs from the C01/C04/C05/C09 generators, each rewritten at a random position by one documented equivalence: let-introduction of a closed sub-expression (`let t = s; e[t/s]`), the same as `s -> \\\\t e` and `(\\\\t e)(s)`, sugar literal -> spelled-out set of tuples, implicit \\\\. binder -> explicit \\\\z, a failing operand hidden behind &&, || or cond, redundant parentheses, comments and whitespace; plus two dedicated streams: a sugar literal with constant cells (folded at compile time) against the same literal with one or two cells bound by let / -> / call (sets, arrays with holes and offsets, dicts, tuples, relation literals incl. the headings |@,@value|, |@,@item|, |@,x| with repeated keys, nested), literal forms at text level (byte arrays with string items, templates, offsets, dict/relation sugar) with a constant cell incl. non-ASCII strings against the let / -> / call form, && / || with a literal operand against the parenthesised or let-bound operand, cond with the default arm first or in the middle followed by failing or true conditions, and an unparenthesised arithmetic chain of 3-5 operands over + - * / % ^ (literals and let-bound names) against the grouping implied by the documented precedence and right-associative ^; original and rewritten source both evaluated by syntax.EvaluateExpr: equal canonical values or both fail; non-trivial = pairs where both evaluate to equal values",
                    "samples": [{"kind": p[0], "original": p[1][:160], "rewritten": p[2][:220]} for p in pairs[::step]][:6],
                    "rewrite_histogram": kinds, "pairs": len(pairs), "exhaustive": False})
    run.assumptions = ["the wbnf parser and syntax/compile.go are exercised, not modelled"]
    return run.finish(proof)
