"""C06: < is a strict total order consistent with =, and sorting follows it."""
import random
from common import *
import expr as X
import pool
import evalcheck

PROP = "C06"
PROP_FILES = ["Properties/C06.v", "Check/C06Check.v"]
N = X.num


def order_pool():
    P = pool.base_pool()
    for k in ("s9", "str_long", "ar_long"):
        P.pop(k)
    P["neg_set"] = X.unop("-", X.set_([N(1)]))
    P["neg_tup"] = X.unop("-", X.tup([("a", N(1))]))
    P["neg_set2"] = X.unop("-", X.set_([N(2)]))
    P["ar_hole2"] = X.arr([N(1), None, N(4)])
    P["ar_13"] = X.arr([N(1), N(3)])
    P["ar_hole3"] = X.arr([N(1), None, None, N(3)])
    P["str_c2"] = X.string("c", 2)
    P["str_hole2"] = X.binop("without", X.string("abd"), X.tup([("@", N(1)), ("@char", N(98))]))
    P["by_13"] = X.bytes_([1, 3])
    P["by_2"] = X.bytes_([2])
    P["r_ab2"] = X.rel(["a", "b"], [[N(1), N(3)]])
    P["r_ab3"] = X.rel(["a", "b"], [[N(0), N(9)], [N(1), N(2)]])
    P["r_b"] = X.rel(["b"], [[N(1)], [N(2)], [N(3)]])
    P["d13"] = X.dict_([(N(1), N(3))])
    P["d2"] = X.dict_([(N(2), N(1))])
    P["u_2"] = X.set_([N(2), X.string("a")])
    P["s2"] = X.set_([N(2)])
    P["s13"] = X.set_([N(1), N(3)])
    # near-miss pairs
    P["ar_empty_mid"] = X.arr([N(1), X.set_([]), N(3)])          # vs ar_hole = [1, , 3]
    P["ar_empty_mid2"] = X.arr([N(1), X.set_([]), N(4)])
    P["te_19"] = X.tup([("@", N(1)), ("@value", N(9))])
    P["te_23"] = X.tup([("@", N(2)), ("@value", N(3))])
    P["te_13"] = X.tup([("@", N(1)), ("@value", N(3))])
    P["ti_19"] = X.tup([("@", N(1)), ("@item", N(9))])
    P["ti_23"] = X.tup([("@", N(2)), ("@item", N(3))])
    P["tc_1"] = X.tup([("@", N(1)), ("@char", N(99))])
    P["tc_2"] = X.tup([("@", N(2)), ("@char", N(97))])
    P["tb_1"] = X.tup([("@", N(1)), ("@byte", N(9))])
    P["tb_2"] = X.tup([("@", N(2)), ("@byte", N(3))])
    P["d19_23"] = X.dict_([(N(1), N(9)), (N(2), N(3))])
    P["rj_ba"] = X.join("<&>", X.rel(["b"], [[N(2)], [N(3)]]), X.rel(["a"], [[N(1)]]))
    # one relation three ways: join-built (stored columns b, a), written literally, and a neighbour differing in the last row
    P["rj_4"] = X.join("<&>", X.rel(["b"], [[N(1)], [N(2)]]), X.rel(["a"], [[N(2)], [N(1)]]))
    P["r_4lit"] = X.rel(["a", "b"], [[N(1), N(1)], [N(1), N(2)], [N(2), N(1)], [N(2), N(2)]])
    P["r_4nb"] = X.rel(["a", "b"], [[N(1), N(1)], [N(1), N(2)], [N(2), N(1)], [N(2), N(3)]])
    P["rj_3c"] = X.join("<&>", X.join("<&>", X.rel(["c"], [[N(1)], [N(2)]]), X.rel(["a"], [[N(2)], [N(1)]])), X.rel(["b"], [[N(0)]]))
    P["r_3clit"] = X.rel(["a", "b", "c"], [[N(1), N(0), N(1)], [N(1), N(0), N(2)], [N(2), N(0), N(1)], [N(2), N(0), N(3)]])
    # strings differing only in code points that have no UTF-8 encoding of their own (lone surrogates) or in U+FFFD
    P["str_sur1"] = X.set_([X.tup([("@", N(0)), ("@char", N(55296))])])
    P["str_sur2"] = X.set_([X.tup([("@", N(0)), ("@char", N(55297))])])
    P["str_fffd"] = X.set_([X.tup([("@", N(0)), ("@char", N(65533))])])
    P["str_sur_h"] = X.set_([X.tup([("@", N(0)), ("@char", N(55296))]), X.tup([("@", N(2)), ("@char", N(97))])])
    # dicts with several values under a key: value lists that are prefixes of one another, later keys deciding the other way
    dd = lambda *kv: X.dict_([(N(k), N(v)) for k, v in kv])
    P["dm_12_13"] = X.binop("|", dd((1, 2)), dd((1, 3)))
    P["dm_12_20"] = dd((1, 2), (2, 0))
    P["dm_x"] = X.binop("|", X.binop("|", dd((1, 2)), dd((1, 4))), dd((2, 0)))
    P["dm_y"] = dd((1, 2), (2, 1))
    P["dm_z"] = X.binop("|", X.binop("|", dd((1, 2)), dd((1, 3))), dd((2, 2)))
    P["tt"] = X.tup([("a", X.tup([("b", N(1))]))])
    P["tset"] = X.tup([("a", X.set_([N(1)]))])
    return P


def pair_src(a, b):
    return "(lt: %s < %s, gt: %s < %s, eq: %s = %s, le: %s <= %s, ge: %s >= %s, gtop: %s > %s)" % (
        X.src(a), X.src(b), X.src(b), X.src(a), X.src(a), X.src(b), X.src(a), X.src(b), X.src(a), X.src(b), X.src(a), X.src(b))


def truth(d):
    return d == {"s": [{"t": []}], "c": 1}


def sort_src(elems):
    return "{%s} orderby ." % ", ".join(X.src(e) for e in elems)


def main(tier, seed, replay=None):
    import itertools, concurrent.futures
    run = Run(PROP, tier, seed)
    vh, proof = prepare(PROP_FILES, thorough=(tier == "thorough"))
    rng = random.Random(seed)
    P = order_pool()
    names = sorted(P)
    if replay:
        rp = json.load(open(replay))
        names = [n for n in rp["case"].get("values", []) if n in P] or names
    elif tier == "quick":
        # a stratified sample: one representative per representation family plus random others
        fam = {}
        for n in names:
            fam.setdefault(n.split("_")[0].rstrip("0123456789."), []).append(n)
        pick = set()
        for f, lst in fam.items():
            pick.update(rng.sample(lst, min(len(lst), 2)))
        # near-miss pairs are always in: they differ in exactly one respect (hole vs {}, key vs value order, offset only, ...)
        pick.update(n for n in ("ar_hole", "ar_empty_mid", "ar_empty_mid2", "ar_hole2", "ar_123", "te_19", "te_23", "te_13", "ti_19", "ti_23",
                                "tc_1", "tc_2", "tb_1", "tb_2", "d19_23", "d12", "rj_ba", "r_ab", "rj_4", "r_4lit", "r_4nb", "rj_3c", "r_3clit", "str_sur1", "str_sur2", "str_fffd", "str_sur_h", "dm_12_13", "dm_12_20", "dm_x", "dm_y", "dm_z", "str_off", "str_a", "by_off", "by_12",
                                "empty", "true", "t0", "neg_set", "neg_tup") if n in P)
        rest = [n for n in names if n not in pick]
        pick.update(rng.sample(rest, min(len(rest), 6)))
        names = sorted(pick)
    reqs, idx = [], {}
    for a in names:
        for b in names:
            idx[len(reqs)] = (a, b)
            reqs.append({"id": len(reqs), "src": pair_src(P[a], P[b]), "budget_ms": 5000})
    outs, rc, err = run_harness(vh, "eval", reqs)
    lt, eq = {}, {}
    for i, (a, b) in idx.items():
        o = outs.get(i) or {"st": "missing"}
        rec = {"case": {"values": [a, b], "src": reqs[i]["src"]}, "observed": o}
        if o.get("st") != "ok":
            rec["oracle"] = "comparison of two data values does not evaluate (%s)" % o.get("st")
            run.classify_failure(None, rec)
            continue
        t = dict(o["val"]["t"])
        lt[(a, b)], eq[(a, b)] = truth(t["lt"]), truth(t["eq"])
        gt, le, ge, gtop = truth(t["gt"]), truth(t["le"]), truth(t["ge"]), truth(t["gtop"])
        if gtop != gt or le != (not gt) or ge != (not lt[(a, b)]):
            rec["oracle"] = "<=, >, >= are not the relations derived from <"
            run.classify_failure(None, rec)
    ntri = 0
    for a in names:
        for b in names:
            if (a, b) in lt and (b, a) in lt and a <= b:
                ntri += 1
                n = int(lt[(a, b)]) + int(lt[(b, a)]) + int(eq[(a, b)])
                if n != 1:
                    run.classify_failure(None, {"case": {"values": [a, b], "src": pair_src(P[a], P[b])},
                                                "observed": {"a<b": lt[(a, b)], "b<a": lt[(b, a)], "a=b": eq[(a, b)]},
                                                "oracle": "not exactly one of a < b, a = b, b < a"})
    ntrans = 0
    for a, b, c in itertools.product(names, repeat=3):
        if lt.get((a, b)) and lt.get((b, c)):
            ntrans += 1
            if not lt.get((a, c), True):
                run.classify_failure(None, {"case": {"values": [a, b, c], "src": "(%s) < (%s) < (%s)" % (X.src(P[a]), X.src(P[b]), X.src(P[c]))},
                                            "observed": "a<b and b<c but not a<c", "oracle": "< is not transitive"})
    # sorting follows the one order: orderby / printing of shuffled constructions of the same members
    nsort, sreqs, smeta = 0, [], []
    for _ in range(25 if tier == "quick" else 150):
        k = rng.randrange(3, 7)
        # several sugar tuples of one kind at one index in one set are the collision finding (C01): keep them apart
        sortable = [n for n in names if not n.startswith(("ti_", "tc_", "tb_"))]
        elems = rng.sample(sortable, min(k, len(sortable)))
        perm = elems[:]
        rng.shuffle(perm)
        for variant in (elems, perm):
            smeta.append(elems)
            sreqs.append({"id": len(sreqs), "src": "(o: %s, s: {%s})" % (sort_src([P[n] for n in variant]), ", ".join(X.src(P[n]) for n in variant)), "budget_ms": 5000})
    souts, _, _ = run_harness(vh, "eval", sreqs)
    for i in range(0, len(sreqs), 2):
        o1, o2 = souts.get(i) or {}, souts.get(i + 1) or {}
        nsort += 1
        rec = {"case": {"values": smeta[i], "src": sreqs[i]["src"], "src2": sreqs[i + 1]["src"]}, "observed": [o1.get("repr"), o2.get("repr")]}
        if o1.get("st") != "ok" or o2.get("st") != "ok":
            rec["oracle"] = "sorting a set of data values does not evaluate"
            run.classify_failure(None, rec)
        elif o1.get("repr") != o2.get("repr"):
            rec["oracle"] = "the same members sorted/printed from two constructions give different sequences"
            run.classify_failure(None, rec)
    # committed witness of the open finding about hand-written nested @neg tuples
    wouts, _, _ = run_harness(vh, "eval", [{"id": 0, "src": "(@neg: (@neg: 1)) < 2"}])
    w = wouts.get(0) or {}
    if w.get("st") != "ok":
        run.classify_failure("neg-nested", {"case": {"src": "(@neg: (@neg: 1)) < 2"}, "observed": w,
                                            "oracle": "comparison of two data values does not evaluate"})
    elif run.finding_for("neg-nested"):
        run.corr_breaks.append({"what": "open finding neg-nested no longer reproduces", "observed": w})
    # correspondence of < and = with the model of the Go order (Rep/Less.v) inside Coq
    cases = [{"id": i, "a": a, "b": b} for i, (a, b) in idx.items() if (a, b) in lt]
    chunks = [cases[i:i + 400] for i in range(0, len(cases), 400)]
    modelled = 0

    def do(ic):
        k, chunk = ic
        body = ["From Arrai Require Import Base.Val Spec.SetAlg Eval.Interp Check.EvalCheck Check.C06Check.",
                "Definition cases : list case06 := ["]
        body.append(";\n".join("  {| o_id := %d; o_a := %s; o_b := %s; o_lt := %s; o_eq := %s |}" % (
            c["id"], X.coq(P[c["a"]]), X.coq(P[c["b"]]), cbool(lt[(c["a"], c["b"])]), cbool(eq[(c["a"], c["b"])])) for c in chunk))
        body.append("].\nDefinition R := Eval vm_compute in report06 cases.\nPrint R.\nDefinition MC := Eval vm_compute in [modelled_count cases].\nPrint MC.")
        rc2, so, se = coq_eval("c06_cases_%d_%d" % (os.getpid(), k), "\n".join(body))
        return coq_report(so, "R"), coq_report(so, "MC"), se

    with concurrent.futures.ThreadPoolExecutor(max_workers=12) as ex:
        for (rep, mc, se), chunk in zip(ex.map(do, enumerate(chunks)), chunks):
            if rep is None:
                run.corr_breaks.append({"what": "model of the Go order could not be evaluated (Check/C06Check.v)", "log": se[-1200:]})
                continue
            modelled += (mc or [0])[0]
            for cid, code in rep:
                a, b = idx[cid]
                rec = {"case": {"values": [a, b], "src": pair_src(P[a], P[b])}, "observed": {"a<b": lt[(a, b)], "a=b": eq[(a, b)]}}
                if code == 2:
                    rec["oracle"] = "a = b differs from equality of denotations"
                    run.classify_failure(None, rec)
                else:
                    run.corr_breaks.append({"what": "a < b differs from the model of the Go order (Rep/Less.v rless)", **rec})
    run.cov.update({
        "evaluations": len(reqs) + len(sreqs), "distinct_nontrivial": sum(1 for k in lt if lt[k]),
        "rule": "all ordered pairs over %d values of the order pool (every kind and representation: numbers, generic and sugar tuples, @neg wrappers, empty/true, generic sets, strings/bytes/arrays with offsets and holes, dicts, relations, union sets, nested): a<b, b<a, a=b, <=, >=, > through syntax.EvaluateExpr; trichotomy on every pair, transitivity on every triple of the pair matrix, derived operators, orderby/printing of shuffled constructions; distinct non-trivial = ordered pairs with a < b" % len(names)
                + ("; thorough = the whole pool (%d values)" % len(P) if tier == "thorough" else "; quick = stratified sample of the pool"),
        "samples": [reqs[i]["src"] for i in range(0, len(reqs), max(1, len(reqs) // 6))][:6],
        "pairs_checked_trichotomy": ntri, "triples_checked_transitivity": ntrans, "sort_comparisons": nsort,
        "pairs_compared_with_model": modelled, "exhaustive": tier == "thorough",
    })
    run.assumptions = ["functions are outside the data fragment", "Dict/Relation/UnionSet comparisons are checked by the oracle only (not modelled)"]
    return run.finish(proof)
