"""C06: < is a strict total order consistent with =, and sorting follows it."""
import random
from common import *
import expr as X
import pool
import evalcheck

PROP = "C06"
PROP_FILES = ["Properties/C06.v", "Check/C06Check.v"]
N = X.num


def order_pool():
    P = pool.base_pool()
    for k in ("s9", "str_long", "ar_long"):
        P.pop(k)
    P["neg_set"] = X.unop("-", X.set_([N(1)]))
    P["neg_tup"] = X.unop("-", X.tup([("a", N(1))]))
    P["neg_set2"] = X.unop("-", X.set_([N(2)]))
    P["ar_hole2"] = X.arr([N(1), None, N(4)])
    P["ar_h13"] = X.arr([N(1), None, N(2), N(3)])      # same items and extent, the hole elsewhere
    P["ar_h23"] = X.arr([N(1), N(2), None, N(3)])
    P["ar_13"] = X.arr([N(1), N(3)])
    P["ar_hole3"] = X.arr([N(1), None, None, N(3)])
    P["str_c2"] = X.string("c", 2)
    P["str_hole2"] = X.binop("without", X.string("abd"), X.tup([("@", N(1)), ("@char", N(98))]))
    P["by_13"] = X.bytes_([1, 3])
    P["by_2"] = X.bytes_([2])
    P["r_ab2"] = X.rel(["a", "b"], [[N(1), N(3)]])
    P["r_ab3"] = X.rel(["a", "b"], [[N(0), N(9)], [N(1), N(2)]])
    P["r_b"] = X.rel(["b"], [[N(1)], [N(2)], [N(3)]])
    P["d13"] = X.dict_([(N(1), N(3))])
    P["d2"] = X.dict_([(N(2), N(1))])
    P["u_2"] = X.set_([N(2), X.string("a")])
    P["s2"] = X.set_([N(2)])
    P["s13"] = X.set_([N(1), N(3)])
    # near-miss pairs
    P["ar_empty_mid"] = X.arr([N(1), X.set_([]), N(3)])          # vs ar_hole = [1, , 3]
    P["ar_empty_mid2"] = X.arr([N(1), X.set_([]), N(4)])
    P["te_19"] = X.tup([("@", N(1)), ("@value", N(9))])
    P["te_23"] = X.tup([("@", N(2)), ("@value", N(3))])
    P["te_13"] = X.tup([("@", N(1)), ("@value", N(3))])
    P["ti_19"] = X.tup([("@", N(1)), ("@item", N(9))])
    P["ti_23"] = X.tup([("@", N(2)), ("@item", N(3))])
    P["tc_1"] = X.tup([("@", N(1)), ("@char", N(99))])
    P["tc_2"] = X.tup([("@", N(2)), ("@char", N(97))])
    P["tb_1"] = X.tup([("@", N(1)), ("@byte", N(9))])
    P["tb_2"] = X.tup([("@", N(2)), ("@byte", N(3))])
    P["d19_23"] = X.dict_([(N(1), N(9)), (N(2), N(3))])
    P["rj_ba"] = X.join("<&>", X.rel(["b"], [[N(2)], [N(3)]]), X.rel(["a"], [[N(1)]]))
    # one relation three ways: join-built (stored columns b, a), written literally, and a neighbour differing in the last row
    P["rj_4"] = X.join("<&>", X.rel(["b"], [[N(1)], [N(2)]]), X.rel(["a"], [[N(2)], [N(1)]]))
    P["r_4lit"] = X.rel(["a", "b"], [[N(1), N(1)], [N(1), N(2)], [N(2), N(1)], [N(2), N(2)]])
    P["r_4nb"] = X.rel(["a", "b"], [[N(1), N(1)], [N(1), N(2)], [N(2), N(1)], [N(2), N(3)]])
    P["rj_3c"] = X.join("<&>", X.join("<&>", X.rel(["c"], [[N(1)], [N(2)]]), X.rel(["a"], [[N(2)], [N(1)]])), X.rel(["b"], [[N(0)]]))
    P["r_3clit"] = X.rel(["a", "b", "c"], [[N(1), N(0), N(1)], [N(1), N(0), N(2)], [N(2), N(0), N(1)], [N(2), N(0), N(3)]])
    # strings differing only in code points that have no UTF-8 encoding of their own (lone surrogates) or in U+FFFD
    P["str_sur1"] = X.set_([X.tup([("@", N(0)), ("@char", N(55296))])])
    P["str_sur2"] = X.set_([X.tup([("@", N(0)), ("@char", N(55297))])])
    P["str_fffd"] = X.set_([X.tup([("@", N(0)), ("@char", N(65533))])])
    P["str_sur_h"] = X.set_([X.tup([("@", N(0)), ("@char", N(55296))]), X.tup([("@", N(2)), ("@char", N(97))])])
    # dicts with several values under a key: value lists that are prefixes of one another, later keys deciding the other way
    dd = lambda *kv: X.dict_([(N(k), N(v)) for k, v in kv])
    P["dm_12_13"] = X.binop("|", dd((1, 2)), dd((1, 3)))
    P["dm_12_20"] = dd((1, 2), (2, 0))
    P["dm_x"] = X.binop("|", X.binop("|", dd((1, 2)), dd((1, 4))), dd((2, 0)))
    P["dm_y"] = dd((1, 2), (2, 1))
    P["dm_z"] = X.binop("|", X.binop("|", dd((1, 2)), dd((1, 3))), dd((2, 2)))
    P["tt"] = X.tup([("a", X.tup([("b", N(1))]))])
    P["tset"] = X.tup([("a", X.set_([N(1)]))])
    P.update(model_pool())
    return P


def model_pool():
    """Dict / Relation / UnionSet values (and values holding them) whose comparisons are decided deep inside the
    transcribed Less methods: same keys and different values, keys of several kinds, several values under a key,
    one heading and different rows, different headings, row counts, a heading whose rows compare in reverse (@neg),
    unions differing in one bucket, the empty tuple among non-tuples, all of them nested in tuples, sets and arrays."""
    Q = {}
    S = X.string
    dd = lambda *kv: X.dict_([(N(k), N(v)) for k, v in kv])
    Q["dk_ab3"] = X.dict_([(S("a"), N(1)), (S("b"), N(3))])                 # vs dab = {"a": 1, "b": 2}
    Q["dk_ac"] = X.dict_([(S("a"), N(1)), (S("c"), N(0))])
    Q["dk_tup"] = X.dict_([(X.tup([("a", N(1))]), N(2))])
    Q["dk_set"] = X.dict_([(X.set_([N(1)]), N(2)), (X.set_([]), N(3))])
    Q["dk_mixk"] = X.dict_([(N(1), N(2)), (S("a"), N(1))])
    Q["dk_nest"] = X.dict_([(N(1), dd((1, 2)))])
    Q["dk_nest2"] = X.dict_([(N(1), dd((1, 3)))])
    Q["dk_123"] = dd((1, 2), (2, 3), (3, 4))
    Q["dk_12"] = dd((1, 2), (2, 3))
    Q["dm_mixv"] = X.binop("|", dd((1, 2)), X.dict_([(N(1), S("a"))]))
    Q["dm_3v"] = X.binop("|", X.binop("|", dd((1, 2)), dd((1, 3))), dd((1, 4)))
    Q["r_neg12"] = X.rel(["@neg"], [[N(1)], [N(2)]])
    Q["r_neg03"] = X.rel(["@neg"], [[N(0)], [N(3)]])
    Q["r_neg13"] = X.rel(["@neg"], [[N(1)], [N(3)]])
    Q["r_a3"] = X.rel(["a"], [[N(0)], [N(1)], [N(2)]])                       # more rows than r_a, smaller first row
    Q["r_a13"] = X.rel(["a"], [[N(1)], [N(3)]])
    Q["r_a123"] = X.rel(["a"], [[N(1)], [N(2)], [N(3)]])                    # r_a is a prefix of its rows: only Count() decides
    Q["r_ac"] = X.rel(["a", "c"], [[N(1), N(2)], [N(1), N(3)]])              # vs r_ab: heading decides
    Q["r_abc"] = X.rel(["a", "b", "c"], [[N(0), N(0), N(0)]])                # longer heading
    Q["r_mix"] = X.set_([X.tup([("a", N(1)), ("b", S("x"))]), X.tup([("a", X.set_([N(1)])), ("b", N(2))])])
    Q["r_mix2"] = X.set_([X.tup([("a", N(1)), ("b", S("y"))]), X.tup([("a", X.set_([N(1)])), ("b", N(2))])])
    Q["r_rr"] = X.rel(["a"], [[X.rel(["b"], [[N(1)]])], [X.rel(["b"], [[N(2)]])]])
    Q["r_rr2"] = X.rel(["a"], [[X.rel(["b"], [[N(1)]])], [X.rel(["c"], [[N(0)]])]])
    Q["r_ta"] = X.rel(["a"], [[X.tup([("x", N(1))])], [X.tup([("@neg", N(5))])]])
    Q["u_3b"] = X.set_([N(1), X.tup([("a", N(2))]), pool.pair("@char", 0, N(97)), pool.pair("@item", 0, N(5))])
    Q["u_3c"] = X.set_([N(1), X.tup([("a", N(1))]), pool.pair("@char", 0, N(97)), pool.pair("@item", 0, N(6))])
    Q["u_3d"] = X.set_([N(1), N(2), X.tup([("a", N(1))]), pool.pair("@char", 0, N(97)), pool.pair("@item", 0, N(5))])
    Q["u_3e"] = X.set_([N(1), X.tup([("a", N(1))]), pool.pair("@char", 1, N(97)), pool.pair("@item", 0, N(5))])
    Q["u_2b"] = X.set_([N(1), X.tup([("a", N(1))])])                         # fewer buckets than u_3
    Q["u_pre"] = X.set_([N(1), pool.pair("@char", 0, N(97))])                # its ordered buckets are a prefix of those of u_3
    Q["u_rel2b"] = X.set_([X.tup([("a", N(1))]), X.tup([("b", N(2))])])
    Q["u_rel3"] = X.set_([X.tup([("a", N(1))]), X.tup([("b", N(1))]), X.tup([("a", N(1)), ("b", N(1))])])
    Q["u_de"] = X.set_([X.tup([("@", N(1)), ("@value", N(2))]), N(1)])      # a dict bucket
    Q["u_de2"] = X.set_([X.tup([("@", N(1)), ("@value", N(3))]), N(1)])
    Q["u_by"] = X.set_([pool.pair("@byte", 0, N(1)), pool.pair("@char", 0, N(97))])
    Q["s_t0n"] = X.set_([X.tup([]), N(1)])                                   # () files with the non-tuples: a generic set
    Q["s_t0s"] = X.set_([X.tup([]), X.set_([])])
    Q["u_t0a"] = X.set_([X.tup([]), X.tup([("a", N(1))])])                   # buckets {()} = true and a relation
    Q["t_d12"] = X.tup([("a", dd((1, 2)))])
    Q["t_d13"] = X.tup([("a", dd((1, 3)))])
    Q["t_u"] = X.tup([("a", X.set_([N(1), S("a")]))])
    Q["t_r"] = X.tup([("a", X.rel(["a"], [[N(1)], [N(2)]]))])
    Q["s_dd"] = X.set_([dd((1, 2)), dd((1, 3))])
    Q["s_d"] = X.set_([dd((1, 2))])
    Q["s_rr"] = X.set_([X.rel(["a"], [[N(1)], [N(2)]]), X.rel(["a", "b"], [[N(1), N(2)], [N(1), N(3)]])])
    Q["s_uu"] = X.set_([X.set_([N(2), S("a")]), X.set_([N(1), X.tup([("a", N(1))])])])
    Q["s_u1"] = X.set_([X.set_([N(2), S("a")])])
    Q["ar_dd"] = X.arr([dd((1, 2)), dd((1, 3))])
    Q["ar_du"] = X.arr([dd((1, 2)), X.set_([N(1), S("a")])])
    # @neg wrappers written as tuples (what Negate() builds), so that the reference interpreter evaluates them too
    Q["tn_set1"] = X.tup([("@neg", X.set_([N(1)]))])
    Q["tn_set2"] = X.tup([("@neg", X.set_([N(2)]))])
    Q["tn_tup1"] = X.tup([("@neg", X.tup([("a", N(1))]))])
    Q["tn_tup2"] = X.tup([("@neg", X.tup([("a", N(2))]))])
    Q["tn_num"] = X.tup([("@neg", N(1))])
    Q["tn_d"] = X.tup([("@neg", dd((1, 2)))])
    Q["neg_d"] = X.unop("-", dd((1, 2)))
    Q["neg_r"] = X.unop("-", X.rel(["a"], [[N(1)], [N(2)]]))
    Q["neg_u"] = X.unop("-", X.set_([N(2), S("a")]))
    return Q


GO_TYPE = {0: "rel.Number", 1: "rel.EmptySet", 2: "rel.TrueSet", 3: "rel.GenericSet", 4: "rel.String", 5: "rel.Bytes",
           6: "rel.Array", 7: "rel.Dict", 8: "rel.UnionSet", 9: "rel.Relation", 10: "*rel.GenericTuple",
           11: "rel.StringCharTuple", 12: "rel.ArrayItemTuple", 13: "rel.DictEntryTuple", 14: "rel.BytesByteTuple",
           15: "*rel.GenericTuple"}
KIND_NAME = {0: "Number", 1: "EmptySet", 2: "TrueSet", 3: "GenericSet", 4: "String", 5: "Bytes", 6: "Array", 7: "Dict",
             8: "UnionSet", 9: "Relation", 10: "GenericTuple", 11: "StringCharTuple", 12: "ArrayItemTuple",
             13: "DictEntryTuple", 14: "BytesByteTuple", 15: "@neg"}


def pair_src(a, b):
    return "(lt: %s < %s, gt: %s < %s, eq: %s = %s, le: %s <= %s, ge: %s >= %s, gtop: %s > %s)" % (
        X.src(a), X.src(b), X.src(b), X.src(a), X.src(a), X.src(b), X.src(a), X.src(b), X.src(a), X.src(b), X.src(a), X.src(b))


def truth(d):
    return d == {"s": [{"t": []}], "c": 1}


def sort_src(elems):
    return "{%s} orderby ." % ", ".join(X.src(e) for e in elems)


def main(tier, seed, replay=None):
    import itertools, concurrent.futures
    run = Run(PROP, tier, seed)
    vh, proof = prepare(PROP_FILES, thorough=(tier == "thorough"))
    rng = random.Random(seed)
    P = order_pool()
    names = sorted(P)
    if replay:
        rp = json.load(open(replay))
        names = [n for n in rp["case"].get("values", []) if n in P] or names
    elif tier == "quick":
        # near-miss pairs are always in: they differ in exactly one respect (hole vs {}, key vs value order, offset only, ...)
        pick = set(n for n in ("ar_hole", "ar_h13", "ar_h23", "ar_empty_mid", "ar_empty_mid2", "ar_hole2", "ar_123", "te_19", "te_23", "te_13", "ti_19", "ti_23",
                               "tc_1", "tc_2", "tb_1", "tb_2", "d19_23", "d12", "rj_ba", "r_ab", "rj_4", "r_4lit", "r_4nb", "rj_3c", "r_3clit", "str_sur1", "str_sur2", "str_fffd", "str_sur_h", "dm_12_13", "dm_12_20", "dm_x", "dm_y", "dm_z", "str_off", "str_a", "by_off", "by_12",
                               "empty", "true", "t0", "neg_set", "neg_tup") if n in P)
        # the Dict / Relation / UnionSet core whose comparisons the model decides (same keys and different values, key kinds,
        # several values, headings, row counts, reversed rows, unions differing in one bucket, () among non-tuples, nesting)
        pick.update(n for n in ("dk_ab3", "dab", "dk_tup", "dk_set", "dk_nest", "dk_nest2", "dm_mixv", "dm_3v", "d13",
                                "r_neg12", "r_neg03", "r_a", "r_a3", "r_a123", "r_ac", "r_mix", "r_mix2", "r_rr", "r_rr2",
                                "u_3", "u_3b", "u_3c", "u_3d", "u_pre", "u_rel2", "u_rel2b", "u_de", "u_de2", "s_t0n", "u_t0a",
                                "t_d12", "t_d13", "s_dd", "s_uu", "neg_d", "tn_set1", "tn_set2", "tn_tup1", "tn_tup2", "tn_num") if n in P)
        # a stratified sample: every representation family is represented, plus random others
        fam = {}
        for n in names:
            fam.setdefault(n.split("_")[0].rstrip("0123456789."), []).append(n)
        for f, lst in sorted(fam.items()):
            if not pick.intersection(lst):
                pick.update(rng.sample(lst, 1))
        rest = [n for n in names if n not in pick]
        pick.update(rng.sample(rest, min(len(rest), 5)))
        names = sorted(pick)
    reqs, idx = [], {}
    for a in names:
        for b in names:
            idx[len(reqs)] = (a, b)
            reqs.append({"id": len(reqs), "src": pair_src(P[a], P[b]), "budget_ms": 5000})
    outs, rc, err = run_harness_par(vh, "eval", reqs, nproc=8)
    lt, eq = {}, {}
    for i, (a, b) in idx.items():
        o = outs.get(i) or {"st": "missing"}
        rec = {"case": {"values": [a, b], "src": reqs[i]["src"]}, "observed": o}
        if o.get("st") != "ok":
            rec["oracle"] = "comparison of two data values does not evaluate (%s)" % o.get("st")
            run.classify_failure(None, rec)
            continue
        t = dict(o["val"]["t"])
        lt[(a, b)], eq[(a, b)] = truth(t["lt"]), truth(t["eq"])
        gt, le, ge, gtop = truth(t["gt"]), truth(t["le"]), truth(t["ge"]), truth(t["gtop"])
        if gtop != gt or le != (not gt) or ge != (not lt[(a, b)]):
            rec["oracle"] = "<=, >, >= are not the relations derived from <"
            run.classify_failure(None, rec)
    ntri = 0
    for a in names:
        for b in names:
            if (a, b) in lt and (b, a) in lt and a <= b:
                ntri += 1
                n = int(lt[(a, b)]) + int(lt[(b, a)]) + int(eq[(a, b)])
                if n != 1:
                    run.classify_failure(None, {"case": {"values": [a, b], "src": pair_src(P[a], P[b])},
                                                "observed": {"a<b": lt[(a, b)], "b<a": lt[(b, a)], "a=b": eq[(a, b)]},
                                                "oracle": "not exactly one of a < b, a = b, b < a"})
    ntrans = 0
    for a, b, c in itertools.product(names, repeat=3):
        if lt.get((a, b)) and lt.get((b, c)):
            ntrans += 1
            if not lt.get((a, c), True):
                run.classify_failure(None, {"case": {"values": [a, b, c], "src": "(%s) < (%s) < (%s)" % (X.src(P[a]), X.src(P[b]), X.src(P[c]))},
                                            "observed": "a<b and b<c but not a<c", "oracle": "< is not transitive"})
    # sorting follows the one order: orderby / printing of shuffled constructions of the same members
    nsort, sreqs, smeta = 0, [], []
    for _ in range(25 if tier == "quick" else 150):
        k = rng.randrange(3, 7)
        # several sugar tuples of one kind at one index in one set are the collision finding (C01): keep them apart
        sortable = [n for n in names if not n.startswith(("ti_", "tc_", "tb_"))]
        elems = rng.sample(sortable, min(k, len(sortable)))
        perm = elems[:]
        rng.shuffle(perm)
        for variant in (elems, perm):
            smeta.append(elems)
            sreqs.append({"id": len(sreqs), "src": "(o: %s, s: {%s})" % (sort_src([P[n] for n in variant]), ", ".join(X.src(P[n]) for n in variant)), "budget_ms": 5000})
    souts, _, _ = run_harness(vh, "eval", sreqs)
    for i in range(0, len(sreqs), 2):
        o1, o2 = souts.get(i) or {}, souts.get(i + 1) or {}
        nsort += 1
        rec = {"case": {"values": smeta[i], "src": sreqs[i]["src"], "src2": sreqs[i + 1]["src"]}, "observed": [o1.get("repr"), o2.get("repr")]}
        if o1.get("st") != "ok" or o2.get("st") != "ok":
            rec["oracle"] = "sorting a set of data values does not evaluate"
            run.classify_failure(None, rec)
        elif o1.get("repr") != o2.get("repr"):
            rec["oracle"] = "the same members sorted/printed from two constructions give different sequences"
            run.classify_failure(None, rec)
    # the order a set PRINTS its members in (OrderedValues: generic sets, union sets, relations) is the one order: it is the
    # sequence `orderby .` yields.  Enumerated core (independent of the random stream): members of several kinds and of several
    # tuple headings whose values interleave, plus the sets of the random stream above.
    PRINT_CORE = ["{(a: 1), (a: 3), (a: 2, b: 0)}", "{(a: 1, b: 5), (a: 1, c: 2), (a: 1, b: 7), (a: 0, c: 9)}",
                  "{(a: 2), (b: 1), (a: 1, b: 1), (a: 3, b: 0), (b: 2)}", "{(a: 1), (a: 3), (a: 2, b: 0), 1, 'x', [2]}",
                  "{3, 1, 2, (a: 1), 'b', 'a', [1], [0, 1], {1: 2}, {1: 1}, <<2>>, <<1>>}", "{(x: {2}), (x: {1}, y: 0), (x: {3})}",
                  "{(a: 'b'), (a: 'a', b: 1), (a: 'c')}", "{{(a: 1), (a: 3)}, {(a: 2, b: 0)}, {(a: 2)}}",
                  "{(@: 1, @item: 2), (@: 0, @item: 5), (@: 0, @char: 98), (@: 2, @char: 97), (@: 1, @value: 0)}",
                  "{(a: 1, b: 1), (a: 1, c: 0), (a: 0, b: 2, c: 1), (a: 2)}", "{1, 2, 3, 4, 5, 6, 7, 8, 9, (a: 5), (a: 1), (a: 3, b: 1), 'q'}",
                  "{[1, , 2], [1, 2], [1], (a: 1), (a: 0, b: 0), 0}"]
    def canon_dump(d):
        # nested sets are dumped in enumeration order: compare them as sets
        if "s" in d:
            return {"s": sorted((canon_dump(m) for m in d["s"]), key=lambda x: json.dumps(x, sort_keys=True)), "c": d.get("c")}
        if "t" in d:
            return {"t": [[k, canon_dump(v)] for k, v in d["t"]]}
        return d
    preqs = [{"id": i, "src": t} for i, t in enumerate(PRINT_CORE)]
    for i in range(0, len(sreqs), 2):
        m = re.search(r", s: (\{.*\})\)$", sreqs[i]["src"], re.S)
        if m:
            preqs.append({"id": len(preqs), "src": m.group(1)})
    oouts, _, _ = run_harness(vh, "ordered", preqs)
    aouts, _, _ = run_harness(vh, "eval", [{"id": q["id"], "src": "(%s) orderby ." % q["src"], "budget_ms": 5000} for q in preqs])
    nprint = 0
    for q in preqs:
        o, a = oouts.get(q["id"]) or {}, aouts.get(q["id"]) or {}
        if o.get("st") != "ok" or a.get("st") != "ok" or "ord" not in o:
            continue
        items = sorted(((int(float(dict((k, v) for k, v in m["t"])["@"]["n"])), dict((k, v) for k, v in m["t"])["@item"]) for m in a["val"].get("s", [])),
                       key=lambda kv: kv[0])
        nprint += 1
        if [canon_dump(v) for _, v in items] != [canon_dump(v) for v in o["ord"]]:
            run.classify_failure(None, {"case": {"src": q["src"], "printed_order": True}, "observed": {"printed_order": o["ord"], "orderby": [v for _, v in items], "gotype": o.get("gotype")},
                                        "oracle": "a set prints its members in a sequence that is not the one `orderby .` yields (printing does not follow the order <)"})
    # committed witness of the open finding about hand-written nested @neg tuples
    wouts, _, _ = run_harness(vh, "eval", [{"id": 0, "src": "(@neg: (@neg: 1)) < 2"}])
    w = wouts.get(0) or {}
    if w.get("st") != "ok":
        run.classify_failure("neg-nested", {"case": {"src": "(@neg: (@neg: 1)) < 2"}, "observed": w,
                                            "oracle": "comparison of two data values does not evaluate"})
    elif run.finding_for("neg-nested"):
        run.corr_breaks.append({"what": "open finding neg-nested no longer reproduces", "observed": w})
    # the representation the model predicts for every value (kind_of) vs the Go type and Kind() of the implementation's value
    nid = {n: i for i, n in enumerate(names)}
    gouts, _, _ = run_harness(vh, "gotype", [{"id": nid[n], "src": X.src(P[n])} for n in names])
    body = ["From Arrai Require Import Base.Val Spec.SetAlg Eval.Interp Check.EvalCheck Check.C06Check.",
            "Definition vals : list (Z * expr) := [", ";\n".join("  (%d, %s)" % (nid[n], X.coq(P[n])) for n in names),
            "].\nDefinition R := Eval vm_compute in value_kinds vals.\nPrint R."]
    _, so, se = coq_eval("c06_kinds_%d" % os.getpid(), "\n".join(body))
    vk = coq_report(so, "R")
    kind_of, in_domain, rep_checked = {}, {}, 0
    if vk is None:
        run.corr_breaks.append({"what": "kind_of could not be evaluated (Check/C06Check.v value_kinds)", "log": se[-1200:]})
    else:
        for i, code in vk:
            n = names[i]
            if code < 0:
                continue
            in_domain[n], kind_of[n], knum = code >= 1000000, (code % 1000000) // 1000, code % 1000
            g = gouts.get(i) or {}
            if g.get("st") != "ok":
                continue
            rep_checked += 1
            if g.get("gotype") != GO_TYPE[kind_of[n]] or abs(int(g.get("kind", 0))) != knum:
                run.corr_breaks.append({"what": "the representation of a value differs from the one the model of the order assumes (Rep/Less.v kind_of)",
                                        "case": {"values": [n], "src": X.src(P[n])}, "observed": {"gotype": g.get("gotype"), "kind": g.get("kind")},
                                        "model": {"gotype": GO_TYPE[kind_of[n]], "kind": knum}})
    cells = {}
    for (a, b) in lt:
        if a in kind_of and b in kind_of:
            key = "%s x %s" % (KIND_NAME[kind_of[a]], KIND_NAME[kind_of[b]])
            cells[key] = cells.get(key, 0) + 1
    # correspondence of < and = with the model of the Go order (Rep/Less.v) inside Coq
    cases = [{"id": i, "a": a, "b": b} for i, (a, b) in idx.items() if (a, b) in lt]
    chunks = [cases[i:i + 1500] for i in range(0, len(cases), 1500)]
    modelled = 0

    pool_term = "Definition pool : list expr := [\n" + ";\n".join("  " + X.coq(P[n]) for n in names) + "\n]."

    def do(ic):
        k, chunk = ic
        body = ["From Arrai Require Import Base.Val Spec.SetAlg Eval.Interp Check.EvalCheck Check.C06Check.", pool_term,
                "Definition cases : list case06 := ["]
        body.append(";\n".join("  {| o_id := %d; o_a := %d; o_b := %d; o_lt := %s; o_eq := %s |}" % (
            c["id"], nid[c["a"]], nid[c["b"]], cbool(lt[(c["a"], c["b"])]), cbool(eq[(c["a"], c["b"])])) for c in chunk))
        body.append("].\nDefinition R := Eval vm_compute in report06 pool cases.\nPrint R.")
        rc2, so, se = coq_eval("c06_cases_%d_%d" % (os.getpid(), k), "\n".join(body))
        rep = coq_report(so, "R")
        if rep is None:
            return None, None, se
        return [r for r in rep if r[0] >= 0], [r[1] for r in rep if r[0] < 0], se

    with concurrent.futures.ThreadPoolExecutor(max_workers=12) as ex:
        for (rep, mc, se), chunk in zip(ex.map(do, enumerate(chunks)), chunks):
            if rep is None:
                run.corr_breaks.append({"what": "model of the Go order could not be evaluated (Check/C06Check.v)", "log": se[-1200:]})
                continue
            modelled += (mc or [0])[0]
            for cid, code in rep:
                a, b = idx[cid]
                rec = {"case": {"values": [a, b], "src": pair_src(P[a], P[b])}, "observed": {"a<b": lt[(a, b)], "a=b": eq[(a, b)]}}
                if code == 2:
                    rec["oracle"] = "a = b differs from equality of denotations"
                    run.classify_failure(None, rec)
                elif code == 1:
                    run.corr_breaks.append({"what": "a < b differs from the model of the Go order (Rep/Less.v rless)", **rec})
                elif code == 3:
                    run.corr_breaks.append({"what": "the model of the Go order predicts a panic where the implementation answers (Rep/Less.v rless)", **rec})
                else:
                    run.corr_breaks.append({"what": "the model of the Go order ran out of fuel (Check/C06Check.v FUEL06)", **rec})
    # every pair of values the specification evaluates must be decided by the model (no kind is left to the oracle alone)
    expected = sum(1 for c in cases if c["a"] in kind_of and c["b"] in kind_of)
    if vk is not None and modelled != expected:
        run.corr_breaks.append({"what": "pairs decided by the model (%d) differ from the pairs of values it covers (%d)" % (modelled, expected)})
    same_kind_pairs = {k: v for k, v in cells.items() if k.split(" x ")[0] == k.split(" x ")[1]}
    run.cov.update({
        "evaluations": len(reqs) + len(sreqs), "distinct_nontrivial": sum(1 for k in lt if lt[k]),
        "rule": "all ordered pairs over %d values of the order pool (every kind and representation: numbers, generic and sugar tuples, @neg wrappers, empty/true, generic sets, strings/bytes/arrays with offsets and holes, dicts incl. several values under a key, relations, union sets, nested): a<b, b<a, a=b, <=, >=, > through syntax.EvaluateExpr; trichotomy on every pair, transitivity on every triple of the pair matrix, derived operators, orderby/printing of shuffled constructions; distinct non-trivial = ordered pairs with a < b" % len(names)
                + ("; thorough = the whole pool (%d values)" % len(P) if tier == "thorough" else "; quick = stratified sample of the pool"),
        "samples": [reqs[i]["src"] for i in range(0, len(reqs), max(1, len(reqs) // 6))][:6],
        "pairs_checked_trichotomy": ntri, "triples_checked_transitivity": ntrans, "sort_comparisons": nsort,
        "pairs_compared_with_model": modelled, "exhaustive": tier == "thorough",
        "representations_compared_with_model": rep_checked,
        "values_in_theorem_domain": sum(1 for n in in_domain if in_domain[n]), "values_outside_theorem_domain": sorted(n for n in in_domain if not in_domain[n]),
        "values_by_kind": {KIND_NAME[k]: sum(1 for n in kind_of if kind_of[n] == k) for k in sorted(set(kind_of.values()))},
        "pairs_by_kind_same_kind": dict(sorted(same_kind_pairs.items())),
        "pairs_by_kind_x_kind": dict(sorted(cells.items())),
    })
    run.assumptions = ["functions are outside the data fragment",
                       "the order theorem speaks about values the Go representations can hold: canonical, sugar tuples well typed, no two sequence items at one index, no hand-written nested @neg (go_ok)"]
    return run.finish(proof)
