"""C11: concurrent evaluation over shared values is race-free and gives serial results.

Theorems: Properties/C11.v (transcribed synchronisation protocols, any number of threads).
Correspondence: the model's verdict per protocol (Sys/Conc.v model_racy / model_deadlocks, proved
in Proofs/ConcVerdictP.v) against the Go race detector, a timeout for stranded waiters, and the
comparison of every goroutine's result with a single-goroutine evaluation (harness/c11.go, -race build).
One child process per scenario; race reports are read from GORACE=log_path and normalised to
file:function of the first github.com/arr-ai/arrai frame of each of the two conflicting accesses."""
import concurrent.futures
import glob
import random
import common
from common import *

PROP = "C11"
PROP_FILES = ["Properties/C11.v", "Check/C11Check.v"]

# race sites of the open-quirk call sites -> (Coq protocol, quirk)
QUIRK_SITES = {
    "rel/value_set_generic.go:GenericSet.Where": ("PWhereErr", "q_where_err_capture_race"),
    "rel/value_set_relpos.go:positionalRelation.Where": ("PWhereErr", "q_where_err_capture_race"),
    "rel/value_set_rel.go:Relation.Join": ("PJoinAttrs", "q_join_attrs_append_alias"),
}
HANG_SIG = "hang:pkg/importcache/import_cache.go:importCache.getOrAdd"
QUIRK_OF_SIG = {s: q for s, (_, q) in QUIRK_SITES.items()}
QUIRK_OF_SIG[HANG_SIG] = "q_importcache_error_no_broadcast"
CODE_QUIRK = {3: "q_where_err_capture_race", 4: "q_importcache_error_no_broadcast", 5: "q_join_attrs_append_alias"}


# ---------------------------------------------------------------- race report parsing

ACCESS = re.compile(r"^(Write|Read|Previous write|Previous read|Atomic write|Atomic read|Previous atomic write|Previous atomic read) at 0x[0-9a-f]+ by (?:main )?goroutine", re.I)
FRAME_FN = re.compile(r"^\s+github\.com/arr-ai/arrai/([A-Za-z0-9_/.\-]+?)\.((?:\(\*?[A-Za-z0-9_]+(?:\[[^\]]*\])?\)\.)?[A-Za-z0-9_]+(?:\.[A-Za-z0-9_]+)*)\(")


def norm_fn(fn):
    """rel.(*GenericTuple).Names.func1 -> GenericTuple.Names ; init.Joiner.func10 -> Joiner"""
    fn = re.sub(r"\(\*?([A-Za-z0-9_]+)(?:\[[^\]]*\])?\)", r"\1", fn)
    parts = [p for p in fn.split(".") if not re.fullmatch(r"func\d+|\d+|gowrap\d+|init", p)]
    return ".".join(parts[:2]) if parts else fn


SKIP_FRAME = re.compile(r"^\s+(runtime\.|sync/atomic\.|sync\.|internal/)")


def parse_reports(text, repo):
    """-> list of reports {"sites": [top site per access, None when the accessing frame is not arr-ai/arrai code],
    "stacks": [all arr-ai/arrai sites of each access's stack], "text": head of the report}"""
    reports = []
    for block in text.split("WARNING: DATA RACE")[1:]:
        lines = block.splitlines()
        sites, stacks = [], []
        i = 0
        while i < len(lines) and len(sites) < 2:
            if ACCESS.match(lines[i]):
                top, seen_top, allsites = None, False, []
                j = i + 1
                while j < len(lines) and lines[j].strip():
                    if lines[j].startswith("  ") and not lines[j].startswith("      "):   # a function line
                        m = FRAME_FN.match(lines[j])
                        site = None
                        if m:
                            f = lines[j + 1].strip().split(" ")[0] if j + 1 < len(lines) else ""
                            f = f.rsplit(":", 1)[0]
                            for pre in (repo.rstrip("/") + "/", "/repo/"):
                                if f.startswith(pre):
                                    f = f[len(pre):]
                            site = "%s:%s" % (f, norm_fn(m.group(2)))
                            allsites.append(site)
                        if not seen_top and not SKIP_FRAME.match(lines[j]):
                            seen_top = True
                            top = site
                    j += 1
                sites.append(top)
                stacks.append(allsites)
                i = j
            else:
                i += 1
        reports.append({"sites": sites, "stacks": stacks, "text": "\n".join(lines[:28])})
    return reports


# ---------------------------------------------------------------- scenarios

def rel_src(rows, attrs, rng):
    """a relation literal with `rows` rows (set of tuples: headings come from TupleOrderedNames)"""
    mods = [rng.choice([2, 3, 5, 7]) for _ in attrs]
    return "{" + ", ".join("(" + ", ".join("%s: %d" % (a, i if k == 0 else i % m) for k, (a, m) in enumerate(zip(attrs, mods))) + ")"
                           for i in range(rows)) + "}"


def numset_src(n):
    if n > 5000:
        return "(//seq.repeat(%d, [0])) => .@" % n
    return "{" + ", ".join(str(i) for i in range(n)) + "}"


def gen_scenarios(rng, tier):
    thorough = tier == "thorough"
    R = 2 if not thorough else 6          # rounds per eval case
    N = 8
    sc = []

    # S1 GenericTuple caches through the Tuple API (Names, TupleOrderedNames, bucket on set construction)
    cases = []
    pool = ["a", "b", "c", "d", "e", "key", "value", "x1", "zz", "@x"]
    for _ in range(4 if not thorough else 12):
        k = rng.randrange(1, 7)
        cases.append({"kind": "tuple", "attrs": rng.sample(pool, k), "n": rng.choice([2, 4, 8, 16]), "rounds": 25 if not thorough else 80})
    cases.append({"kind": "tuple", "attrs": ["@", "@foo"], "n": 8, "rounds": 10})      # malformed-ish: @-names in a generic tuple
    cases.append({"kind": "tuple", "attrs": [], "n": 8, "rounds": 10})                 # the empty tuple
    sc.append({"name": "tuple-api", "proto": "PTupleNames", "hits": False, "env": {}, "cases": cases})

    # S2 tuples and union sets of tuples through compiled expressions (bucket cache nested in names cache)
    cases = []
    for _ in range(1 if not thorough else 4):
        a, b, c = rng.sample(["a", "b", "c", "d", "e"], 3)
        shared = "{(%s:1,%s:2), (%s:3), (%s:1,%s:[1,2]), (%s:(%s:1)), 7, {1,2}}" % (a, b, c, a, c, b, a)
        exprs = ["x | {(%s:1,%s:3)}" % (a, b), "x & {(%s:3)}" % c, "x count", "x = (x | x)", "{(%s:3)} <: x" % c,
                 "x where (. = 7)", "x => cond . {(%s:v, ...): v, _: 0}" % a, "x -- {7}"]
        rng.shuffle(exprs)
        cases.append({"kind": "eval", "shared": shared, "exprs": exprs, "n": N, "rounds": R})
        shared = "(%s:1, %s:2, %s:(%s:3, %s:{1,2}))" % (a, b, c, a, b)
        exprs = ["x.%s" % a, "x.|%s,%s|" % (a, b), "x +> (zz:1)", "{x} | {(%s:1)}" % a, "x = (%s:1, %s:2, %s:(%s:3, %s:{1,2}))" % (a, b, c, a, b),
                 "x.%s.%s" % (c, a), "{x, x +> (%s:5)} count" % a, "x.nope", "x <&> 1", "x +> ", "x ->"]   # last four: malformed / failing
        rng.shuffle(exprs)
        cases.append({"kind": "eval", "shared": shared, "exprs": exprs, "n": N, "rounds": R})
    sc.append({"name": "tuple-eval", "proto": "PTupleBucket", "hits": False, "env": {"FROZEN_CONCURRENCY": "3"}, "cases": cases})

    # S3 positionalRelation index cache: joins with different projector keys on one shared relation.
    # Headings of 2 or 4 attributes only: with 3 (spare capacity in the heading slice) a join that extends the
    # heading is inside the known-defective region of q_join_attrs_append_alias (its own scenario below).
    cases = []
    for _ in range(2 if not thorough else 6):
        attrs = rng.choice([["a", "b"], ["a", "b", "c", "d"], ["k", "v"], ["p", "q", "r", "s"]])
        rows = rng.choice([3, 9, 12, 40])
        a, b = attrs[0], attrs[1]
        last = attrs[-1]
        exprs = ["x <&> {(%s:1)}" % a, "x <&> {(%s:1)}" % b, "x <&> {(%s:1,%s:1)}" % (a, b), "x <&> {(%s:0, zz:1)}" % b,
                 "x <&> {(%s:1, yy:2), (%s:2, yy:3)}" % (last, last), "x <-> {(%s:1, ww:2)}" % a, "x -&- {(%s:1)}" % b,
                 "x --- {(%s:1)}" % a, "x where .%s = 1" % a, "x => .%s" % b, "x count", "x nest |%s|g" % last,
                 "x <&> {(%s:1)} <&> {(%s:1)}" % (a, b), "x <&> x", "x <&> {}", "x <&> {1}"]
        rng.shuffle(exprs)
        if not thorough:
            exprs = exprs[:10]
        cases.append({"kind": "eval", "shared": rel_src(rows, attrs, rng), "exprs": exprs, "n": rng.choice([4, 8, 16]), "rounds": R})
    sc.append({"name": "relpos-index", "proto": "PRelposIndex", "hits": False, "env": {"FROZEN_CONCURRENCY": "3"}, "cases": cases})

    # S4 the captured err of Where: failing predicates on sets big enough for frozen's fan-out (FROZEN_CONCURRENCY=3: >= 32)
    size = rng.choice([64, 100, 150]) if not thorough else rng.choice([200, 300, 400])
    cases = [{"kind": "eval", "shared": numset_src(size), "exprs": ["x where .a = 1", "x where (cond {. % 3 = 0: .a, _: 1}) = 1"], "n": 2, "rounds": R}]
    sc.append({"name": "where-err-generic", "proto": "PWhereErr", "hits": True, "env": {"FROZEN_CONCURRENCY": "3"}, "cases": cases})
    cases = [{"kind": "eval", "shared": rel_src(size, ["a", "b"], rng), "exprs": ["x where .zz = 1"], "n": 2, "rounds": R}]
    sc.append({"name": "where-err-relation", "proto": "PWhereErr", "hits": True, "env": {"FROZEN_CONCURRENCY": "3"}, "cases": cases})

    # S5 parallel callbacks that do not fail (sampled only: the theorem about err needs a failing predicate)
    cases = [{"kind": "eval", "shared": numset_src(size), "exprs": ["x where . % 2 = 0", "x => . + 1", "x count", "x | {-1}", "x & {1,2,3}",
                                                                   "x where . < 0", "(x => (a: ., b: . % 4)) nest |a|g count"], "n": 4, "rounds": 1 if not thorough else 3},
             {"kind": "eval", "shared": rel_src(size, ["a", "b"], rng), "exprs": ["x where .b = 1", "x => .a", "x <&> {(b:1)}", "x count"], "n": 4, "rounds": 1 if not thorough else 3}]
    if thorough:
        big = 140000   # above frozen's default fan-out threshold (131072)
        cases.append({"kind": "eval", "shared": numset_src(big), "exprs": ["x where . % 2 = 0", "x count"], "n": 2, "rounds": 1})
    sc.append({"name": "parallel-callbacks", "proto": None, "hits": False, "env": {"FROZEN_CONCURRENCY": "3"}, "cases": cases[:2]})
    if thorough:
        sc.append({"name": "parallel-callbacks-default", "proto": None, "hits": False, "env": {}, "cases": cases[2:]})
        sc.append({"name": "where-err-default-fanout", "proto": "PWhereErr", "hits": True, "env": {},
                   "cases": [{"kind": "eval", "shared": numset_src(140000), "exprs": ["x where .a = 1"], "n": 1, "rounds": 1}]})

    # S6 the heading of Relation.Join: 3 attributes (cap 4), a join that adds one attribute
    cases = [{"kind": "eval", "shared": rel_src(rng.choice([3, 12]), ["a", "b", "c"], rng), "exprs": ["x <&> {(b:1, zz:1)}"], "n": 8, "rounds": R * 2}]
    sc.append({"name": "join-heading", "proto": "PJoinAttrs", "hits": True, "env": {}, "cases": cases})

    # S7 process-wide lazies: first use from several goroutines (one process = one first use)
    for i in range(1 if not thorough else 3):
        sc.append({"name": "std-lazies-%d" % i, "proto": "POnceCell", "hits": False, "env": {},
                   "cases": [{"kind": "std", "n": rng.choice([12, 15, 16]), "exprs": ["//seq.concat([[1],[2]])", "//str.upper(\"a\")", "//math.pi > 3", "//fn.fix"]}]})

    # S8 import cache
    cases = [{"kind": "importcache", "mode": "ok", "n": rng.choice([4, 6, 8]), "rounds": 4 if not thorough else 12},
             {"kind": "importcache", "mode": "nil", "n": 4, "rounds": 2 if not thorough else 4}]
    sc.append({"name": "importcache-ok", "proto": "PImportCache", "hits": False, "env": {}, "cases": cases})
    sc.append({"name": "importcache-err", "proto": "PImportCache", "hits": True, "env": {},
               "cases": [{"kind": "importcache", "mode": "err", "n": 4, "rounds": 3, "timeout_ms": 5000},
                         {"kind": "importcache", "mode": "chain", "n": 3, "rounds": 2, "timeout_ms": 6000}]})

    # S10 the stdin cache behind //os.stdin: one contended first use per process (no public reset), the process's
    # descriptor 0 re-pointed at a pipe fed in small chunks; serial result = the whole stream for everybody
    for i in range(2 if not thorough else 4):
        sc.append({"name": "stdin-cache-%d" % i, "proto": "PStdinCache", "hits": False, "env": {},
                   "cases": [{"kind": "stdin", "n": rng.choice([4, 8, 12]), "size": rng.choice([16384, 32768]), "chunk": rng.choice([64, 128, 256])}]})

    # S9 deprecator (sampled only)
    sc.append({"name": "deprecator", "proto": None, "hits": False, "env": {}, "cases": [{"kind": "deprecate", "n": 8, "rounds": 10 if not thorough else 40}]})
    for s in sc:
        for i, c in enumerate(s["cases"]):
            c["id"] = i
    return sc


# ---------------------------------------------------------------- running

def run_scenario(vrace, s, idx):
    w = workdir()
    logp = os.path.join(w, "race_%d_%s" % (idx, s["name"]))
    env = {"GORACE": "halt_on_error=0 log_path=%s" % logp}
    env.update(s["env"])
    if "FROZEN_CONCURRENCY" not in s["env"]:
        env["FROZEN_CONCURRENCY"] = ""
    t0 = time.time()
    try:
        outs, rc, err = run_harness(vrace, "c11", s["cases"], timeout=1800, env=env, stall=120)
    except subprocess.TimeoutExpired:
        outs, rc, err = {}, -9, "scenario timed out"
    text = ""
    for f in sorted(glob.glob(logp + "*")):
        text += open(f, errors="replace").read()
    reps = parse_reports(text, common.REPO)
    return {"outs": outs, "rc": rc, "stderr": err[-1500:], "reports": reps, "wall": round(time.time() - t0, 1)}


def memo_build():
    """one build only: the -race harness also serves `tables`."""
    real = common.build_harness
    done = {}

    def build(race=False):
        if "p" not in done:
            done["p"] = real(race=True)
        return done["p"]
    common.build_harness = build


def coq_classify(run, rows):
    body = ["From Coq Require Import List ZArith.", "Import ListNotations.", "From Arrai Require Import Sys.Conc Check.C11Check.", "Definition cases : list case11 := ["]
    body.append(";\n".join(
        "  {| c_id := %d%%Z; c_proto := %s; c_q := {| q_where_err_capture_race := %s; q_importcache_error_no_broadcast := %s; q_join_attrs_append_alias := %s |}; "
        "c_racy := %s; c_serial := %s; c_hang := %s |}" % (
            r["id"], r["proto"], cbool(r["q"]["q_where_err_capture_race"] and r["hits"]), cbool(r["q"]["q_importcache_error_no_broadcast"] and r["hits"]),
            cbool(r["q"]["q_join_attrs_append_alias"] and r["hits"]), cbool(r["racy"]), cbool(r["serial"]), cbool(r["hang"])) for r in rows))
    body.append("].\nDefinition R := Eval vm_compute in report cases.\nPrint R.")
    rc, so, se = coq_eval("c11_cases", "\n".join(body))
    rep = coq_report(so, "R")
    if rep is None:
        run.corr_breaks.append({"what": "model evaluation failed (Check/C11Check.v)", "log": (so + se)[-1500:]})
        return {}
    return dict(rep)


def main(tier, seed, replay=None):
    memo_build()
    run = Run(PROP, tier, seed)
    vrace, proof = prepare(PROP_FILES, thorough=False)
    chk = None
    if tier == "thorough" and proof.get("ok"):
        # coqchk of the property's cone, in the background while the scenarios run
        # (common.prepare's own coqchk call lacks the logical prefix: run it here with the full name)
        chk = subprocess.Popen("timeout 2400 coqchk -silent -o -Q . Arrai Arrai.Properties.C11", shell=True, cwd=common.COQ,
                               stdout=subprocess.PIPE, stderr=subprocess.STDOUT, text=True)
    rng = random.Random(seed)
    open_sigs = {f["sig"] for f in run.opened}
    q_cur = {q: False for q in set(QUIRK_OF_SIG.values())}
    for sig in open_sigs:
        if sig in QUIRK_OF_SIG:
            q_cur[QUIRK_OF_SIG[sig]] = True
    if replay:
        rp = json.load(open(replay))
        scenarios = [rp["case"]["scenario"]] if "case" in rp else \
            [b["case"]["scenario"] for b in rp.get("no_longer_checks", []) if isinstance(b, dict) and "case" in b]
    else:
        scenarios = gen_scenarios(rng, tier)
        if tier == "thorough":           # several seeds
            for extra in (seed + 1, seed + 2):
                more = gen_scenarios(random.Random(extra), "quick")
                for s in more:
                    s["name"] += "-s%d" % extra
                scenarios += [s for s in more if not s["name"].startswith(("std-lazies", "stdin-cache"))]
    with concurrent.futures.ThreadPoolExecutor(max_workers=12) as ex:
        results = list(ex.map(lambda p: run_scenario(vrace, p[1], p[0]), enumerate(scenarios)))

    rows, evals, dist, seen = [], 0, 0, set()
    site_hist, kind_hist = {}, {}
    outside = [0]
    for idx, (s, r) in enumerate(zip(scenarios, results)):
        serial, hang, crashed = True, False, False
        for c in s["cases"]:
            kind_hist[c["kind"]] = kind_hist.get(c["kind"], 0) + 1
            o = r["outs"].get(c["id"])
            if o is None:
                crashed = True
                continue
            evals += int(o.get("evals", 0))
            serial = serial and bool(o.get("serial", False)) and o.get("st") == "ok"
            hang = hang or bool(o.get("hang", False))
            for e, wv in zip(c.get("exprs", []), o.get("wants", []) or []):
                key = (c.get("shared"), e)
                if key not in seen:
                    seen.add(key)
                    if wv.startswith("ok:") and wv not in ('ok:{"c":0,"s":[]}',):
                        dist += 1
            if c["kind"] != "eval" and o.get("serial") and not o.get("hang"):
                key = json.dumps({k: v for k, v in c.items() if k != "id"}, sort_keys=True)
                if key not in seen:
                    seen.add(key)
                    dist += 1
        base = {"case": {"scenario": s}, "observed": {"outs": r["outs"], "rc": r["rc"], "stderr": r["stderr"], "wall_s": r["wall"]}}
        if crashed:
            # the child died (fatal error, timeout) before answering every case
            run.classify_failure(None, dict(base, oracle="the harness process did not answer every case of scenario %s (crash or timeout): rc=%s" % (s["name"], r["rc"])))
        # races: every report with a frame in arr-ai/arrai counts; attribution by site
        own_racy = False
        for rep in r["reports"]:
            sites = [x for x in rep["sites"] if x]
            if not sites:
                outside[0] += 1
                continue       # neither conflicting access is made by arr-ai/arrai code (harness/runtime): not this property
            for x in set(sites):
                site_hist[x] = site_hist.get(x, 0) + 1
            # attributed to a quirk iff one of the two conflicting accesses IS the defective access (its accessing
            # frame is one of the quirk's call sites); whatever it conflicts with touches the same memory
            attributed = None
            for x in sites:
                if x in QUIRK_SITES:
                    attributed = QUIRK_SITES[x][1]
            rec = dict(base, race_sites=rep["sites"], report=rep["text"],
                       oracle="the race detector reports unsynchronised conflicting accesses in arr-ai/arrai code")
            if attributed:
                hit = sorted({y for y in sites if QUIRK_SITES.get(y, (None, None))[1] == attributed})
                if s["proto"] == QUIRK_SITES[hit[0]][0]:
                    own_racy = True
                for x in hit:
                    run.classify_failure(x, rec)           # open -> KNOWN-FINDING, otherwise VIOLATION
            else:
                run.classify_failure(None, rec)            # a race at any other site
        if s["proto"]:
            rows.append({"id": idx, "proto": s["proto"], "q": q_cur, "hits": s["hits"], "racy": own_racy, "serial": serial or crashed, "hang": hang,
                         "scenario": s["name"]})
        else:
            if not serial or hang:
                run.classify_failure(None, dict(base, oracle="a goroutine's result differs from the single-goroutine result, or a goroutine never returned (scenario %s)" % s["name"]))
    codes = coq_classify(run, rows) if rows else {}
    if chk is not None:
        out = chk.communicate()[0]
        proof["coqchk"] = out[-1500:]
        proof["checker_cmd"] += " ; coqchk -silent -o -Q . Arrai Arrai.Properties.C11"
        if chk.returncode != 0 or "Axioms: <none>" not in out:
            proof["broken"].append({"what": "coqchk failed or reports axioms", "log": out[-1500:]})
            proof["ok"] = False
            proof["discharged"] = 0
    for row in rows:
        code = codes.get(row["id"])
        s, r = scenarios[row["id"]], results[row["id"]]
        base = {"case": {"scenario": s}, "observed": {"outs": r["outs"], "race_sites": [rep["sites"] for rep in r["reports"]][:6], "wall_s": r["wall"]},
                "model": {"proto": row["proto"], "q_cur": q_cur, "exercises_defective_path": row["hits"]}}
        if code is None or code == 0:
            continue
        if code == 1:
            why = []
            if not row["serial"]:
                why.append("a goroutine's result differs from the single-goroutine result")
            if row["hang"]:
                why.append("a goroutine never returned (stranded waiter)")
            if row["racy"]:
                why.append("race at a site the theorem covers")
            if row["racy"] and row["serial"] and not row["hang"]:
                continue    # already classified per site above
            run.classify_failure(None, dict(base, oracle="; ".join(why) or "property fails where the theorem says it holds"))
        elif code == 2:
            run.corr_breaks.append(dict(base, what="the model (with the open findings' quirks on) predicts a failure in scenario %s but the implementation showed none: "
                                                   "an open finding no longer reproduces" % row["scenario"]))
        elif code == 4:
            run.classify_failure(HANG_SIG, dict(base, oracle="a caller of GetOrAddFromCache never returned after a failed add()"))
        elif code in (3, 5):
            # races already classified per site; a result mismatch inside the defective region is attributed to the quirk's sites
            if not row["serial"]:
                for x, (p, qn) in QUIRK_SITES.items():
                    if qn == CODE_QUIRK[code]:
                        run.classify_failure(x, dict(base, oracle="result differs from the serial result inside the region of " + qn))
    samples = []
    for s in scenarios[:10]:
        c = s["cases"][0]
        samples.append("%s: %s" % (s["name"], (c.get("shared", "") + " |- " + "; ".join(c.get("exprs", [])[:3])) if c["kind"] == "eval" else json.dumps({k: v for k, v in c.items() if k != "id"})))
    run.cov.update({
        "evaluations": evals, "distinct_nontrivial": dist,
        "rule": "scenarios = one -race child process each (GORACE log_path), N goroutines released together evaluate the same compiled expressions over a shared value "
                "bound to x (fresh value and fresh compiled expressions every round, so first-use of every cache is contended), results compared with a single-goroutine run on a "
                "separately built copy; FROZEN_CONCURRENCY=3 makes frozen fan callbacks out from 32 members; evaluations = goroutine x expression x round; distinct = distinct "
                "(shared value source, expression) whose single-goroutine result is a non-empty value, plus distinct API cases that completed" +
                ("; thorough: three seeds, more rounds, a 140000-member set under the default fan-out threshold" if tier == "thorough" else ""),
        "samples": samples[:8],
        "scenario_histogram": {s["name"]: len(s["cases"]) for s in scenarios},
        "case_kind_histogram": kind_hist,
        "race_site_histogram": site_hist,
        "race_reports_outside_arrai": outside[0],
        "scenario_wall_s": {s["name"]: r["wall"] for s, r in zip(scenarios, results)},
        "model_codes": {scenarios[k]["name"]: v for k, v in codes.items()},
        "q_cur": q_cur,
        "exhaustive": False,
    })
    run.assumptions = [
        "the theorems are about the transcribed protocols of Sys/Conc.v under sequentially consistent interleaving; the Go memory model, scheduler and frozen's fan-out are sampled by the race detector only",
        "a transcription error is visible only when the race detector / result comparison / timeout disagrees with the model's verdict for that protocol",
        "race detection is dynamic: absence of a report is evidence for the sampled schedules only",
        "headings of 3 attributes with heading-extending joins are confined to the join-heading scenario (region of q_join_attrs_append_alias)",
    ]
    return run.finish(proof)
