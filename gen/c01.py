"""C01: set algebra is exact for every mix of representations."""
import random
from common import *
import expr as X
import pool
import evalcheck
import dictrep

PROP = "C01"
PROP_FILES = ["Properties/C01.v", "Check/EvalCheck.v", "Check/DictCheck.v"]
BIN = ["|", "&", "&~", "~~"]
SUBS = ["(<)", "(<=)", "(>)", "(>=)", "(<>)", "(<>=)"]


def fns():
    d = X.var(".")
    return [X.dotfn(d), X.dotfn(X.num(1)), X.dotfn(X.set_([d])), X.dotfn(X.tup([("a", d)])),
            X.dotfn(X.cmpop("=", d, X.num(1))), X.dotfn(X.tup([("@", X.num(0)), ("@item", d)])),
            X.dotfn(X.tup([("@", X.num(0)), ("@char", X.num(97))]))]


def preds(rng):
    d = X.var(".")
    return [X.dotfn(X.true_()), X.dotfn(X.set_([])), X.dotfn(X.cmpop("=", d, X.num(1))),
            X.dotfn(X.cmpop("!=", d, X.tup([("@", X.num(0)), ("@char", X.num(97))]))),
            X.dotfn(X.cmpop("!=", d, X.tup([("@", X.num(1)), ("@item", X.num(2))]))),
            X.dotfn(X.cmpop("<:", d, X.set_([X.num(1), X.tup([("@", X.num(0)), ("@item", X.num(1))]), X.tup([("a", X.num(1))])])))]


def members_of(e):
    """the members of a literal, as ASTs (so that with / without hit members that are really there)"""
    N = X.num
    k = e[0]
    if k == "str":
        return [X.tup([("@", N(e[2] + i)), ("@char", N(ord(c)))]) for i, c in enumerate(e[1])]
    if k == "bytes":
        return [X.tup([("@", N(e[2] + i)), ("@byte", N(b))]) for i, b in enumerate(e[1])]
    if k == "arr":
        return [X.tup([("@", N(e[2] + i)), ("@item", x)]) for i, x in enumerate(e[1]) if x is not None]
    if k == "dict":
        return [X.tup([("@", a), ("@value", b)]) for a, b in e[1]]
    if k == "rel":
        return [X.tup(list(zip(e[1], r))) for r in e[2]]
    if k == "set":
        return list(e[1])
    return []


def gen_cases(rng, tier):
    P = pool.base_pool()
    names = sorted(P)
    sets = [n for n in names if not (n.startswith("n") or n.startswith("t")) or n == "true"]
    members = [n for n in names if n.startswith("n") or n.startswith("t")] + ["s1", "str_a", "empty"]
    asts = []
    if tier == "thorough":
        for a in sets:
            for b in sets:
                for op in BIN + SUBS:
                    asts.append(("%s %s %s" % (a, op, b), (X.binop if op in BIN else X.cmpop)(op, P[a], P[b])))
            for m in members:
                for op in ("with", "without"):
                    asts.append(("%s %s %s" % (a, op, m), X.binop(op, P[a], P[m])))
                asts.append(("%s <: %s" % (m, a), X.cmpop("<:", P[m], P[a])))
    else:
        for _ in range(500):
            a, b = rng.choice(sets), rng.choice(sets)
            op = rng.choice(BIN + BIN + SUBS)
            asts.append(("%s %s %s" % (a, op, b), (X.binop if op in BIN else X.cmpop)(op, P[a], P[b])))
        for _ in range(250):
            a, m = rng.choice(sets), rng.choice(members)
            op = rng.choice(["with", "without", "<:"])
            asts.append(("%s %s %s" % (a, op, m), X.cmpop("<:", P[m], P[a]) if op == "<:" else X.binop(op, P[a], P[m])))
    # equal or overlapping denotations in different representations, every operator, both operand orders
    twins = [("str_ab", "str_rel"), ("ar_12", "ar_set"), ("ar_12", "ar_map"), ("by_12", "by_set"), ("d12", "drel"), ("r_ab", "rj_ba"),
             ("r_bc", "rj_bc"), ("r_ab", "r_set"), ("str_abc", "str_where"), ("str_ab", "str_seq"), ("dmulti", "d12"), ("u_3", "smix"),
             ("rj_cab", "r_ab"), ("r_atx", "rj_x_at"), ("ar_hole", "ar_123"), ("str_hole", "str_abc"), ("u_arr_str", "ar_1")]
    for a, b in twins:
        if a in P and b in P:
            for x, y in ((a, b), (b, a)):
                for op in BIN + (SUBS if tier == "thorough" else [rng.choice(SUBS)]):
                    asts.append(("twin %s %s %s" % (x, op, y), (X.binop if op in BIN else X.cmpop)(op, P[x], P[y])))
                asts.append(("twin count(%s | %s)" % (x, y), X.unop("count", X.binop("|", P[x], P[y]))))
    # the operand is still the same set after the operator ran: t = s op m, then s again (its members, count, the same op)
    lits = [n for n in sets if members_of(P[n])]
    for _ in range(150 if tier == "quick" else 1500):
        a = rng.choice(lits)
        ms = members_of(P[a])
        m = rng.choice(ms) if rng.random() < 0.75 else P[rng.choice(members)]
        op = rng.choice(["without", "without", "with", "&~", "|"])
        rhs = m if op in ("with", "without") else X.set_([m])
        s_, t_ = X.var("s_"), X.var("t_")
        body = X.arr([t_, s_, X.unop("count", s_), X.binop(op, s_, rhs), X.unop("count", X.binop("|", t_, s_))])
        asts.append(("reuse %s %s" % (a, op), X.let(X.pvar("s_"), P[a], X.let(X.pvar("t_"), X.binop(op, s_, rhs), body))))
    # enumerated core: values that have just changed representation, used as MEMBERS under the set operators
    N_ = X.num
    pr_ = lambda k, i, v: X.tup([("@", i), (k, v)])
    changed = [
        (X.binop("without", X.binop("|", X.dict_([(N_(1), N_(2))]), X.dict_([(N_(1), N_(3))])), pr_("@value", N_(1), N_(3))), X.dict_([(N_(1), N_(2))])),
        (X.binop("without", X.binop("with", X.dict_([(X.string("a"), N_(1))]), pr_("@value", X.string("a"), N_(2))), pr_("@value", X.string("a"), N_(2))), X.dict_([(X.string("a"), N_(1))])),
        (X.binop("without", X.arr([N_(1), None, N_(3)]), pr_("@item", N_(2), N_(3))), X.arr([N_(1)])),
        (X.binop("with", X.binop("without", X.string("abc"), pr_("@char", N_(1), N_(98))), pr_("@char", N_(1), N_(98))), X.string("abc")),
        (X.binop("without", X.bytes_([1, 2, 3]), pr_("@byte", N_(2), N_(3))), X.bytes_([1, 2])),
        (X.binop("without", X.set_([N_(1), X.string("a")]), X.string("a")), X.set_([N_(1)])),
        (X.binop("&~", X.binop("|", X.arr([N_(1), N_(2)]), X.arr([N_(3)], 2)), X.arr([N_(3)], 2)), X.arr([N_(1), N_(2)])),
        (X.binop("without", X.rel(["a", "b"], [[N_(1), N_(2)], [N_(3), N_(4)]]), X.tup([("a", N_(3)), ("b", N_(4))])), X.rel(["a", "b"], [[N_(1), N_(2)]])),
    ]
    for d_, plain in changed:
        other = X.dict_([(N_(1), N_(3))])
        asts.append(("member core", X.unop("count", X.set_([d_, plain]))))
        asts.append(("member core", X.cmpop("<:", plain, X.set_([d_, N_(7)]))))
        asts.append(("member core", X.cmpop("<:", d_, X.set_([plain, N_(7)]))))
        asts.append(("member core", X.binop("&", X.set_([d_]), X.set_([plain, other]))))
        asts.append(("member core", X.binop("&~", X.set_([d_, N_(7)]), X.set_([plain]))))
        asts.append(("member core", X.binop("|", X.set_([d_]), X.set_([plain]))))
        asts.append(("member core", X.binop("~~", X.set_([d_, N_(7)]), X.set_([plain, N_(8)]))))
        asts.append(("member core", X.cmpop("(<=)", X.set_([d_]), X.set_([plain, other]))))
        asts.append(("member core", X.binop("without", X.set_([plain, N_(7)]), d_)))
        asts.append(("member core", X.cmpop("=", d_, plain)))
    nrand = 300 if tier == "quick" else 3000
    F, Q = fns(), preds(rng)
    for _ in range(nrand):
        k = rng.random()
        a, b, c = rng.choice(sets), rng.choice(sets), rng.choice(sets)
        if k < 0.15:
            asts.append(("count %s" % a, X.unop("count", P[a])))
        elif k < 0.3:
            op = rng.choice(BIN)
            asts.append(("count(%s %s %s)" % (a, op, b), X.unop("count", X.binop(op, P[a], P[b]))))
        elif k < 0.45:
            asts.append(("%s where" % a, X.where(P[a], rng.choice(Q))))
        elif k < 0.6:
            asts.append(("%s =>" % a, X.darrow(P[a], rng.choice(F))))
        elif k < 0.68:
            small = [n for n in sets if n not in ("s9", "str_long", "ar_long")]
            a = rng.choice(small)
            asts.append(("^%s" % a, X.unop("^", P[a])))
        else:   # values produced by earlier operators
            o1, o2 = rng.choice(BIN), rng.choice(BIN)
            e = X.binop(o2, X.binop(o1, P[a], P[b]), P[c])
            if rng.random() < 0.4:
                m = rng.choice(members)
                e = X.binop(rng.choice(["with", "without"]), e, P[m])
            asts.append(("(%s %s %s) %s %s" % (a, o1, b, o2, c), e))
    return [{"id": i, "label": l, "ast": e} for i, (l, e) in enumerate(asts)]


def main(tier, seed, replay=None):
    run = Run(PROP, tier, seed)
    vh, proof = prepare(PROP_FILES, thorough=(tier == "thorough"))
    rng = random.Random(seed)
    cases = evalcheck.replay_cases(replay) if replay else gen_cases(rng, tier)
    outs, codes, fails = evalcheck.evaluate(vh, cases)
    evalcheck.judge(run, cases, outs, codes, fails,
                    "denotation and count of the implementation's result vs the mathematical set operation (Properties/C01.v, Eval/Interp.v)")
    labels = {}
    for c in cases:
        k = (c.get("label") or "").split(" ")[0]
        labels[k] = labels.get(k, 0) + 1
    evalcheck.stats(run, cases, outs, codes,
                    "operands from a pool of %d value-constructing programs covering every representation (offsets, holes, multi-valued dict keys, relations, union sets, 10-12 member collections) x the set-algebra operators | & &~ ~~ with without <: (<) (<=) (>) (>=) (<>) (<>=) count where => ^, plus operators applied to results of operators, an enumerated core of values that have just changed representation (multi-valued dict back to single-valued, sparse array back to dense, refilled string hole, ...) used as members under the set operators, and an operand inspected again after with / without / &~ / | took one of its own members (`let s = A; let t = s op m; [t, s, s count, s op m, (t | s) count]`); each program is evaluated by syntax.EvaluateExpr and by the Coq reference interpreter (vm_compute); "
                    % len(pool.base_pool()) + ("thorough = every ordered pair of set-valued pool entries x every binary operator and every set x member for with/without/<: (exhaustive over the pool)" if tier == "thorough" else "quick = random sample"),
                    {"first_operand_histogram": dict(sorted(labels.items(), key=lambda kv: -kv[1])[:40]), "exhaustive": False})
    run.assumptions = ["github.com/arr-ai/frozen implements finite sets/maps for the Equal/Hash it is given",
                       "numbers are integers or half-integers below 2^53 (others are outside the model and skipped)"]
    if not replay or json.load(open(replay)).get("case", {}).get("stream") == "dictrep":
        only = [json.load(open(replay))["case"]["label"]] if replay else None
        run.cov["dictionary_representation_histories"] = dictrep.run_stream(run, vh, random.Random(seed * 7919 + 13), tier, only=only)
    return run.finish(proof)
