"""C05: keyed collections act as functions; >>, >>>, ++ and offsets keep keys right."""
import random
from common import *
import expr as X
import pool
import evalcheck

PROP = "C05"
PROP_FILES = ["Properties/C05.v", "Check/EvalCheck.v"]
N = X.num


def collections():
    P = pool.base_pool()
    keys = ["str_a", "str_ab", "str_abc", "str_off", "str_neg", "str_hole", "str_rel", "str_where", "str_long",
            "by_12", "by_123", "by_off", "by_set", "ar_1", "ar_12", "ar_123", "ar_hole", "ar_off", "ar_nest", "ar_set", "ar_map", "ar_long",
            "d12", "da1", "dab", "dmulti", "drel", "r_atx", "empty", "s12", "r_ab", "u_arr_str", "u_3", "true"]
    C = {k: P[k] for k in keys}
    C["r_atx_dup"] = X.rel(["@", "x"], [[N(0), N(1)], [N(0), N(2)], [N(1), N(3)]])
    C["ar_hole_end"] = X.binop("without", X.arr([N(1), N(2), N(3)]), X.tup([("@", N(2)), ("@item", N(3))]))
    C["ar_neg"] = X.arr([N(7), N(8)], -2)
    C["ar_hole2"] = X.arr([N(1), None, None, N(4)])
    C["ar_hole3"] = X.arr([N(1), None, None, None, N(5), N(6)])
    C["ar_where"] = X.where(X.arr([N(1), N(2), N(3), N(4), N(5)]), X.dotfn(X.cmpop("<:", X.dot(X.var("."), "@"), X.set_([N(0), N(4)]))))
    C["str_hole2"] = X.where(X.string("abcde"), X.dotfn(X.cmpop("<:", X.dot(X.var("."), "@"), X.set_([N(0), N(4)]))))
    C["ar_one_off"] = X.arr([N(9)], 3)
    # relations over {@, x} whose stored column order is [x, @]: join-built, or a value attribute sorting before @
    C["rj_x_at"] = X.join("<&>", X.rel(["x"], [[N(5)]]), X.rel(["@"], [[N(2)], [N(3)]]))
    C["rj_x_at2"] = X.where(X.join("<&>", X.rel(["x"], [[N(5)], [N(6)]]), X.rel(["@"], [[N(1)], [N(2)]])), X.dotfn(X.cmpop("!=", X.dot(X.var("."), "x"), X.dot(X.var("."), "@"))))
    C["r_dollar"] = X.rel(["$", "@"], [[N(7), N(0)], [N(8), N(1)]])
    C["r_dollar_dup"] = X.rel(["$", "@"], [[N(7), N(1)], [N(8), N(1)], [N(9), N(2)]])
    C["str_gap"] = X.binop("with", X.string("ab"), X.tup([("@", N(4)), ("@char", N(101))]))
    C["d_tupkey"] = X.dict_([(X.tup([("a", N(1))]), N(1)), (X.arr([N(1)]), N(2))])
    C["u_keyed"] = X.binop("|", X.arr([N(1), N(2)]), X.dict_([(X.string("k"), N(5))]))
    C["u_two_at"] = X.set_([X.tup([("@", N(1)), ("x", N(2))]), X.tup([("@", N(2)), ("y", N(3))])])
    return C


def args():
    # the last four are themselves calls: one with a value, one without, one safe call taking its fallback, one failing for another reason
    return [N(0), N(1), N(2), N(3), N(5), N(-1), N(-2), N(0.5), N(1.5), N(11), X.string("a"), X.string("b"), X.string("k"),
            X.tup([("a", N(1))]), X.arr([N(1)]), X.set_([]), X.true_(), X.tup([]),
            X.call(X.dict_([(X.string("a"), N(0))]), X.string("a")), X.call(X.dict_([(X.string("a"), N(0))]), X.string("b")),
            X.safecall(X.arr([N(5)]), N(3), N(1)), X.call(X.arr([N(1), N(0)]), X.dot(N(1), "nope"))]


def transformers():
    d = X.var(".")
    return [X.dotfn(d), X.dotfn(X.binop("+", d, N(1))), X.dotfn(N(7)), X.dotfn(X.set_([d])), X.dotfn(X.tup([("v", d)])),
            X.dotfn(X.string("z")), X.dotfn(X.binop("+", d, N(0.5))), X.dotfn(X.dot(d, "nope")), X.dotfn(X.binop("-", N(300), d)),
            X.fn(X.pvar("x"), X.binop("*", X.var("x"), N(2)))]


def at_transformers():
    return [X.fn(X.pvar("i"), X.fn(X.pvar("v"), X.var("v"))), X.fn(X.pvar("i"), X.fn(X.pvar("v"), X.var("i"))),
            X.fn(X.pvar("i"), X.fn(X.pvar("v"), X.tup([("i", X.var("i")), ("v", X.var("v"))]))),
            X.fn(X.pvar("i"), X.fn(X.pvar("v"), X.binop("+", X.var("v"), N(1))))]


def gen_cases(rng, tier):
    C = collections()
    names = sorted(C)
    A, F, G = args(), transformers(), at_transformers()
    seqs = [n for n in names if n.startswith(("str_", "by_", "ar_")) or n == "empty"]
    out = []
    if tier == "thorough":
        for c in names:
            for a in A:
                out.append(("call %s" % c, X.call(C[c], a)))
                out.append(("safecall %s" % c, X.safecall(C[c], a, N(99))))
            for f in F:
                out.append(("seqmap %s" % c, X.seqarrow(C[c], f)))
            for g in G:
                out.append(("iseqmap %s" % c, X.seqarrow(C[c], g, True)))
        for a in seqs:
            for b in seqs:
                out.append(("concat %s %s" % (a, b), X.binop("++", C[a], C[b])))
            for n in (0, 1, 3, -2, -5):
                out.append(("offset %s" % a, X.binop("\\", N(n), C[a])))
    n = 900 if tier == "quick" else 4000
    for _ in range(n):
        k = rng.random()
        c = rng.choice(names)
        if k < 0.3:
            out.append(("call %s" % c, X.call(C[c], rng.choice(A))))
        elif k < 0.45:
            out.append(("safecall %s" % c, X.safecall(C[c], rng.choice(A), N(99))))
        elif k < 0.62:
            out.append(("seqmap %s" % c, X.seqarrow(C[c], rng.choice(F))))
        elif k < 0.7:
            out.append(("iseqmap %s" % c, X.seqarrow(C[c], rng.choice(G), True)))
        elif k < 0.85:
            a, b = rng.choice(seqs), rng.choice(names if rng.random() < 0.3 else seqs)
            e = X.binop("++", C[a], C[b])
            if rng.random() < 0.3:
                e = X.binop("++", e, C[rng.choice(seqs)])
            out.append(("concat %s %s" % (a, b), e))
        elif k < 0.93:
            a = rng.choice(seqs + ["s12", "d12"])
            out.append(("offset %s" % a, X.binop("\\", rng.choice([N(0), N(1), N(3), N(-2), N(-7), N(1.5), X.string("a")]), C[a])))
        else:  # composition: keys survive a chain
            a = rng.choice(seqs)
            e = X.seqarrow(X.binop("\\", N(rng.choice([1, -3, 4])), X.binop("++", C[a], C[rng.choice(seqs)])), rng.choice(F[:3]))
            out.append(("chain %s" % a, X.call(e, rng.choice(A[:8])) if rng.random() < 0.5 else e))
    return [{"id": i, "label": l, "ast": e} for i, (l, e) in enumerate(out)]


def main(tier, seed, replay=None):
    run = Run(PROP, tier, seed)
    vh, proof = prepare(PROP_FILES, thorough=(tier == "thorough"))
    rng = random.Random(seed)
    cases = evalcheck.replay_cases(replay) if replay else gen_cases(rng, tier)
    outs, codes, fails = evalcheck.evaluate(vh, cases)
    # here the error/no-error distinction is part of the property (call is an error for 0 or >1 values; ?: only for none)
    evalcheck.judge(run, cases, outs, codes, fails,
                    "call / ?: / >> / >>> / ++ / offset on the denoted set of (@, x) pairs (Properties/C05.v, Eval/Interp.v)",
                    value_codes=(1, 2, 3, 4, 5), corr_codes=(6,))
    kinds = {}
    for c in cases:
        k = (c.get("label") or "").split(" ")[0]
        kinds[k] = kinds.get(k, 0) + 1
    evalcheck.stats(run, cases, outs, codes,
                    "keyed collections in every representation (strings/bytes/arrays with offsets, holes, gaps; dicts incl. multi-valued and structured keys; relations over {@,x} incl. duplicate keys; union sets; non-keyed sets) x arguments (present, absent, negative, non-integer, wrong kind) x transformers (identity, +1, constant, kind-changing, failing), for c(k), c(k)?:d, >>, >>>, ++, n\\\\c; "
                    + ("thorough = full product collection x argument and collection x transformer" if tier == "thorough" else "quick = random sample"),
                    {"operation_histogram": kinds, "exhaustive": False})
    run.assumptions = ["numbers are integers or half-integers below 2^53"]
    return run.finish(proof)
