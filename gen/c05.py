"""C05: keyed collections act as functions; >>, >>>, ++ and offsets keep keys right."""
import random
from common import *
import expr as X
import pool
import evalcheck
import concurrent.futures

PROP = "C05"
PROP_FILES = ["Properties/C05.v", "Check/EvalCheck.v", "Check/C05Check.v"]
N = X.num


def collections():
    P = pool.base_pool()
    keys = ["str_a", "str_ab", "str_abc", "str_off", "str_neg", "str_hole", "str_rel", "str_where", "str_long",
            "by_12", "by_123", "by_off", "by_set", "ar_1", "ar_12", "ar_123", "ar_hole", "ar_off", "ar_nest", "ar_set", "ar_map", "ar_long",
            "d12", "da1", "dab", "dmulti", "drel", "r_atx", "empty", "s12", "r_ab", "u_arr_str", "u_3", "true"]
    C = {k: P[k] for k in keys}
    C["r_atx_dup"] = X.rel(["@", "x"], [[N(0), N(1)], [N(0), N(2)], [N(1), N(3)]])
    C["ar_hole_end"] = X.binop("without", X.arr([N(1), N(2), N(3)]), X.tup([("@", N(2)), ("@item", N(3))]))
    C["ar_neg"] = X.arr([N(7), N(8)], -2)
    C["ar_hole2"] = X.arr([N(1), None, None, N(4)])
    C["ar_hole3"] = X.arr([N(1), None, None, None, N(5), N(6)])
    C["ar_where"] = X.where(X.arr([N(1), N(2), N(3), N(4), N(5)]), X.dotfn(X.cmpop("<:", X.dot(X.var("."), "@"), X.set_([N(0), N(4)]))))
    C["str_hole2"] = X.where(X.string("abcde"), X.dotfn(X.cmpop("<:", X.dot(X.var("."), "@"), X.set_([N(0), N(4)]))))
    C["ar_one_off"] = X.arr([N(9)], 3)
    # relations over {@, x} whose stored column order is [x, @]: join-built, or a value attribute sorting before @
    C["rj_x_at"] = X.join("<&>", X.rel(["x"], [[N(5)]]), X.rel(["@"], [[N(2)], [N(3)]]))
    C["rj_x_at2"] = X.where(X.join("<&>", X.rel(["x"], [[N(5)], [N(6)]]), X.rel(["@"], [[N(1)], [N(2)]])), X.dotfn(X.cmpop("!=", X.dot(X.var("."), "x"), X.dot(X.var("."), "@"))))
    C["r_dollar"] = X.rel(["$", "@"], [[N(7), N(0)], [N(8), N(1)]])
    C["r_dollar_dup"] = X.rel(["$", "@"], [[N(7), N(1)], [N(8), N(1)], [N(9), N(2)]])
    C["str_gap"] = X.binop("with", X.string("ab"), X.tup([("@", N(4)), ("@char", N(101))]))
    C["d_tupkey"] = X.dict_([(X.tup([("a", N(1))]), N(1)), (X.arr([N(1)]), N(2))])
    C["u_keyed"] = X.binop("|", X.arr([N(1), N(2)]), X.dict_([(X.string("k"), N(5))]))
    C["u_two_at"] = X.set_([X.tup([("@", N(1)), ("x", N(2))]), X.tup([("@", N(2)), ("y", N(3))])])
    return C


def rep_collections():
    """more layouts for the representation-level stream (Check/C05Check.v)"""
    C = collections()
    item = lambda i, v: X.tup([("@", N(i)), ("@item", N(v))])
    char = lambda i, v: X.tup([("@", N(i)), ("@char", N(v))])
    byte = lambda i, v: X.tup([("@", N(i)), ("@byte", N(v))])
    # candidate values of sequence-item shape: the same index twice (KF-C05-04), different indices, equal values
    C["rc_item_same"] = X.rel(["@", "x"], [[N(1), item(0, 1)], [N(1), item(0, 2)]])
    C["rc_item_diff"] = X.rel(["@", "x"], [[N(1), item(0, 1)], [N(1), item(1, 2)], [N(2), item(0, 3)]])
    C["rc_char_same"] = X.rel(["@", "x"], [[N(1), char(0, 97)], [N(1), char(0, 98)], [N(0), char(0, 99)]])
    C["rc_byte_same"] = X.rel(["@", "x"], [[N(1), byte(0, 7)], [N(1), byte(0, 8)]])
    C["rc_byte_gap"] = X.rel(["@", "x"], [[N(1), byte(0, 7)], [N(1), byte(2, 8)]])
    C["dc_item_same"] = X.binop("|", X.dict_([(N(1), item(0, 1))]), X.dict_([(N(1), item(0, 2))]))
    C["dc_mixed"] = X.binop("|", X.dict_([(N(1), item(0, 1))]), X.dict_([(N(1), char(0, 2)), (N(2), N(5))]))
    C["uc_item_same"] = X.set_([X.tup([("@", N(1)), ("x", item(0, 1))]), X.tup([("@", N(1)), ("y", item(0, 2))])])
    # other layouts
    C["u_true_pair"] = X.set_([X.tup([]), X.tup([("@", N(1)), ("x", N(2))])])
    C["u_gen_pair"] = X.set_([N(1), X.tup([("@", N(1)), ("x", N(2))])])
    C["str_hole_off"] = X.binop("\\", N(3), C["str_hole2"])
    C["str_hole_neg"] = X.binop("\\", N(-4), C["str_hole2"])
    C["by_neg"] = X.bytes_([5, 6, 7], -1)
    C["ar_hole_off"] = X.binop("\\", N(-2), C["ar_hole3"])
    C["rj_at_item"] = X.join("<&>", X.rel(["@"], [[N(0)], [N(2)]]), X.rel(["@item"], [[N(9)]]))
    C["rj_item_at"] = X.join("<&>", X.rel(["@item"], [[N(9)]]), X.rel(["@"], [[N(0)], [N(2)]]))
    C["d_multi3"] = X.binop("|", C["dmulti"], X.dict_([(N(1), N(4)), (N(2), N(4))]))
    C["d_back_single"] = X.binop("without", C["dmulti"], X.tup([("@", N(1)), ("@value", N(3))]))
    C["d_arrkey"] = X.dict_([(X.arr([N(1)]), N(2)), (X.arr([N(1)], 1), N(3)), (X.string("a"), N(4))])
    C["r_three"] = X.rel(["@", "x", "y"], [[N(1), N(2), N(3)]])
    C["r_one_at"] = X.rel(["@"], [[N(1)], [N(2)]])
    C["r_atx_many"] = X.rel(["@", "x"], [[N(i % 4), N(i)] for i in range(11)])
    C["d_many"] = X.dict_([(N(i), N(i * i)) for i in range(11)])
    C["str_filled"] = X.binop("with", C["str_hole"], X.tup([("@", N(1)), ("@char", N(120))]))
    C["ar_filled"] = X.binop("with", C["ar_hole"], X.tup([("@", N(1)), ("@item", N(7))]))
    return C


def args():
    # the last four are themselves calls: one with a value, one without, one safe call taking its fallback, one failing for another reason
    return [N(0), N(1), N(2), N(3), N(5), N(-1), N(-2), N(0.5), N(1.5), N(11), X.string("a"), X.string("b"), X.string("k"),
            X.tup([("a", N(1))]), X.arr([N(1)]), X.set_([]), X.true_(), X.tup([]),
            X.call(X.dict_([(X.string("a"), N(0))]), X.string("a")), X.call(X.dict_([(X.string("a"), N(0))]), X.string("b")),
            X.safecall(X.arr([N(5)]), N(3), N(1)), X.call(X.arr([N(1), N(0)]), X.dot(N(1), "nope"))]


def transformers():
    d = X.var(".")
    return [X.dotfn(d), X.dotfn(X.binop("+", d, N(1))), X.dotfn(N(7)), X.dotfn(X.set_([d])), X.dotfn(X.tup([("v", d)])),
            X.dotfn(X.string("z")), X.dotfn(X.binop("+", d, N(0.5))), X.dotfn(X.dot(d, "nope")), X.dotfn(X.binop("-", N(300), d)),
            X.fn(X.pvar("x"), X.binop("*", X.var("x"), N(2)))]


def at_transformers():
    return [X.fn(X.pvar("i"), X.fn(X.pvar("v"), X.var("v"))), X.fn(X.pvar("i"), X.fn(X.pvar("v"), X.var("i"))),
            X.fn(X.pvar("i"), X.fn(X.pvar("v"), X.tup([("i", X.var("i")), ("v", X.var("v"))]))),
            X.fn(X.pvar("i"), X.fn(X.pvar("v"), X.binop("+", X.var("v"), N(1))))]


def gen_cases(rng, tier):
    C = collections()
    names = sorted(C)
    A, F, G = args(), transformers(), at_transformers()
    seqs = [n for n in names if n.startswith(("str_", "by_", "ar_")) or n == "empty"]
    out = []
    if tier == "thorough":
        for c in names:
            for a in A:
                out.append(("call %s" % c, X.call(C[c], a)))
                out.append(("safecall %s" % c, X.safecall(C[c], a, N(99))))
            for f in F:
                out.append(("seqmap %s" % c, X.seqarrow(C[c], f)))
            for g in G:
                out.append(("iseqmap %s" % c, X.seqarrow(C[c], g, True)))
        for a in seqs:
            for b in seqs:
                out.append(("concat %s %s" % (a, b), X.binop("++", C[a], C[b])))
            for n in (0, 1, 3, -2, -5):
                out.append(("offset %s" % a, X.binop("\\", N(n), C[a])))
    n = 900 if tier == "quick" else 4000
    for _ in range(n):
        k = rng.random()
        c = rng.choice(names)
        if k < 0.3:
            out.append(("call %s" % c, X.call(C[c], rng.choice(A))))
        elif k < 0.45:
            out.append(("safecall %s" % c, X.safecall(C[c], rng.choice(A), N(99))))
        elif k < 0.62:
            out.append(("seqmap %s" % c, X.seqarrow(C[c], rng.choice(F))))
        elif k < 0.7:
            out.append(("iseqmap %s" % c, X.seqarrow(C[c], rng.choice(G), True)))
        elif k < 0.85:
            a, b = rng.choice(seqs), rng.choice(names if rng.random() < 0.3 else seqs)
            e = X.binop("++", C[a], C[b])
            if rng.random() < 0.3:
                e = X.binop("++", e, C[rng.choice(seqs)])
            out.append(("concat %s %s" % (a, b), e))
        elif k < 0.93:
            a = rng.choice(seqs + ["s12", "d12"])
            out.append(("offset %s" % a, X.binop("\\", rng.choice([N(0), N(1), N(3), N(-2), N(-7), N(1.5), X.string("a")]), C[a])))
        else:  # composition: keys survive a chain
            a = rng.choice(seqs)
            e = X.seqarrow(X.binop("\\", N(rng.choice([1, -3, 4])), X.binop("++", C[a], C[rng.choice(seqs)])), rng.choice(F[:3]))
            out.append(("chain %s" % a, X.call(e, rng.choice(A[:8])) if rng.random() < 0.5 else e))
    return [{"id": i, "label": l, "ast": e} for i, (l, e) in enumerate(out)]


# ---------- representation-level stream: the transcription of Rep/CallRep.v on the layouts the implementation holds ----------

FB = X.tup([("fb", N(1))])          # the ?: fallback of the source forms
REGION_SIG = {1: "call-result-collision", 2: "seq-collision", 4: "bytes-gap"}
REP_CODE_TEXT = {1: "SetCall / ++ / offset through the API differs from the specification on the observed denotation",
                 2: "c(k) differs from the specification on the observed denotation",
                 3: "c(k)?:d differs from the specification on the observed denotation",
                 11: "the observed layout breaks an invariant of its Go type (wfb)",
                 12: "the observed layout does not denote what the public enumeration / Count() show",
                 13: "the implementation differs from the transcribed function (rep_setcall / rep_offset / rep_concat) on the same layout",
                 14: "CallAll adds other candidates than the transcription",
                 15: "c(k) differs from the transcribed SetCall", 16: "c(k)?:d differs from the transcribed safe call"}


def vals_term(ds):
    ts = [val_term(d) for d in ds]
    return None if any(t is None for t in ts) else "[" + "; ".join(ts) + "]"


def rep_term(lo):
    """harness layout -> Coq rep term (None when not expressible)"""
    ty = lo.get("ty")
    if ty == "EmptySet":
        return "REmpty"
    if ty == "TrueSet":
        return "RTrue"
    if ty == "String":
        return "(RStr (%d) %s (%d))" % (lo["off"], zl(lo["cells"]), lo["holes"])
    if ty == "Bytes":
        return "(RBytes (%d) %s)" % (lo["off"], zl(lo["b"]))
    if ty == "Array":
        cells = []
        for c in lo["cells"]:
            if c is None:
                cells.append("None")
            else:
                t = val_term(c)
                if t is None:
                    return None
                cells.append("(Some %s)" % t)
        return "(RArr (%d) [%s] (%d))" % (lo["off"], "; ".join(cells), lo["count"])
    if ty == "Dict":
        es = []
        for e in lo["es"]:
            k, vs = val_term(e["k"]), vals_term(e["vs"])
            if k is None or vs is None:
                return None
            es.append("(%s, %s)" % (k, "DMulti %s" % vs if e["multi"] else "DOne %s" % val_term(e["vs"][0])))
        return "(RDict [%s])" % "; ".join(es)
    if ty == "Relation":
        rows = [vals_term(r) for r in lo["rows"]]
        if any(r is None for r in rows):
            return None
        return "(RRel [%s] [%s] [%s])" % ("; ".join(name_term(a) for a in lo["attrs"]),
                                         "; ".join("%d%%nat" % i for i in lo["p"]), "; ".join(rows))
    if ty == "GenericSet":
        ms = vals_term(lo["ms"])
        return None if ms is None else "(RGen %s)" % ms
    if ty == "UnionSet":
        bs = [rep_term(b) for b in lo["bs"]]
        return None if any(b is None for b in bs) else "(RUnion [%s])" % "; ".join(bs)
    return None


def layout_kind(lo, depth=0):
    ty = lo.get("ty", "?")
    if ty in ("String", "Bytes", "Array"):
        cells = lo.get("cells", lo.get("b", []))
        holes = sum(1 for c in cells if c is None or (isinstance(c, int) and c < 0))
        return "%s%s%s" % (ty, "+off" if lo.get("off") else "", "+holes" if holes else "")
    if ty == "Dict":
        return "Dict" + ("+multi" if any(e["multi"] for e in lo["es"]) else "")
    if ty == "Relation":
        return "Relation[%s]%s" % (",".join(lo["attrs"]), "" if lo["p"] == sorted(lo["p"]) else "+perm")
    if ty == "UnionSet":
        return "UnionSet(%s)" % ",".join(sorted(b.get("ty", "?") for b in lo["bs"]))
    return ty


def operand(o):
    """evaluated operand -> (rep term, den term, count) or None"""
    if not o or o.get("st") != "ok" or "s" not in o.get("val", {}):
        return None
    lo = o.get("layout") or {}
    r, den = rep_term(lo), vals_term(o["val"]["s"])
    if r is None or den is None or "count" not in o:
        return None
    return r, den, o["count"]


def lobs_term(o):
    if not o or o.get("st") in ("timeout", "panic", "crash", None):
        return "LBad"
    if o["st"] == "err":
        return "LErr"
    if "s" not in o.get("val", {}):
        return "LBad"
    den = vals_term(o["val"]["s"])
    if den is None:
        return "LBad"
    r = rep_term(o.get("layout") or {})
    if r is None:
        return "(LOther %s)" % den
    return "(LRep %s %s (%d))" % (r, den, o.get("count", -1))


def sobs_term(o):
    if not o or o.get("st") in ("timeout", "panic", "crash", None):
        return "SOBad"
    if o["st"] == "err":
        return "SOErr"
    t = val_term(o.get("val", {}))
    return "SOBad" if t is None else "(SOVal %s)" % t


def rep_cases(rng, tier):
    C = rep_collections()
    names = sorted(C)
    A = [a for a in args() if a[0] != "call" or a == args()[18] or a == args()[19]][:20]
    keys = A + [N(4), N(7), N(-4), N(-3), N(9), N(2.5), X.arr([N(1)], 1), X.tup([("@", N(0)), ("@item", N(1))])]
    seqs = [n for n in names if n.startswith(("str_", "by_", "ar_")) or n == "empty"]
    others = ["s12", "d12", "dmulti", "r_atx", "u_arr_str", "true", "rj_at_item", "r_ab", "u_3", "d_arrkey", "rj_x_at"]
    offs = [N(0), N(1), N(3), N(-2), N(-7), N(1.5), N(-1.5), N(-0.5), X.string("a"), X.set_([])]
    cases = []

    def call(c, k):
        cs, ks = X.src(C[c]), X.src(k)
        cases.append({"op": "call", "label": "rep-call %s" % c, "c": cs, "k": ks,
                      "call_src": X.src(X.call(C[c], k)), "safe_src": X.src(X.safecall(C[c], k, FB))})

    def offset(s, n):
        cases.append({"op": "offset", "label": "rep-offset %s" % s, "s": X.src(C[s]), "n": X.src(n), "res_src": X.src(X.binop("\\", n, C[s]))})

    def concat(a, b):
        cases.append({"op": "concat", "label": "rep-concat %s %s" % (a, b), "a": X.src(C[a]), "b": X.src(C[b]),
                      "res_src": X.src(X.binop("++", C[a], C[b]))})

    # enumerated cores (independent of the random stream); the quick tier takes a fixed sub-product
    quick = tier == "quick"
    core_keys = [N(0), N(1), N(2), N(-1), N(4), N(0.5), X.string("a"), X.tup([("a", N(1))]), X.arr([N(1)]), N(-4), N(7)]
    rep_seqs = ["str_ab", "str_hole2", "str_neg", "str_hole_off", "by_12", "by_off", "by_neg", "ar_12", "ar_hole3", "ar_neg", "ar_hole_off", "empty"]
    for c in names:
        for k in (core_keys if quick else keys):
            call(c, k)
        if quick:
            for k in rng.sample([k for k in keys if k not in core_keys], 2):
                call(c, k)
    for s in seqs + others:
        for n in (offs[:3] + offs[4:6] + offs[8:9] if quick else offs):
            offset(s, n)
    for a in seqs:
        for b in (rep_seqs if quick else seqs):
            concat(a, b)
    if quick:
        for a in rep_seqs:
            for b in seqs:
                if b not in rep_seqs:
                    concat(a, b)
    for a in (rep_seqs if quick else seqs) + others:
        for b in (others[:6] if quick else others):
            concat(a, b)
    for b in (rep_seqs[:6] if quick else seqs[:12]):
        for a in others:
            concat(a, b)
    # random: compositions as operands (layouts produced by ++ and \ themselves)
    for _ in range(100 if tier == "quick" else 1500):
        a, b, c2 = rng.choice(seqs), rng.choice(seqs), rng.choice(seqs)
        e = X.binop("++", X.binop("\\", N(rng.choice([-3, -1, 2, 5])), C[a]), C[b])
        nm = "x_%d" % len(C)
        C[nm] = e
        k = rng.random()
        if k < 0.4:
            call(nm, N(rng.randrange(-4, 9)))
        elif k < 0.7:
            concat(nm, c2) if rng.random() < 0.5 else concat(c2, nm)
        else:
            offset(nm, N(rng.choice([-5, -1, 0, 2, 2.5])))
    for i, c in enumerate(cases):
        c["id"] = i
    return cases


def rep_stream(run, vh, rng, tier, replay=None):
    t_start = time.time()
    cases = rep_cases(rng, tier)
    if replay is not None:
        cases = [dict(replay, id=0)]
    outs, _, _ = run_harness(vh, "c05rep", cases)
    terms = {"call": [], "offset": [], "concat": []}
    hist, skipped = {}, 0
    fb = val_term({"t": [["fb", {"n": "1"}]]})
    for c in cases:
        o = outs.get(c["id"]) or {}
        if o.get("st") != "done":
            run.corr_breaks.append({"what": "harness c05rep gave no result", "case": c, "observed": o})
            continue
        if c["op"] == "call":
            oc, ok = operand(o.get("c")), o.get("k") or {}
            kt = val_term(ok["val"]) if ok.get("st") == "ok" and "f" not in ok.get("val", {}) else None
            if oc is None or kt is None or "setcall" not in o:
                skipped += 1
                continue
            sc = o["setcall"]
            sct = {"noreturn": "CNoRet", "err": "CErrO", "panic": "CPanicO"}.get(sc.get("st"), "CBad")
            if sc.get("st") == "ok":
                t = val_term(sc["val"])
                sct = "CBad" if t is None else "(CVal %s)" % t
            ca = o.get("cands") or {}
            cat = "KBad"
            if ca.get("st") == "ok" and "s" in ca.get("val", {}):
                t = vals_term(ca["val"]["s"])
                cat = "KBad" if t is None else "(KSet %s)" % t
            elif ca.get("st") == "err":
                cat = "KErr"
            terms["call"].append((c, "{| cc_id := %d; cc_rep := %s; cc_den := %s; cc_count := %d; cc_key := %s; cc_setcall := %s; cc_cands := %s; cc_call := %s; cc_safe := %s; cc_fb := %s |}" % (
                c["id"], oc[0], oc[1], oc[2], kt, sct, cat, sobs_term(o.get("call_src")), sobs_term(o.get("safe_src")), fb)))
            kind = layout_kind(o["c"]["layout"])
        elif c["op"] == "offset":
            os_, on = operand(o.get("s")), o.get("n") or {}
            nt = val_term(on["val"]) if on.get("st") == "ok" and "f" not in on.get("val", {}) else None
            if os_ is None or nt is None:
                skipped += 1
                continue
            terms["offset"].append((c, "{| oc_id := %d; oc_rep := %s; oc_den := %s; oc_count := %d; oc_n := %s; oc_res := %s |}" % (
                c["id"], os_[0], os_[1], os_[2], nt, lobs_term(o.get("res")))))
            kind = layout_kind(o["s"]["layout"])
        else:
            oa, ob = operand(o.get("a")), operand(o.get("b"))
            if oa is None or ob is None:
                skipped += 1
                continue
            terms["concat"].append((c, "{| kc_id := %d; kc_a := %s; kc_a_den := %s; kc_a_count := %d; kc_b := %s; kc_b_den := %s; kc_b_count := %d; kc_res := %s |}" % (
                c["id"], oa[0], oa[1], oa[2], ob[0], ob[1], ob[2], lobs_term(o.get("res")))))
            kind = layout_kind(o["a"]["layout"]) + " ++ " + layout_kind(o["b"]["layout"])
        hist.setdefault(c["op"], {})
        hist[c["op"]][kind] = hist[c["op"]].get(kind, 0) + 1
    jobs = []
    for op, rec, fn in (("call", "ccase", "report_call"), ("offset", "ocase", "report_offset"), ("concat", "kcase", "report_concat")):
        ts = terms[op]
        for i in range(0, len(ts), 250):
            jobs.append((op, rec, fn, ts[i:i + 250], len(jobs)))

    def do(job):
        op, rec, fn, chunk, idx = job
        body = ["From Arrai Require Import Base.Val Spec.SetAlg Eval.Interp Rep.CallRep Check.C05Check.",
                "Definition cases : list %s := [" % rec, ";\n".join("  " + t for _, t in chunk), "].",
                "Definition R := Eval vm_compute in %s cases.\nPrint R." % fn]
        if op == "call":
            body.append("Definition G := Eval vm_compute in [region_count cases].\nPrint G.")
        rc2, so, se = coq_eval("c05rep_%d_%d" % (os.getpid(), idx), "\n".join(body))
        return coq_report(so, "R"), (coq_report(so, "G") if op == "call" else None), se

    byid = {c["id"]: c for c in cases}
    in_region, codes_hist = 0, {}
    with concurrent.futures.ThreadPoolExecutor(max_workers=8) as ex:
        for (rep, g, se), job in zip(ex.map(do, jobs), jobs):
            if rep is None:
                run.corr_breaks.append({"what": "the transcription could not be evaluated (Check/C05Check.v, %s)" % job[0], "log": se[-1500:]})
                continue
            if g:
                in_region += g[0]
            for cid, code in rep:
                c = byid[cid]
                base, region = code % 100, code // 100
                codes_hist[str(code)] = codes_hist.get(str(code), 0) + 1
                sig = REGION_SIG.get(1 if region == 1 else (2 if region & 2 else (4 if region & 4 else 0)))
                rec = {"case": {k: v for k, v in c.items() if k != "id"}, "observed": outs.get(cid),
                       "oracle": "C05_rep_call_refines_call_data / C05_rep_offset_refines / C05_rep_concat_refines (Rep/CallRep.v on the observed layout): " + REP_CODE_TEXT.get(base, str(base))}
                if base < 10:
                    run.classify_failure(sig, rec)
                elif sig and run.finding_for(sig):
                    run.classify_failure(sig, rec)
                else:
                    run.corr_breaks.append({"what": "implementation and transcription (Rep/CallRep.v) disagree", **rec})
    if replay is None and run.finding_for("call-result-collision") and "KF-C05-04" not in run.known_hits:
        run.corr_breaks.append({"what": "open finding KF-C05-04 (call-result-collision) no longer reproduces on its witness"})
    return {"rep_cases": len(cases), "rep_evaluated": {k: len(v) for k, v in terms.items()}, "rep_skipped_unexpressible": skipped,
            "rep_layout_histogram": hist, "rep_cases_in_region_KF-C05-04": in_region, "rep_verdict_codes": codes_hist,
            "rep_wall_s": round(time.time() - t_start, 1)}


def main(tier, seed, replay=None):
    run = Run(PROP, tier, seed)
    vh, proof = prepare(PROP_FILES, thorough=(tier == "thorough"))
    rng = random.Random(seed)
    rep_replay = None
    if replay:
        rp = json.load(open(replay))
        if (rp.get("case") or {}).get("op"):
            rep_replay = rp["case"]
    cases = ([] if rep_replay else evalcheck.replay_cases(replay)) if replay else gen_cases(rng, tier)
    outs, codes, fails = evalcheck.evaluate(vh, cases)
    # here the error/no-error distinction is part of the property (call is an error for 0 or >1 values; ?: only for none)
    evalcheck.judge(run, cases, outs, codes, fails,
                    "call / ?: / >> / >>> / ++ / offset on the denoted set of (@, x) pairs (Properties/C05.v, Eval/Interp.v)",
                    value_codes=(1, 2, 3, 4, 5), corr_codes=(6,))
    kinds = {}
    for c in cases:
        k = (c.get("label") or "").split(" ")[0]
        kinds[k] = kinds.get(k, 0) + 1
    evalcheck.stats(run, cases, outs, codes,
                    "keyed collections in every representation (strings/bytes/arrays with offsets, holes, gaps; dicts incl. multi-valued and structured keys; relations over {@,x} incl. duplicate keys; union sets; non-keyed sets) x arguments (present, absent, negative, non-integer, wrong kind) x transformers (identity, +1, constant, kind-changing, failing), for c(k), c(k)?:d, >>, >>>, ++, n\\\\c; "
                    + ("thorough = full product collection x argument and collection x transformer" if tier == "thorough" else "quick = random sample"),
                    {"operation_histogram": kinds, "exhaustive": False})
    if rep_replay or not replay:
        run.cov.update(rep_stream(run, vh, random.Random(seed + 7919), tier, rep_replay))
    run.assumptions = ["numbers are integers or half-integers below 2^53"]
    return run.finish(proof)
