"""C10, sequence stream: one method of rel.Array / rel.String / rel.Bytes per case, called through the public API
(harness `seqop`) on an operand whose layout the harness reports, against the crash-aware Coq model
Rep/SeqSafe.v evaluated on the same (layout, operation, argument) triple (Check/C10Check.v)."""
import concurrent.futures
import os
import struct
from common import *

HUGE = [1 << 62, -(1 << 62), 1 << 63, (1 << 50)]


def fexact(x):
    """the float64 a numeric literal denotes, as an exact python number (int when integral)"""
    if isinstance(x, str):
        return x
    f = float(x)
    if f == int(f):
        return int(f)
    return f


def num_src(x):
    if x == "nan":
        return "(0/0)"
    if x == "inf":
        return "(1/0)"
    if x == "-inf":
        return "(-1/0)"
    if isinstance(x, int):
        return str(x) if x >= 0 else "(%d)" % x
    return repr(x) if x >= 0 else "(%s)" % repr(x)


def fnum(x):
    if x == "nan":
        return "FNaN"
    if x == "inf":
        return "(FInf false)"
    if x == "-inf":
        return "(FInf true)"
    if isinstance(x, int):
        return "(FInt (%d))" % x
    return "(FFrac (%d))" % int(x)      # int() truncates toward zero


ATTR = {"array": "@item", "string": "@char", "bytes": "@byte"}
CTOR = {"array": "AItem Z", "string": "@AChar Z", "bytes": "@AByte Z"}


def tuple_arg(kind, at, val):
    at, val = fexact(at), fexact(val)
    src = "(@: %s, %s: %s)" % (num_src(at), ATTR[kind], num_src(val))
    if kind == "array":
        term = "(AItem Z %s (%d))" % (fnum(at), val)
    else:
        term = "(%s %s %s)" % (CTOR[kind], fnum(at), fnum(val))
    return src, term


def num_arg(x):
    x = fexact(x)
    return num_src(x), "(@ANum Z %s)" % fnum(x)


OTHER_ARGS = [("\"x\"", "(@AOther Z)"), ("(a: 1)", "(@AOther Z)"), ("{}", "(@AOther Z)"), ("{1: 2}", "(@AOther Z)")]

BASES = [
    "[1, 2, 3]", "(2\\[1, 2])", "[1, , 3]", "((-3)\\[1, , , 4])", "[5]", "(4611686018427387904\\[1, 2])",
    "(9223372036854774784\\(1023\\[1, 2, 3]))", "((-9223372036854775808)\\[1, 2])", "[1, , , , 5, , 7]",
    "\"abc\"", "(3\\\"abc\")", "(\"abc\" without (@: 1, @char: 98))", "\"a\"", "((-2)\\\"ab\")",
    "(\"abcde\" without (@: 1, @char: 98) without (@: 3, @char: 100))", "(\"abcd\" without (@: 1, @char: 98) without (@: 2, @char: 99))",
    "(4611686018427387904\\\"ab\")", "(9223372036854774784\\(1023\\\"abc\"))",
    "{(@: 0, @char: -1), (@: 1, @char: 97)}", "{(@: 0, @char: 97), (@: 2, @char: -1)}", "{(@: 0, @char: 97), (@: 1, @char: -1), (@: 2, @char: 99)}",
    "<<1, 2>>", "(3\\<<1, 2>>)", "<<7>>", "<<1, 2, 3>>", "(9223372036854774784\\(1023\\<<1, 2, 3>>))", "{}",
]
CONCATS = [(0, 2), (2, 0), (1, 8), (6, 0), (0, 0), (8, 3), (9, 11), (11, 9), (10, 14), (9, 9), (21, 22), (22, 24), (23, 21)]


def wrap64(z):
    return (z + (1 << 63)) % (1 << 64) - (1 << 63)


def positions(lay):
    off, cells = int(lay["off"]), lay["cells"]
    n = len(cells)
    ps = [off - 2, off - 1, off, off + 1, off + n - 2, off + n - 1, off + n, off + n + 1, off + n + 7, off + 4096]
    ps += [off + j for j, c in enumerate(cells) if c is None]
    ps += HUGE
    out = []
    for p in ps:
        p = fexact(wrap64(p) if abs(p) < (1 << 64) else p)
        if p not in out:
            out.append(p)
    return out


def cell_at(lay, p):
    off, cells = int(lay["off"]), lay["cells"]
    j = wrap64(p - off) if isinstance(p, int) else None
    if j is not None and 0 <= j < len(cells) and cells[j] is not None and cells[j] != "x":
        return int(cells[j])
    return None


def cell_in(lay, p):
    j = wrap64(p - int(lay["off"])) if isinstance(p, int) else None
    return j is not None and 0 <= j < len(lay["cells"])


def probes(lay, rng, full=True):
    """the enumerated probes of one operand layout: [(op, arg_src, arg_term, extra)]"""
    kind = lay["k"]
    out = []
    if kind == "none":
        for k2 in ("array", "string", "bytes"):
            for at in (0, 3, -1, 1 << 63):
                s, t = tuple_arg(k2, at, 1)
                for op in ("with", "without", "has"):
                    out.append((op, s, t, {}))
        for n in (0, 1, 0.5, "nan"):
            out.append(("offset",) + num_arg(n) + ({},))
            out.append(("call",) + num_arg(n) + ({},))
        out.append(("offset",) + OTHER_ARGS[0] + ({},))
        out.append(("where", "", "", {"keep": [], "fail": None}))
        return out
    if kind not in ATTR:
        return out
    ps = positions(lay)
    for p in ps:
        vals = []
        c = cell_at(lay, p)
        if c is not None:
            vals.append(c)
        vals.append(9 if c != 9 else 8)
        edge = p in (int(lay["off"]), int(lay["off"]) + len(lay["cells"]) - 1, int(lay["off"]) + len(lay["cells"])) or (c is None and cell_in(lay, p))
        if kind == "string" and edge:
            vals += [-1, 10000000000]
        if kind == "bytes" and edge:
            vals += [256 + (c if c is not None else 1), -1]
        for v in vals:
            s, t = tuple_arg(kind, p, v)
            for op in ("with", "without", "has"):
                out.append((op, s, t, {}))
        if isinstance(p, int) and abs(p) < (1 << 40):
            s, t = tuple_arg(kind, p + 0.5, vals[0])
            for op in ("with", "without", "has"):
                out.append((op, s, t, {}))
        out.append(("call",) + num_arg(p) + ({},))
    for k2 in ATTR:
        if k2 != kind:
            s, t = tuple_arg(k2, int(lay["off"]) if abs(int(lay["off"])) < (1 << 40) else 0, 1)
            for op in ("with", "without", "has"):
                out.append((op, s, t, {}))
    for s, t in OTHER_ARGS:
        for op in ("with", "without", "has", "call", "offset"):
            out.append((op, s, t, {}))
    for n in (0.5, "nan", "inf", "-inf"):
        out.append(("call",) + num_arg(n) + ({},))
    for n in (0, 1, -1, 5, 0.5, -0.5, 1 << 62, -(1 << 62), 1 << 63, "nan", "inf"):
        out.append(("offset",) + num_arg(n) + ({},))
    out.append(("enum", "", "", {}))
    off = int(lay["off"])
    if abs(off) < (1 << 40):
        idx = [off + j for j, c in enumerate(lay["cells"]) if c is not None]
        masks = [idx, [], idx[:1], idx[-1:], idx[1:-1], idx[1:], idx[:-1], idx[::2], idx[1::2]]
        for m in masks:
            out.append(("where", "", "", {"keep": m, "fail": None}))
        for f in {idx[0], idx[len(idx) // 2], idx[-1]}:
            out.append(("where", "", "", {"keep": idx, "fail": f}))
    return out


def rep_term(lay):
    k = lay["k"]
    if k == "none":
        return "(@RNone Z)"
    if k == "other":
        return "(@ROut Z)"
    if lay.get("opaque"):
        return None
    cells, off, cnt = lay["cells"], int(lay["off"]), int(lay["count"])
    if k == "array":
        return "(RArr Z (Build_arr Z [%s] (%d) (%d)))" % ("; ".join("None" if c is None else "Some (%d)" % int(c) for c in cells), off, cnt)
    if k == "string":
        return "(@RStr Z (Build_str [%s] (%d) (%d)))" % ("; ".join("(-1)" if c is None else "(%d)" % int(c) for c in cells), off, len(cells) - cnt)
    if k == "bytes":
        return "(@RByt Z (Build_byt [%s] (%d)))" % ("; ".join("(%d)" % int(c) for c in cells), off)
    return None


def panic_code(o):
    msg = o.get("msg") or ""
    if o.get("st") == "crash" or "makeslice" in msg or "out of memory" in msg:
        return 1
    if "superimposed" in msg:
        return 2
    if "index out of range" in msg:
        return 3
    if "slice bounds out of range" in msg:
        return 4
    return 5


def obs_term(c, o):
    st = o.get("st")
    if st == "err":
        return "BErr"
    if st in ("panic", "crash"):
        return "(BPanic %d)" % panic_code(o)
    if st == "timeout":
        return "BHang"
    if st != "ok":
        return None
    if "out" in o:
        t = rep_term(o["out"])
        return None if t is None else "(BRep %s)" % t
    if "bool" in o:
        return "(BBool %s)" % cbool(o["bool"])
    if "vals" in o:
        if "x" in o["vals"]:
            return None
        return "(BList [%s])" % "; ".join("(%d)" % int(v) for v in o["vals"])
    if "enum" in o:
        if not o.get("enum_ok"):
            return None
        return "(BEnum [%s])" % "; ".join("((%d), (%d))" % (int(a), int(b)) for a, b in o["enum"])
    return None


def xop_term(c, o):
    op = c["op"]
    if op == "with":
        return "(XWith %s)" % c["arg_term"]
    if op == "without":
        return "(XWithout %s)" % c["arg_term"]
    if op == "has":
        return "(XHas %s)" % c["arg_term"]
    if op == "call":
        return "(XCall %s)" % c["arg_term"]
    if op == "offset":
        return "(XOffset %s)" % c["arg_term"]
    if op == "enum":
        return "XEnum"
    if op == "where":
        return "(XWhere %s %s)" % (zl(c["keep"]), "None" if c.get("fail") is None else "(Some (%d))" % c["fail"])
    if op == "concat":
        if "arg_in" not in o:
            return None
        t = rep_term(o["arg_in"])
        return None if t is None else "(XConcat %s)" % t
    return None


def random_operand(rng, lays):
    """an operand built by up to three operations in source form on a base or on a random array / string literal"""
    k = rng.random()
    if k < 0.5:
        src = rng.choice(BASES[:-1])
    elif k < 0.8:
        n = rng.randrange(1, 7)
        cells = [str(rng.randrange(1, 5)) if (j in (0, n - 1) or rng.random() < 0.6) else "" for j in range(n)]
        off = rng.choice([0, 0, 1, 3, -2, -7, 1 << 62, -(1 << 62)])
        src = "[%s]" % ", ".join(cells) if off == 0 else "(%s\\[%s])" % (num_src(off), ", ".join(cells))
    else:
        n = rng.randrange(1, 6)
        s = "".join(rng.choice("abc") for _ in range(n))
        off = rng.choice([0, 0, 2, -3, 1 << 62])
        src = "\"%s\"" % s if off == 0 else "(%s\\\"%s\")" % (num_src(off), s)
    kind = "string" if ("\"" in src or "@char" in src) else "bytes" if "<<" in src else "array"
    for _ in range(rng.randrange(0, 4)):
        j = rng.choice([-8, -3, -2, -1, 0, 1, 2, 3, 4, 5, 6, 7, 9, 12])
        v = rng.choice([1, 2, 3, 4, 97, 98, 99])
        form = rng.random()
        if form < 0.45:
            src = "(%s without (@: %s, %s: %d))" % (src, num_src(j), ATTR[kind], v)
        elif form < 0.85:
            src = "(%s with (@: %s, %s: %d))" % (src, num_src(j), ATTR[kind], v)
        else:
            src = "(%s\\%s)" % (num_src(rng.choice([1, -1, 2, -4])), src)
    return src


def run_stream(run, vh, rng, tier, replay_case=None):
    """returns coverage dict; classifies failures / correspondence breaks into `run`"""
    cov = {}
    if replay_case is not None:
        seqs = [replay_case["seq"]]
    else:
        seqs = list(BASES)
        nrand = 30 if tier == "quick" else 600
        for _ in range(nrand):
            s = random_operand(rng, None)
            if s not in seqs:
                seqs.append(s)
    # phase 1: the layouts of the operands
    ph1 = [{"id": i, "seq": s, "op": "enum", "arg": "", "budget_ms": 6000} for i, s in enumerate(seqs)]
    o1, _, _ = run_harness(vh, "seqop", ph1, stall=12, timeout=900, env={"VERIF_MEM_LIMIT_GB": "12"})
    lays = {}
    skipped_operands = 0
    for i, s in enumerate(seqs):
        o = o1.get(i) or {}
        if "in" in o and (o["in"].get("k") in ("array", "string", "bytes", "none")) and not o["in"].get("opaque"):
            lays[s] = o["in"]
        else:
            skipped_operands += 1
    # phase 2: the cases
    cases = []

    def add(seq, op, arg_src, arg_term, extra, stream):
        c = {"id": len(cases), "seq": seq, "op": op, "arg": arg_src, "arg_term": arg_term, "stream": stream, "budget_ms": 6000}
        c.update(extra)
        if c.get("fail") is None:
            c.pop("fail", None)
        cases.append(c)
    if replay_case is not None:
        c = dict(replay_case)
        c["id"] = 0
        cases.append(c)
    else:
        for bi, s in enumerate(BASES):
            if s in lays:
                for n_, (op, a, t, ex) in enumerate(probes(lays[s], rng)):
                    if tier == "quick" and op == "has" and n_ % 3:
                        continue            # membership is thinned in the quick tier (deterministically)
                    add(s, op, a, t, ex, "seq-core")
        for i, j in CONCATS:
            if BASES[i] in lays and BASES[j] in lays:
                add(BASES[i], "concat", BASES[j], "", {}, "seq-core")
        for s in seqs[len(BASES):]:
            if s in lays:
                pr = probes(lays[s], rng)
                for op, a, t, ex in rng.sample(pr, min(len(pr), 8 if tier == "quick" else 40)):
                    add(s, op, a, t, ex, "seq-random")
    outs, _, _ = run_harness(vh, "seqop", [{k: v for k, v in c.items() if k not in ("arg_term", "stream")} for c in cases],
                             stall=12, timeout=1800, env={"VERIF_MEM_LIMIT_GB": "12"})
    # the Coq side
    items, unexpressible = [], 0
    for c in cases:
        o = outs.get(c["id"]) or {"st": "missing"}
        c["o"] = o
        if o.get("phase") == "operand" or "in" not in o:
            c["skip"] = True
            continue
        rt, xt, ot = rep_term(o["in"]), xop_term(c, o), obs_term(c, o)
        if rt is None or xt is None or ot is None:
            unexpressible += 1
            c["skip"] = True
            continue
        items.append((c["id"], "{| k_id := %d; k_in := %s; k_op := %s; k_obs := %s |}" % (c["id"], rt, xt, ot)))
    chunks = [items[i:i + 400] for i in range(0, len(items), 400)]

    def do(ic):
        k, chunk = ic
        body = ["From Arrai Require Import Rep.SeqSafe Check.C10Check.", "From Coq Require Import List ZArith. Import ListNotations. Open Scope Z_scope.",
                "Definition cases : list case10 := [", ";\n".join("  " + t for _, t in chunk),
                "].\nDefinition R := Eval vm_compute in report10 cases.\nPrint R."]
        rc2, so, se = coq_eval("c10_cases_%d_%d" % (os.getpid(), k), "\n".join(body), timeout=900)
        return coq_report(so, "R"), se

    codes = {}
    with concurrent.futures.ThreadPoolExecutor(max_workers=6) as ex:
        for (rep, se), chunk in zip(ex.map(do, enumerate(chunks)), chunks):
            if rep is None:
                run.corr_breaks.append({"what": "the sequence model could not be evaluated (Check/C10Check.v)", "log": se[-1200:]})
                for cid, _ in chunk:
                    codes[cid] = None
                continue
            for cid, code in rep:
                codes[cid] = code
    hist = {}
    for c in cases:
        o = c["o"]
        failed = o.get("st") in ("panic", "crash", "timeout")
        code = None if c.get("skip") else codes.get(c["id"], 0)
        key = "%s/%s" % (o.get("st"), "skipped" if c.get("skip") else code)
        hist[key] = hist.get(key, 0) + 1
        rec = {"case": {"stream": c["stream"], "seq": c["seq"], "op": c["op"], "arg": c["arg"], "arg_term": c["arg_term"],
                        "keep": c.get("keep"), "fail": c.get("fail"),
                        "src": "%s %s %s" % (c["seq"], c["op"], c["arg"])}, "observed": o, "model_code": code}
        if failed:
            site = o.get("site") or "unknown"
            raw = "panic:makeslice" if panic_code(o) == 1 and o.get("st") != "timeout" else ("hang:sequence-operation" if o.get("st") == "timeout" else "panic:" + site)
            if o.get("phase") == "operand":
                sig = raw                    # building the operand failed: the eval streams own that; known sites stay known
            elif code == 10:
                sig = "panic:makeslice"
            elif code == 11:
                sig = "panic:rel.Array:withItem"
            elif code == 12:
                sig = "panic:%s:negative-char" % site
            elif code == 16 and site in ("rel:asArray", "rel:asString", "rel:asBytes"):
                sig = "panic:rel:as-sequence:index-range-wraps"
            else:
                sig = raw + ":not-explained-by-the-model"
            rec["oracle"] = "a method of a sequence representation, called through the public API, does not return: %s" % sig
            run.classify_failure(sig, rec)
        elif code == 1 or code == 13 or code == 14:
            rec["what"] = ("the model of Rep/SeqSafe.v and the implementation differ on this (layout, operation, argument) "
                           "(correspondence behind C10_sequence_ops_never_panic / _preserve_invariant / C10_enumeration_terminates)")
            run.corr_breaks.append(rec)
    cov.update({"seq_cases": len(cases), "seq_operands": len(lays), "seq_operands_skipped": skipped_operands,
                "seq_unexpressible": unexpressible, "seq_outcome_histogram": hist,
                "seq_ops": {op: sum(1 for c in cases if c["op"] == op) for op in ("with", "without", "has", "call", "enum", "offset", "where", "concat")},
                "seq_kinds": {k: sum(1 for c in cases if (c["o"].get("in") or {}).get("k") == k) for k in ("array", "string", "bytes", "none")}})
    return cov
