"""C17: the server engine (engine/engine.go) vs the Coq model of its actor loop (Sys/Engine.v).

Histories of Update / Observe / cancel / Hangup / Stop are run against the real engine
(harness/c17.go: fresh engine per history, child process, loop-goroutine state inspection) and
against the model (Check/C17Check.v, vm_compute).  Sequential histories are compared exactly;
concurrent clients are accepted iff some interleaving of their programs explains the observation."""
import concurrent.futures
import itertools
import random
from common import *
import c17fe

PROP = "C17"
PROP_FILES = ["Properties/C17.v", "Check/C17Check.v", "Check/C17FeCheck.v"]
SIG_LOOP = "engine-cancel-from-loop-deadlock"
SIG_NIL = "engine-double-cancel-nil"
SIG_UPD = "engine-update-panic-kills"


# ---------- expressions and events ----------

def src(e):
    k = e[0]
    if k == "const":
        return str(e[1])
    if k == "root":
        return "$"
    if k == "add":
        return "$ + %d" % e[1]
    if k == "muladd":
        return "$ * 10 + %d" % e[1]
    if k == "fail":
        return "(a: 1).b"
    if k == "failgt":
        return "cond {$ > %d: (a: 1).b, _: $}" % e[1]
    if k == "panic":          # a rel.Expr implemented by the harness whose Eval panics
        return "!panic"
    if k == "panicgt":        # ... panics unless $ is a number <= n
        return "!panicgt:%d" % e[1]
    raise ValueError(e)


def cexpr(e):
    k = e[0]
    return {"const": "(CConst %d)", "add": "(CAdd %d)", "muladd": "(CMulAdd %d)", "failgt": "(CFailGt %d)", "panicgt": "(CPanicGt %d)"}[k] % e[1] \
        if k in ("const", "add", "muladd", "failgt", "panicgt") else {"root": "CRoot", "fail": "CFail", "panic": "CPanic"}[k]


def obs_parts(ev):
    """("observe", oid, expr, fail_at[, panic_at, oneshot]) -> (oid, expr, fail_at, panic_at, oneshot)"""
    return ev[1], ev[2], ev[3], tuple(ev[4]) if len(ev) > 4 else (), bool(ev[5]) if len(ev) > 5 else False


def ev_json(ev):
    op = ev[0]
    if op == "update":
        return {"op": "update", "expr": src(ev[1])}
    if op == "observe":
        oid, e, fail_at, panic_at, oneshot = obs_parts(ev)
        return {"op": "observe", "oid": oid, "expr": src(e), "fail_at": fail_at, "panic_at": list(panic_at), "oneshot": oneshot}
    if op == "cancel":
        return {"op": "cancel", "oid": ev[1]}
    return {"op": op}


def ev_coq(ev):
    op = ev[0]
    if op == "update":
        return "(Update %s)" % cexpr(ev[1])
    if op == "observe":
        oid, e, fail_at, panic_at, oneshot = obs_parts(ev)
        cb = "None" if fail_at < 0 else "(Some %d%%nat)" % fail_at
        return "(Observe %d %s (cb_full %s [%s]))" % (oid, cexpr(e), cb, "; ".join("%d%%nat" % k for k in panic_at))
    if op == "cancel":
        return "(Cancel %d)" % ev[1]
    return {"hangup": "Hangup", "stop": "Stop"}[op]


def ev_text(ev):
    op = ev[0]
    if op == "update":
        return "Update(%s)" % src(ev[1])
    if op == "observe":
        oid, e, fail_at, panic_at, oneshot = obs_parts(ev)
        return "Observe#%d(%s%s%s%s)" % (oid, src(e), "" if fail_at < 0 else ", callback fails at delivery %d" % fail_at,
                                       "" if not panic_at else ", callback panics at deliveries %s" % list(panic_at),
                                       ", one-shot onclose" if oneshot else "")
    if op == "cancel":
        return "Cancel#%d" % ev[1]
    return op.capitalize()


def hist_text(c):
    s = "; ".join(ev_text(e) for e in c["pre"])
    if c["clients"]:
        s += " || " + " | ".join("; ".join(ev_text(e) for e in cl) for cl in c["clients"]) + " || " + "; ".join(ev_text(e) for e in c["post"])
    return s


# ---------- generators ----------

def tup(x):
    return tuple(tup(y) if isinstance(y, (list, tuple)) else y for y in x)


WITNESSES = {
    SIG_LOOP: [("observe", 1, ("fail",), -1), ("update", ("const", 1))],
    SIG_NIL: [("observe", 1, ("root",), -1), ("cancel", 1), ("cancel", 1), ("update", ("const", 1))],
    SIG_UPD: [("observe", 1, ("root",), -1), ("update", ("panic",)), ("update", ("const", 1))],
}

CORPUS = [
    WITNESSES[SIG_LOOP],
    WITNESSES[SIG_NIL],
    WITNESSES[SIG_UPD],
    # panicking observers followed by more updates (Properties/C17.v wit_observer_panics)
    [("update", ("const", 1)), ("observe", 1, ("panicgt", 1), -1, (), True), ("observe", 2, ("root",), -1, (1,), False), ("observe", 3, ("root",), -1),
     ("update", ("const", 2)), ("update", ("const", 3)), ("update", ("const", 4))],
    # a gRPC-shaped observer whose callback panics on every state from the third delivery on, next to a healthy one
    [("observe", 1, ("root",), -1, (2, 3, 4, 5), True), ("observe", 2, ("root",), -1), ("update", ("const", 1)), ("update", ("const", 2)),
     ("update", ("const", 3)), ("update", ("const", 4)), ("hangup",), ("update", ("const", 5))],
    # an expression that panics on every state, one-shot onclose, then more updates and a cancel of the dead observation
    [("observe", 1, ("panic",), -1, (), True), ("update", ("const", 1)), ("update", ("add", 1)), ("cancel", 1), ("update", ("add", 1)), ("stop",)],
    [("observe", 1, ("root",), 1), ("update", ("const", 1)), ("update", ("const", 2))],
    [("observe", 1, ("root",), -1), ("hangup",), ("cancel", 1)],
    [("observe", 1, ("root",), -1), ("update", ("const", 5)), ("update", ("fail",)), ("observe", 2, ("add", 1), -1),
     ("update", ("muladd", 3)), ("cancel", 1), ("update", ("add", 1)), ("hangup",), ("update", ("const", 2))],
    [("observe", 1, ("root",), -1), ("update", ("const", 7)), ("stop",), ("update", ("const", 8))],
    [("update", ("fail",)), ("update", ("add", 1)), ("update", ("const", 3)), ("update", ("add", 1)), ("observe", 1, ("root",), -1)],
    [("update", ("const", 1)), ("observe", 1, ("root",), -1), ("observe", 2, ("failgt", 3), -1), ("observe", 3, ("muladd", 1), -1),
     ("update", ("const", 2)), ("update", ("fail",)), ("update", ("muladd", 1)), ("update", ("add", 1))],
    [("update", ("const", 1)), ("observe", 1, ("root",), -1), ("observe", 2, ("root",), -1), ("cancel", 2), ("update", ("add", 1)),
     ("observe", 3, ("add", 5), -1), ("update", ("add", 1)), ("cancel", 1), ("update", ("add", 1)), ("stop",)],
    [("update", ("const", 1)), ("observe", 1, ("root",), -1), ("update", ("fail",)), ("update", ("failgt", 0)), ("update", ("add", 1))],
    [("hangup",), ("hangup",), ("update", ("const", 1)), ("stop",), ("hangup",), ("stop",)],
]


def rnd_update(rng, db_set, fail_p=0.2):
    r = rng.random()
    if r < fail_p:
        return ("update", rng.choice([("fail",), ("fail",), ("failgt", rng.randrange(0, 30))]))
    if not db_set or r < fail_p + 0.25:
        return ("update", ("const", rng.randrange(0, 10)))
    if r < fail_p + 0.55:
        return ("update", ("add", rng.randrange(1, 5)))
    return ("update", ("muladd", rng.randrange(0, 10)))


def rnd_panicky_observer(rng, oid, db_set):
    """an observer that will panic: in its expression (from some state on) and/or in its callback (once, or at several deliveries)"""
    r = rng.random()
    if r < 0.35:
        e, panic_at = ("panicgt", rng.randrange(0, 40)), ()
    elif r < 0.45:
        e, panic_at = ("panic",), ()
    elif r < 0.8:
        k = rng.randrange(0, 4)
        e, panic_at = (("root",) if not db_set or rng.random() < 0.6 else ("add", 1)), tuple(range(k, k + rng.choice([1, 1, 2, 5])))
    else:
        k = rng.randrange(0, 3)
        e, panic_at = ("panicgt", rng.randrange(5, 60)), (k, k + 1)
    return ("observe", oid, e, rng.choice([-1, -1, -1, rng.randrange(0, 4)]), panic_at, rng.random() < 0.6)


def gen_structured(rng, aim_quirk, panics=0.12):
    """mostly-valid history; aim_quirk: also failing observers / repeated cancels; panics: share of observers that panic"""
    n = rng.randrange(3, 13)
    evs, live, dead, nxt, db_set, muls = [], [], [], 1, False, 0
    if rng.random() < 0.8:
        evs.append(("update", ("const", rng.randrange(0, 10))))
        db_set = True
    while len(evs) < n:
        r = rng.random()
        if r < 0.42:
            u = rnd_update(rng, db_set)
            if aim_quirk and rng.random() < 0.04:
                u = ("update", rng.choice([("panic",), ("panicgt", rng.randrange(0, 20))]))
            if u[1][0] == "muladd":
                muls += 1
                if muls > 8:
                    continue
            if u[1][0] == "const":
                db_set = True
            evs.append(u)
        elif r < 0.72:
            if rng.random() < panics:
                evs.append(rnd_panicky_observer(rng, nxt, db_set))
            elif aim_quirk and rng.random() < 0.5:
                e = rng.choice([("fail",), ("failgt", rng.randrange(0, 60)), ("add", 1), ("root",)])
                evs.append(("observe", nxt, e, rng.choice([-1, 0, 1, 2, 3]), (), rng.random() < 0.3))
            else:
                e = rng.choice([("root",), ("root",), ("add", rng.randrange(1, 4)), ("muladd", rng.randrange(0, 10))]) if db_set else ("root",)
                evs.append(("observe", nxt, e, -1, (), rng.random() < 0.3))
            live.append(nxt)
            nxt += 1
        elif r < 0.88:
            if aim_quirk and dead and rng.random() < 0.4:
                evs.append(("cancel", rng.choice(dead)))
            elif live:
                i = rng.choice(live)
                live.remove(i)
                dead.append(i)
                evs.append(("cancel", i))
        elif r < 0.95:
            evs.append(("hangup",))
            if not aim_quirk:
                dead, live = [], []          # cancelling after a hang-up is the double-cancel defect: keep the main stream clear of it
            else:
                dead, live = dead + live, []
        elif r < 0.97 and len(evs) >= n - 2:
            evs.append(("stop",))
            break
    return evs


def gen_malformed(rng):
    """unconstrained: any event at any time (cancels only of ids already handed out, as the API requires)"""
    n = rng.randrange(1, 11)
    evs, nxt = [], 1
    for _ in range(n):
        r = rng.random()
        if r < 0.35:
            evs.append(("update", rng.choice([("const", rng.randrange(0, 5)), ("add", 1), ("muladd", 2), ("fail",), ("failgt", 2), ("root",)])
                                  if rng.random() < 0.96 else ("panicgt", 3)))
        elif r < 0.65:
            evs.append(("observe", nxt, rng.choice([("root",), ("add", 1), ("fail",), ("failgt", 2), ("muladd", 1), ("const", 4), ("panic",), ("panicgt", 2)]),
                        rng.choice([-1, -1, 0, 1, 2]), rng.choice([(), (), (0,), (1,), (1, 2), (0, 1, 2, 3)]), rng.random() < 0.5))
            nxt += 1
        elif r < 0.85 and nxt > 1:
            evs.append(("cancel", rng.randrange(1, nxt)))
        elif r < 0.95:
            evs.append(("hangup",))
        else:
            evs.append(("stop",))
    return evs


def gen_concurrent(rng):
    """in-guard concurrent clients: no failing observer, every observer cancelled at most once, no cancel racing a hang-up"""
    pre = [("update", ("const", rng.randrange(1, 10))), ("observe", 1, ("root",), -1)]
    nxt = 2
    cancellable = []
    for _ in range(rng.randrange(0, 3)):
        pre.append(("observe", nxt, rng.choice([("root",), ("add", 1), ("muladd", 7)]), -1))
        cancellable.append(nxt)
        nxt += 1
    shape = rng.choice([(2, 2), (2, 3), (3, 2), (2, 4), (3, 3), (4, 2), (2, 2, 2), (1, 1, 1), (3, 2, 1), (2, 2, 1, 1)])
    with_hangup = rng.random() < 0.2
    clients, digit = [], 1
    for ln in shape:
        cl, own = [], []
        for _ in range(ln):
            r = rng.random()
            if r < 0.5:
                cl.append(("update", ("muladd", digit % 10)))
                digit += 1
            elif r < 0.62:
                cl.append(("update", ("fail",)))
            elif r < 0.7:
                cl.append(("update", ("add", rng.randrange(1, 4))))
            elif r < 0.85:
                cl.append(("observe", nxt, rng.choice([("root",), ("add", 2)]), -1))
                own.append(nxt)
                nxt += 1
            elif r < 0.95 and not with_hangup and (own or cancellable):
                if own and (not cancellable or rng.random() < 0.5):
                    cl.append(("cancel", own.pop()))
                else:
                    cl.append(("cancel", cancellable.pop(rng.randrange(len(cancellable)))))
            elif with_hangup:
                cl.append(("hangup",))
            else:
                cl.append(("update", ("const", 100 + digit)))
        clients.append(cl)
    post = [("update", ("add", 1))]
    if rng.random() < 0.3:
        post.append(("stop",))
    return pre, clients, post


SMALL_ALPHABET = ["u1", "ufail", "umul", "obs", "obsgt", "obscb", "obspanic", "obscbpanic", "cancel", "hangup", "stop"]


def small_history(word):
    evs, nxt = [], 1
    for w in word:
        if w == "u1":
            evs.append(("update", ("const", 1)))
        elif w == "ufail":
            evs.append(("update", ("fail",)))
        elif w == "umul":
            evs.append(("update", ("muladd", 2)))
        elif w == "obs":
            evs.append(("observe", nxt, ("root",), -1)); nxt += 1
        elif w == "obsgt":
            evs.append(("observe", nxt, ("failgt", 1), -1)); nxt += 1
        elif w == "obscb":
            evs.append(("observe", nxt, ("root",), 1)); nxt += 1
        elif w == "obspanic":
            evs.append(("observe", nxt, ("panicgt", 1), -1, (), True)); nxt += 1
        elif w == "obscbpanic":
            evs.append(("observe", nxt, ("root",), -1, (1, 2), True)); nxt += 1
        elif w == "cancel":
            if nxt == 1:
                return None
            evs.append(("cancel", nxt - 1))
        else:
            evs.append((w,))
    return evs


def gen_cases(rng, tier):
    cases = []

    def add(kind, pre, clients=(), post=()):
        cases.append({"id": len(cases), "kind": kind, "pre": [tup(e) for e in pre], "clients": [[tup(e) for e in cl] for cl in clients],
                      "post": [tup(e) for e in post]})
    for h in CORPUS:
        add("corpus", h)
    quick = tier == "quick"
    n_struct, n_quirk, n_mal, n_conc = (170, 40, 50, 50) if quick else (2300, 500, 700, 600)
    for _ in range(n_struct):
        add("structured", gen_structured(rng, False))
    for _ in range(80 if quick else 900):
        # panicking observers (expression and/or callback, also several panics, one-shot onclose) followed by more accepted updates
        h = gen_structured(rng, False, panics=0.7)
        h = [e for e in h if e[0] != "stop"]
        for _ in range(rng.randrange(2, 5)):
            h.append(("update", rng.choice([("const", rng.randrange(0, 50)), ("add", rng.randrange(1, 9))])))
        add("panicking-observers", h)
    for _ in range(n_quirk):
        add("aimed-at-quirks", gen_structured(rng, True))
    for _ in range(n_mal):
        add("malformed", gen_malformed(rng))
    for _ in range(n_conc):
        pre, cl, post = gen_concurrent(rng)
        add("concurrent", pre, cl, post)
    # exhaustive small scope: every word over an 11-letter alphabet up to length 2 (quick) / 3 (thorough)
    for ln in range(1, 3 if quick else 4):
        for word in itertools.product(SMALL_ALPHABET, repeat=ln):
            h = small_history(word)
            if h is not None:
                add("small-scope", h)
    return cases


# ---------- running ----------

def harness_case(c):
    return {"id": c["id"], "events": [ev_json(e) for e in c["pre"]], "clients": [[ev_json(e) for e in cl] for cl in c["clients"]],
            "after": [ev_json(e) for e in c["post"]]}


# "no-such-observer": the Observe that would have returned this cancel function never returned (engine already wedged or
# stopped), so the client cannot issue the cancel at all: it counts as a call that is never answered
ACK = {"ok": "(AUpd true)", "err": "(AUpd false)", "done": "ADone", "blocked": "ANone", "timeout": "ANone", "no-such-observer": "ANone"}
FINAL = {"idle": "Running", "gone": "Stopped", "wedged": "Wedged", "stuck": "Wedged", "timeout": "Wedged"}


def val_coq(text):
    if text == "none":
        return "None"
    try:
        f = float(text)
    except Exception:
        return None
    if f != int(f) or abs(f) >= 2 ** 53:
        return None
    return "(Some (%d))" % int(f)


def observed_coq(c, o):
    """harness output -> Coq `observed` term, or (None, reason) when the observation is outside the model's vocabulary"""
    if o is None or o.get("st") not in ("done", "crash", "timeout"):
        return None, "harness produced no result: %r" % (o,)
    status = "Crashed" if o["st"] == "crash" else FINAL.get(o.get("final", "timeout"))
    if status is None:
        return None, "unknown final state %r" % o.get("final")
    per = {}
    for cl, k, a in o.get("acks", []):
        if a not in ACK:
            return None, "unexpected answer %r" % a
        per.setdefault(int(cl), []).append((int(k), ACK[a]))
    acks = []
    for cl in sorted(per):
        xs = [a for _, a in sorted(per[cl])]
        acks.append("(%d%%nat, [%s])" % (cl, "; ".join(xs)))
    log = []
    for oid, m, v in o.get("log", []):
        if m == "U":
            t = val_coq(v)
            if t is None:
                return None, "observer received a value outside the model: %r" % v
            log.append("(%d, MUpdate %s)" % (int(oid), t))
        else:
            log.append("(%d, MClose %s)" % (int(oid), cbool(v == "nil")))
    return "{| o_status := %s; o_acks := [%s]; o_log := [%s] |}" % (status, "; ".join(acks), "; ".join(log)), None


def run_cases(run, vh, cases, qcur, workers=5):
    # implementation
    shards = [cases[i::workers] for i in range(workers)]
    outs = {}

    def do_h(shard):
        if not shard:
            return {}, 0, ""
        return run_harness(vh, "c17", [harness_case(c) for c in shard], timeout=2400, stall=150)
    with concurrent.futures.ThreadPoolExecutor(max_workers=workers) as ex:
        for o, rc, err in ex.map(do_h, shards):
            outs.update(o)
    log("C17: harness done at +%.1fs" % (time.time() - run.t0))
    # model
    results, bad = {}, {}
    terms = []
    for c in cases:
        t, why = observed_coq(c, outs.get(c["id"]))
        if t is None:
            bad[c["id"]] = why
            continue
        terms.append((c, "  {| c_id := %d; c_q := mkQ17 %s %s %s; c_pre := [%s]; c_clients := [%s]; c_post := [%s];\n     c_obs := %s |}" % (
            c["id"], cbool(qcur[0]), cbool(qcur[1]), cbool(qcur[2]), "; ".join(ev_coq(e) for e in c["pre"]),
            "; ".join("[" + "; ".join(ev_coq(e) for e in cl) + "]" for cl in c["clients"]),
            "; ".join(ev_coq(e) for e in c["post"]), t)))
    size = 1500   # the evaluation itself takes well under a second per 1000 histories; coqc start-up dominates
    chunks = [terms[i:i + size] for i in range(0, len(terms), size)]

    def do_m(idx_chunk):
        idx, chunk = idx_chunk
        body = ["From Coq Require Import List ZArith.", "From Arrai Require Import Sys.Engine Proofs.EngineP Check.C17Check.",
                "Import ListNotations.", "Open Scope Z_scope.", "Definition cases : list case17 := ["]
        body.append(";\n".join(t for _, t in chunk))
        body.append("].\nDefinition R := Eval vm_compute in report cases.\nPrint R.\n"
                    "Definition M := Eval vm_compute in map merge_count cases.\nPrint M.")
        rc2, so, se = coq_eval("c17_cases_%d" % idx, "\n".join(body))
        return coq_report(so, "R"), coq_report(so, "M"), se
    merges = 0
    with concurrent.futures.ThreadPoolExecutor(max_workers=8) as ex:
        for (rep, mc, se), chunk in zip(ex.map(do_m, enumerate(chunks)), chunks):
            if rep is None:
                run.corr_breaks.append({"what": "model evaluation failed (Check/C17Check.v)", "log": se[-1500:]})
                continue
            for c, _ in chunk:
                results[c["id"]] = 0
            for cid, code in rep:
                results[cid] = code
            merges += sum(mc or [])
    return outs, results, bad, merges


def main(tier, seed, replay=None):
    run = Run(PROP, tier, seed)
    vh, proof = prepare(PROP_FILES, thorough=False)
    if tier == "thorough" and proof.get("ok"):
        # coqchk needs the logical name (Arrai.Properties.C17); common.prepare(thorough=True) passes "Properties.C17", which coqchk cannot resolve
        cmd = "timeout 2400 coqchk -silent -o -Q . Arrai Arrai.Properties.C17 Arrai.Check.C17Check"
        rc, so, se = sh(cmd, timeout=2500, cwd=COQ)
        proof["coqchk"] = (so + se)[-1500:]
        proof["checker_cmd"] += " ; " + cmd
        if rc != 0 or "Axioms: <none>" not in (so + se):
            proof["broken"].append({"what": "coqchk failed or reports axioms", "log": (so + se)[-1500:]})
            proof["ok"] = False
            proof["discharged"] = 0
    open_sigs = {f["sig"] for f in run.opened}
    qcur = (SIG_LOOP in open_sigs, SIG_NIL in open_sigs, SIG_UPD in open_sigs)
    rng = random.Random(seed)
    fe_replay = None
    if replay:
        rp = json.load(open(replay))
        cases = []
        if rp.get("case", {}).get("stream") == "front-end":
            fe_replay = {k: (([tup(e) for e in v]) if k == "events" else v) for k, v in rp["case"].items() if k not in ("stream", "history", "mapped_engine_history", "schedule")}
            fe_replay.setdefault("id", 0)
        elif "case" in rp:
            c = rp["case"]
            cases.append({"id": 0, "kind": "replay", "pre": [tup(e) for e in c["pre"]], "clients": [[tup(e) for e in cl] for cl in c.get("clients", [])],
                          "post": [tup(e) for e in c.get("post", [])]})
    else:
        cases = gen_cases(rng, tier)
        if tier == "thorough":        # several seeds
            for extra in (seed + 1000, seed + 2000):
                r2 = random.Random(extra)
                for c in gen_cases(r2, "quick"):
                    if c["kind"] in ("structured", "aimed-at-quirks", "malformed", "concurrent", "panicking-observers"):
                        c["id"] = len(cases)
                        cases.append(c)
    t_prep = time.time() - run.t0
    if fe_replay is not None or not replay:
        # front-end stream: the real `arrai serve` of the tree under test (gen/c17fe.py); its own PRNG derived from the seed
        try:
            c17fe.run_frontend(run, vh, random.Random(seed * 7919 + 17), tier, fe_replay)
        except BuildError as e:
            run.corr_breaks.append({"what": "the server binary of the tree under test does not build", "log": str(e)[-1500:]})
    outs, results, bad, merges = run_cases(run, vh, cases, qcur)
    log("C17: prepare %.1fs, harness+model %.1fs (%d histories)" % (t_prep, time.time() - run.t0 - t_prep, len(cases)))
    byid = {c["id"]: c for c in cases}

    def record(c, oracle):
        return {"case": {"pre": c["pre"], "clients": c["clients"], "post": c["post"], "history": hist_text(c), "kind": c["kind"]},
                "observed": outs.get(c["id"]), "quirks_modelled_on": {"q_cancel_from_loop": qcur[0], "q_double_cancel_nil": qcur[1], "q_update_panic_kills": qcur[2]},
                "oracle": oracle}
    for cid, why in sorted(bad.items()):
        run.classify_failure(None, record(byid[cid], "observation outside the model's vocabulary: " + why))
    codes = {}
    for cid, code in sorted(results.items()):
        c = byid[cid]
        codes[code] = codes.get(code, 0) + 1
        if code == 0:
            continue
        if code in (1, 3):
            run.classify_failure(None, record(c, "answers / observer traces / loop state differ from the sequential specification (spec_acks, spec_trace; "
                                              "Properties/C17.v) and no open known defect explains it" + (" (a modelled defect is reachable but the failure is a different one)" if code == 3 else "")))
        elif code == 2:
            run.corr_breaks.append({"what": "the implementation satisfies the specification where the model (with the quirks of the open findings) predicts a failure: "
                                    "an open finding no longer reproduces", **record(c, "I = Moff, Mq <> Moff")})
        elif code >= 10:
            b = code - 10
            sigs = ([SIG_LOOP] if b & 1 else []) + ([SIG_NIL] if b & 2 else []) + ([SIG_UPD] if b & 4 else [])
            if not sigs:
                run.classify_failure(None, record(c, "fails outside the guard but no single quirk is reachable"))
            for s in sigs:
                run.classify_failure(s, record(c, "known defect reproduced (up to the oracle): " + s))
    # coverage
    hist_kind, hist_len, hist_op, hist_out, hist_panic = {}, {}, {}, {}, {}
    seen, dist = set(), 0
    for c in cases:
        o = outs.get(c["id"]) or {}
        hist_kind[c["kind"]] = hist_kind.get(c["kind"], 0) + 1
        evs = c["pre"] + [e for cl in c["clients"] for e in cl] + c["post"]
        hist_len[len(evs)] = hist_len.get(len(evs), 0) + 1
        for e in evs:
            hist_op[e[0]] = hist_op.get(e[0], 0) + 1
            if e[0] == "observe":
                _, ex, _, pa, one = obs_parts(e)
                for key, on in (("expression-panics", ex[0] in ("panic", "panicgt")), ("callback-panics-once", len(pa) == 1),
                                ("callback-panics-repeatedly", len(pa) > 1), ("one-shot-onclose", one)):
                    if on:
                        hist_panic[key] = hist_panic.get(key, 0) + 1
            if e[0] == "update" and e[1][0] in ("panic", "panicgt"):
                hist_panic["update-expression-may-panic"] = hist_panic.get("update-expression-may-panic", 0) + 1
        outc = "crash" if o.get("st") == "crash" else o.get("final", o.get("st", "none"))
        hist_out[outc] = hist_out.get(outc, 0) + 1
        key = json.dumps([c["pre"], c["clients"], c["post"]])
        if key in seen:
            continue
        seen.add(key)
        per = {}
        for oid, m, v in o.get("log", []):
            per[oid] = per.get(oid, 0) + 1
        if any(n >= 2 for n in per.values()) and any(a[2] == "ok" for a in o.get("acks", [])):
            dist += 1
    run.cov.update({
        "evaluations": len(cases), "distinct_nontrivial": dist,
        "rule": "histories of Update/Observe/cancel/Hangup/Stop over 8 expression forms (constants, $-dependent, always-failing, failing above a threshold, always panicking, "
                "panicking above a threshold) and callbacks returning an error at a chosen delivery and/or panicking at chosen deliveries, onclose optionally one-shot (blocks when "
                "entered twice): a stream of panicking observers followed by more accepted updates, fixed corpus incl. every open finding's witness, a structured mostly-in-guard stream, a stream aimed at the open quirks, "
                "an unconstrained (malformed) stream, concurrent-client cases (2-4 goroutines; accepted iff some interleaving explains the observation), and all words up to "
                "length %d over an 11-letter alphabet; each history runs on a fresh engine in a child process and in the Coq model (vm_compute). distinct by the event lists; "
                "non-trivial = some observer received >= 2 messages and some Update was answered ok" % (2 if tier == "quick" else 3),
        "samples": [hist_text(cases[i]) for i in range(0, len(cases), max(1, len(cases) // 8))][:8],
        "kind_histogram": hist_kind, "length_histogram": {str(k): v for k, v in sorted(hist_len.items())}, "operation_histogram": hist_op,
        "outcome_histogram": hist_out, "classification_histogram": {str(k): v for k, v in sorted(codes.items())},
        "panic_feature_histogram": hist_panic, "interleavings_examined": merges,
        "exhaustive": False,
    })
    run.notes.append("concurrent cases: scheduling is sampled (whatever the Go scheduler did on this run); the acceptance criterion (some interleaving explains the observation) is exact")
    run.assumptions = ["Expr.Eval and the observer callbacks return (no panic, no blocking): panics in Eval are C10's subject, a blocking callback (gRPC retch) is outside the model",
                       "the harness decides 'blocked' from the state of the engine's loop goroutine (runtime.Stack): parked in a channel send inside watcher.update = wedged, absent = stopped",
                       "observer ids are fresh per Observe (atomic counter); the model needs no such assumption (a re-used id overwrites, as the Go map does)"]
    return run.finish(proof)
